(* I/O glue for the extracted model: reads case lines on stdin, prints Model.run_line of each.
   The only conversions are char <-> extracted `byte` (a 256-constructor constant variant, so its
   runtime representation is the constructor index = the byte value). *)
let byte_of_char (c : char) : Model.byte = Obj.magic (Char.code c)
let char_of_byte (b : Model.byte) : char = Char.chr (Obj.magic b : int)

let () =
  (* self-check of the representation assumption *)
  assert (byte_of_char '\x00' = Model.X00);
  assert (byte_of_char 'A' = Model.X41);
  assert (byte_of_char '\xff' = Model.Xff);
  let buf = Buffer.create 65536 in
  (try
    while true do
      let line = input_line stdin in
      let l = List.init (String.length line) (fun i -> byte_of_char line.[i]) in
      let out = Model.run_line l in
      Buffer.clear buf;
      List.iter (fun b -> Buffer.add_char buf (char_of_byte b)) out;
      Buffer.add_char buf '\n';
      print_string (Buffer.contents buf)
    done
  with End_of_file -> ());
  flush stdout
