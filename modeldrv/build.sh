#!/bin/sh
# builds /verif/.build/modeldrv from the extracted model (coq/model.ml) and main.ml
set -e
cd "$(dirname "$0")"
B=../.build/modeldrv_build
mkdir -p "$B"
cp ../coq/model.ml ../coq/model.mli main.ml "$B"/
cd "$B"
ocamlfind ocamlopt -w -a -o ../modeldrv model.mli model.ml main.ml
