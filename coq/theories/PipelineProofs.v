(* C14: the datagram handlers are total for every datagram and every store, and a reply they produce is a parseable message *)
Require Import SD.Base SD.BaseProofs SD.Codes SD.CodesProofs SD.Header SD.HeaderProofs SD.Name SD.NameProofs SD.RData SD.RDataProofs
  SD.Packet SD.PacketProofs SD.RoundTrip SD.CompressProofs SD.CompressRoundTrip SD.Reserialise SD.Store SD.StoreProofs SD.Pipeline.
From Coq Require Import ZArith ZifyN ZifyNat ZifyBool.
Ltac Zify.zify_post_hook ::= Z.div_mod_to_equations.

Lemma answer_query_total st p now : exists h, answer_query st p now = Ok h.
Proof.
  unfold answer_query. destruct (build_reply st p now) as [r|]; [|eauto].
  unfold write_packet_compressed. destruct (packet_writable (reply_packet r)); eauto.
Qed.

(* the responder's loop body: whatever arrives, whatever the store holds *)
Theorem responder_total : forall st d now, exists h, responder_step st d now = Ok h.
Proof.
  intros st d now. unfold responder_step.
  destruct (peeks_total d) as (_ & Hf & _). destruct (Hf F_RESPONSE) as [([|] & ->) | ->]; eauto.
  destruct (parse_packet_total d) as [(p & ->) | (e & ->)]; [apply answer_query_total|eauto].
Qed.

Lemma ingest_ok st service me p now : store_ok st -> store_ok (ingest st service me p now).
Proof.
  unfold ingest. generalize (ingest_filter service me p). intros l. revert st.
  induction l as [|r l IH]; intros st H; [exact H|]. cbn [fold_left]. apply IH. apply add_cached_ok. exact H.
Qed.

(* the discovery listener's loop body; the store it leaves behind still satisfies the store invariant *)
Theorem discovery_total : forall st service me d now,
  exists st' h, discovery_step st service me d now = Ok (st', h) /\ (store_ok st -> store_ok st').
Proof.
  intros st service me d now. unfold discovery_step.
  destruct (parse_packet_total d) as [(p & ->) | (e & ->)]; [|eauto].
  destruct (has_flags (hdr p) F_RESPONSE).
  - eexists _, _. split; [reflexivity|]. apply ingest_ok.
  - destruct (answer_query_total st p now) as (h & ->). eauto.
Qed.

(* the one-shot resolver's peeks, on any buffer *)
Theorem resolver_peeks_total : forall buf,
  let '(a, b, c) := resolver_peeks buf in
  ((exists v, a = Ok v) \/ a = Err InvalidHeaderData) /\ ((exists v, b = Ok v) \/ b = Err InvalidHeaderData) /\
  ((exists v, c = Ok v) \/ c = Err InvalidHeaderData).
Proof.
  intros buf. unfold resolver_peeks. destruct (peeks_total buf) as (P & F & _).
  split; [apply F|]. split; apply P.
Qed.

(* ---------- a reply that is produced is a parseable message ---------- *)
Definition store_records_wf (st : store) : Prop := forall r, registered st r Auth -> wf_rr r.

Lemma answers_registered st q now a : In a (answers_for st q now) -> registered st a Auth.
Proof.
  unfold answers_for. intros H. apply filter_In in H. destruct H as [H _].
  destruct (query_sound _ _ _ _ _ H) as (k & m & v & Hin & He & Hf & _). apply auth_filter_kind in Hf. subst v. exists k, m. tauto.
Qed.

Lemma response_is_flagset : exists i, i < 128 /\ F_RESPONSE = flagset i.
Proof. exists 1. split; [lia|]. vm_compute. reflexivity. Qed.

Theorem reply_wf : forall st p now r, store_records_wf st -> h_id (hdr p) < 65536 -> build_reply st p now = Some r ->
  len (rp_answers r) < 65536 -> len (rp_additional r) < 65536 -> wf_packet (reply_packet r).
Proof.
  intros st p now r Hwf Hid Hb La Lx.
  assert (Hans : Forall wf_rr (rp_answers r)).
  { apply Forall_forall. intros a Ha. apply Hwf. revert Ha. unfold build_reply in Hb.
    destruct (List.concat (map (fun q => answers_for st q now) (qs p))) as [|a0 ar] eqn:E; [discriminate|]. injection Hb as <-.
    cbn [rp_answers]. rewrite <- E. intros Ha. apply in_concat in Ha. destruct Ha as (l & Hl & Hal).
    apply in_map_iff in Hl. destruct Hl as (q & <- & _). eapply answers_registered; exact Hal. }
  assert (Hadd : Forall wf_rr (rp_additional r)).
  { apply Forall_forall. intros x Hx. destruct (additional_sound st p now r x Hb Hx) as (q & a1 & t & _ & _ & _ & Hr & _). apply Hwf. exact Hr. }
  assert (Hi : rp_id r = h_id (hdr p)).
  { unfold build_reply in Hb. destruct (List.concat _); [discriminate|]. injection Hb as <-. reflexivity. }
  constructor; cbn [reply_packet hdr popt qs ans nss adds new_reply h_id h_opcode h_rcode h_flags]; try assumption.
  - rewrite Hi. exact Hid.
  - discriminate.
  - discriminate.
  - exact response_is_flagset.
  - intros _. cbn. lia.
  - intros o Ho. discriminate.
  - constructor.
  - constructor.
  - unfold opt_count. cbn [popt reply_packet]. change (len (@nil question)) with 0. change (len (@nil rr)) with 0. lia.
Qed.

Lemma parse_packet_id d p : parse_packet d = Ok p -> h_id (hdr p) < 65536.
Proof.
  unfold parse_packet. destruct (parse_header d) as [h|e|s|] eqn:Eh; try discriminate.
  destruct (parse_header_image d h Eh) as (Hid & _).
  destruct (peek_questions d) as [c1| | |]; try discriminate. destruct (peek_answers d) as [c2| | |]; try discriminate.
  destruct (peek_name_servers d) as [c3| | |]; try discriminate. destruct (peek_additional_records d) as [c4| | |]; try discriminate.
  destruct (parse_section parse_question _ d 12) as [[q p1]|e|s|]; try discriminate.
  destruct (parse_section parse_rr _ d p1) as [[a p2]|e|s|]; try discriminate.
  destruct (parse_section parse_rr _ d p2) as [[n p3]|e|s|]; try discriminate.
  destruct (parse_section parse_rr _ d p3) as [[x p4]|e|s|]; try discriminate.
  destruct (take_first_opt x) as [[o x']|].
  - destruct (optv_of (rdata_of o)); [|discriminate]. intros H. injection H as <-. exact Hid.
  - intros H. injection H as <-. exact Hid.
Qed.

(* for any datagram: if the responder sends something, it is the compressed serialisation of the reply packet and parses to it *)
Theorem responder_reply_parses : forall st d now b u, store_records_wf st -> responder_step st d now = Ok (H_reply b u) ->
  exists p r, parse_packet d = Ok p /\ build_reply st p now = Some r /\ u = rp_unicast r /\
    (len (rp_answers r) < 65536 -> len (rp_additional r) < 65536 -> parse_packet b = Ok (reply_packet r)).
Proof.
  intros st d now b u Hwf H. unfold responder_step in H.
  destruct (peek_has_flags d F_RESPONSE) as [[|]|e|s|]; try discriminate.
  destruct (parse_packet d) as [p|e|s|] eqn:Ep; try discriminate. unfold answer_query in H.
  destruct (build_reply st p now) as [r|] eqn:Eb; [|discriminate].
  destruct (write_packet_compressed (reply_packet r)) as [b'|e|s|] eqn:Ew; try discriminate. injection H as <- <-.
  exists p, r. split; [reflexivity|]. split; [exact Eb|]. split; [reflexivity|]. intros La Lx.
  pose proof (reply_wf st p now r Hwf (parse_packet_id d p Ep) Eb La Lx) as Hw.
  unfold write_packet_compressed in Ew. rewrite (wf_packet_writable _ Hw) in Ew. injection Ew as <-.
  apply (packet_roundtrip_compressed _ Hw).
Qed.
(* and with well-formed registered records the build step never fails *)
Theorem responder_never_fails_to_build : forall st d now e, store_records_wf st -> responder_step st d now = Ok (H_build_failed e) ->
  exists p r, parse_packet d = Ok p /\ build_reply st p now = Some r /\ ~ (len (rp_answers r) < 65536 /\ len (rp_additional r) < 65536).
Proof.
  intros st d now e Hwf H. unfold responder_step in H.
  destruct (peek_has_flags d F_RESPONSE) as [[|]|x|s|]; try discriminate.
  destruct (parse_packet d) as [p|x|s|] eqn:Ep; try discriminate. unfold answer_query in H.
  destruct (build_reply st p now) as [r|] eqn:Eb; [|discriminate].
  destruct (write_packet_compressed (reply_packet r)) as [b'|x|s|] eqn:Ew; try discriminate.
  exists p, r. split; [reflexivity|]. split; [exact Eb|]. intros [La Lx].
  pose proof (reply_wf st p now r Hwf (parse_packet_id d p Ep) Eb La Lx) as Hw.
  unfold write_packet_compressed in Ew. rewrite (wf_packet_writable _ Hw) in Ew. discriminate.
Qed.
