(* Proofs about the lossy renderer: it is total by construction, always yields well-formed UTF-8, is the identity on
   well-formed input (so nothing a caller could have read as text is altered), replaces at most three bytes by one U+FFFD
   each time, and the structural validity test is TextApi.valid_utf8. *)
Require Import SD.Base SD.Name SD.TextApi SD.TextApiProofs SD.Lossy.
From Coq Require Import Lia ZifyBool ZifyN ZifyNat.
Open Scope N_scope.

Lemma valid_utf8_fuel_eq : forall f l, (length l < f)%nat -> valid_utf8_fuel f l = valid_utf8s l.
Proof.
  induction f as [|f IH]; intros l H; [lia|].
  destruct l as [|b0 r]; [reflexivity|]. cbn [valid_utf8_fuel valid_utf8s]. cbn [length] in H.
  destruct (Byte.to_N b0 <? 128); [apply IH; lia|].
  destruct ((194 <=? Byte.to_N b0) && (Byte.to_N b0 <=? 223)).
  { destruct r as [|b1 r1]; [reflexivity|]. cbn [length] in H. rewrite IH by lia. reflexivity. }
  destruct ((224 <=? Byte.to_N b0) && (Byte.to_N b0 <=? 239)).
  { destruct r as [|b1 [|b2 r2]]; try reflexivity. cbn [length] in H. rewrite IH by lia. reflexivity. }
  destruct ((240 <=? Byte.to_N b0) && (Byte.to_N b0 <=? 244)); [|reflexivity].
  destruct r as [|b1 [|b2 [|b3 r3]]]; try reflexivity. cbn [length] in H. rewrite IH by lia. reflexivity.
Qed.
Theorem valid_utf8_structural l : valid_utf8 l = valid_utf8s l.
Proof. unfold valid_utf8. apply valid_utf8_fuel_eq. lia. Qed.

Lemma valid_repl r : valid_utf8s (REPL ++ r) = valid_utf8s r.
Proof. reflexivity. Qed.

Lemma second_ok3_spec n0 b1 : second_ok3 n0 (Byte.to_N b1) =
  cont b1 && (if n0 =? 224 then 160 <=? Byte.to_N b1 else true) && (if n0 =? 237 then Byte.to_N b1 <=? 159 else true).
Proof. unfold second_ok3, cont. destruct (n0 =? 224) eqn:E1; destruct (n0 =? 237) eqn:E2; lia. Qed.
Lemma second_ok4_spec n0 b1 : second_ok4 n0 (Byte.to_N b1) =
  cont b1 && (if n0 =? 240 then 144 <=? Byte.to_N b1 else true) && (if n0 =? 244 then Byte.to_N b1 <=? 143 else true).
Proof. unfold second_ok4, cont. destruct (n0 =? 240) eqn:E1; destruct (n0 =? 244) eqn:E2; lia. Qed.

(* one well-formed scalar value at the head *)
Lemma valid_step3 b0 b1 b2 r :
  (Byte.to_N b0 <? 128) = false -> ((194 <=? Byte.to_N b0) && (Byte.to_N b0 <=? 223)) = false ->
  ((224 <=? Byte.to_N b0) && (Byte.to_N b0 <=? 239)) = true ->
  valid_utf8s (b0 :: b1 :: b2 :: r) = second_ok3 (Byte.to_N b0) (Byte.to_N b1) && cont b2 && valid_utf8s r.
Proof.
  intros E1 E2 E3. cbn [valid_utf8s]. rewrite E1, E2, E3, second_ok3_spec.
  destruct (cont b1), (cont b2), (Byte.to_N b0 =? 224), (Byte.to_N b0 =? 237), (160 <=? Byte.to_N b1), (Byte.to_N b1 <=? 159); reflexivity.
Qed.
Lemma valid_step4 b0 b1 b2 b3 r :
  (Byte.to_N b0 <? 128) = false -> ((194 <=? Byte.to_N b0) && (Byte.to_N b0 <=? 223)) = false ->
  ((224 <=? Byte.to_N b0) && (Byte.to_N b0 <=? 239)) = false -> ((240 <=? Byte.to_N b0) && (Byte.to_N b0 <=? 244)) = true ->
  valid_utf8s (b0 :: b1 :: b2 :: b3 :: r) = second_ok4 (Byte.to_N b0) (Byte.to_N b1) && cont b2 && cont b3 && valid_utf8s r.
Proof.
  intros E1 E2 E3 E4. cbn [valid_utf8s]. rewrite E1, E2, E3, E4, second_ok4_spec.
  destruct (cont b1), (cont b2), (cont b3), (Byte.to_N b0 =? 240), (Byte.to_N b0 =? 244), (144 <=? Byte.to_N b1), (Byte.to_N b1 <=? 143); reflexivity.
Qed.

Lemma lossy_valid_len : forall n l, (length l <= n)%nat -> valid_utf8s (lossy l) = true.
Proof.
  induction n as [|n IH]; intros l H.
  { destruct l; [reflexivity | cbn [length] in H; lia]. }
  destruct l as [|b0 r]; [reflexivity|]. cbn [length] in H. cbn [lossy].
  destruct (Byte.to_N b0 <? 128) eqn:E1.
  { cbn [valid_utf8s]. rewrite E1. apply IH; lia. }
  destruct ((194 <=? Byte.to_N b0) && (Byte.to_N b0 <=? 223)) eqn:E2.
  { destruct r as [|b1 r1]; [reflexivity|]. cbn [length] in H.
    destruct (cont b1) eqn:C1.
    - cbn [valid_utf8s]. rewrite E1, E2, C1. apply IH; lia.
    - rewrite valid_repl. apply IH; cbn [length]; lia. }
  destruct ((224 <=? Byte.to_N b0) && (Byte.to_N b0 <=? 239)) eqn:E3.
  { destruct r as [|b1 r1]; [reflexivity|]. cbn [length] in H.
    destruct (second_ok3 _ _) eqn:S1; [|rewrite valid_repl; apply IH; cbn [length]; lia].
    destruct r1 as [|b2 r2]; [reflexivity|]. cbn [length] in H.
    destruct (cont b2) eqn:C2; [|rewrite valid_repl; apply IH; cbn [length]; lia].
    rewrite valid_step3, S1, C2 by assumption. apply IH; lia. }
  destruct ((240 <=? Byte.to_N b0) && (Byte.to_N b0 <=? 244)) eqn:E4; [|rewrite valid_repl; apply IH; lia].
  destruct r as [|b1 r1]; [reflexivity|]. cbn [length] in H.
  destruct (second_ok4 _ _) eqn:S1; [|rewrite valid_repl; apply IH; cbn [length]; lia].
  destruct r1 as [|b2 r2]; [reflexivity|]. cbn [length] in H.
  destruct (cont b2) eqn:C2; [|rewrite valid_repl; apply IH; cbn [length]; lia].
  destruct r2 as [|b3 r3]; [reflexivity|]. cbn [length] in H.
  destruct (cont b3) eqn:C3; [|rewrite valid_repl; apply IH; cbn [length]; lia].
  rewrite valid_step4, S1, C2, C3 by assumption. apply IH; lia.
Qed.
Theorem lossy_valid l : valid_utf8 (lossy l) = true.
Proof. rewrite valid_utf8_structural. apply (lossy_valid_len (length l)). lia. Qed.

Lemma lossy_id_len : forall n l, (length l <= n)%nat -> valid_utf8s l = true -> lossy l = l.
Proof.
  induction n as [|n IH]; intros l H V.
  { destruct l; [reflexivity | cbn [length] in H; lia]. }
  destruct l as [|b0 r]; [reflexivity|]. cbn [length] in H. cbn [lossy].
  destruct (Byte.to_N b0 <? 128) eqn:E1.
  { cbn [valid_utf8s] in V. rewrite E1 in V. rewrite IH by (assumption || lia). reflexivity. }
  destruct ((194 <=? Byte.to_N b0) && (Byte.to_N b0 <=? 223)) eqn:E2.
  { cbn [valid_utf8s] in V. rewrite E1, E2 in V. destruct r as [|b1 r1]; [discriminate|]. cbn [length] in H.
    apply andb_prop in V. destruct V as [C1 V]. rewrite C1, IH by (assumption || lia). reflexivity. }
  destruct ((224 <=? Byte.to_N b0) && (Byte.to_N b0 <=? 239)) eqn:E3.
  { destruct r as [|b1 [|b2 r2]]; try (cbn [valid_utf8s] in V; rewrite E1, E2, E3 in V; discriminate).
    rewrite valid_step3 in V by assumption. cbn [length] in H.
    apply andb_prop in V. destruct V as [V V3]. apply andb_prop in V. destruct V as [S1 C2].
    rewrite S1, C2, IH by (assumption || lia). reflexivity. }
  destruct ((240 <=? Byte.to_N b0) && (Byte.to_N b0 <=? 244)) eqn:E4.
  2:{ cbn [valid_utf8s] in V. rewrite E1, E2, E3, E4 in V. discriminate. }
  destruct r as [|b1 [|b2 [|b3 r3]]]; try (cbn [valid_utf8s] in V; rewrite E1, E2, E3, E4 in V; discriminate).
  rewrite valid_step4 in V by assumption. cbn [length] in H.
  apply andb_prop in V. destruct V as [V V4]. apply andb_prop in V. destruct V as [V C3]. apply andb_prop in V. destruct V as [S1 C2].
  rewrite S1, C2, C3, IH by (assumption || lia). reflexivity.
Qed.
Theorem lossy_id l : valid_utf8 l = true -> lossy l = l.
Proof. rewrite valid_utf8_structural. apply (lossy_id_len (length l)). lia. Qed.
Theorem lossy_idempotent l : lossy (lossy l) = lossy l.
Proof. apply lossy_id, lossy_valid. Qed.
(* ill-formed input is never passed through unchanged *)
Theorem lossy_changes_invalid l : valid_utf8 l = false -> lossy l <> l.
Proof. intros V E. pose proof (lossy_valid l) as W. rewrite E in W. congruence. Qed.

(* each replacement stands for at least one input byte: the rendering is at most three times as long *)
Lemma lossy_length_len : forall n l, (length l <= n)%nat -> (length (lossy l) <= 3 * length l)%nat.
Proof.
  induction n as [|n IH]; intros l H.
  { destruct l; [cbn; lia | cbn [length] in H; lia]. }
  destruct l as [|b0 r]; [cbn; lia|]. cbn [length] in H. cbn [lossy].
  assert (R : forall x, length (REPL ++ x) = (3 + length x)%nat) by reflexivity.
  destruct (Byte.to_N b0 <? 128).
  { cbn [length]. specialize (IH r). lia. }
  destruct ((194 <=? Byte.to_N b0) && (Byte.to_N b0 <=? 223)).
  { destruct r as [|b1 r1]; [cbn; lia|]. cbn [length] in H.
    destruct (cont b1); [cbn [length]; specialize (IH r1); lia|].
    rewrite R. specialize (IH (b1 :: r1)). cbn [length] in *. lia. }
  destruct ((224 <=? Byte.to_N b0) && (Byte.to_N b0 <=? 239)).
  { destruct r as [|b1 r1]; [cbn; lia|]. cbn [length] in H.
    destruct (second_ok3 _ _); [|rewrite R; specialize (IH (b1 :: r1)); cbn [length] in *; lia].
    destruct r1 as [|b2 r2]; [cbn; lia|]. cbn [length] in H.
    destruct (cont b2); [cbn [length]; specialize (IH r2); lia|].
    rewrite R. specialize (IH (b2 :: r2)). cbn [length] in *. lia. }
  destruct ((240 <=? Byte.to_N b0) && (Byte.to_N b0 <=? 244)); [|rewrite R; specialize (IH r); cbn [length]; lia].
  destruct r as [|b1 r1]; [cbn; lia|]. cbn [length] in H.
  destruct (second_ok4 _ _); [|rewrite R; specialize (IH (b1 :: r1)); cbn [length] in *; lia].
  destruct r1 as [|b2 r2]; [cbn; lia|]. cbn [length] in H.
  destruct (cont b2); [|rewrite R; specialize (IH (b2 :: r2)); cbn [length] in *; lia].
  destruct r2 as [|b3 r3]; [cbn; lia|]. cbn [length] in H.
  destruct (cont b3); [cbn [length]; specialize (IH r3); lia|].
  rewrite R. specialize (IH (b3 :: r3)). cbn [length] in *. lia.
Qed.
Theorem lossy_length l : (length (lossy l) <= 3 * length l)%nat.
Proof. apply (lossy_length_len (length l)). lia. Qed.

(* well-formed text followed by anything: validity of the whole is validity of the rest *)
Lemma valid_app_len : forall n a b, (length a <= n)%nat -> valid_utf8s a = true -> valid_utf8s (a ++ b) = valid_utf8s b.
Proof.
  induction n as [|n IH]; intros a b H V.
  { destruct a; [reflexivity | cbn [length] in H; lia]. }
  destruct a as [|b0 r]; [reflexivity|]. cbn [length] in H. cbn [app].
  destruct (Byte.to_N b0 <? 128) eqn:E1.
  { cbn [valid_utf8s] in *. rewrite E1 in *. apply IH; [lia|assumption]. }
  destruct ((194 <=? Byte.to_N b0) && (Byte.to_N b0 <=? 223)) eqn:E2.
  { cbn [valid_utf8s] in V. rewrite E1, E2 in V. destruct r as [|b1 r1]; [discriminate|]. cbn [length] in H.
    apply andb_prop in V. destruct V as [C1 V]. cbn [app valid_utf8s]. rewrite E1, E2, C1. apply IH; [lia|assumption]. }
  destruct ((224 <=? Byte.to_N b0) && (Byte.to_N b0 <=? 239)) eqn:E3.
  { destruct r as [|b1 [|b2 r2]]; try (cbn [valid_utf8s] in V; rewrite E1, E2, E3 in V; discriminate).
    rewrite valid_step3 in V by assumption. cbn [length] in H. cbn [app]. rewrite valid_step3 by assumption.
    apply andb_prop in V. destruct V as [V V3]. rewrite V. apply IH; [lia|assumption]. }
  destruct ((240 <=? Byte.to_N b0) && (Byte.to_N b0 <=? 244)) eqn:E4.
  2:{ cbn [valid_utf8s] in V. rewrite E1, E2, E3, E4 in V. discriminate. }
  destruct r as [|b1 [|b2 [|b3 r3]]]; try (cbn [valid_utf8s] in V; rewrite E1, E2, E3, E4 in V; discriminate).
  rewrite valid_step4 in V by assumption. cbn [length] in H. cbn [app]. rewrite valid_step4 by assumption.
  apply andb_prop in V. destruct V as [V V4]. rewrite V. apply IH; [lia|assumption].
Qed.
Lemma valid_app a b : valid_utf8s a = true -> valid_utf8s (a ++ b) = valid_utf8s b.
Proof. apply (valid_app_len (length a)). lia. Qed.

(* Display for Name *)
Theorem display_name_valid ls : valid_utf8 (display_name ls) = true.
Proof.
  rewrite valid_utf8_structural. induction ls as [|l r IH]; [reflexivity|].
  pose proof (lossy_valid l) as V. rewrite valid_utf8_structural in V.
  destruct r as [|l2 r2]; [exact V|].
  change (display_name (l :: l2 :: r2)) with (lossy l ++ x2e :: display_name (l2 :: r2)).
  rewrite valid_app by exact V. cbn [valid_utf8s]. exact IH.
Qed.
(* a name whose labels are all well-formed text is shown as those labels joined by dots *)
Theorem display_name_text ls : Forall (fun l => valid_utf8 l = true) ls -> display_name ls = join_dots ls.
Proof.
  induction 1 as [|l r Hl Hr IH]; [reflexivity|].
  destruct r as [|l2 r2]; cbn [display_name join_dots]; rewrite (lossy_id l Hl); [reflexivity|].
  f_equal. f_equal. exact IH.
Qed.

(* text that Name::new accepts is plain ASCII, so a name made from text is shown exactly as its labels joined by dots,
   and what is shown recreates the name *)
Lemma ascii_valid : forall l, forallb (fun b => Byte.to_N b <? 128) l = true -> valid_utf8s l = true.
Proof.
  induction l as [|b r IH]; [reflexivity|]. cbn [forallb valid_utf8s]. intros H. apply andb_prop in H. destruct H as [Hb Hr].
  rewrite Hb. auto.
Qed.
Lemma alnum_ascii c : alnum c -> (Byte.to_N c <? 128) = true.
Proof. unfold alnum, is_alnum. intros H. lia. Qed.
Lemma label_ok_ascii l : label_ok l -> forallb (fun b => Byte.to_N b <? 128) l = true.
Proof.
  intros (_ & H & _). destruct l as [|f r]; [reflexivity|]. destruct H as [Hf Hr]. cbn [forallb].
  apply andb_true_intro. split.
  - destruct Hf as [Hf | ->]; [apply alnum_ascii; exact Hf | reflexivity].
  - apply forallb_forall. intros c Hc. rewrite Forall_forall in Hr. destruct (Hr c Hc) as [H | [-> | ->]]; [apply alnum_ascii; exact H | reflexivity | reflexivity].
Qed.
Theorem display_of_new s ls : name_new s = Ok ls -> display_name ls = join_dots ls /\ name_new (display_name ls) = Ok ls.
Proof.
  intros H. assert (E : display_name ls = join_dots ls).
  { apply display_name_text. apply name_new_spec in H. destruct H as (_ & Hok & _).
    apply Forall_forall. intros l Hl. rewrite Forall_forall in Hok. rewrite valid_utf8_structural.
    apply ascii_valid, label_ok_ascii, Hok, Hl. }
  split; [exact E|]. rewrite E. apply name_display_recreate with (s := s). exact H.
Qed.
