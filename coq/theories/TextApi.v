(* Textual APIs: Name::new / LabelsIter / Label::is_valid_label / Display (name.rs), the suffix algebra, CharacterString::new,
   TXT text and attribute conversions (rdata/txt.rs), instance-name escaping (simple-mdns instance_information.rs).
   Rust `String` / `&str` values are modelled as their UTF-8 bytes; `valid_utf8` is core::str::from_utf8. No proofs here. *)
Require Import SD.Base SD.Name.
Open Scope N_scope.

Definition DOT : byte := x2e.
Definition is_alnum (b : byte) : bool :=
  let n := Byte.to_N b in ((48 <=? n) && (n <=? 57)) || ((65 <=? n) && (n <=? 90)) || ((97 <=? n) && (n <=? 122)).

(* LabelsIter: split at '.', dropping empty pieces *)
Fixpoint split_dots (l cur : list byte) : list (list byte) :=
  match l with
  | [] => match cur with [] => [] | _ => [rev cur] end
  | b :: r => if Byte.eqb b DOT
              then match cur with [] => split_dots r [] | _ => rev cur :: split_dots r [] end
              else split_dots r (b :: cur)
  end.
Definition labels_of_text (s : list byte) : list label := split_dots s [].

(* Label::is_valid_label *)
Definition valid_label (d : list byte) : bool :=
  match d with
  | [] => false
  | first :: rest =>
    (len d <=? 63) && (is_alnum first || Byte.eqb first x5f)
    && forallb (fun c => is_alnum c || Byte.eqb c x2d || Byte.eqb c x5f) rest
    && is_alnum (last d x00)
  end.

(* Name::new *)
Definition name_new (s : list byte) : outcome (list label) :=
  let ls := labels_of_text s in
  if forallb valid_label ls
  then if 255 <? name_len ls then Err InvalidServiceName else Ok ls
  else Err InvalidServiceLabel.
(* Name::new_unchecked *)
Definition name_new_unchecked (s : list byte) : list label := labels_of_text s.

(* Display for Name on names whose labels are valid UTF-8 (lossy replacement is not modelled) *)
Fixpoint join_dots (ls : list label) : list byte :=
  match ls with [] => [] | [l] => l | l :: r => l ++ DOT :: join_dots r end.

(* is_subdomain_of: longer, and `other` zipped from the end matches *)
Fixpoint zip_all_eq (a b : list label) : bool :=
  match a, b with
  | x :: a', y :: b' => bytes_eqb x y && zip_all_eq a' b'
  | _, _ => true
  end.
Definition is_subdomain_of (self other : list label) : bool :=
  Nat.ltb (length other) (length self) && zip_all_eq (rev other) (rev self).
(* without *)
Definition without (self domain : list label) : option (list label) :=
  if is_subdomain_of self domain then Some (firstn (length self - length domain) self) else None.
(* is_link_local: last label equals "local" ignoring ASCII case *)
Definition to_lower (b : byte) : byte := let n := Byte.to_N b in if (65 <=? n) && (n <=? 90) then bN (n + 32) else b.
Definition is_link_local (ls : list label) : bool :=
  match rev ls with
  | l :: _ => bytes_eqb (map to_lower l) (map to_lower [x6c; x6f; x63; x61; x6c])
  | [] => false
  end.

(* CharacterString::new *)
Definition cstr_new (d : list byte) : outcome (list byte) := if 255 <? len d then Err InvalidCharacterString else Ok d.

(* ---- UTF-8 (core::str::from_utf8): shortest form, no surrogates, at most U+10FFFF ---- *)
Definition cont (b : byte) : bool := let n := Byte.to_N b in (128 <=? n) && (n <=? 191).
Fixpoint valid_utf8_fuel (fuel : nat) (l : list byte) : bool :=
  match fuel with
  | O => false
  | S f =>
    match l with
    | [] => true
    | b0 :: r =>
      let n0 := Byte.to_N b0 in
      if n0 <? 128 then valid_utf8_fuel f r
      else if (194 <=? n0) && (n0 <=? 223) then
        match r with b1 :: r' => cont b1 && valid_utf8_fuel f r' | _ => false end
      else if (224 <=? n0) && (n0 <=? 239) then
        match r with
        | b1 :: b2 :: r' =>
          let n1 := Byte.to_N b1 in
          cont b1 && cont b2
          && (if n0 =? 224 then 160 <=? n1 else true)       (* no overlong *)
          && (if n0 =? 237 then n1 <=? 159 else true)       (* no surrogates *)
          && valid_utf8_fuel f r'
        | _ => false end
      else if (240 <=? n0) && (n0 <=? 244) then
        match r with
        | b1 :: b2 :: b3 :: r' =>
          let n1 := Byte.to_N b1 in
          cont b1 && cont b2 && cont b3
          && (if n0 =? 240 then 144 <=? n1 else true)
          && (if n0 =? 244 then n1 <=? 143 else true)
          && valid_utf8_fuel f r'
        | _ => false end
      else false
    end
  end.
Definition valid_utf8 (l : list byte) : bool := valid_utf8_fuel (S (length l)) l.

(* ---- TXT ---- *)
(* chunks(n) of a byte slice *)
Fixpoint chunks_fuel (fuel : nat) (n : nat) (l : list byte) : list (list byte) :=
  match fuel with
  | O => []
  | S f => match l with [] => [] | _ => firstn n l :: chunks_fuel f n (skipn n l) end
  end.
Definition chunks (n : nat) (l : list byte) : list (list byte) := chunks_fuel (S (length l)) n l.
(* TXT::try_from(&str): chunks of MAX_CHARACTER_STRING_LENGTH - 1 = 254 bytes, each through CharacterString::new *)
Definition txt_of_text (s : list byte) : outcome (list (list byte)) := Ok (chunks 254 s).
(* String::try_from(TXT): concatenation, then from_utf8 *)
Definition text_of_txt (strings : list (list byte)) : outcome (list byte) :=
  let b := List.concat strings in if valid_utf8 b then Ok b else Err InvalidDnsPacket.

(* splitn(2, |c| c == x) *)
Fixpoint split_first (x : byte) (l acc : list byte) : list byte * option (list byte) :=
  match l with
  | [] => (rev acc, None)
  | b :: r => if Byte.eqb b x then (rev acc, Some r) else split_first x r (b :: acc)
  end.
(* split(x) *)
Fixpoint split_all (x : byte) (l cur : list byte) : list (list byte) :=
  match l with
  | [] => [rev cur]
  | b :: r => if Byte.eqb b x then rev cur :: split_all x r [] else split_all x r (b :: cur)
  end.

Definition attr := (list byte * option (list byte))%type.
Fixpoint attr_lookup (m : list attr) (k : list byte) : option (option (list byte)) :=
  match m with [] => None | (k', v) :: r => if bytes_eqb k' k then Some v else attr_lookup r k end.
(* entry(key).or_insert(value): the first occurrence wins *)
Definition attr_insert_first (m : list attr) (k : list byte) (v : option (list byte)) : list attr :=
  match attr_lookup m k with Some _ => m | None => m ++ [(k, v)] end.

(* TXT::attributes *)
Definition attributes (strings : list (list byte)) : list attr :=
  fold_left (fun m s =>
    let '(key, rest) := split_first x3d s [] in
    if negb (valid_utf8 key) then m
    else match key with [] => m | _ =>
      let value := match rest with
                   | Some v => match v with [] => Some [] | _ => if valid_utf8 v then Some v else Some [] end
                   | None => None end in
      attr_insert_first m key value end) strings [].

(* TXT::long_attributes *)
Definition long_attributes (strings : list (list byte)) : outcome (list attr) :=
  match text_of_txt strings with
  | Ok full =>
    Ok (fold_left (fun m part =>
          let '(key, value) := split_first x3d part [] in
          match key with [] => m | _ => attr_insert_first m key value end) (split_all x3b full []) [])
  | Err e => Err e | Panic s => Panic s | OutOfFuel => OutOfFuel
  end.

(* TryFrom<HashMap<String, Option<String>>> for TXT, for a given iteration order of the map *)
Definition txt_entry (a : attr) : list byte :=
  match a with (k, Some v) => k ++ x3d :: v | (k, None) => k end.
Definition txt_of_attrs (order : list attr) : outcome (list (list byte)) :=
  if forallb (fun a => len (txt_entry a) <=? 255) order then Ok (map txt_entry order) else Err InvalidCharacterString.

(* ---- instance names (simple-mdns) ---- *)
Fixpoint escape_name (s : list byte) : list byte :=
  match s with
  | [] => []
  | b :: r => if Byte.eqb b DOT then x5c :: DOT :: escape_name r
              else if Byte.eqb b x5c then x5c :: x5c :: escape_name r
              else b :: escape_name r
  end.
Fixpoint unescape_fuel (fuel : nat) (s : list byte) : list byte :=
  match fuel with
  | O => []
  | S f => match s with
           | [] => []
           | b :: r => if Byte.eqb b x5c then match r with c :: r' => c :: unescape_fuel f r' | [] => [] end
                       else b :: unescape_fuel f r
           end
  end.
Definition unescape_name (s : list byte) : list byte := unescape_fuel (S (length s)) s.
