(* C03: a compressed message parses back to the packet that was written; it is never longer than the plain form *)
Require Import SD.Base SD.BaseProofs SD.Sweep SD.Codes SD.CodesProofs SD.Header SD.HeaderProofs SD.Name SD.NameProofs
  SD.RData SD.Spec SD.RDataProofs SD.Packet SD.PacketProofs SD.RoundTrip SD.CompressProofs.
From Coq Require Import ZArith ZifyN ZifyNat ZifyBool.
Ltac Zify.zify_post_hook ::= Z.div_mod_to_equations.

(* ---------- one field ---------- *)
Lemma wc_fld_rt : forall f v out t b t' post, wf_fld f v -> (ends_fld f = true -> post = []) -> TInv out t ->
  wc_fld f v t (len out) = (b, t') ->
  parse_fld f (out ++ b ++ post) (len out) = Ok (v, len out + len b) /\ TInv (out ++ b) t' /\ len b <= len (enc_fld f v).
Proof.
  intros f v out t b t' post Hwf Hpost Hinv Hw.
  assert (Plain : wc_fld f v t (len out) = (enc_fld f v, t) ->
          parse_fld f (out ++ b ++ post) (len out) = Ok (v, len out + len b) /\ TInv (out ++ b) t' /\ len b <= len (enc_fld f v)).
  { intros E. rewrite E in Hw. injection Hw as <- <-. split; [apply parse_fld_enc; assumption|].
    split; [apply TInv_app; exact Hinv|lia]. }
  destruct f as [n| |[|]| | |k]; try (apply Plain; reflexivity).
  destruct v as [x|ls|bs|its]; try (apply Plain; reflexivity).
  cbn [wc_fld] in Hw. cbn [wf_fld] in Hwf. destruct Hwf as [Hl Hs].
  destruct (wc_name_inv ls out t b t' Hl Hinv Hw) as (_ & _ & Hlen & Ht).
  split; [|split; [exact Ht|exact Hlen]].
  cbn [parse_fld]. rewrite (parse_name_compressed ls out t b t' post Hl Hs Hinv Hw). reflexivity.
Qed.

(* ---------- a whole layout ---------- *)
Theorem wc_layout_rt : forall lay vs out t b t' post, lay_ok lay = true -> wf_vals lay vs -> (ends_data lay = true -> post = []) ->
  TInv out t -> wc_layout lay vs t (len out) = (b, t') ->
  parse_layout lay (out ++ b ++ post) (len out) = Ok (vs, len out + len b) /\ TInv (out ++ b) t' /\ len b <= len (enc_layout lay vs).
Proof.
  induction lay as [|f r IH]; intros vs out t b t' post Hok Hwf Hpost Hinv Hw; destruct vs as [|v vr]; cbn [wf_vals] in Hwf; try contradiction.
  - cbn [wc_layout] in Hw. injection Hw as <- <-. cbn [app parse_layout enc_layout]. rewrite app_nil_r.
    split; [f_equal; f_equal; unfold len; cbn; lia|]. split; [exact Hinv|lia].
  - destruct Hwf as [Hf Hr]. cbn [wc_layout] in Hw. destruct (lay_ok_tail f r Hok) as [Hokr Hlast].
    destruct (wc_fld f v t (len out)) as [b1 t1] eqn:E1.
    destruct (wc_layout r vr t1 (len out + len b1)) as [b2 t2] eqn:E2. injection Hw as <- <-.
    destruct (wc_fld_rt f v out t b1 t1 (b2 ++ post) Hf) as (P1 & I1 & L1); [|exact Hinv|exact E1|].
    { intros He. destruct r as [|f' r']; [|rewrite Hlast in He by discriminate; discriminate].
      destruct vr; cbn [wf_vals] in Hr; try contradiction. cbn [wc_layout] in E2. injection E2 as <- _. cbn [app].
      apply Hpost. cbn [ends_data existsb]. rewrite He. reflexivity. }
    replace (len out + len b1) with (len (out ++ b1)) in E2 by (rewrite len_app; reflexivity).
    destruct (IH vr (out ++ b1) t1 b2 t2 post Hokr Hr) as (P2 & I2 & L2); [|exact I1|exact E2|].
    { intros H. apply Hpost. cbn [ends_data existsb]. unfold ends_data in H. rewrite H. apply orb_true_r. }
    cbn [parse_layout enc_layout]. rewrite <- app_assoc. rewrite P1.
    replace (out ++ b1 ++ b2 ++ post) with ((out ++ b1) ++ b2 ++ post) by (rewrite <- !app_assoc; reflexivity).
    replace (len out + len b1) with (len (out ++ b1)) by (rewrite len_app; reflexivity). rewrite P2.
    split; [rewrite !len_app; do 2 f_equal; lia|]. split; [rewrite app_assoc; exact I2|rewrite !len_app; lia].
Qed.

Lemma wc_layout_plain : forall lay vs t off, has_compressing lay = false -> wc_layout lay vs t off = (enc_layout lay vs, t).
Proof.
  induction lay as [|f r IH]; intros vs t off H; destruct vs as [|v vr]; try reflexivity.
  cbn [has_compressing existsb] in H. apply Bool.orb_false_iff in H. destruct H as [Hf Hr].
  cbn [wc_layout enc_layout].
  assert (E : wc_fld f v t off = (enc_fld f v, t)) by (destruct f as [n| |[|]| | |k]; try discriminate; destruct v; reflexivity).
  rewrite E. unfold has_compressing in IH. rewrite (IH vr t (off + len (enc_fld f v)) Hr). reflexivity.
Qed.

(* ---------- typed values ---------- *)
Theorem wc_typed_rt : forall m vs out t b t', wf_typed m vs -> TInv out t ->
  wc_layout (layout_for m vs) vs t (len out) = (b, t') ->
  parse_typed m (out ++ b) (len out) = Ok (vs, len out + len b) /\ TInv (out ++ b) t' /\
  len b <= len (enc_layout (layout_for m vs) vs) /\ 1 <= len b.
Proof.
  intros m vs out t b t' Hw Hinv Hc.
  destruct (has_compressing (layout_for m vs)) eqn:Ec.
  - assert (Hm : m <> M_IPSECKEY) by (intros ->; rewrite (forbidden_never_compress M_IPSECKEY vs eq_refl) in Ec; discriminate).
    destruct (typed_first_min1 m vs Hw) as (f & r & E & Hmin).
    destruct Hw as [Hv Hx].
    assert (El : layout_for m vs = layout_of m) by (destruct m; try reflexivity; contradiction).
    assert (Ep : parse_typed m (out ++ b) (len out) = parse_layout (layout_of m) (out ++ b) (len out)) by (destruct m; try reflexivity; contradiction).
    rewrite El in *. rewrite Ep.
    destruct (wc_layout_rt (layout_of m) vs out t b t' [] (layouts_ok m) Hv (fun _ => eq_refl) Hinv Hc) as (P & I & L).
    rewrite app_nil_r in P. split; [exact P|]. split; [exact I|]. split; [exact L|].
    (* the first field is never empty *)
    rewrite E in *.
    destruct vs as [|v vr]; cbn [wf_vals] in Hv; [contradiction|]. destruct Hv as [Hf _]. cbn [wc_layout] in Hc.
    destruct (wc_fld f v t (len out)) as [b1 t1] eqn:E1. destruct (wc_layout r vr t1 (len out + len b1)) as [b2 t2].
    injection Hc as <- _. rewrite len_app.
    assert (1 <= len b1); [|lia].
    assert (Hb1 : b1 = enc_fld f v \/ exists ls, wc_name t (len out) ls = (b1, t1)).
    { destruct f as [n| |[|]| | |k]; destruct v as [x|ls|bs|its]; cbn [wc_fld] in E1; try (left; congruence). right; eauto. }
    destruct Hb1 as [->|[ls E1']]; [apply (enc_fld_min1 _ _ Hmin Hf)|].
    destruct ls as [|l rest]; cbn [wc_name] in E1'.
    + injection E1' as <- _. cbn; lia.
    + destruct (lookup t (l :: rest)) as [q|];
        [replace b1 with (be_enc 2 (N.lor (q mod 65536) 49152)) by congruence; rewrite len_be_enc; lia|].
      destruct (wc_name _ _ rest) as [bb tt]. injection E1' as <- _. rewrite len_cons. lia.
  - rewrite (wc_layout_plain _ vs t (len out) Ec) in Hc. injection Hc as <- <-.
    split; [apply typed_roundtrip; exact Hw|]. split; [apply TInv_app; exact Hinv|]. split; [lia|apply typed_enc_nonempty; exact Hw].
Qed.

Lemma wc_rdata_shape r t off : wf_rdata r ->
  match r with RD m vs => wc_rdata r t off = wc_layout (layout_for m vs) vs t off | _ => wc_rdata r t off = (enc_rdata r, t) end.
Proof. destruct r as [m vs|c bs|ty]; try reflexivity. intros [[_ Hm] _]. destruct m; try reflexivity; contradiction. Qed.

Lemma parse_rdata_typed_wc r out t rb t' : wf_rdata r -> (forall ty, r <> RD_empty ty) -> TInv out t ->
  wc_rdata r t (len out) = (rb, t') ->
  parse_rdata_typed (out ++ rb) (len out) (type_of_rdata r) = Ok (r, len out + len rb) /\ TInv (out ++ rb) t' /\
  len rb <= len (enc_rdata r) /\ 1 <= len rb.
Proof.
  intros Hw Hne Hinv Hc. pose proof (wc_rdata_shape r t (len out) Hw) as Hs.
  destruct r as [m vs|c bs|ty]; [| |exfalso; eapply Hne; reflexivity].
  - rewrite Hs in Hc. destruct Hw as [Hw Hmax].
    assert (Hm : m <> M_OPT /\ m <> M_NULL) by (destruct Hw as [_ Hm]; split; intros ->; exact Hm).
    assert (E : enc_rdata (RD m vs) = enc_layout (layout_for m vs) vs) by (destruct m; try reflexivity; tauto).
    rewrite E. destruct (wc_typed_rt m vs out t rb t' Hw Hinv Hc) as (P & I & L & N1).
    split; [|tauto]. cbn [type_of_rdata]. destruct m; try (cbn [parse_rdata_typed]; rewrite P; reflexivity); tauto.
  - rewrite Hs in Hc. injection Hc as <- <-.
    split; [apply parse_rdata_typed_enc; assumption|]. split; [apply TInv_app; exact Hinv|]. split; [apply N.le_refl|].
    destruct Hw as (_ & _ & Hl). cbn [enc_rdata]. lia.
Qed.

(* ---------- RData::parse behind the fixed part of a compressed record ---------- *)
Lemma parse_rdata_wc r pre cls ttl post t rb t' : wf_rdata r -> TInv pre t ->
  wc_rdata r t (len pre + 10) = (rb, t') ->
  parse_rdata (pre ++ rr_fixed (code_of_type (type_of_rdata r)) cls ttl (len rb) ++ rb ++ post) (len pre)
  = Ok (r, len pre + 10 + len rb) /\
  TInv (pre ++ rr_fixed (code_of_type (type_of_rdata r)) cls ttl (len rb) ++ rb) t' /\ len rb <= len (enc_rdata r).
Proof.
  intros Hw Hinv Hc. destruct (len_rdata_enc r Hw) as (Hlen & Hmax & Hzero). destruct (type_of_rdata_wf r Hw) as [Hty Hno].
  set (tc := code_of_type (type_of_rdata r)).
  assert (Hfix : forall x, len (pre ++ rr_fixed tc cls ttl x) = len pre + 10) by (intros x; rewrite len_app, len_rr_fixed; reflexivity).
  assert (Hempty : (exists ty, r = RD_empty ty) -> rb = [] /\ t' = t).
  { intros [ty ->]. cbn in Hc. injection Hc as <- <-. tauto. }
  assert (Hfull : (forall ty, r <> RD_empty ty) ->
           parse_rdata_typed ((pre ++ rr_fixed tc cls ttl (len rb)) ++ rb) (len pre + 10) (type_of_rdata r) = Ok (r, len pre + 10 + len rb) /\
           TInv ((pre ++ rr_fixed tc cls ttl (len rb)) ++ rb) t' /\ len rb <= len (enc_rdata r) /\ 1 <= len rb).
  { intros Hne. rewrite <- (Hfix (len rb)) at 1 2. apply (parse_rdata_typed_wc r _ t); [exact Hw|exact Hne|apply TInv_app; exact Hinv|].
    rewrite Hfix. exact Hc. }
  unfold parse_rdata.
  assert (Hd : len (pre ++ rr_fixed tc cls ttl (len rb) ++ rb ++ post) = len pre + 10 + len rb + len post)
    by (rewrite !len_app, len_rr_fixed; lia).
  rewrite Hd. destruct (len pre + 10 + len rb + len post <? len pre + 10) eqn:E; [lia|].
  destruct (rr_fixed_reads pre tc cls ttl (len rb) (rb ++ post)) as (R0 & _ & _ & R8). rewrite R0, R8.
  pose proof (code_of_type_bound _ Hty) as Htc. fold tc in Htc. rewrite (N.mod_small tc) by lia.
  change (type_of_code tc) with (type_of_code (code_of_type (type_of_rdata r))). rewrite (code_type_roundtrip _ Hty). rewrite (ty_eqb_false _ _ Hno).
  assert (Cases : (exists ty, r = RD_empty ty) \/ (forall ty, r <> RD_empty ty)).
  { destruct r; [right; discriminate|right; discriminate|left; eauto]. }
  destruct Cases as [Hex|Hne].
  - destruct (Hempty Hex) as [-> ->]. destruct Hex as [ty ->]. cbn [type_of_rdata len length N.of_nat]. cbn [N.modulo N.eqb].
    change (0 mod 65536 =? 0) with true. cbv iota.
    split; [f_equal; f_equal; lia|]. split; [|cbn; lia]. rewrite app_nil_r. apply TInv_app. exact Hinv.
  - destruct (Hfull Hne) as (P & I & L & N1).
    rewrite (N.mod_small (len rb)) by (cbn; lia). destruct (len rb =? 0) eqn:E0; [lia|].
    destruct (len pre + 10 + len rb + len post <? len pre + 10 + len rb) eqn:E2; [lia|].
    replace (pre ++ rr_fixed tc cls ttl (len rb) ++ rb ++ post) with (((pre ++ rr_fixed tc cls ttl (len rb)) ++ rb) ++ post)
      by (rewrite <- !app_assoc; reflexivity).
    rewrite firstn_app_exact by (rewrite !len_app, len_rr_fixed; lia). rewrite P.
    split; [reflexivity|]. split; [rewrite <- app_assoc in I; exact I|exact L].
Qed.

(* what "this writer and this parser agree, keep the table sound, and never exceed the plain form" means for one entry *)
Definition wc_good {A} (P : list byte -> N -> outcome (A * N)) (W : A -> table -> N -> list byte * table) (E : A -> list byte) (x : A) : Prop :=
  forall out t bs t' post, TInv out t -> W x t (len out) = (bs, t') ->
    P (out ++ bs ++ post) (len out) = Ok (x, len out + len bs) /\ TInv (out ++ bs) t' /\ len bs <= len (E x).

Lemma wc_rr_shape r t off : (forall vs, rdata_of r <> RD M_OPT vs) ->
  wc_rr r t off =
  let '(b, t1) := wc_name t off (rname r) in
  let '(rb, t2) := wc_rdata (rdata_of r) t1 (off + len b + 10) in
  (b ++ rr_fixed (code_of_type (type_of_rdata (rdata_of r))) (class_word (rclass r) (rcf r)) (rttl r) (len rb) ++ rb, t2).
Proof.
  intros Hno. unfold wc_rr. destruct (wc_name t off (rname r)) as [b t1].
  destruct (wc_rdata (rdata_of r) t1 (off + len b + 10)) as [rb t2].
  unfold enc_rr_common, rr_fixed, class_word. rewrite <- !app_assoc.
  destruct (rdata_of r) as [m vs|c bs|ty] eqn:E; try reflexivity.
  destruct m; try reflexivity. exfalso. eapply Hno. reflexivity.
Qed.

Theorem parse_rr_wc r : wf_rr r -> wc_good parse_rr wc_rr enc_rr r.
Proof.
  intros ([Hwn Hln] & Httl & Hrd) out t bs t' post Hinv Hw.
  rewrite (wc_rr_shape r t (len out) (wf_rdata_not_opt _ Hrd)) in Hw.
  destruct (wc_name t (len out) (rname r)) as [b t1] eqn:En.
  destruct (wc_rdata (rdata_of r) t1 (len out + len b + 10)) as [rb t2] eqn:Er.
  apply pair_equal_spec in Hw. destruct Hw as [<- <-].
  destruct (wc_name_inv _ out t b t1 Hwn Hinv En) as (_ & _ & Lb & I1).
  set (tc := code_of_type (type_of_rdata (rdata_of r))). set (cw := class_word (rclass r) (rcf r)).
  replace (len out + len b) with (len (out ++ b)) in Er by (rewrite len_app; reflexivity).
  destruct (parse_rdata_wc (rdata_of r) (out ++ b) cw (rttl r) post t1 rb t2 Hrd I1 Er) as (Prd & I2 & Lr). fold tc in Prd, I2.
  split; [|split].
  - unfold parse_rr. rewrite <- !app_assoc.
    rewrite (parse_name_compressed (rname r) out t b t1 _ Hwn Hln Hinv En).
    set (p1 := len out + len b). set (tail := rb ++ post).
    assert (Hd : len (out ++ b ++ rr_fixed tc cw (rttl r) (len rb) ++ tail) = p1 + 10 + len tail)
      by (rewrite !len_app, len_rr_fixed; unfold p1; lia).
    rewrite Hd. destruct (p1 + 10 + len tail <? p1 + 8) eqn:E; [lia|].
    replace (out ++ b ++ rr_fixed tc cw (rttl r) (len rb) ++ tail) with ((out ++ b) ++ rr_fixed tc cw (rttl r) (len rb) ++ tail)
      by (rewrite <- !app_assoc; reflexivity).
    assert (Hp1 : p1 = len (out ++ b)) by (rewrite len_app; reflexivity). rewrite Hp1.
    destruct (rr_fixed_reads (out ++ b) tc cw (rttl r) (len rb) tail) as (_ & R2 & R4 & _). rewrite R2, R4.
    destruct (class_word_facts (rclass r) (rcf r)) as (Hcw & Hcls & Hcf). fold cw in Hcw, Hcls, Hcf.
    rewrite (N.mod_small cw) by lia. rewrite (N.mod_small (rttl r)) by lia.
    unfold tail. rewrite Prd.
    destruct (type_of_rdata_wf _ Hrd) as [_ Hno]. rewrite (ty_eqb_false _ _ Hno). rewrite Hcls, Hcf.
    f_equal. f_equal; [destruct r; reflexivity|rewrite !len_app, len_rr_fixed; lia].
  - rewrite <- app_assoc in I2. exact I2.
  - rewrite (enc_rr_shape r (wf_rdata_not_opt _ Hrd)). rewrite !len_app, !len_rr_fixed. lia.
Qed.

Theorem parse_question_wc q : wf_question q -> wc_good parse_question wc_question enc_question q.
Proof.
  intros ([Hwn Hln] & Hqt) out t bs t' post Hinv Hw. unfold wc_question in Hw.
  destruct (wc_name t (len out) (qname q)) as [b t1] eqn:En. apply pair_equal_spec in Hw. destruct Hw as [<- <-].
  destruct (wc_name_inv _ out t b t1 Hwn Hinv En) as (_ & _ & Lb & I1).
  unfold enc_question_common. fold (qclass_word (q_class q) (unicast q)).
  set (cw := qclass_word (q_class q) (unicast q)). set (tc := code_of_qtype (q_type q)).
  split; [|split].
  - unfold parse_question. rewrite <- !app_assoc.
    rewrite (parse_name_compressed (qname q) out t b t1 _ Hwn Hln Hinv En).
    set (p1 := len out + len b).
    assert (Hd : len (out ++ b ++ be_enc 2 tc ++ be_enc 2 cw ++ post) = p1 + 4 + len post)
      by (rewrite !len_app, !len_be_enc; unfold p1; lia).
    rewrite Hd. destruct (p1 + 4 + len post <? p1 + 4) eqn:E; [lia|].
    replace (out ++ b ++ be_enc 2 tc ++ be_enc 2 cw ++ post) with ((out ++ b) ++ be_enc 2 tc ++ be_enc 2 cw ++ post)
      by (rewrite <- !app_assoc; reflexivity).
    assert (Hp1 : p1 = len (out ++ b)) by (rewrite len_app; reflexivity). rewrite Hp1.
    rewrite be_at_here.
    rewrite (be_at_skip (out ++ b) _ 2) by reflexivity. rewrite (be_at_skip _ _ 0) by (rewrite len_be_enc; reflexivity).
    rewrite (be_at_head 2 cw).
    pose proof (code_of_qtype_bound _ Hqt) as Htc. fold tc in Htc.
    destruct (qclass_word_facts (q_class q) (unicast q)) as (Hcw & Hcls & Hu). fold cw in Hcw, Hcls, Hu.
    rewrite (N.mod_small tc) by (cbn; lia). rewrite (N.mod_small cw) by (cbn; lia).
    unfold tc. rewrite (code_qtype_roundtrip _ Hqt). rewrite Hcls, Hu.
    f_equal. f_equal; [destruct q; reflexivity|rewrite !len_app, !len_be_enc; lia].
  - apply TInv_app with (more := be_enc 2 tc ++ be_enc 2 cw) in I1. rewrite <- app_assoc in I1. exact I1.
  - unfold enc_question, enc_question_common. rewrite !len_app, !len_be_enc. lia.
Qed.

(* ---------- sections ---------- *)
Theorem wc_list_rt {A} (P : list byte -> N -> outcome (A * N)) (W : A -> table -> N -> list byte * table) (E : A -> list byte) :
  forall xs, Forall (wc_good P W E) xs -> forall out t bs t' post, TInv out t -> wc_list W xs t (len out) = (bs, t') ->
  parse_section P (length xs) (out ++ bs ++ post) (len out) = Ok (xs, len out + len bs) /\ TInv (out ++ bs) t' /\
  len bs <= len (List.concat (map E xs)).
Proof.
  induction xs as [|x r IH]; intros Hg out t bs t' post Hinv Hw; cbn [wc_list] in Hw.
  - injection Hw as <- <-. cbn [length parse_section map List.concat app]. rewrite app_nil_r.
    split; [f_equal; f_equal; unfold len; cbn; lia|]. split; [exact Hinv|lia].
  - destruct (W x t (len out)) as [b1 t1] eqn:E1. destruct (wc_list W r t1 (len out + len b1)) as [b2 t2] eqn:E2.
    injection Hw as <- <-.
    destruct (Forall_inv Hg out t b1 t1 (b2 ++ post) Hinv E1) as (P1 & I1 & L1).
    replace (len out + len b1) with (len (out ++ b1)) in E2 by (rewrite len_app; reflexivity).
    destruct (IH (Forall_inv_tail Hg) (out ++ b1) t1 b2 t2 post I1 E2) as (P2 & I2 & L2).
    cbn [length parse_section map List.concat]. rewrite <- app_assoc. rewrite P1.
    replace (out ++ b1 ++ b2 ++ post) with ((out ++ b1) ++ b2 ++ post) by (rewrite <- !app_assoc; reflexivity).
    replace (len out + len b1) with (len (out ++ b1)) by (rewrite len_app; reflexivity). rewrite P2.
    split; [rewrite !len_app; do 2 f_equal; lia|]. split; [rewrite app_assoc; exact I2|rewrite !len_app; lia].
Qed.

(* ---------- the whole message ---------- *)
Lemma TInv_nil out : TInv out [].
Proof. intros k p H. discriminate. Qed.

Theorem packet_roundtrip_compressed : forall p, wf_packet p ->
  parse_packet (encc_packet p) = Ok p /\ len (encc_packet p) <= len (enc_packet p).
Proof.
  intros p [Hid Hop Hrc (i & Hi & Hfl) Hext Hopt Hqs Hans Hnss Hadds (Cq & Ca & Cn & Cx)].
  set (xs := match popt p with Some o => opt_record o (hdr p) :: adds p | None => adds p end).
  assert (Hxs_len : len xs = len (adds p) + opt_count p).
  { unfold xs, opt_count. destruct (popt p); [rewrite len_cons; lia|lia]. }
  unfold encc_packet, enc_packet, enc_packet_header.
  replace ((len (adds p) mod 65536 + match popt p with Some _ => 1 | None => 0 end) mod 65536) with (len xs).
  2:{ rewrite Hxs_len. unfold opt_count in *. rewrite (N.mod_small (len (adds p))) by (destruct (popt p); lia).
      rewrite N.mod_small; [reflexivity|destruct (popt p); lia]. }
  change (write_header (hdr p) (len (qs p)) (len (ans p)) (len (nss p)) (len xs))
    with (hdr_bytes (h_id (hdr p)) (get_flags (hdr p)) (len (qs p)) (len (ans p)) (len (nss p)) (len xs)).
  set (H12 := hdr_bytes (h_id (hdr p)) (get_flags (hdr p)) (len (qs p)) (len (ans p)) (len (nss p)) (len xs)).
  assert (L12 : len H12 = 12) by apply len_hdr_bytes.
  set (bo := match opt_rr p with Some r => enc_rr r | None => [] end).
  assert (Gq : Forall (wc_good parse_question wc_question enc_question) (qs p))
    by (eapply Forall_impl; [|exact Hqs]; intros x Hx; apply parse_question_wc; exact Hx).
  assert (Grr : forall l, Forall wf_rr l -> Forall (wc_good parse_rr wc_rr enc_rr) l)
    by (intros l Hl; eapply Forall_impl; [|exact Hl]; intros x Hx; apply parse_rr_wc; exact Hx).
  destruct (wc_list wc_question (qs p) [] 12) as [bq t1] eqn:Eq.
  destruct (wc_list wc_rr (ans p) t1 (12 + len bq)) as [ba t2] eqn:Ea.
  destruct (wc_list wc_rr (nss p) t2 (12 + len bq + len ba)) as [bn t3] eqn:En.
  destruct (wc_list wc_rr (adds p) t3 (12 + len bq + len ba + len bn + len bo)) as [bx t4] eqn:Ex.
  rewrite <- L12 in Eq.
  destruct (wc_list_rt _ _ _ (qs p) Gq H12 [] bq t1 (ba ++ bn ++ bo ++ bx) (TInv_nil _) Eq) as (S1 & I1 & Lq).
  replace (12 + len bq) with (len (H12 ++ bq)) in Ea by (rewrite len_app; lia).
  destruct (wc_list_rt _ _ _ (ans p) (Grr _ Hans) (H12 ++ bq) t1 ba t2 (bn ++ bo ++ bx) I1 Ea) as (S2 & I2 & La).
  replace (12 + len bq + len ba) with (len ((H12 ++ bq) ++ ba)) in En by (rewrite !len_app; lia).
  destruct (wc_list_rt _ _ _ (nss p) (Grr _ Hnss) ((H12 ++ bq) ++ ba) t2 bn t3 (bo ++ bx) I2 En) as (S3 & I3 & Ln).
  replace (12 + len bq + len ba + len bn + len bo) with (len ((((H12 ++ bq) ++ ba) ++ bn) ++ bo)) in Ex by (rewrite !len_app; lia).
  destruct (wc_list_rt _ _ _ (adds p) (Grr _ Hadds) ((((H12 ++ bq) ++ ba) ++ bn) ++ bo) t3 bx t4 [] (TInv_app _ _ bo I3) Ex) as (S4 & _ & Lx).
  rewrite app_nil_r in S4.
  split.
  2:{ rewrite !len_app in *. lia. }
  (* the additional section as the parser sees it *)
  assert (S4' : parse_section parse_rr (length xs) ((((H12 ++ bq) ++ ba) ++ bn) ++ bo ++ bx) (len (((H12 ++ bq) ++ ba) ++ bn))
                = Ok (xs, len (((H12 ++ bq) ++ ba) ++ bn) + len bo + len bx)).
  { unfold xs, bo, opt_rr. destruct (popt p) as [o|] eqn:Eo.
    - fold (opt_record o (hdr p)). cbn [length parse_section].
      rewrite (parse_opt_record o (hdr p) _ bx (Hopt o eq_refl) Hrc).
      unfold bo, opt_rr in S4. rewrite Eo in S4. fold (opt_record o (hdr p)) in S4.
      rewrite app_assoc. rewrite <- len_app. rewrite S4.
      first [reflexivity | f_equal; f_equal; rewrite !len_app; lia | f_equal; rewrite !len_app; lia].
    - unfold bo, opt_rr in S4. rewrite Eo in S4. rewrite app_nil_r in S4. cbn [app]. rewrite S4.
      first [reflexivity | f_equal; f_equal; change (len (@nil byte)) with 0; lia]. }
  unfold parse_packet.
  pose proof (write_parse_header_low (hdr p) i (len (qs p)) (len (ans p)) (len (nss p)) (len xs) (bq ++ ba ++ bn ++ bo ++ bx)
                Hid Hop Hrc Hi Hfl) as PH.
  change (write_header (hdr p) (len (qs p)) (len (ans p)) (len (nss p)) (len xs)) with H12 in PH. rewrite PH.
  destruct (be_at_hdr (h_id (hdr p)) (get_flags (hdr p)) (len (qs p)) (len (ans p)) (len (nss p)) (len xs) (bq ++ ba ++ bn ++ bo ++ bx))
    as (_ & _ & P4 & P6 & P8 & P10). fold H12 in P4, P6, P8, P10.
  unfold peek_questions, peek_answers, peek_name_servers, peek_additional_records, peek16. rewrite P4, P6, P8, P10.
  rewrite !N.mod_small by lia.
  unfold len at 1. rewrite Nat2N.id. rewrite L12 in S1. rewrite S1.
  unfold len at 1. rewrite Nat2N.id.
  rewrite len_app, L12 in S2. rewrite <- !app_assoc in S2. rewrite S2.
  unfold len at 1. rewrite Nat2N.id.
  rewrite !len_app, L12 in S3. rewrite <- !app_assoc in S3. rewrite S3.
  unfold len at 1. rewrite Nat2N.id.
  rewrite !len_app, L12 in S4'. rewrite <- !app_assoc in S4'. rewrite S4'.
  unfold xs. destruct (popt p) as [o|] eqn:Eo.
  - cbn [take_first_opt opt_record rdata_of type_of_rdata]. change (ty_eqb (TY M_OPT) (TY M_OPT)) with true. cbv iota.
    unfold opt_record. cbn [optv_of rttl rdata_of].
    destruct (Hopt o eq_refl) as (_ & Hv & _ & _).
    destruct (ttl_facts (h_rcode (hdr p)) (o_version o) Hrc Hv) as (_ & _ & T3 & _).
    unfold extract_rcode. cbn [low_header h_rcode h_id h_opcode h_flags].
    change (encode_ttl o (hdr p)) with (ttl_of (h_rcode (hdr p)) (o_version o)). rewrite T3.
    f_equal. destruct p as [[hid hop hrc hfl] po q a n x]. cbn in *. subst po. destruct o. reflexivity.
  - rewrite (take_first_opt_none _ Hadds). f_equal. unfold low_header. rewrite (low_rcode_small _ (Hext eq_refl)).
    destruct p as [[hid hop hrc hfl] po q a n x]. cbn in *. subst po. reflexivity.
Qed.

(* C03 in the form the property states it: both forms build, and Packet::parse cannot tell them apart *)
Theorem compressed_equals_plain : forall p, wf_packet p ->
  exists b bc, write_packet p = Ok b /\ write_packet_compressed p = Ok bc /\
               parse_packet bc = parse_packet b /\ parse_packet b = Ok p /\ len bc <= len b.
Proof.
  intros p Hw. exists (enc_packet p), (encc_packet p). unfold write_packet, write_packet_compressed.
  rewrite (wf_packet_writable p Hw). destruct (packet_roundtrip_compressed p Hw) as [R L].
  rewrite R, (packet_roundtrip p Hw). repeat split; try reflexivity. exact L.
Qed.

(* ---------- C07: the table stays sound across the whole message, so every pointer that is emitted is a valid one ---------- *)
Theorem compressed_tables_sound : forall p, wf_packet p ->
  let h := enc_packet_header p in
  let bo := match opt_rr p with Some r => enc_rr r | None => [] end in
  forall bq t1 ba t2 bn t3 bx t4,
  wc_list wc_question (qs p) [] 12 = (bq, t1) ->
  wc_list wc_rr (ans p) t1 (12 + len bq) = (ba, t2) ->
  wc_list wc_rr (nss p) t2 (12 + len bq + len ba) = (bn, t3) ->
  wc_list wc_rr (adds p) t3 (12 + len bq + len ba + len bn + len bo) = (bx, t4) ->
  encc_packet p = h ++ bq ++ ba ++ bn ++ bo ++ bx /\
  TInv (h ++ bq) t1 /\ TInv (h ++ bq ++ ba) t2 /\ TInv (h ++ bq ++ ba ++ bn) t3 /\ TInv (h ++ bq ++ ba ++ bn ++ bo ++ bx) t4.
Proof.
  intros p [Hid Hop Hrc (i & Hi & Hfl) Hext Hopt Hqs Hans Hnss Hadds (Cq & Ca & Cn & Cx)] h bo bq t1 ba t2 bn t3 bx t4 Eq Ea En Ex.
  assert (L12 : len h = 12) by (unfold h, enc_packet_header, write_header; apply len_hdr_bytes).
  assert (Gq : Forall (wc_good parse_question wc_question enc_question) (qs p))
    by (eapply Forall_impl; [|exact Hqs]; intros x Hx; apply parse_question_wc; exact Hx).
  assert (Grr : forall l, Forall wf_rr l -> Forall (wc_good parse_rr wc_rr enc_rr) l)
    by (intros l Hl; eapply Forall_impl; [|exact Hl]; intros x Hx; apply parse_rr_wc; exact Hx).
  split; [unfold encc_packet; fold h bo; rewrite Eq, Ea, En, Ex; reflexivity|].
  rewrite <- L12 in Eq.
  destruct (wc_list_rt _ _ _ (qs p) Gq h [] bq t1 [] (TInv_nil _) Eq) as (_ & I1 & _).
  replace (12 + len bq) with (len (h ++ bq)) in Ea by (rewrite len_app; lia).
  destruct (wc_list_rt _ _ _ (ans p) (Grr _ Hans) (h ++ bq) t1 ba t2 [] I1 Ea) as (_ & I2 & _).
  replace (12 + len bq + len ba) with (len ((h ++ bq) ++ ba)) in En by (rewrite !len_app; lia).
  destruct (wc_list_rt _ _ _ (nss p) (Grr _ Hnss) ((h ++ bq) ++ ba) t2 bn t3 [] I2 En) as (_ & I3 & _).
  replace (12 + len bq + len ba + len bn + len bo) with (len ((((h ++ bq) ++ ba) ++ bn) ++ bo)) in Ex by (rewrite !len_app; lia).
  destruct (wc_list_rt _ _ _ (adds p) (Grr _ Hadds) ((((h ++ bq) ++ ba) ++ bn) ++ bo) t3 bx t4 [] (TInv_app _ _ bo I3) Ex) as (_ & I4 & _).
  rewrite <- !app_assoc in *. tauto.
Qed.

(* types whose specification forbids compression write every RDATA name in full and leave the table alone *)
Theorem forbidden_rdata_plain : forall m vs t off, forbids_compression m = true ->
  wc_rdata (RD m vs) t off = (enc_rdata (RD m vs), t).
Proof.
  intros m vs t off H. pose proof (forbidden_never_compress m vs H) as Hc.
  destruct m; try discriminate; cbn [wc_rdata enc_rdata]; apply wc_layout_plain; exact Hc.
Qed.

(* a name written at a recordable offset is written as a two-byte pointer the next time, whatever was written in between *)
Theorem repeated_name_is_pointer : forall l rest t off bs t', wc_name t off (l :: rest) = (bs, t') -> off <= 16383 ->
  exists q, lookup t' (l :: rest) = Some q /\
  forall t'' off2, (forall k p, lookup t' k = Some p -> lookup t'' k = Some p) ->
    wc_name t'' off2 (l :: rest) = (be_enc 2 (N.lor (q mod 65536) 49152), t'').
Proof.
  intros l rest t off bs t' Hw Hoff. pose proof (written_name_recorded l rest t off bs t' Hw (or_introl Hoff)) as Hr.
  destruct (lookup t' (l :: rest)) as [q|] eqn:E; [|congruence]. exists q. split; [reflexivity|].
  intros t'' off2 Hmono. cbn [wc_name]. rewrite (Hmono _ _ E). reflexivity.
Qed.
(* the table only grows while a message is written *)
Lemma wc_fld_table_grows f v t off b t' k p : wc_fld f v t off = (b, t') -> lookup t k = Some p -> lookup t' k = Some p.
Proof.
  intros Hw Hk. destruct f as [n| |[|]| | |c]; destruct v as [x|ls|bs|its]; cbn [wc_fld] in Hw; try (injection Hw as _ <-; exact Hk).
  eapply wc_name_table_grows; eassumption.
Qed.
Lemma wc_layout_table_grows : forall lay vs t off b t' k p, wc_layout lay vs t off = (b, t') -> lookup t k = Some p -> lookup t' k = Some p.
Proof.
  induction lay as [|f r IH]; intros vs t off b t' k p Hw Hk; destruct vs as [|v vr]; cbn [wc_layout] in Hw; try (injection Hw as _ <-; exact Hk).
  destruct (wc_fld f v t off) as [b1 t1] eqn:E1. destruct (wc_layout r vr t1 (off + len b1)) as [b2 t2] eqn:E2. injection Hw as _ <-.
  eapply IH; [exact E2|]. eapply wc_fld_table_grows; eassumption.
Qed.
Lemma wc_rr_table_grows r t off b t' k p : wc_rr r t off = (b, t') -> lookup t k = Some p -> lookup t' k = Some p.
Proof.
  unfold wc_rr. intros Hw Hk. destruct (wc_name t off (rname r)) as [b1 t1] eqn:E1.
  destruct (wc_rdata (rdata_of r) t1 (off + len b1 + 10)) as [rb t2] eqn:E2. apply pair_equal_spec in Hw. destruct Hw as [_ <-].
  pose proof (wc_name_table_grows _ _ _ _ _ k p E1 Hk) as H1.
  destruct (rdata_of r) as [m vs|c bs|ty]; cbn [wc_rdata] in E2; try (injection E2 as _ <-; exact H1).
  destruct m; try (eapply wc_layout_table_grows; eassumption). injection E2 as _ <-. exact H1.
Qed.
Lemma wc_list_table_grows {A} (W : A -> table -> N -> list byte * table) :
  (forall x t off b t' k p, W x t off = (b, t') -> lookup t k = Some p -> lookup t' k = Some p) ->
  forall xs t off b t' k p, wc_list W xs t off = (b, t') -> lookup t k = Some p -> lookup t' k = Some p.
Proof.
  intros HW. induction xs as [|x r IH]; intros t off b t' k p Hw Hk; cbn [wc_list] in Hw; [injection Hw as _ <-; exact Hk|].
  destruct (W x t off) as [b1 t1] eqn:E1. destruct (wc_list W r t1 (off + len b1)) as [b2 t2] eqn:E2. injection Hw as _ <-.
  eapply IH; [exact E2|]. eapply HW; eassumption.
Qed.
