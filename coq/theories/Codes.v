(* Type / class / opcode / rcode code tables, transliterated from simple-dns/src/dns/mod.rs and
   the rdata_enum! macro (rdata/macros.rs, rdata/mod.rs). No proofs here. *)
Require Import SD.Base.
From Coq Require Import String.
Open Scope N_scope.

(* the variants of `TYPE` other than Unknown, in the order of rdata_enum! (NULL last) *)
Inductive mnem :=
M_A | M_AAAA | M_NS | M_MD | M_CNAME | M_MB | M_MG | M_MR | M_PTR | M_MF | M_HINFO | M_MINFO | M_MX | M_TXT | M_SOA | M_WKS | M_SRV | M_RP | M_AFSDB | M_ISDN | M_RouteThrough | M_NAPTR | M_NSAP | M_NSAP_PTR | M_LOC | M_OPT | M_CAA | M_SVCB | M_HTTPS | M_EUI48 | M_EUI64 | M_CERT | M_ZONEMD | M_KX | M_IPSECKEY | M_DNSKEY | M_RRSIG | M_DS | M_NSEC | M_DHCID | M_NULL.
Definition all_mnems : list mnem := [M_A; M_AAAA; M_NS; M_MD; M_CNAME; M_MB; M_MG; M_MR; M_PTR; M_MF; M_HINFO; M_MINFO; M_MX; M_TXT; M_SOA; M_WKS; M_SRV; M_RP; M_AFSDB; M_ISDN; M_RouteThrough; M_NAPTR; M_NSAP; M_NSAP_PTR; M_LOC; M_OPT; M_CAA; M_SVCB; M_HTTPS; M_EUI48; M_EUI64; M_CERT; M_ZONEMD; M_KX; M_IPSECKEY; M_DNSKEY; M_RRSIG; M_DS; M_NSEC; M_DHCID; M_NULL].

(* `impl RR for X { const TYPE_CODE }` *)
Definition code_of_mnem (m : mnem) : N :=
  match m with
  | M_A => 1
  | M_AAAA => 28
  | M_NS => 2
  | M_MD => 3
  | M_CNAME => 5
  | M_MB => 7
  | M_MG => 8
  | M_MR => 9
  | M_PTR => 12
  | M_MF => 4
  | M_HINFO => 13
  | M_MINFO => 14
  | M_MX => 15
  | M_TXT => 16
  | M_SOA => 6
  | M_WKS => 11
  | M_SRV => 33
  | M_RP => 17
  | M_AFSDB => 18
  | M_ISDN => 20
  | M_RouteThrough => 21
  | M_NAPTR => 35
  | M_NSAP => 22
  | M_NSAP_PTR => 23
  | M_LOC => 29
  | M_OPT => 41
  | M_CAA => 257
  | M_SVCB => 64
  | M_HTTPS => 65
  | M_EUI48 => 108
  | M_EUI64 => 109
  | M_CERT => 37
  | M_ZONEMD => 63
  | M_KX => 36
  | M_IPSECKEY => 45
  | M_DNSKEY => 48
  | M_RRSIG => 46
  | M_DS => 43
  | M_NSEC => 47
  | M_DHCID => 49
  | M_NULL => 10
  end.

(* the match arms of `impl From<u16> for TYPE` *)
Definition mnem_of_code (c : N) : option mnem :=
  match c with
  | 1 => Some M_A
  | 28 => Some M_AAAA
  | 2 => Some M_NS
  | 3 => Some M_MD
  | 5 => Some M_CNAME
  | 7 => Some M_MB
  | 8 => Some M_MG
  | 9 => Some M_MR
  | 12 => Some M_PTR
  | 4 => Some M_MF
  | 13 => Some M_HINFO
  | 14 => Some M_MINFO
  | 15 => Some M_MX
  | 16 => Some M_TXT
  | 6 => Some M_SOA
  | 11 => Some M_WKS
  | 33 => Some M_SRV
  | 17 => Some M_RP
  | 18 => Some M_AFSDB
  | 20 => Some M_ISDN
  | 21 => Some M_RouteThrough
  | 35 => Some M_NAPTR
  | 22 => Some M_NSAP
  | 23 => Some M_NSAP_PTR
  | 29 => Some M_LOC
  | 41 => Some M_OPT
  | 257 => Some M_CAA
  | 64 => Some M_SVCB
  | 65 => Some M_HTTPS
  | 108 => Some M_EUI48
  | 109 => Some M_EUI64
  | 37 => Some M_CERT
  | 63 => Some M_ZONEMD
  | 36 => Some M_KX
  | 45 => Some M_IPSECKEY
  | 48 => Some M_DNSKEY
  | 46 => Some M_RRSIG
  | 43 => Some M_DS
  | 47 => Some M_NSEC
  | 49 => Some M_DHCID
  | 10 => Some M_NULL
  | _ => None
  end.

(* Debug name of the variant *)
Definition mnem_name (m : mnem) : string :=
  match m with
  | M_A => "A"
  | M_AAAA => "AAAA"
  | M_NS => "NS"
  | M_MD => "MD"
  | M_CNAME => "CNAME"
  | M_MB => "MB"
  | M_MG => "MG"
  | M_MR => "MR"
  | M_PTR => "PTR"
  | M_MF => "MF"
  | M_HINFO => "HINFO"
  | M_MINFO => "MINFO"
  | M_MX => "MX"
  | M_TXT => "TXT"
  | M_SOA => "SOA"
  | M_WKS => "WKS"
  | M_SRV => "SRV"
  | M_RP => "RP"
  | M_AFSDB => "AFSDB"
  | M_ISDN => "ISDN"
  | M_RouteThrough => "RouteThrough"
  | M_NAPTR => "NAPTR"
  | M_NSAP => "NSAP"
  | M_NSAP_PTR => "NSAP_PTR"
  | M_LOC => "LOC"
  | M_OPT => "OPT"
  | M_CAA => "CAA"
  | M_SVCB => "SVCB"
  | M_HTTPS => "HTTPS"
  | M_EUI48 => "EUI48"
  | M_EUI64 => "EUI64"
  | M_CERT => "CERT"
  | M_ZONEMD => "ZONEMD"
  | M_KX => "KX"
  | M_IPSECKEY => "IPSECKEY"
  | M_DNSKEY => "DNSKEY"
  | M_RRSIG => "RRSIG"
  | M_DS => "DS"
  | M_NSEC => "NSEC"
  | M_DHCID => "DHCID"
  | M_NULL => "NULL"
  end.

Definition mnem_eqb (a b : mnem) : bool := code_of_mnem a =? code_of_mnem b.

Inductive ty := TY (m : mnem) | TUnknown (c : N).
(* impl From<u16> for TYPE *)
Definition type_of_code (c : N) : ty := match mnem_of_code c with Some m => TY m | None => TUnknown c end.
(* impl From<TYPE> for u16 *)
Definition code_of_type (t : ty) : N := match t with TY m => code_of_mnem m | TUnknown c => c end.
(* derived PartialEq on TYPE *)
Definition ty_eqb (a b : ty) : bool :=
  match a, b with
  | TY m, TY m' => mnem_eqb m m'
  | TUnknown c, TUnknown c' => c =? c'
  | _, _ => false
  end.

Inductive class := IN | CS | CH | HS | NONE.
Definition code_of_class (c : class) : N := match c with IN => 1 | CS => 2 | CH => 3 | HS => 4 | NONE => 254 end.
(* impl TryFrom<u16> for CLASS *)
Definition class_of_code (v : N) : outcome class :=
  match v with 1 => Ok IN | 2 => Ok CS | 3 => Ok CH | 4 => Ok HS | 254 => Ok NONE | _ => Err (InvalidClass v) end.
Definition class_eqb (a b : class) : bool := code_of_class a =? code_of_class b.

Inductive qclass := QC (c : class) | QC_ANY.
Definition qclass_of_code (v : N) : outcome qclass :=
  match v with 255 => Ok QC_ANY | _ => match class_of_code v with Ok c => Ok (QC c) | Err e => Err e | Panic s => Panic s | OutOfFuel => OutOfFuel end end.
Definition code_of_qclass (q : qclass) : N := match q with QC c => code_of_class c | QC_ANY => 255 end.

Inductive qtype := QT (t : ty) | QT_IXFR | QT_AXFR | QT_MAILB | QT_MAILA | QT_ANY.
(* impl TryFrom<u16> for QTYPE *)
Definition qtype_of_code (v : N) : outcome qtype :=
  match v with
  | 251 => Ok QT_IXFR | 252 => Ok QT_AXFR | 253 => Ok QT_MAILB | 254 => Ok QT_MAILA | 255 => Ok QT_ANY
  | _ => match type_of_code v with TUnknown _ => Err (InvalidQType v) | t => Ok (QT t) end
  end.
Definition code_of_qtype (q : qtype) : N :=
  match q with QT t => code_of_type t | QT_IXFR => 251 | QT_AXFR => 252 | QT_MAILB => 253 | QT_MAILA => 254 | QT_ANY => 255 end.

(* ResourceRecord::match_qclass / match_qtype, on the record's class and RData::type_code() *)
Definition match_qclass (rc : class) (q : qclass) : bool :=
  match q with QC c => class_eqb c rc | QC_ANY => true end.
Definition match_qtype (rt : ty) (q : qtype) : bool :=
  match q with
  | QT_ANY => true
  | QT_IXFR => false
  | QT_AXFR => true
  | QT_MAILB => ty_eqb rt (TY M_MR) || ty_eqb rt (TY M_MB) || ty_eqb rt (TY M_MG)
  | QT_MAILA => ty_eqb rt (TY M_MX)
  | QT t => ty_eqb t rt
  end.

(* OPCODE: named discriminants, Reserved takes the next one (6) *)
Inductive opcode := StandardQuery | InverseQuery | ServerStatusRequest | Notify | Update | OpReserved.
Definition opcode_of_code (c : N) : opcode :=
  match c with 0 => StandardQuery | 1 => InverseQuery | 2 => ServerStatusRequest | 4 => Notify | 5 => Update | _ => OpReserved end.
(* `self.opcode as u16` *)
Definition opcode_disc (o : opcode) : N :=
  match o with StandardQuery => 0 | InverseQuery => 1 | ServerStatusRequest => 2 | Notify => 4 | Update => 5 | OpReserved => 6 end.
Definition all_named_opcodes := [StandardQuery; InverseQuery; ServerStatusRequest; Notify; Update].

Inductive rcode := NoError | FormatError | ServerFailure | NameError | NotImplemented | Refused
 | YXDOMAIN | YXRRSET | NXRRSET | NOTAUTH | NOTZONE | BADVERS | RcReserved.
Definition rcode_of_code (c : N) : rcode :=
  match c with
  | 0 => NoError | 1 => FormatError | 2 => ServerFailure | 3 => NameError | 4 => NotImplemented | 5 => Refused
  | 6 => YXDOMAIN | 7 => YXRRSET | 8 => NXRRSET | 9 => NOTAUTH | 10 => NOTZONE | 16 => BADVERS | _ => RcReserved end.
(* `self.response_code as u16`: Reserved follows BADVERS = 16 *)
Definition rcode_disc (r : rcode) : N :=
  match r with
  | NoError => 0 | FormatError => 1 | ServerFailure => 2 | NameError => 3 | NotImplemented => 4 | Refused => 5
  | YXDOMAIN => 6 | YXRRSET => 7 | NXRRSET => 8 | NOTAUTH => 9 | NOTZONE => 10 | BADVERS => 16 | RcReserved => 17 end.
Definition all_named_rcodes := [NoError; FormatError; ServerFailure; NameError; NotImplemented; Refused;
  YXDOMAIN; YXRRSET; NXRRSET; NOTAUTH; NOTZONE; BADVERS].

(* ---- specification side: IANA numbers, written from the registry, not from the code ---- *)
Definition iana_type (m : mnem) : N :=
  match m with
  | M_A => 1 | M_NS => 2 | M_MD => 3 | M_MF => 4 | M_CNAME => 5 | M_SOA => 6 | M_MB => 7 | M_MG => 8 | M_MR => 9
  | M_NULL => 10 | M_WKS => 11 | M_PTR => 12 | M_HINFO => 13 | M_MINFO => 14 | M_MX => 15 | M_TXT => 16
  | M_RP => 17 | M_AFSDB => 18 | M_ISDN => 20 | M_RouteThrough => 21 | M_NSAP => 22 | M_NSAP_PTR => 23
  | M_AAAA => 28 | M_LOC => 29 | M_SRV => 33 | M_NAPTR => 35 | M_KX => 36 | M_CERT => 37 | M_OPT => 41
  | M_DS => 43 | M_IPSECKEY => 45 | M_RRSIG => 46 | M_NSEC => 47 | M_DNSKEY => 48 | M_DHCID => 49
  | M_ZONEMD => 63 | M_SVCB => 64 | M_HTTPS => 65 | M_EUI48 => 108 | M_EUI64 => 109 | M_CAA => 257
  end.
Definition iana_class (c : class) : N := match c with IN => 1 | CS => 2 | CH => 3 | HS => 4 | NONE => 254 end.
