(* Packet-level lemmas: safety of Packet::parse (C01), framing (C05), shapes of parsed values *)
Require Import SD.Base SD.BaseProofs SD.Sweep SD.Codes SD.CodesProofs SD.Header SD.HeaderProofs SD.Name SD.NameProofs SD.RData SD.RDataProofs SD.Packet.
From Coq Require Import ZArith ZifyN ZifyNat ZifyBool.
Ltac Zify.zify_post_hook ::= Z.div_mod_to_equations.

Lemma len_firstn (d : list byte) n : n <= len d -> len (firstn (N.to_nat n) d) = n.
Proof. intros H. unfold len in *. rewrite firstn_length. lia. Qed.

Lemma be_at_firstn d n p k : p + N.of_nat k <= n -> n <= len d -> be_at (firstn (N.to_nat n) d) p k = be_at d p k.
Proof.
  intros H1 H2. unfold be_at, bytes_at. rewrite len_firstn by exact H2.
  destruct (p + N.of_nat k <=? n) eqn:E; [|lia]. destruct (p + N.of_nat k <=? len d) eqn:E2; [|lia].
  do 2 f_equal. rewrite skipn_firstn_comm. rewrite firstn_firstn. f_equal. lia.
Qed.

(* ---- OPT ---- *)
Lemma parse_opt_safe d p : p <= len d ->
  match parse_opt d p with
  | Panic _ => False | OutOfFuel => False | Err _ => True
  | Ok (vs, p') => p + 10 <= p' <= len d /\ exists u v c, vs = [V_int u; V_int v; V_items c]
  end.
Proof.
  intros Hp. unfold parse_opt. destruct (len d <? p + 10) eqn:E; [exact I|].
  destruct (be_at_some d (p + 2) 2) as (u & -> & _); [cbn; lia|].
  destruct (be_at_some d (p + 4) 4) as (t & -> & _); [cbn; lia|].
  pose proof (parse_items_safe (S (length d)) I_optcode d (p + 10) None ltac:(lia)) as H.
  assert (Hf : (N.to_nat (len d - (p + 10)) < S (length d))%nat) by (unfold len; lia). specialize (H Hf).
  destruct (parse_items (S (length d)) I_optcode d (p + 10) None) as [[c e]|e|s|]; cbn in *; auto.
  split; [lia|]. eauto.
Qed.

Lemma parse_rest_shape d p vs p' : parse_layout [F_rest] d p = Ok (vs, p') -> exists bs, vs = [V_bytes bs].
Proof.
  cbn [parse_layout parse_fld]. destruct (bytes_at d p (len d - p)) as [bs|]; [|discriminate].
  destruct (p <=? len d); [|discriminate]. intros H. injection H as <- <-. eauto.
Qed.

(* ---- RData::parse ---- *)
Definition opt_shape (rd : rdata) : Prop :=
  type_of_rdata rd = TY M_OPT -> exists u v c, rd = RD M_OPT [V_int u; V_int v; V_items c].

Lemma mnem_of_code_code c m : mnem_of_code c = Some m -> c < 65536 -> code_of_mnem m = c.
Proof.
  intros H Hc. pose proof (type_code_roundtrip c Hc) as R. unfold type_of_code in R. rewrite H in R. exact R.
Qed.

Lemma parse_rdata_typed_safe d p t : p <= len d -> ty_eqb t (TY M_OPT) = false ->
  (forall c, t = TUnknown c -> mnem_of_code c = None) ->
  match parse_rdata_typed d p t with
  | Panic _ => False | OutOfFuel => False | Err _ => True
  | Ok (rd, p') => p <= p' <= len d /\ type_of_rdata rd = t
  end.
Proof.
  intros Hp Ht Hu. destruct t as [m|c].
  - destruct m; try (cbn [parse_rdata_typed];
      match goal with |- context [parse_typed ?m d p] =>
        pose proof (parse_typed_safe m d p Hp) as H; destruct (parse_typed m d p) as [[vs e]|e|s|]; cbn in *; auto end).
    + vm_compute in Ht. discriminate.
    + cbn [parse_rdata_typed]. pose proof (parse_layout_safe [F_rest] d p Hp) as H.
      destruct (parse_layout [F_rest] d p) as [[vs e]|e|s|] eqn:E; cbn in *; auto.
      destruct (parse_rest_shape _ _ _ _ E) as (bs & ->). cbn. split; [lia|reflexivity].
  - cbn [parse_rdata_typed]. pose proof (parse_layout_safe [F_rest] d p Hp) as H.
    destruct (parse_layout [F_rest] d p) as [[vs e]|e|s|] eqn:E; cbn in *; auto.
    destruct (parse_rest_shape _ _ _ _ E) as (bs & ->). cbn. split; [lia|].
    unfold type_of_code. rewrite (Hu c eq_refl). reflexivity.
Qed.

Lemma type_of_code_unknown tc c : type_of_code tc = TUnknown c -> mnem_of_code c = None.
Proof. unfold type_of_code. destruct (mnem_of_code tc) eqn:E; [discriminate|]. intros H. injection H as <-. exact E. Qed.

Lemma parse_rdata_safe d p : p <= len d ->
  match parse_rdata d p with
  | Panic _ => False | OutOfFuel => False | Err _ => True
  | Ok (rd, p') => p + 10 <= p' <= len d /\ opt_shape rd
  end.
Proof.
  intros Hp. unfold parse_rdata. destruct (len d <? p + 10) eqn:E; [exact I|].
  destruct (be_at_some d p 2) as (tc & -> & Htc); [cbn; lia|].
  destruct (be_at_some d (p + 8) 2) as (rdlen & -> & Hrl); [cbn; lia|].
  destruct (ty_eqb (type_of_code tc) (TY M_OPT)) eqn:Et.
  - destruct (len d <? p + rdlen + 10) eqn:E2; [exact I|].
    pose proof (parse_opt_safe (firstn (N.to_nat (p + rdlen + 10)) d) p) as H.
    rewrite len_firstn in H by lia. specialize (H ltac:(lia)).
    destruct (parse_opt (firstn (N.to_nat (p + rdlen + 10)) d) p) as [[vs e]|e|s|]; auto.
    destruct H as (Hb & u & v & c & ->). split; [lia|]. intros _. eauto.
  - destruct (rdlen =? 0) eqn:E0.
    + split; [lia|]. intros H. cbn in H. rewrite H in Et. vm_compute in Et. discriminate.
    + destruct (len d <? p + 10 + rdlen) eqn:E2; [exact I|].
      pose proof (parse_rdata_typed_safe (firstn (N.to_nat (p + 10 + rdlen)) d) (p + 10) (type_of_code tc)) as H.
      rewrite len_firstn in H by lia. specialize (H ltac:(lia) Et (type_of_code_unknown tc)).
      destruct (parse_rdata_typed (firstn (N.to_nat (p + 10 + rdlen)) d) (p + 10) (type_of_code tc)) as [[rd e]|e|s|]; auto.
      destruct H as [Hb Hty]. split; [lia|]. intros Ho. rewrite Hty in Ho. rewrite Ho in Et. vm_compute in Et. discriminate.
Qed.

Lemma land15_lt w : w < 65536 -> N.land w 32767 < 65536.
Proof.
  intros H. assert (G : forallb (fun w => N.land w 32767 <? 65536) (upto 65536) = true) by (vm_compute; reflexivity).
  pose proof (sweep _ _ G w H) as E. cbv beta in E. lia.
Qed.

(* ---- ResourceRecord::parse, Question::parse ---- *)
Definition rr_shape (r : rr) : Prop := opt_shape (rdata_of r).

Lemma parse_rr_safe d p : p <= len d ->
  match parse_rr d p with
  | Panic _ => False | OutOfFuel => False | Err _ => True
  | Ok (r, p') => p + 11 <= p' <= len d /\ rr_shape r
  end.
Proof.
  intros Hp. unfold parse_rr.
  destruct (parse_name d p) as [[name p1]|e|s|] eqn:En; auto.
  2:{ eapply parse_name_no_panic; eauto. } 2:{ eapply parse_name_terminates; eauto. }
  apply parse_name_cursor in En.
  destruct (len d <? p1 + 8) eqn:E; [exact I|].
  destruct (be_at_some d (p1 + 2) 2) as (cv & -> & Hcv); [cbn; lia|]. change (256 ^ N.of_nat 2) with 65536 in Hcv.
  destruct (be_at_some d (p1 + 4) 4) as (ttl & -> & _); [cbn; lia|].
  pose proof (parse_rdata_safe d p1 ltac:(lia)) as H.
  destruct (parse_rdata d p1) as [[rd p2]|e|s|]; auto. destruct H as [Hb Hs].
  destruct (ty_eqb (type_of_rdata rd) (TY M_OPT)); [split; [lia|exact Hs]|].
  pose proof (class_code_roundtrip (N.land cv 32767) (land15_lt cv Hcv)) as Hc.
  destruct (class_of_code (N.land cv 32767)) as [c|e|s|] eqn:Ec; auto; try contradiction.
  split; [lia|exact Hs].
Qed.

Lemma qtype_of_code_total c : c < 65536 ->
  (exists q, qtype_of_code c = Ok q) \/ (exists e, qtype_of_code c = Err e).
Proof.
  intros H. pose proof (qtype_code_roundtrip c H) as R.
  destruct (qtype_of_code c) as [q|e|s|]; try contradiction; eauto.
Qed.
Lemma qclass_of_code_total c : c < 65536 ->
  (exists q, qclass_of_code c = Ok q) \/ (exists e, qclass_of_code c = Err e).
Proof.
  intros H. pose proof (qclass_code_roundtrip c H) as R.
  destruct (qclass_of_code c) as [q|e|s|]; try contradiction; eauto.
Qed.

Lemma parse_question_safe d p : p <= len d ->
  match parse_question d p with
  | Panic _ => False | OutOfFuel => False | Err _ => True
  | Ok (_, p') => p + 5 <= p' <= len d
  end.
Proof.
  intros Hp. unfold parse_question.
  destruct (parse_name d p) as [[name p1]|e|s|] eqn:En; auto.
  2:{ eapply parse_name_no_panic; eauto. } 2:{ eapply parse_name_terminates; eauto. }
  apply parse_name_cursor in En.
  destruct (len d <? p1 + 4) eqn:E; [exact I|].
  destruct (be_at_some d p1 2) as (qt & -> & Hqt); [cbn; lia|]. change (256 ^ N.of_nat 2) with 65536 in Hqt.
  destruct (be_at_some d (p1 + 2) 2) as (qc & -> & Hqc); [cbn; lia|]. change (256 ^ N.of_nat 2) with 65536 in Hqc.
  destruct (qtype_of_code_total qt Hqt) as [(q & ->)|(e & ->)]; [|exact I].
  destruct (qclass_of_code_total (N.land qc 32767) (land15_lt qc Hqc)) as [(c & ->)|(e & ->)]; [|exact I].
  lia.
Qed.

(* ---- sections ---- *)
Lemma parse_section_safe {A} (P : list byte -> N -> outcome (A * N)) (Q : A -> Prop) (step : N) :
  (forall d p, p <= len d -> match P d p with
                             | Panic _ => False | OutOfFuel => False | Err _ => True
                             | Ok (x, p') => p + step <= p' <= len d /\ Q x end) ->
  forall count d p, p <= len d ->
  match parse_section P count d p with
  | Panic _ => False | OutOfFuel => False | Err _ => True
  | Ok (xs, p') => p + step * N.of_nat count <= p' <= len d /\ Forall Q xs /\ length xs = count
  end.
Proof.
  intros HP. induction count as [|k IH]; intros d p Hp; cbn [parse_section].
  - split; [lia|]. split; [constructor|reflexivity].
  - specialize (HP d p Hp). destruct (P d p) as [[x p']|e|s|]; auto. destruct HP as [Hb Hq].
    specialize (IH d p' ltac:(lia)). destruct (parse_section P k d p') as [[xs p'']|e|s|]; auto.
    destruct IH as (Hb2 & Hf & Hl). split; [lia|]. split; [constructor; assumption|cbn; lia].
Qed.

Lemma parse_questions_safe count d p : p <= len d ->
  match parse_section parse_question count d p with
  | Panic _ => False | OutOfFuel => False | Err _ => True
  | Ok (xs, p') => p + 5 * N.of_nat count <= p' <= len d /\ length xs = count
  end.
Proof.
  intros Hp. pose proof (parse_section_safe parse_question (fun _ => True) 5) as H.
  specialize (H (fun d p Hp => match parse_question d p as o return
      (match o with Panic _ => False | OutOfFuel => False | Err _ => True | Ok (_, p') => p + 5 <= p' <= len d end ->
       match o with Panic _ => False | OutOfFuel => False | Err _ => True | Ok (x, p') => p + 5 <= p' <= len d /\ True end)
      with Ok (x, p') => fun h => conj h I | Err _ => fun h => h | Panic _ => fun h => h | OutOfFuel => fun h => h end
      (parse_question_safe d p Hp)) count d p Hp).
  destruct (parse_section parse_question count d p) as [[xs p']|e|s|]; auto. tauto.
Qed.

Lemma parse_rrs_safe count d p : p <= len d ->
  match parse_section parse_rr count d p with
  | Panic _ => False | OutOfFuel => False | Err _ => True
  | Ok (xs, p') => p + 11 * N.of_nat count <= p' <= len d /\ Forall rr_shape xs /\ length xs = count
  end.
Proof. intros Hp. apply (parse_section_safe parse_rr rr_shape 11 parse_rr_safe). exact Hp. Qed.

(* ---- Packet::parse ---- *)
Lemma take_first_opt_shape : forall l o l', Forall rr_shape l -> take_first_opt l = Some (o, l') ->
  exists u v c, rdata_of o = RD M_OPT [V_int u; V_int v; V_items c].
Proof.
  induction l as [|x r IH]; intros o l' Hf H; cbn [take_first_opt] in H; [discriminate|].
  destruct (ty_eqb (type_of_rdata (rdata_of x)) (TY M_OPT)) eqn:E.
  - injection H as <- <-. apply ty_eqb_eq in E. exact (Forall_inv Hf E).
  - destruct (take_first_opt r) as [[o' r']|] eqn:Er; [|discriminate]. injection H as <- <-.
    eapply IH; [exact (Forall_inv_tail Hf)|reflexivity].
Qed.

Theorem parse_packet_safe : forall d,
  match parse_packet d with Panic _ => False | OutOfFuel => False | _ => True end.
Proof.
  intros d. unfold parse_packet.
  destruct (parse_header d) as [h|e|s|] eqn:Eh; auto.
  2:{ eapply parse_header_no_panic; eauto. }
  2:{ unfold parse_header in Eh. destruct (len d <? 12); [discriminate|].
      destruct (be_at d 2 2); [|discriminate]. destruct (be_at d 0 2); [|discriminate]. destruct (negb _); discriminate. }
  assert (Hl : 12 <= len d).
  { unfold parse_header in Eh. destruct (len d <? 12) eqn:E; [discriminate|lia]. }
  unfold peek_questions, peek_answers, peek_name_servers, peek_additional_records, peek16.
  destruct (be_at_some d 4 2) as (qd & -> & _); [cbn; lia|].
  destruct (be_at_some d 6 2) as (an & -> & _); [cbn; lia|].
  destruct (be_at_some d 8 2) as (ns & -> & _); [cbn; lia|].
  destruct (be_at_some d 10 2) as (ar & -> & _); [cbn; lia|].
  pose proof (parse_questions_safe (N.to_nat qd) d 12 Hl) as H1.
  destruct (parse_section parse_question (N.to_nat qd) d 12) as [[q p1]|e|s|]; auto. destruct H1 as [B1 _].
  pose proof (parse_rrs_safe (N.to_nat an) d p1 ltac:(lia)) as H2.
  destruct (parse_section parse_rr (N.to_nat an) d p1) as [[a p2]|e|s|]; auto. destruct H2 as (B2 & _ & _).
  pose proof (parse_rrs_safe (N.to_nat ns) d p2 ltac:(lia)) as H3.
  destruct (parse_section parse_rr (N.to_nat ns) d p2) as [[n p3]|e|s|]; auto. destruct H3 as (B3 & _ & _).
  pose proof (parse_rrs_safe (N.to_nat ar) d p3 ltac:(lia)) as H4.
  destruct (parse_section parse_rr (N.to_nat ar) d p3) as [[x p4]|e|s|]; auto. destruct H4 as (B4 & F4 & _).
  destruct (take_first_opt x) as [[o x']|] eqn:Eo; [|exact I].
  destruct (take_first_opt_shape _ _ _ F4 Eo) as (u & v & c & ->). exact I.
Qed.

(* the number of entries is bounded by the input length: every question takes >= 5 bytes, every record >= 11 *)
Theorem parse_packet_entries : forall d p, parse_packet d = Ok p ->
  5 * len (qs p) + 11 * (len (ans p) + len (nss p) + len (adds p)) + 12 <= len d + 11.
Proof.
  intros d p. unfold parse_packet.
  destruct (parse_header d) as [h|e|s|] eqn:Eh; try discriminate.
  assert (Hl : 12 <= len d).
  { unfold parse_header in Eh. destruct (len d <? 12) eqn:E; [discriminate|lia]. }
  unfold peek_questions, peek_answers, peek_name_servers, peek_additional_records, peek16.
  destruct (be_at_some d 4 2) as (qd & -> & _); [cbn; lia|].
  destruct (be_at_some d 6 2) as (an & -> & _); [cbn; lia|].
  destruct (be_at_some d 8 2) as (ns & -> & _); [cbn; lia|].
  destruct (be_at_some d 10 2) as (ar & -> & _); [cbn; lia|].
  pose proof (parse_questions_safe (N.to_nat qd) d 12 Hl) as H1.
  destruct (parse_section parse_question (N.to_nat qd) d 12) as [[q p1]|e|s|]; try discriminate. destruct H1 as [B1 L1].
  pose proof (parse_rrs_safe (N.to_nat an) d p1 ltac:(lia)) as H2.
  destruct (parse_section parse_rr (N.to_nat an) d p1) as [[a p2]|e|s|]; try discriminate. destruct H2 as (B2 & _ & L2).
  pose proof (parse_rrs_safe (N.to_nat ns) d p2 ltac:(lia)) as H3.
  destruct (parse_section parse_rr (N.to_nat ns) d p2) as [[n p3]|e|s|]; try discriminate. destruct H3 as (B3 & _ & L3).
  pose proof (parse_rrs_safe (N.to_nat ar) d p3 ltac:(lia)) as H4.
  destruct (parse_section parse_rr (N.to_nat ar) d p3) as [[x p4]|e|s|]; try discriminate. destruct H4 as (B4 & F4 & L4).
  assert (Hx : forall l o l', take_first_opt l = Some (o, l') -> length l = S (length l')).
  { induction l as [|y r IH]; intros o l' H; cbn [take_first_opt] in H; [discriminate|].
    destruct (ty_eqb _ _); [injection H as <- <-; reflexivity|].
    destruct (take_first_opt r) as [[o' r']|] eqn:Er; [|discriminate]. injection H as <- <-. cbn. f_equal. eapply IH. reflexivity. }
  destruct (take_first_opt x) as [[o x']|] eqn:Eo.
  - destruct (optv_of (rdata_of o)); [|discriminate]. intros H. injection H as <-. cbn [qs ans nss adds].
    apply Hx in Eo. unfold len in *. lia.
  - intros H. injection H as <-. cbn [qs ans nss adds]. unfold len in *. lia.
Qed.

Lemma section_capacity_bound d off c : 5 * section_capacity d off c <= len d.
Proof. unfold section_capacity. lia. Qed.

Theorem parse_packet_total : forall d, (exists p, parse_packet d = Ok p) \/ (exists e, parse_packet d = Err e).
Proof.
  intros d. pose proof (parse_packet_safe d) as H. destruct (parse_packet d) as [p|e|s|]; try contradiction; eauto.
Qed.

Theorem peeks_total : forall d,
  (forall p, (exists v, peek16 d p = Ok v) \/ peek16 d p = Err InvalidHeaderData) /\
  (forall f, (exists b, peek_has_flags d f = Ok b) \/ peek_has_flags d f = Err InvalidHeaderData) /\
  ((exists r, peek_rcode d = Ok r) \/ peek_rcode d = Err InvalidHeaderData) /\
  ((exists o, peek_opcode d = Ok o) \/ peek_opcode d = Err InvalidHeaderData).
Proof.
  intros d.
  assert (P : forall p, (exists v, peek16 d p = Ok v) \/ peek16 d p = Err InvalidHeaderData).
  { intros p. unfold peek16. destruct (be_at d p 2); eauto. }
  split; [exact P|]. unfold peek_has_flags, peek_rcode, peek_opcode.
  repeat split; try intros f; destruct (P 2) as [(w & ->) | ->]; cbn [bind]; eauto.
Qed.
