(* Name::parse: no panic, fuel never exhausted, soundness and completeness w.r.t. RFC 1035 4.1.4 *)
Require Import SD.Base SD.BaseProofs SD.Sweep SD.Name.
From Coq Require Import ZArith ZifyN ZifyNat ZifyBool.
Ltac Zify.zify_post_hook ::= Z.div_mod_to_equations.

Ltac unf := unfold MAX_NAME_LENGTH, MAX_LABEL_LENGTH, POINTER_MASK, MAX_POINTER_OFFSET in *.

(* F02 on the pinned loop: a label reached through a pointer and ending at end of buffer *)
Example name4_panics_pinned :
  name_loop_pinned 100 [bN 3; bN 120; bN 192; bN 0] (init_st 2) = Panic 185.
Proof. vm_compute. reflexivity. Qed.
Example name4_fixed : parse_name [bN 3; bN 120; bN 192; bN 0] 2 = Err InsufficientData.
Proof. vm_compute. reflexivity. Qed.
Example rfc_vector :
  parse_name (map bN [1;70; 3;73;83;73; 4;65;82;80;65; 0; 3;70;79;79; 192;0]) 12
  = Ok ([map bN [70;79;79]; map bN [70]; map bN [73;83;73]; map bN [65;82;80;65]], 18).
Proof. vm_compute. reflexivity. Qed.

Theorem name_loop_no_panic : forall fuel d s site, name_loop fuel d s <> Panic site.
Proof.
  induction fuel as [|fuel IH]; intros d s site; cbn [name_loop]; [discriminate|]. unf.
  destruct (len d <=? pos s) eqn:E1; [discriminate|].
  destruct (len d <=? pp s) eqn:E2; [discriminate|].
  destruct (255 <=? nsize s) eqn:E3; [discriminate|].
  destruct (byte_at_some d (pp s)) as (v & Hv & Hvb); [lia|]. rewrite Hv.
  destruct (v =? 0) eqn:E4; [discriminate|].
  destruct (N.land v 192 =? 192) eqn:E5.
  - destruct (len d <? pp s + 2) eqn:E6; [discriminate|].
    destruct (byte_at_some d (pp s + 1)) as (v2 & Hv2 & _); [lia|]. rewrite Hv2.
    destruct (pp s <=? N.land v 63 * 256 + v2); [discriminate|]. apply IH.
  - destruct (len d <? pp s + 1 + v) eqn:E6; [discriminate|].
    destruct (63 <? v) eqn:E7; [discriminate|].
    destruct (bytes_at_some d (pp s + 1) v) as (l & Hl & _); [lia|]. rewrite Hl. apply IH.
Qed.

(* termination measure: a label adds 1 + len to name_size and len + 1 to the read cursor, a pointer lowers the read cursor *)
Definition meas (s : st) : N := 2 * (319 - nsize s) + pp s.
Theorem name_loop_fuel : forall fuel d s, nsize s <= 318 ->
  (N.to_nat (meas s) < fuel)%nat -> name_loop fuel d s <> OutOfFuel.
Proof.
  induction fuel as [|fuel IH]; intros d s Hn Hf; [lia|]. cbn [name_loop]. unf.
  destruct (len d <=? pos s) eqn:E1; [discriminate|].
  destruct (len d <=? pp s) eqn:E2; [discriminate|].
  destruct (255 <=? nsize s) eqn:E3; [discriminate|].
  destruct (byte_at d (pp s)) as [v|] eqn:Hv; [|discriminate].
  assert (Hvb : v < 256) by (apply byte_at_lt in Hv; tauto).
  destruct (v =? 0) eqn:E4; [discriminate|].
  destruct (N.land v 192 =? 192) eqn:E5.
  - destruct (len d <? pp s + 2) eqn:E6; [discriminate|].
    destruct (byte_at d (pp s + 1)) as [v2|]; [|discriminate].
    destruct (pp s <=? N.land v 63 * 256 + v2) eqn:E7; [discriminate|].
    apply IH; cbn; unfold meas in *; cbn; lia.
  - destruct (len d <? pp s + 1 + v) eqn:E6; [discriminate|].
    destruct (63 <? v) eqn:E7; [discriminate|].
    destruct (bytes_at d (pp s + 1) v); [|discriminate].
    apply IH; cbn; unfold meas in *; cbn; lia.
Qed.

(* Name::parse terminates on every buffer: the closed-form fuel |d| + 640 is never exhausted; it also bounds the
   number of loop iterations of one name *)
Theorem parse_name_terminates : forall d p, parse_name d p <> OutOfFuel.
Proof.
  intros d p. unfold parse_name.
  destruct (len d <=? p) eqn:E.
  - unfold name_fuel. destruct (N.to_nat (len d + 640)) eqn:F; [lia|]. cbn [name_loop init_st pos].
    rewrite E. discriminate.
  - apply name_loop_fuel; cbn; unfold meas, name_fuel; cbn; lia.
Qed.
Theorem parse_name_no_panic : forall d p site, parse_name d p <> Panic site.
Proof. intros. apply name_loop_no_panic. Qed.

(* ---- soundness ---- *)
Theorem name_loop_sound : forall fuel d s ls p',
  name_loop fuel d s = Ok (ls, p') ->
  exists tail, ls = rev (acc s) ++ tail
    /\ rfc_bw d (pp s) tail
    /\ wf_labels tail
    /\ nsize s + labels_len tail <= 254
    /\ (if following s then p' = pos s + 1 else pos s = pp s -> inplace d (pp s) p').
Proof.
  induction fuel as [|fuel IH]; intros d s ls p' H; cbn [name_loop] in H; [discriminate|]. unf.
  destruct (len d <=? pos s) eqn:E1; [discriminate|].
  destruct (len d <=? pp s) eqn:E2; [discriminate|].
  destruct (255 <=? nsize s) eqn:E3; [discriminate|].
  destruct (byte_at d (pp s)) as [v|] eqn:Hv; [|discriminate].
  destruct (v =? 0) eqn:E4.
  - injection H as <- <-. exists []. rewrite app_nil_r. assert (v = 0) by lia; subst v.
    repeat split; try constructor; try assumption; cbn [labels_len]; try lia.
    destruct (following s); [reflexivity|]. intros ->. constructor. assumption.
  - destruct (N.land v 192 =? 192) eqn:E5.
    + destruct (len d <? pp s + 2) eqn:E6; [discriminate|].
      destruct (byte_at d (pp s + 1)) as [v2|] eqn:Hv2; [|discriminate].
      destruct (pp s <=? N.land v 63 * 256 + v2) eqn:E7; [discriminate|].
      apply IH in H. cbn [acc pp following nsize pos] in H.
      destruct H as (tail & -> & Hr & Hf & Hn & Hp). exists tail.
      repeat split; try assumption.
      * eapply bw_ptr; eauto; lia.
      * destruct (following s); [exact Hp|]. intros Heq. rewrite Hp. rewrite Heq.
        replace (pp s + 1 + 1) with (pp s + 2) by lia. eapply ip_ptr; eauto. lia.
    + destruct (len d <? pp s + 1 + v) eqn:E6; [discriminate|].
      destruct (63 <? v) eqn:E7; [discriminate|].
      destruct (bytes_at d (pp s + 1) v) as [l|] eqn:Hl; [|discriminate].
      apply IH in H. cbn [acc pp following nsize pos] in H.
      destruct H as (tail & -> & Hr & Hf & Hn & Hp).
      assert (Hll : len l = v) by (apply bytes_at_len in Hl; tauto).
      exists (l :: tail). cbn [rev]. rewrite <- app_assoc. cbn [app].
      repeat split.
      * eapply bw_label; eauto. lia. replace (pp s + 1 + v) with (pp s + v + 1) by lia. exact Hr.
      * constructor; [lia|exact Hf].
      * cbn [labels_len]. lia.
      * destruct (following s); [exact Hp|]. intros Heq.
        eapply ip_label; eauto; try lia.
        replace (pp s + 1 + v) with (pp s + v + 1) by lia. apply Hp. lia.
Qed.

Lemma rfc_bw_rfc d p ls : rfc_bw d p ls -> rfc_name d p ls.
Proof. induction 1; [eapply rn_root|eapply rn_label|eapply rn_ptr]; eauto. Qed.

(* small labels are not pointers: finite facts about bytes, by sweep *)
Lemma small_not_ptr n : n <= 63 -> N.land n 192 =? 192 = false.
Proof.
  intros H. assert (G : forallb (fun n => negb (N.land n 192 =? 192)) (upto 64) = true) by (vm_compute; reflexivity).
  pose proof (sweep _ _ G n ltac:(lia)) as E. cbv beta in E. apply negb_true_iff in E. exact E.
Qed.
Lemma ptr_bits x : x <= 63 -> N.land (192 + x) 192 = 192 /\ N.land (192 + x) 63 = x.
Proof.
  intros H.
  assert (G : forallb (fun x => (N.land (192 + x) 192 =? 192) && (N.land (192 + x) 63 =? x)) (upto 64) = true)
    by (vm_compute; reflexivity).
  pose proof (sweep _ _ G x ltac:(lia)) as E. cbv beta in E. lia.
Qed.
Lemma land0 : N.land 0 192 <> 192. Proof. vm_compute. discriminate. Qed.

Lemma rfc_bw_lt d p ls : rfc_bw d p ls -> p < len d.
Proof. destruct 1 as [p H|p n l ls H|p b1 b2 ls H]; apply byte_at_lt in H; tauto. Qed.

(* ---- completeness: every backward-pointer RFC derivation within the 255-byte budget is accepted ---- *)
Theorem name_loop_complete : forall d p ls, rfc_bw d p ls ->
  forall fuel s, pp s = p -> pos s < len d -> (following s = false -> pos s = pp s) ->
  nsize s + labels_len ls <= 254 ->
  name_loop fuel d s = OutOfFuel \/
  exists e, name_loop fuel d s = Ok (rev (acc s) ++ ls, e)
            /\ (if following s then e = pos s + 1 else inplace d p e).
Proof.
  induction 1 as [p H0 | p n l ls Hn Hr Hl Hrest IH | p b1 b2 ls H1 Hm H2 Hlt Hrest IH];
    intros fuel s Hpp Hpos Hnf Hsz; (destruct fuel as [|fuel]; [left; reflexivity|]); cbn [name_loop]; unf.
  - right. pose proof (byte_at_lt _ _ _ H0) as [Hlt _].
    destruct (len d <=? pos s) eqn:E1; [lia|]. destruct (len d <=? pp s) eqn:E2; [lia|].
    destruct (255 <=? nsize s) eqn:E3; [cbn in Hsz; lia|]. rewrite Hpp, H0. cbn.
    eexists; split; [rewrite app_nil_r; reflexivity|].
    destruct (following s) eqn:F; [reflexivity|]. rewrite Hnf, Hpp by reflexivity. constructor; assumption.
  - pose proof (byte_at_lt _ _ _ Hn) as [Hlt Hn256]. pose proof (bytes_at_len _ _ _ _ Hl) as [Hfit Hll].
    cbn [labels_len] in Hsz. pose proof (rfc_bw_lt _ _ _ Hrest) as Hnext.
    destruct (len d <=? pos s) eqn:E1; [lia|]. destruct (len d <=? pp s) eqn:E2; [lia|].
    destruct (255 <=? nsize s) eqn:E3; [lia|]. rewrite Hpp, Hn.
    destruct (n =? 0) eqn:E4; [lia|]. rewrite small_not_ptr by lia.
    destruct (len d <? p + 1 + n) eqn:E6; [lia|]. destruct (63 <? n) eqn:E7; [lia|]. rewrite Hl.
    match goal with |- name_loop fuel d ?s' = _ \/ _ => specialize (IH fuel s') end.
    cbn [pp pos following nsize acc] in IH.
    destruct IH as [IH|(e & IHe & IHp)].
    + lia.
    + destruct (following s) eqn:F; [assumption|]. rewrite Hnf, Hpp by reflexivity. lia.
    + intros F. destruct (following s); [discriminate|]. rewrite Hnf, Hpp by reflexivity. lia.
    + lia.
    + left; assumption.
    + right. exists e. split.
      * rewrite IHe. cbn [rev]. rewrite <- app_assoc. reflexivity.
      * destruct (following s) eqn:F; [exact IHp|].
        eapply ip_label; eauto; try lia.
        pose proof (small_not_ptr n ltac:(lia)). lia.
  - pose proof (byte_at_lt _ _ _ H1) as [Hlt1 Hb1]. pose proof (byte_at_lt _ _ _ H2) as [Hlt2 _].
    destruct (len d <=? pos s) eqn:E1; [lia|]. destruct (len d <=? pp s) eqn:E2; [lia|].
    destruct (255 <=? nsize s) eqn:E3; [lia|]. rewrite Hpp, H1.
    destruct (b1 =? 0) eqn:E4; [assert (b1 = 0) by lia; subst b1; vm_compute in Hm; discriminate|].
    destruct (N.land b1 192 =? 192) eqn:E5; [|lia].
    destruct (len d <? p + 2) eqn:E6; [lia|]. rewrite H2.
    destruct (p <=? N.land b1 63 * 256 + b2) eqn:E7; [lia|].
    match goal with |- name_loop fuel d ?s' = _ \/ _ => specialize (IH fuel s') end.
    cbn [pp pos following nsize acc] in IH.
    destruct IH as [IH|(e & IHe & IHp)].
    + reflexivity.
    + destruct (following s) eqn:F; [assumption|]. rewrite Hnf, Hpp by reflexivity. lia.
    + discriminate.
    + assumption.
    + left; assumption.
    + right. exists e. split; [exact IHe|].
      destruct (following s) eqn:F; [exact IHp|]. rewrite IHp, Hnf, Hpp by reflexivity.
      replace (p + 1 + 1) with (p + 2) by lia. eapply ip_ptr; eauto.
Qed.

(* determinism of the in-place end *)
Ltac uniq := repeat match goal with
  | H1 : byte_at ?d ?p = Some ?a, H2 : byte_at ?d ?p = Some ?b |- _ =>
      first [ constr_eq a b; clear H2 | rewrite H1 in H2; injection H2; intros; subst ] end.
Lemma inplace_det d p e1 : inplace d p e1 -> forall e2, inplace d p e2 -> e1 = e2.
Proof.
  induction 1 as [p H0|p b1 H1 Hm|p n e Hn Hz Hnp Hrest IH]; intros e2 H2; inversion H2; subst; uniq;
    try reflexivity; try contradiction; try (exfalso; apply land0; assumption); try congruence.
  apply IH. assumption.
Qed.

(* the user-facing statements about parse_name *)
Theorem parse_name_sound : forall d p ls p', parse_name d p = Ok (ls, p') ->
  rfc_bw d p ls /\ wf_labels ls /\ labels_len ls <= 254 /\ inplace d p p'.
Proof.
  intros d p ls p' H. unfold parse_name in H. apply name_loop_sound in H.
  unfold init_st in H. cbn [acc pp following nsize pos rev app] in H. destruct H as (tail & -> & Hr & Hw & Hn & Hp).
  split; [exact Hr|split; [exact Hw|split; [lia|apply Hp; reflexivity]]].
Qed.

Theorem parse_name_complete : forall d p ls, rfc_bw d p ls -> labels_len ls <= 254 ->
  exists e, parse_name d p = Ok (ls, e) /\ inplace d p e.
Proof.
  intros d p ls Hd Hsz. pose proof (rfc_bw_lt _ _ _ Hd) as Hlt.
  destruct (name_loop_complete d p ls Hd (name_fuel d) (init_st p)) as [Hof|(e & He & Hp)];
    try reflexivity; try (cbn; lia).
  - exfalso. eapply parse_name_terminates. exact Hof.
  - exists e. split; assumption.
Qed.

(* every successful parse consumes at least one byte in place and stays inside the buffer *)
Lemma inplace_bounds d p e : inplace d p e -> p < e /\ p < len d.
Proof.
  induction 1 as [p H0|p b1 H1 Hm|p n e Hn Hz Hnp Hrest IH].
  - apply byte_at_lt in H0. lia.
  - apply byte_at_lt in H1. lia.
  - apply byte_at_lt in Hn. lia.
Qed.

Theorem parse_name_total : forall d p, (exists r, parse_name d p = Ok r) \/ (exists e, parse_name d p = Err e).
Proof.
  intros d p. destruct (parse_name d p) as [r|e|s|] eqn:E.
  - left. eauto.
  - right. eauto.
  - exfalso. eapply parse_name_no_panic. exact E.
  - exfalso. eapply parse_name_terminates. exact E.
Qed.

Theorem parse_name_errors : forall d p,
  (forall ls, ~ (rfc_bw d p ls /\ labels_len ls <= 254)) -> exists e, parse_name d p = Err e.
Proof.
  intros d p H. destruct (parse_name_total d p) as [[[ls e] Hr]|He]; [|exact He].
  exfalso. apply parse_name_sound in Hr. destruct Hr as (Hd & _ & Hn & _). apply (H ls). split; assumption.
Qed.

Lemma mid_not_ptr b : 64 <= b < 192 -> N.land b 192 =? 192 = false.
Proof.
  intros H. assert (G : forallb (fun b => (b <? 64) || (192 <=? b) || negb (N.land b 192 =? 192)) (upto 256) = true)
    by (vm_compute; reflexivity).
  pose proof (sweep _ _ G b ltac:(lia)) as E. cbv beta in E.
  destruct (N.land b 192 =? 192); [|reflexivity]. lia.
Qed.

Theorem reserved_types_no_derivation : forall d p b ls, byte_at d p = Some b -> 64 <= b < 192 -> ~ rfc_bw d p ls.
Proof.
  intros d p b ls Hb Hr Hd. pose proof (mid_not_ptr b Hr) as Hm.
  inversion Hd; subst; uniq; try lia.
Qed.

Theorem pointer_backwards : forall d p b1 b2 ls,
  byte_at d p = Some b1 -> N.land b1 192 = 192 -> byte_at d (p + 1) = Some b2 -> rfc_bw d p ls ->
  N.land b1 63 * 256 + b2 < p /\ N.land b1 63 * 256 + b2 < len d.
Proof.
  intros d p b1 b2 ls H1 Hm H2 Hd. inversion Hd; subst; uniq.
  - vm_compute in Hm. discriminate.
  - pose proof (small_not_ptr n ltac:(lia)). lia.
  - split; [assumption|]. eapply rfc_bw_lt. eassumption.
Qed.
