(* The imperative side of serialisation: a seekable growable writer (Cursor<Vec<u8>>-like: writing overwrites in place and
   extends past the end) and ResourceRecord::write_compressed_to as it is written in Rust - RDLENGTH placeholder, RDATA,
   seek back, patch, seek forward (resource_record.rs). No proofs here. *)
Require Import SD.Base.
Open Scope N_scope.

Record cur := { cbuf : list byte; cpos : N }.

Fixpoint zeros_w (n : nat) : list byte := match n with O => [] | S k => x00 :: zeros_w k end.
(* write_all at the current position *)
Definition put (buf : list byte) (p : N) (bs : list byte) : list byte :=
  firstn (N.to_nat p) buf ++ zeros_w (N.to_nat p - length buf) ++ bs ++ skipn (N.to_nat (p + len bs)) buf.
Definition cwrite (c : cur) (bs : list byte) : cur := {| cbuf := put (cbuf c) (cpos c) bs; cpos := cpos c + len bs |}.
(* seek(SeekFrom::Start(p)) *)
Definition cseek (c : cur) (p : N) : cur := {| cbuf := cbuf c; cpos := p |}.
(* seek(SeekFrom::End(0)) *)
Definition cseek_end (c : cur) : cur := {| cbuf := cbuf c; cpos := len (cbuf c) |}.

(* ResourceRecord::write_compressed_to, given the bytes produced by its three parts *)
Definition rr_write_imp (c : cur) (nameb commonb rdatab : list byte) : cur :=
  let c1 := cwrite (cwrite c nameb) commonb in
  let len_position := cpos c1 in
  let c2 := cwrite c1 [x00; x00] in
  let c3 := cwrite c2 rdatab in
  let end_ := cpos c3 in
  let c4 := cwrite (cseek c3 len_position) (be_enc 2 (end_ - len_position - 2)) in
  cseek c4 end_.
(* the same as it was on the pinned tree: `out.seek(SeekFrom::End(0))` (finding F20a) *)
Definition rr_write_imp_pinned (c : cur) (nameb commonb rdatab : list byte) : cur :=
  let c1 := cwrite (cwrite c nameb) commonb in
  let len_position := cpos c1 in
  let c2 := cwrite c1 [x00; x00] in
  let c3 := cwrite c2 rdatab in
  let end_ := cpos c3 in
  let c4 := cwrite (cseek c3 len_position) (be_enc 2 (end_ - len_position - 2)) in
  cseek_end c4.

(* ---- a fixed-capacity writer (Cursor<&mut [u8]>): write_all fails once the data does not fit; the error is propagated by `?` ---- *)
Definition cwrite_cap (cap : N) (c : outcome cur) (bs : list byte) : outcome cur :=
  match c with
  | Ok c => if cpos c + len bs <=? cap then Ok (cwrite c bs) else Err FailedToWrite
  | e => e
  end.
Definition cseek_o (c : outcome cur) (p : N) : outcome cur := match c with Ok c => Ok (cseek c p) | e => e end.
Definition rr_write_imp_cap (cap : N) (c : cur) (nameb commonb rdatab : list byte) : outcome cur :=
  let c1 := cwrite_cap cap (cwrite_cap cap (Ok c) nameb) commonb in
  match c1 with
  | Ok c1' =>
    let len_position := cpos c1' in
    let c3 := cwrite_cap cap (cwrite_cap cap c1 [x00; x00]) rdatab in
    match c3 with
    | Ok c3' =>
      let end_ := cpos c3' in
      cseek_o (cwrite_cap cap (cseek_o c3 len_position) (be_enc 2 (end_ - len_position - 2))) end_
    | e => e
    end
  | e => e
  end.
