(* The side conditions of C13 / C14 about the store hold in every store the application can build *)
Require Import SD.Base SD.Codes SD.Name SD.NameProofs SD.RData SD.Packet SD.RoundTrip SD.Store SD.StoreProofs SD.HistoryProofs SD.Pipeline SD.PipelineProofs.

Theorem reachable_store_wf : forall ops, (forall o r, In o ops -> op_record o = Some r -> wf_rr r) ->
  store_records_wf (fold_left apply_op ops []) /\ names_short (fold_left apply_op ops []) /\ store_ok (fold_left apply_op ops []).
Proof.
  intros ops H. split; [|split; [|apply reachable_ok]].
  - intros r (k & m & Hin & He). exact (reachable_records wf_rr ops H k m (r, Auth) Hin He).
  - apply reachable_names_short. intros o r Ho Hr. destruct (H o r Ho Hr) as ([Hl _] & _). apply wf_labels_short. exact Hl.
Qed.
