(* C15 with re-announcements: whatever sequence of announcements arrives (new peers, and peers heard before announcing
   the same instance again, possibly with another TTL), the discoverer's view is a simple abstract map
   instance name -> (instance, expiry of the LAST reception) *)
Require Import SD.Base SD.BaseProofs SD.Codes SD.CodesProofs SD.Header SD.HeaderProofs SD.Name SD.NameProofs SD.RData SD.RDataProofs
  SD.Packet SD.RoundTrip SD.TextApi SD.TextApiProofs SD.Store SD.StoreProofs SD.HistoryProofs SD.DiscoveryProofs SD.DiscoveryStore.
From Coq Require Import ZArith ZifyN ZifyNat ZifyBool.
Ltac Zify.zify_post_hook ::= Z.div_mod_to_equations.

(* ---------- refreshing the value of records that are already present ---------- *)
Lemma map_get_present : forall recs (g : rr -> kind) r', (exists r, In r recs /\ rr_eqb r r' = true) ->
  exists v, map_get (map (fun r => (r, g r)) recs) r' = Some v.
Proof.
  induction recs as [|r t IH]; intros g r' (x & Hx & E); [destruct Hx|]. cbn [map map_get].
  destruct (rr_eqb r r') eqn:Er; [eauto|]. apply IH. destruct Hx as [<-|Hx]; [congruence|eauto].
Qed.
Lemma map_insert_update : forall recs (g : rr -> kind) r' v, distinct recs -> (exists r, In r recs /\ rr_eqb r r' = true) ->
  map_insert (map (fun r => (r, g r)) recs) r' v = map (fun r => (r, if rr_eqb r r' then v else g r)) recs.
Proof.
  induction recs as [|r t IH]; intros g r' v Hd (x & Hx & E); [destruct Hx|]. cbn [map map_insert]. destruct Hd as [Hd1 Hd2].
  destruct (rr_eqb r r') eqn:Er.
  - f_equal. apply map_ext_in. intros y Hy. destruct (rr_eqb y r') eqn:Ey; [|reflexivity].
    exfalso. specialize (Hd1 y Hy). rewrite (rr_eqb_right r y r' Ey) in Hd1. congruence.
  - f_equal. apply IH; [exact Hd2|]. destruct Hx as [<-|Hx]; [congruence|eauto].
Qed.

Lemma set_node_mid pre k m m' post : find_node pre k = None -> set_node (pre ++ (k, m) :: post) k m' = pre ++ (k, m') :: post.
Proof.
  induction pre as [|[k0 m0] r IH]; intros H.
  - cbn [app set_node]. rewrite (proj2 (bytes_eqb_eq k k) eq_refl). reflexivity.
  - cbn [find_node] in H. cbn [app set_node]. destruct (bytes_eqb k0 k); [discriminate|]. f_equal. apply IH. exact H.
Qed.
Lemma find_node_mid pre k m post : find_node pre k = None -> find_node (pre ++ (k, m) :: post) k = Some m.
Proof.
  induction pre as [|[k0 m0] r IH]; intros H.
  - cbn [app find_node]. rewrite (proj2 (bytes_eqb_eq k k) eq_refl). reflexivity.
  - cbn [find_node] in H. cbn [app find_node]. destruct (bytes_eqb k0 k); [discriminate|]. apply IH. exact H.
Qed.

(* receiving again records that are all present (as cached ones) only replaces their expiry *)
Definition refresh (v : kind) (recs' : list rr) (g : rr -> kind) : rr -> kind :=
  fold_left (fun g0 r' => fun r => if rr_eqb r r' then v else g0 r) recs' g.
Lemma refresh_fold : forall recs' pre k recs post now ttl' (g : rr -> kind),
  find_node pre k = None -> distinct recs -> (forall r, exists e, g r = Cached e) ->
  (forall r', In r' recs' -> get_key (rname r') = k /\ (if rcf r' then 1 else rttl r') = ttl' /\ exists r, In r recs /\ rr_eqb r r' = true) ->
  fold_left (fun s r' => add_cached s r' now) recs' (pre ++ (k, map (fun r => (r, g r)) recs) :: post)
  = pre ++ (k, map (fun r => (r, refresh (Cached (now + 2 * ttl')) recs' g r)) recs) :: post.
Proof.
  induction recs' as [|r' t IH]; intros pre k recs post now ttl' g Hk Hd Hg Hall; [reflexivity|].
  cbn [fold_left]. destruct (Hall r' (or_introl eq_refl)) as (Hkey & Httl & Hex).
  assert (Step : add_cached (pre ++ (k, map (fun r => (r, g r)) recs) :: post) r' now
                 = pre ++ (k, map (fun r => (r, if rr_eqb r r' then Cached (now + 2 * ttl') else g r)) recs) :: post).
  { unfold add_cached. rewrite Hkey, Httl. rewrite (find_node_mid _ _ _ _ Hk).
    destruct (map_get_present recs g r' Hex) as (v0 & Ev). rewrite Ev.
    assert (Hv0 : v0 <> Auth).
    { destruct (map_get_in _ _ _ Ev) as (r0 & Hin & _). apply in_map_iff in Hin. destruct Hin as (x & Hx & _). injection Hx as _ <-.
      destruct (Hg x) as (e & ->). discriminate. }
    destruct v0 as [|e0]; [contradiction|]. rewrite map_insert_update by assumption. apply set_node_mid. exact Hk. }
  rewrite Step. unfold refresh. cbn [fold_left]. fold (refresh (Cached (now + 2 * ttl')) t (fun r => if rr_eqb r r' then Cached (now + 2 * ttl') else g r)).
  apply IH; try assumption.
  - intros r. destruct (rr_eqb r r'); [eauto|apply Hg].
  - intros r0 Hr0. apply Hall. right. exact Hr0.
Qed.
Lemma refresh_all v recs' g r : (exists r', In r' recs' /\ rr_eqb r r' = true) -> refresh v recs' g r = v.
Proof.
  unfold refresh. revert g. induction recs' as [|x t IH]; intros g (r' & Hin & E); [destruct Hin|]. cbn [fold_left].
  destruct Hin as [<-|Hin]; [|apply IH; eauto].
  assert (G : forall l (g0 : rr -> kind), g0 r = v -> fold_left (fun g1 r'0 => fun r0 => if rr_eqb r0 r'0 then v else g1 r0) l g0 r = v).
  { induction l as [|y l IHl]; intros g0 H0; [exact H0|]. cbn [fold_left]. apply IHl. destruct (rr_eqb r y); [reflexivity|exact H0]. }
  apply G. rewrite E. reflexivity.
Qed.

(* two announcements of the same instance carry pairwise equal records (the TTL is not part of record equality) *)
Lemma same_instance_records service p q : p_inst p = p_inst q -> p_i p = p_i q -> p_its p = p_its q ->
  Forall2 (fun r r' => rr_eqb r r' = true) (peer_records service q) (peer_records service p).
Proof.
  intros E1 E2 E3. unfold peer_records, instance_records. rewrite E1, E2, E3.
  repeat apply Forall2_app.
  - induction (i_ips (p_i q)) as [|ip l IH]; [constructor|]. cbn [map]. constructor; [|exact IH]. apply rr_eqb_spec. destruct ip as [[|] a]; repeat split.
  - induction (i_ports (p_i q)) as [|x l IH]; [constructor|]. cbn [map]. constructor; [|exact IH]. apply rr_eqb_spec. repeat split.
  - constructor; [|constructor]. apply rr_eqb_spec. repeat split.
Qed.
Lemma Forall2_exists_r {A B} (R : A -> B -> Prop) l l' : Forall2 R l l' -> forall y, In y l' -> exists x, In x l /\ R x y.
Proof. induction 1 as [|a b l l' Hab H IH]; intros y Hy; [destruct Hy|]. destruct Hy as [<-|Hy]; [exists a; split; [left; reflexivity|exact Hab]|]. destruct (IH y Hy) as (x & Hx & Hr). exists x. split; [right; exact Hx|exact Hr]. Qed.
Lemma Forall2_exists_l {A B} (R : A -> B -> Prop) l l' : Forall2 R l l' -> forall x, In x l -> exists y, In y l' /\ R x y.
Proof. induction 1 as [|a b l l' Hab H IH]; intros x Hx; [destruct Hx|]. destruct Hx as [<-|Hx]; [exists b; split; [left; reflexivity|exact Hab]|]. destruct (IH x Hx) as (y & Hy & Hr). exists y. split; [right; exact Hy|exact Hr]. Qed.

(* ---------- the abstract view: instance name -> (first announcement, expiry of the last reception) ---------- *)
Definition entry := (peer * N)%type.
Definition expiry (p : peer) : N := p_now p + 2 * p_ttl p.
Definition entry_node (service : list label) (x : entry) : tnode :=
  (get_key (p_inst (fst x) :: service), map (fun r => (r, Cached (snd x))) (peer_records service (fst x))).
Fixpoint abs_insert (st : list entry) (p : peer) : list entry :=
  match st with
  | [] => [(p, expiry p)]
  | (q, e) :: t => if bytes_eqb (p_inst q) (p_inst p) then (q, expiry p) :: t else (q, e) :: abs_insert t p
  end.
Definition abs_view (anns : list peer) : list entry := fold_left abs_insert anns [].
(* announcements under one instance name describe the same instance *)
Definition agrees (q p : peer) : Prop := p_inst q = p_inst p -> p_i p = p_i q /\ p_its p = p_its q.

Lemma one_announcement service p : peer_ok p -> forall st pre,
  find_node pre (get_key (p_inst p :: service)) = None -> (forall x, In x st -> agrees (fst x) p) ->
  fold_left (fun s r => add_cached s r (p_now p)) (peer_records service p) (pre ++ map (entry_node service) st)
  = pre ++ map (entry_node service) (abs_insert st p).
Proof.
  intros (Hi & Hips & Hports & _). induction st as [|[q e] t IH]; intros pre Hpre Hag.
  - cbn [map abs_insert]. rewrite app_nil_r.
    pose proof (ingest_new_owner (peer_records service p) pre (get_key (p_inst p :: service)) (p_now p) [] Hpre) as G. cbn [app] in G.
    rewrite G.
    + assert (E : map (fun r => (r, Cached (p_now p + 2 * (if rcf r then 1 else rttl r)))) (peer_records service p)
                  = map (fun r => (r, Cached (expiry p))) (peer_records service p)).
      { apply map_ext_in. intros r Hr. destruct (peer_records_facts _ _ _ Hr) as (_ & -> & ->). reflexivity. }
      rewrite E. pose proof (peer_records_ne service p) as Hne.
      destruct (map (fun r => (r, Cached (expiry p))) (peer_records service p)) eqn:Em;
        [destruct (peer_records service p); [contradiction|discriminate]|]. rewrite <- Em. reflexivity.
    + intros r Hr. destruct (peer_records_facts _ _ _ Hr) as (-> & _). reflexivity.
    + apply instance_records_distinct; assumption.
    + intros x r [] _.
    + right. exact I.
  - cbn [map abs_insert]. destruct (bytes_eqb (p_inst q) (p_inst p)) eqn:E.
    + apply bytes_eqb_eq in E. destruct (Hag (q, e) (or_introl eq_refl) E) as [E2 E3]. cbn [fst] in E2, E3.
      unfold entry_node at 1. cbn [fst snd]. rewrite E.
      rewrite (refresh_fold (peer_records service p) pre (get_key (p_inst p :: service)) (peer_records service q) _ (p_now p) (p_ttl p) (fun _ => Cached e)).
      * cbn [map]. f_equal. f_equal. unfold entry_node. cbn [fst snd]. rewrite E. f_equal. apply map_ext_in. intros r Hr. f_equal.
        apply refresh_all. apply (Forall2_exists_l _ _ _ (same_instance_records service p q (eq_sym E) E2 E3)). exact Hr.
      * exact Hpre.
      * unfold peer_records. apply instance_records_distinct; rewrite <- E2; assumption.
      * intros r. eauto.
      * intros r' Hr'. destruct (peer_records_facts _ _ _ Hr') as (Hn & Hc & Ht). rewrite Hn, Hc, Ht. split; [reflexivity|]. split; [reflexivity|].
        apply (Forall2_exists_r _ _ _ (same_instance_records service p q (eq_sym E) E2 E3)). exact Hr'.
    + cbn [map].
      replace (pre ++ entry_node service (q, e) :: map (entry_node service) t) with ((pre ++ [entry_node service (q, e)]) ++ map (entry_node service) t)
        by (rewrite <- app_assoc; reflexivity).
      rewrite IH.
      * rewrite <- app_assoc. reflexivity.
      * rewrite find_node_app_none by exact Hpre. unfold entry_node. cbn [fst snd find_node].
        destruct (bytes_eqb (get_key (p_inst q :: service)) (get_key (p_inst p :: service))) eqn:Ek; [|reflexivity].
        apply bytes_eqb_eq in Ek. apply peer_key_inj in Ek. rewrite Ek in E. rewrite (proj2 (bytes_eqb_eq _ _) eq_refl) in E. discriminate.
      * intros x Hx. apply Hag. right. exact Hx.
Qed.

Lemma abs_insert_peers st p x : In x (abs_insert st p) -> (exists y, In y st /\ fst x = fst y) \/ fst x = p.
Proof.
  induction st as [|[q e] t IH]; cbn [abs_insert]; intros H.
  - destruct H as [<-|[]]. right. reflexivity.
  - destruct (bytes_eqb (p_inst q) (p_inst p)).
    + destruct H as [<-|H]; [left; exists (q, e); split; [left; reflexivity|reflexivity]|left; exists x; split; [right; exact H|reflexivity]].
    + destruct H as [<-|H]; [left; exists (q, e); split; [left; reflexivity|reflexivity]|].
      destruct (IH H) as [(y & Hy & E)|E]; [left; exists y; split; [right; exact Hy|exact E]|right; exact E].
Qed.

Theorem receive_all_view : forall service me ttl0 anns st,
  Forall peer_ok anns -> (forall p q, In p anns -> In q anns -> agrees q p) -> (forall x p, In x st -> In p anns -> agrees (fst x) p) ->
  receive_all service anns (fresh_store service me ttl0 ++ map (entry_node service) st)
  = fresh_store service me ttl0 ++ map (entry_node service) (fold_left abs_insert anns st).
Proof.
  intros service me ttl0. induction anns as [|p anns IH]; intros st Hok Hpair Hst; [reflexivity|].
  rewrite receive_all_cons. cbn [fold_left].
  rewrite (one_announcement service p (Forall_inv Hok) st).
  - apply IH; [exact (Forall_inv_tail Hok)|intros a b Ha Hb; apply Hpair; right; assumption|].
    intros x a Hx Ha. destruct (abs_insert_peers _ _ _ Hx) as [ (y & Hy & ->) | -> ].
    + apply Hst; [exact Hy|right; exact Ha].
    + apply Hpair; [right; exact Ha|left; reflexivity].
  - change (fresh_store service me ttl0) with [(get_key service, [(ptr_rr service me ttl0, Auth)])]. cbn [find_node].
    rewrite get_key_cons, bytes_eqb_longer. reflexivity.
  - intros x Hx. apply Hst; [exact Hx|left; reflexivity].
Qed.

Lemma pick_entry service x now' :
  pick_cached now' (entry_node service x) = if now' <? snd x then peer_records service (fst x) else [].
Proof.
  unfold pick_cached, entry_node. cbn [snd fst]. generalize (peer_records service (fst x)). intros recs.
  induction recs as [|r t IHr]; [destruct (now' <? snd x); reflexivity|].
  cbn [map filter snd match_filter filter_cached f_cached andb]. destruct (now' <? snd x) eqn:E.
  - cbn [map fst]. f_equal. exact IHr.
  - exact IHr.
Qed.
Lemma entries_groups service now' : forall st, Forall (fun x => peer_ok (fst x)) st ->
  List.concat (map (inst_of_group service) (filter nonempty (map (pick_cached now')
     (filter (fun n => is_prefix (get_key service) (fst n)) (map (entry_node service) st)))))
  = List.concat (map (fun x => if now' <? snd x then [peer_instance (fst x)] else []) st).
Proof.
  induction st as [|x st IH]; intros Hok; [reflexivity|].
  cbn [map filter]. unfold entry_node at 1. cbn [fst]. rewrite get_key_cons, is_prefix_app. fold (entry_node service x).
  cbn [map]. rewrite pick_entry. destruct (Forall_inv Hok) as (Hi & Hips & Hports & Hattr & Hndk).
  specialize (IH (Forall_inv_tail Hok)).
  destruct (now' <? snd x).
  - pose proof (peer_records_ne service (fst x)) as Hne. destruct (peer_records service (fst x)) as [|r0 rt] eqn:Er; [contradiction|].
    cbn [filter nonempty map List.concat]. rewrite <- Er. unfold inst_of_group at 1. unfold peer_records at 1.
    rewrite (from_instance_records (p_i (fst x)) service (p_inst (fst x)) (p_inst (fst x) :: service) (p_ttl (fst x)) (p_its (fst x)) eq_refl Hi Hattr Hndk).
    cbn [app]. f_equal. exact IH.
  - cbn [filter nonempty map List.concat app]. exact IH.
Qed.

(* C15 for ANY sequence of announcements, repeats included: what get_known_services reports is the abstract view - every
   instance heard, as first advertised, while the TTL counted from its LAST reception has not elapsed *)
Theorem known_after_any_announcements : forall service me ttl0 anns now',
  Forall peer_ok anns -> (forall p q, In p anns -> In q anns -> agrees q p) ->
  known_services (receive_all service anns (fresh_store service me ttl0)) service now' =
  List.concat (map (fun x : entry => if now' <? snd x then [peer_instance (fst x)] else []) (abs_view anns)).
Proof.
  intros service me ttl0 anns now' Hok Hpair.
  pose proof (receive_all_view service me ttl0 anns [] Hok Hpair (fun x p Hx _ => match Hx with end)) as Hs.
  cbn [map] in Hs. rewrite app_nil_r in Hs. rewrite Hs. fold (abs_view anns).
  change (fresh_store service me ttl0) with [(get_key service, [(ptr_rr service me ttl0, Auth)])].
  rewrite known_services_unfold by (apply node_exists_key with (m := [(ptr_rr service me ttl0, Auth)]); left; reflexivity).
  cbn [app filter fst]. rewrite is_prefix_refl. cbn [map].
  change (pick_cached now' (get_key service, [(ptr_rr service me ttl0, Auth)])) with (@nil rr).
  cbn [filter nonempty]. apply entries_groups.
  (* every entry of the view is one of the announcements *)
  unfold abs_view. assert (G : forall anns st, Forall peer_ok anns -> Forall (fun x => peer_ok (fst x)) st -> Forall (fun x => peer_ok (fst x)) (fold_left abs_insert anns st)).
  { clear. induction anns as [|p anns IH]; intros st Ha Hs; [exact Hs|]. cbn [fold_left]. apply IH; [exact (Forall_inv_tail Ha)|].
    apply Forall_forall. intros x Hx. destruct (abs_insert_peers _ _ _ Hx) as [ (y & Hy & ->) | -> ].
    - rewrite Forall_forall in Hs. exact (Hs y Hy).
    - exact (Forall_inv Ha). }
  apply G; [exact Hok|constructor].
Qed.
