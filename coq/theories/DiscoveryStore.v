(* C15 through the record store: a fresh discoverer (only its own `service PTR instance` registered) ingests one
   announcement and get_known_services reports exactly the advertised instance until the TTL has elapsed *)
Require Import SD.Base SD.BaseProofs SD.Codes SD.CodesProofs SD.Header SD.HeaderProofs SD.Name SD.NameProofs SD.RData SD.RDataProofs
  SD.Packet SD.RoundTrip SD.TextApi SD.TextApiProofs SD.Store SD.StoreProofs SD.HistoryProofs SD.DiscoveryProofs.
From Coq Require Import ZArith ZifyN ZifyNat ZifyBool.
Ltac Zify.zify_post_hook ::= Z.div_mod_to_equations.

(* pairwise different records (HashMap keys) *)
Fixpoint distinct (l : list rr) : Prop :=
  match l with [] => True | r :: t => (forall r', In r' t -> rr_eqb r r' = false) /\ distinct t end.

Lemma map_get_none m r : (forall e, In e m -> rr_eqb (fst e) r = false) -> map_get m r = None.
Proof.
  induction m as [|[r0 v0] t IH]; intros H; [reflexivity|]. cbn [map_get]. pose proof (H (r0, v0) (or_introl eq_refl)) as E0. cbn [fst] in E0. rewrite E0.
  apply IH. intros e He. apply H. right. exact He.
Qed.
Lemma map_insert_new m r v : (forall e, In e m -> rr_eqb (fst e) r = false) -> map_insert m r v = m ++ [(r, v)].
Proof.
  induction m as [|[r0 v0] t IH]; intros H; [reflexivity|]. cbn [map_insert]. pose proof (H (r0, v0) (or_introl eq_refl)) as E0. cbn [fst] in E0. rewrite E0.
  cbn [app]. f_equal. apply IH. intros e He. apply H. right. exact He.
Qed.
Lemma set_node_new st k m : find_node st k = None -> set_node st k m = st ++ [(k, m)].
Proof.
  induction st as [|[k0 m0] r IH]; intros H; [reflexivity|]. cbn [find_node] in H. cbn [set_node].
  destruct (bytes_eqb k0 k); [discriminate|]. cbn [app]. f_equal. apply IH. exact H.
Qed.
Lemma set_node_last st k m m' : find_node st k = None -> set_node (st ++ [(k, m)]) k m' = st ++ [(k, m')].
Proof.
  induction st as [|[k0 m0] r IH]; intros H.
  - cbn [app set_node]. rewrite (proj2 (bytes_eqb_eq k k) eq_refl). reflexivity.
  - cbn [find_node] in H. cbn [app set_node]. destruct (bytes_eqb k0 k); [discriminate|]. f_equal. apply IH. exact H.
Qed.
Lemma find_node_last st k m : find_node st k = None -> find_node (st ++ [(k, m)]) k = Some m.
Proof.
  induction st as [|[k0 m0] r IH]; intros H.
  - cbn [app find_node]. rewrite (proj2 (bytes_eqb_eq k k) eq_refl). reflexivity.
  - cbn [find_node] in H. cbn [app find_node]. destruct (bytes_eqb k0 k); [discriminate|]. apply IH. exact H.
Qed.

(* receiving several different records under one new owner name appends one node that holds them in order *)
Lemma ingest_new_owner : forall recs st k now acc, find_node st k = None ->
  (forall r, In r recs -> get_key (rname r) = k) -> distinct recs ->
  (forall e r, In e acc -> In r recs -> rr_eqb (fst e) r = false) -> acc <> [] \/ True ->
  fold_left (fun s r => add_cached s r now) recs (match acc with [] => st | _ => st ++ [(k, acc)] end)
  = match acc ++ map (fun r => (r, Cached (now + 2 * (if rcf r then 1 else rttl r)))) recs with
    | [] => st | m => st ++ [(k, m)] end.
Proof.
  induction recs as [|r recs IH]; intros st k now acc Hk Hname Hd Hacc _.
  - cbn [fold_left map]. rewrite app_nil_r. destruct acc; reflexivity.
  - cbn [fold_left map]. destruct Hd as [Hd1 Hd2].
    assert (Hr : get_key (rname r) = k) by (apply Hname; left; reflexivity).
    set (v := Cached (now + 2 * (if rcf r then 1 else rttl r))).
    assert (Step : add_cached (match acc with [] => st | _ => st ++ [(k, acc)] end) r now = st ++ [(k, acc ++ [(r, v)])]).
    { unfold add_cached. rewrite Hr. destruct acc as [|a0 acc0].
      - rewrite Hk. apply set_node_new. exact Hk.
      - rewrite (find_node_last _ _ _ Hk).
        rewrite (map_get_none (a0 :: acc0) r) by (intros e He; apply Hacc; [exact He|left; reflexivity]).
        rewrite map_insert_new by (intros e He; apply Hacc; [exact He|left; reflexivity]).
        apply set_node_last. exact Hk. }
    rewrite Step.
    specialize (IH st k now (acc ++ [(r, v)]) Hk (fun r' Hr' => Hname r' (or_intror Hr')) Hd2).
    assert (Hne : match acc ++ [(r, v)] with [] => st | _ => st ++ [(k, acc ++ [(r, v)])] end = st ++ [(k, acc ++ [(r, v)])])
      by (destruct acc; reflexivity).
    rewrite Hne in IH. rewrite IH; [rewrite <- app_assoc; reflexivity| |right; exact I].
    intros e r' He Hr'. apply in_app_iff in He. destruct He as [He|[<-|[]]].
    + apply Hacc; [exact He|right; exact Hr'].
    + cbn [fst]. apply Hd1. exact Hr'.
Qed.

Lemma get_key_cons l n : get_key (l :: n) = get_key n ++ bN (len l) :: l.
Proof. unfold get_key. cbn [rev]. rewrite map_app, concat_app. cbn [map List.concat]. rewrite app_nil_r. reflexivity. Qed.
Lemma bytes_eqb_longer a x t : bytes_eqb a (a ++ x :: t) = false.
Proof.
  destruct (bytes_eqb a (a ++ x :: t)) eqn:E; [|reflexivity]. apply bytes_eqb_eq in E.
  apply (f_equal (@length byte)) in E. rewrite app_length in E. cbn in E. lia.
Qed.

(* records of one instance are pairwise different when its addresses and ports are (they are sets in Rust) *)
Lemma instance_records_distinct i full ttl its : NoDup (i_ips i) -> NoDup (i_ports i) -> distinct (instance_records i full ttl its).
Proof.
  intros Hi Hp. unfold instance_records.
  assert (Hdiff_rd : forall a b : rr, rdata_of a <> rdata_of b -> rr_eqb a b = false).
  { intros a b H. destruct (rr_eqb a b) eqn:E; [|reflexivity]. apply rr_eqb_spec in E. destruct E as (_ & _ & E). contradiction. }
  assert (D3 : distinct [txt_rr full ttl its]) by (split; [intros r' []|exact I]).
  assert (D2 : distinct (map (port_rr full ttl) (i_ports i) ++ [txt_rr full ttl its])).
  { induction (i_ports i) as [|p ps IH]; [exact D3|]. cbn [map app distinct]. inversion Hp as [|x l Hnin Hnd]; subst. split; [|apply IH; exact Hnd].
    intros r' Hr'. apply Hdiff_rd. apply in_app_iff in Hr'. destruct Hr' as [Hr'|[<-|[]]].
    - apply in_map_iff in Hr'. destruct Hr' as (q & <- & Hq). cbn [port_rr rdata_of]. intros E. injection E as E. subst q. contradiction.
    - cbn. discriminate. }
  induction (i_ips i) as [|ip ips IH]; [exact D2|]. cbn [map app distinct]. inversion Hi as [|x l Hnin Hnd]; subst. split; [|apply IH; exact Hnd].
  intros r' Hr'. apply Hdiff_rd. apply in_app_iff in Hr'. destruct Hr' as [Hr'|Hr'].
  - apply in_map_iff in Hr'. destruct Hr' as (q & <- & Hq). destruct ip as [[|] a], q as [[|] b]; cbn [ip_rr rdata_of fst snd]; intros E; try discriminate;
      injection E as E; subst b; contradiction.
  - apply in_app_iff in Hr'. destruct Hr' as [Hr'|[<-|[]]].
    + apply in_map_iff in Hr'. destruct Hr' as (q & <- & Hq). destruct ip as [[|] a]; cbn; discriminate.
    + destruct ip as [[|] a]; cbn; discriminate.
Qed.

(* the store of a discoverer that has only registered `service PTR own-instance` *)
Definition ptr_rr (service me : list label) (ttl0 : N) : rr :=
  {| rname := service; rclass := IN; rttl := ttl0; rcf := false; rdata_of := RD M_PTR [V_name me] |}.
Definition fresh_store (service me : list label) (ttl0 : N) : store := add_authoritative [] (ptr_rr service me ttl0).

Theorem known_after_announcement : forall i service inst me ttl0 ttl its now now',
  let full := inst :: service in
  inst <> [] -> NoDup (i_ips i) -> NoDup (i_ports i) ->
  attributes (map (@snd N (list byte)) its) = i_attrs i -> NoDup (map fst (i_attrs i)) ->
  let st := fold_left (fun s r => add_cached s r now) (instance_records i full ttl its) (fresh_store service me ttl0) in
  known_services st service now' =
  if now' <? now + 2 * ttl then [{| i_name := inst; i_ips := i_ips i; i_ports := i_ports i; i_attrs := rev (i_attrs i) |}] else [].
Proof.
  intros i service inst me ttl0 ttl its now now' full Hinst Hips Hports Hattr Hnd st.
  set (recs := instance_records i full ttl its). set (k := get_key service). set (kf := get_key full).
  assert (Hst0 : fresh_store service me ttl0 = [(k, [(ptr_rr service me ttl0, Auth)])]) by reflexivity.
  assert (Hkf : kf = k ++ bN (len inst) :: inst) by (unfold kf, full, k; apply get_key_cons).
  assert (Hnone : find_node (fresh_store service me ttl0) kf = None).
  { rewrite Hst0. cbn [find_node]. rewrite Hkf, bytes_eqb_longer. reflexivity. }
  assert (Hall : forall r, In r recs -> rname r = full /\ rcf r = false /\ rttl r = ttl).
  { intros r Hr. unfold recs, instance_records in Hr. rewrite !in_app_iff in Hr. destruct Hr as [Hr|[Hr|[<-|[]]]]; [| |repeat split];
      apply in_map_iff in Hr; destruct Hr as (x & <- & _); repeat split. }
  assert (Hrecs_ne : recs <> []) by (unfold recs, instance_records; destruct (i_ips i); [destruct (i_ports i)|]; discriminate).
  assert (Hst : st = fresh_store service me ttl0 ++ [(kf, map (fun r => (r, Cached (now + 2 * ttl))) recs)]).
  { pose proof (ingest_new_owner recs (fresh_store service me ttl0) kf now [] Hnone) as G. cbn [app] in G.
    unfold st. fold recs. rewrite G.
    - assert (E : map (fun r => (r, Cached (now + 2 * (if rcf r then 1 else rttl r)))) recs = map (fun r => (r, Cached (now + 2 * ttl))) recs).
      { apply map_ext_in. intros r Hr. destruct (Hall r Hr) as (_ & -> & ->). reflexivity. }
      rewrite E. destruct recs; [contradiction|reflexivity].
    - intros r Hr. destruct (Hall r Hr) as (-> & _). reflexivity.
    - apply instance_records_distinct; assumption.
    - intros e r [] _.
    - right. exact I. }
  unfold known_services, query. cbn [f_sub filter_cached]. fold k.
  assert (Hnode : node_exists st k = true).
  { apply node_exists_key with (m := [(ptr_rr service me ttl0, Auth)]). rewrite Hst, Hst0. left. reflexivity. }
  rewrite Hnode. rewrite Hst, Hst0. cbn [app filter fst]. rewrite is_prefix_refl. cbn [filter fst].
  rewrite Hkf, is_prefix_app. cbn [map snd filter match_filter filter_cached f_auth f_cached andb].
  (* the instance's node *)
  assert (Hpick : map fst (filter (fun e : rr * kind => match_filter filter_cached (snd e) now') (map (fun r => (r, Cached (now + 2 * ttl))) recs))
                  = if now' <? now + 2 * ttl then recs else []).
  { clear -recs. induction recs as [|r t IH]; [destruct (now' <? now + 2 * ttl); reflexivity|].
    cbn [map filter snd match_filter filter_cached f_cached andb]. destruct (now' <? now + 2 * ttl) eqn:E.
    - cbn [map fst]. f_equal. exact IH.
    - exact IH. }
  cbn [map]. rewrite Hpick.
  destruct (now' <? now + 2 * ttl).
  - destruct recs as [|r0 rt] eqn:Er; [contradiction|]. cbn [filter map List.concat]. rewrite <- Er. unfold recs.
    rewrite (from_instance_records i service inst full ttl its eq_refl Hinst Hattr Hnd). reflexivity.
  - reflexivity.
Qed.

(* C15 end to end: advertise -> compressed packet -> Packet::parse -> add_response_to_resources on a fresh discoverer ->
   get_known_services reports exactly the advertised instance while the TTL has not elapsed, nothing afterwards *)
Theorem discovery_end_to_end : forall i service inst me ttl0 ttl h recs now now',
  let full := inst :: service in
  instance_ok i full ttl -> full <> me -> NoDup (i_ips i) -> NoDup (i_ports i) ->
  h_id h < 65536 -> named_opcode (h_opcode h) -> named_rcode (h_rcode h) -> rcode_disc (h_rcode h) < 16 -> (exists k, k < 128 /\ h_flags h = flagset k) ->
  into_records i full ttl = Ok recs ->
  exists b p', write_packet_compressed (announcement h recs) = Ok b /\ parse_packet b = Ok p' /\
    known_services (ingest (fresh_store service me ttl0) service me p' now) service now' =
    if now' <? now + 2 * ttl then [{| i_name := inst; i_ips := i_ips i; i_ports := i_ports i; i_attrs := rev (i_attrs i) |}] else [].
Proof.
  intros i service inst me ttl0 ttl h recs now now' full Hok Hme Hips Hports Hid Hop Hrc Hrc16 Hfl Hrec.
  destruct (announcement_wire i service inst ttl h recs Hok Hid Hop Hrc Hrc16 Hfl Hrec) as (Hw & Hp & Hattr).
  set (its := norm_items (map (fun s => (0, s)) (map txt_entry (i_attrs i)))) in *.
  exists (encc_packet (announcement h (instance_records i full ttl its))), (announcement h (instance_records i full ttl its)).
  split; [exact Hw|]. split; [exact Hp|].
  assert (Hall : ingest_filter service me (announcement h (instance_records i full ttl its)) = instance_records i full ttl its).
  { unfold ingest_filter. cbn [announcement ans adds]. rewrite app_nil_r. apply filter_all_true. intros r Hr.
    assert (Hn : rname r = full).
    { unfold instance_records in Hr. rewrite !in_app_iff in Hr. destruct Hr as [Hr|[Hr|[<-|[]]]]; [| |reflexivity];
        apply in_map_iff in Hr; destruct Hr as (x & <- & _); reflexivity. }
    rewrite Hn. apply andb_true_iff. split.
    - apply negb_true_iff. destruct (labels_eqb full me) eqn:E; [|reflexivity]. apply labels_eqb_eq in E. contradiction.
    - apply is_subdomain_of_spec. exists [inst]. split; [discriminate|reflexivity]. }
  unfold ingest. rewrite Hall. apply known_after_announcement; try assumption.
  - destruct Hok as [_ _ _ _ [Hl _] _ _ _]. pose proof (Forall_inv Hl) as H1. cbn beta in H1. intros ->. cbn in H1. lia.
  - apply Hok.
Qed.

(* ---------- several peers ---------- *)
Record peer := { p_inst : label; p_i : instance; p_ttl : N; p_its : list (N * list byte); p_now : N }.
Definition peer_records (service : list label) (p : peer) : list rr := instance_records (p_i p) (p_inst p :: service) (p_ttl p) (p_its p).
Definition peer_node (service : list label) (p : peer) : tnode :=
  (get_key (p_inst p :: service), map (fun r => (r, Cached (p_now p + 2 * p_ttl p))) (peer_records service p)).
Definition peer_ok (p : peer) : Prop :=
  p_inst p <> [] /\ NoDup (i_ips (p_i p)) /\ NoDup (i_ports (p_i p)) /\
  attributes (map (@snd N (list byte)) (p_its p)) = i_attrs (p_i p) /\ NoDup (map fst (i_attrs (p_i p))).
Definition receive_all (service : list label) (peers : list peer) (st : store) : store :=
  fold_left (fun s p => fold_left (fun s' r => add_cached s' r (p_now p)) (peer_records service p) s) peers st.

Lemma find_node_app_none st st' k : find_node st k = None -> find_node (st ++ st') k = find_node st' k.
Proof.
  induction st as [|[k0 m0] r IH]; intros H; [reflexivity|]. cbn [find_node] in H. cbn [app find_node].
  destruct (bytes_eqb k0 k); [discriminate|]. apply IH. exact H.
Qed.
Lemma peer_key_inj service a b : get_key (a :: service) = get_key (b :: service) -> a = b.
Proof. rewrite !get_key_cons. intros H. apply app_inv_head in H. injection H as _ H. exact H. Qed.
Lemma find_peer_none service done p : ~ In (p_inst p) (map p_inst done) ->
  find_node (map (peer_node service) done) (get_key (p_inst p :: service)) = None.
Proof.
  induction done as [|q done IH]; intros H; [reflexivity|]. cbn [map find_node peer_node fst].
  destruct (bytes_eqb (get_key (p_inst q :: service)) (get_key (p_inst p :: service))) eqn:E.
  - apply bytes_eqb_eq in E. apply peer_key_inj in E. exfalso. apply H. left. exact E.
  - apply IH. intros Hin. apply H. right. exact Hin.
Qed.

Lemma peer_records_facts service p r : In r (peer_records service p) -> rname r = p_inst p :: service /\ rcf r = false /\ rttl r = p_ttl p.
Proof.
  intros Hr. unfold peer_records, instance_records in Hr. rewrite !in_app_iff in Hr. destruct Hr as [Hr|[Hr|[<-|[]]]]; [| |repeat split];
    apply in_map_iff in Hr; destruct Hr as (x & <- & _); repeat split.
Qed.
Lemma peer_records_ne service p : peer_records service p <> [].
Proof. unfold peer_records, instance_records. destruct (i_ips (p_i p)); [destruct (i_ports (p_i p))|]; discriminate. Qed.

Lemma receive_all_cons service p peers st :
  receive_all service (p :: peers) st = receive_all service peers (fold_left (fun s' r => add_cached s' r (p_now p)) (peer_records service p) st).
Proof. reflexivity. Qed.

(* every announcement from a peer not heard before appends one node holding that peer's records *)
Theorem receive_all_shape : forall service me ttl0 peers done,
  NoDup (map p_inst (done ++ peers)) -> Forall peer_ok peers ->
  receive_all service peers (fresh_store service me ttl0 ++ map (peer_node service) done)
  = fresh_store service me ttl0 ++ map (peer_node service) (done ++ peers).
Proof.
  intros service me ttl0. induction peers as [|p peers IH]; intros done Hnd Hok; [rewrite app_nil_r; reflexivity|].
  rewrite receive_all_cons.
  set (st := fresh_store service me ttl0 ++ map (peer_node service) done).
  assert (Hnone : find_node st (get_key (p_inst p :: service)) = None).
  { unfold st. rewrite find_node_app_none.
    - apply find_peer_none. rewrite map_app in Hnd. cbn [map] in Hnd. apply NoDup_remove_2 in Hnd. rewrite in_app_iff in Hnd. tauto.
    - change (fresh_store service me ttl0) with [(get_key service, [(ptr_rr service me ttl0, Auth)])]. cbn [find_node].
      rewrite get_key_cons, bytes_eqb_longer. reflexivity. }
  destruct (Forall_inv Hok) as (Hi & Hips & Hports & _).
  pose proof (ingest_new_owner (peer_records service p) st (get_key (p_inst p :: service)) (p_now p) [] Hnone) as G. cbn [app] in G.
  rewrite G.
  - assert (E : map (fun r => (r, Cached (p_now p + 2 * (if rcf r then 1 else rttl r)))) (peer_records service p)
                = map (fun r => (r, Cached (p_now p + 2 * p_ttl p))) (peer_records service p)).
    { apply map_ext_in. intros r Hr. destruct (peer_records_facts _ _ _ Hr) as (_ & -> & ->). reflexivity. }
    rewrite E. pose proof (peer_records_ne service p) as Hne.
    destruct (map (fun r => (r, Cached (p_now p + 2 * p_ttl p))) (peer_records service p)) eqn:Em;
      [destruct (peer_records service p); [contradiction|discriminate]|]. rewrite <- Em.
    fold (peer_node service p). unfold st. rewrite <- app_assoc.
    change [peer_node service p] with (map (peer_node service) [p]). rewrite <- map_app.
    rewrite (IH (done ++ [p])); [rewrite <- app_assoc; reflexivity| |exact (Forall_inv_tail Hok)].
    rewrite <- app_assoc. exact Hnd.
  - intros r Hr. destruct (peer_records_facts _ _ _ Hr) as (-> & _). reflexivity.
  - apply instance_records_distinct; assumption.
  - intros e r [] _.
  - right. exact I.
Qed.

Definition peer_instance (p : peer) : instance :=
  {| i_name := p_inst p; i_ips := i_ips (p_i p); i_ports := i_ports (p_i p); i_attrs := rev (i_attrs (p_i p)) |}.

Definition pick_cached (now' : N) (n : tnode) : list rr :=
  map fst (filter (fun e : rr * kind => match_filter filter_cached (snd e) now') (snd n)).
Definition nonempty (g : list rr) : bool := match g with [] => false | _ => true end.
Definition inst_of_group (service : list label) (g : list rr) : list instance :=
  match from_records service g with Some i => [i] | None => [] end.
Lemma known_services_unfold st service now' : node_exists st (get_key service) = true ->
  known_services st service now' =
  List.concat (map (inst_of_group service) (filter nonempty (map (pick_cached now') (filter (fun n => is_prefix (get_key service) (fst n)) st)))).
Proof. intros H. unfold known_services, query. cbn [f_sub filter_cached]. rewrite H. reflexivity. Qed.

Lemma pick_peer service p now' :
  pick_cached now' (peer_node service p) = if now' <? p_now p + 2 * p_ttl p then peer_records service p else [].
Proof.
  unfold pick_cached, peer_node. cbn [snd]. generalize (peer_records service p). intros recs.
  induction recs as [|r t IHr]; [destruct (now' <? p_now p + 2 * p_ttl p); reflexivity|].
  cbn [map filter snd match_filter filter_cached f_cached andb]. destruct (now' <? p_now p + 2 * p_ttl p) eqn:E.
  - cbn [map fst]. f_equal. exact IHr.
  - exact IHr.
Qed.

Lemma peers_groups service now' : forall peers, Forall peer_ok peers ->
  List.concat (map (inst_of_group service) (filter nonempty (map (pick_cached now')
     (filter (fun n => is_prefix (get_key service) (fst n)) (map (peer_node service) peers)))))
  = List.concat (map (fun p => if now' <? p_now p + 2 * p_ttl p then [peer_instance p] else []) peers).
Proof.
  induction peers as [|p peers IH]; intros Hok; [reflexivity|].
  cbn [map filter]. unfold peer_node at 1. cbn [fst]. rewrite get_key_cons, is_prefix_app. fold (peer_node service p).
  cbn [map]. rewrite pick_peer. destruct (Forall_inv Hok) as (Hi & Hips & Hports & Hattr & Hndk).
  specialize (IH (Forall_inv_tail Hok)).
  destruct (now' <? p_now p + 2 * p_ttl p).
  - pose proof (peer_records_ne service p) as Hne. destruct (peer_records service p) as [|r0 rt] eqn:Er; [contradiction|].
    cbn [filter nonempty map List.concat]. rewrite <- Er. unfold inst_of_group at 1. unfold peer_records at 1.
    rewrite (from_instance_records (p_i p) service (p_inst p) (p_inst p :: service) (p_ttl p) (p_its p) eq_refl Hi Hattr Hndk).
    cbn [app]. f_equal. exact IH.
  - cbn [filter nonempty map List.concat app]. exact IH.
Qed.

(* after announcements from any number of different peers, get_known_services lists exactly those whose TTL has not elapsed *)
Theorem known_after_announcements : forall service me ttl0 peers now',
  NoDup (map p_inst peers) -> Forall peer_ok peers ->
  known_services (receive_all service peers (fresh_store service me ttl0)) service now' =
  List.concat (map (fun p => if now' <? p_now p + 2 * p_ttl p then [peer_instance p] else []) peers).
Proof.
  intros service me ttl0 peers now' Hnd Hok.
  pose proof (receive_all_shape service me ttl0 peers [] Hnd Hok) as Hs. cbn [map app] in Hs. rewrite app_nil_r in Hs. rewrite Hs.
  change (fresh_store service me ttl0) with [(get_key service, [(ptr_rr service me ttl0, Auth)])].
  rewrite known_services_unfold by (apply node_exists_key with (m := [(ptr_rr service me ttl0, Auth)]); left; reflexivity).
  cbn [app filter fst]. rewrite is_prefix_refl. cbn [map]. 
  change (pick_cached now' (get_key service, [(ptr_rr service me ttl0, Auth)])) with (@nil rr).
  cbn [filter nonempty]. apply peers_groups. exact Hok.
Qed.
