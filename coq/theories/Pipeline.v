(* The datagram handlers of simple-mdns as functions of (store, datagram, clock): the loop bodies of
   SimpleMdnsResponder::responder_loop, ServiceDiscovery::receive_results and the header peeks of
   OneShotMdnsResolver::query_packet. Sockets, threads and locks are outside the model. No proofs here. *)
Require Import SD.Base SD.Codes SD.Header SD.Name SD.RData SD.Packet SD.Store.
Open Scope N_scope.

Inductive handled :=
| H_skip                         (* not a query: `continue` *)
| H_invalid (e : err)          (* Packet::parse failed: logged *)
| H_no_reply                     (* build_reply returned None *)
| H_build_failed (e : err)     (* build_bytes_vec_compressed failed: logged *)
| H_reply (b : list byte) (unicast : bool).

(* the part shared by both services: answer a parsed query from the store *)
Definition answer_query (st : store) (p : packet) (now : N) : outcome handled :=
  match build_reply st p now with
  | None => Ok H_no_reply
  | Some r => match write_packet_compressed (reply_packet r) with
              | Ok b => Ok (H_reply b (rp_unicast r))
              | Err e => Ok (H_build_failed e)
              | Panic s => Panic s | OutOfFuel => OutOfFuel
              end
  end.

(* simple_responder.rs: `if has_flags(..RESPONSE).unwrap_or(true) { continue }` then parse and answer *)
Definition responder_step (st : store) (d : list byte) (now : N) : outcome handled :=
  match peek_has_flags d F_RESPONSE with
  | Ok false =>
    match parse_packet d with
    | Ok p => answer_query st p now
    | Err e => Ok (H_invalid e)
    | Panic s => Panic s | OutOfFuel => OutOfFuel
    end
  | Ok true | Err _ => Ok H_skip
  | Panic s => Panic s | OutOfFuel => OutOfFuel
  end.

(* service_discovery.rs: parse; a response is ingested under the write lock, a query is answered *)
Definition discovery_step (st : store) (service me : list label) (d : list byte) (now : N) : outcome (store * handled) :=
  match parse_packet d with
  | Ok p =>
    if has_flags (hdr p) F_RESPONSE then Ok (ingest st service me p now, H_skip)
    else match answer_query st p now with
         | Ok h => Ok (st, h) | Err e => Err e | Panic s => Panic s | OutOfFuel => OutOfFuel end
  | Err e => Ok (st, H_invalid e)
  | Panic s => Panic s | OutOfFuel => OutOfFuel
  end.

(* oneshot_resolver.rs: the three peeks on the whole 4096-byte receive buffer *)
Definition resolver_peeks (buf : list byte) : outcome bool * outcome N * outcome N :=
  (peek_has_flags buf F_RESPONSE, peek_id buf, peek_answers buf).
