(* C13 / C20: the record store, its keys, replies and expiry *)
Require Import SD.Base SD.BaseProofs SD.Codes SD.CodesProofs SD.Name SD.RData SD.Packet SD.Header SD.TextApi SD.TextApiProofs SD.Store SD.OwnedProofs.
From Coq Require Import ZArith ZifyN ZifyNat ZifyBool.
Ltac Zify.zify_post_hook ::= Z.div_mod_to_equations.

(* ================= keys: byte prefix <=> label suffix ================= *)
Definition enc_label (l : label) : list byte := bN (len l) :: l.
Definition short_labels (n : list label) : Prop := Forall (fun l : label => len l < 256) n.

Lemma is_prefix_refl p : is_prefix p p = true.
Proof. induction p as [|b p IH]; [reflexivity|]. cbn [is_prefix]. rewrite IH. rewrite (proj2 (byte_eqb_eq b b) eq_refl). reflexivity. Qed.
Lemma is_prefix_app p t : is_prefix p (p ++ t) = true.
Proof. induction p as [|b p IH]; [reflexivity|]. cbn [is_prefix app]. rewrite IH. rewrite (proj2 (byte_eqb_eq b b) eq_refl). reflexivity. Qed.
Lemma is_prefix_spec : forall p l, is_prefix p l = true <-> exists t, l = p ++ t.
Proof.
  induction p as [|b p IH]; intros l; cbn [is_prefix].
  - split; [intros _; exists l; reflexivity|reflexivity].
  - destruct l as [|c l]; [split; [discriminate|intros [t H]; discriminate]|].
    rewrite andb_true_iff, byte_eqb_eq, IH. split.
    + intros [-> [t ->]]. exists t. reflexivity.
    + intros [t H]. injection H as -> ->. split; [reflexivity|exists t; reflexivity].
Qed.

Lemma app_same_length_inv {A} (l m x y : list A) : length l = length m -> l ++ x = m ++ y -> l = m /\ x = y.
Proof.
  revert m. induction l as [|a l IH]; intros [|b m] Hl H; cbn in *; try discriminate; [split; [reflexivity|exact H]|].
  injection H as -> H. injection Hl as Hl. destruct (IH m Hl H) as [-> ->]. split; reflexivity.
Qed.

Lemma bN_len_inj (l m : label) : len l < 256 -> len m < 256 -> bN (len l) = bN (len m) -> length l = length m.
Proof.
  intros Hl Hm H. apply (f_equal Byte.to_N) in H. rewrite !to_N_bN in H. rewrite !N.mod_small in H by assumption. unfold len in H. lia.
Qed.

(* length-prefixed labels form a prefix code: one concatenation is a byte prefix of another iff the label lists are in the prefix relation *)
Lemma enc_prefix_code : forall x y, short_labels x -> short_labels y ->
  (is_prefix (List.concat (map enc_label x)) (List.concat (map enc_label y)) = true <-> exists t, y = x ++ t).
Proof.
  induction x as [|l x IH]; intros y Hx Hy.
  - split; [intros _; exists y; reflexivity|reflexivity].
  - destruct y as [|m y].
    + cbn [map List.concat enc_label app is_prefix]. split; [discriminate|intros [t H]; discriminate].
    + pose proof (Forall_inv Hx) as Hl. pose proof (Forall_inv Hy) as Hm. cbn beta in Hl, Hm.
      specialize (IH y (Forall_inv_tail Hx) (Forall_inv_tail Hy)).
      cbn [map List.concat]. rewrite is_prefix_spec. split.
      * intros [t H]. unfold enc_label in H. cbn [app] in H. injection H as Hb H.
        pose proof (bN_len_inj l m Hl Hm (eq_sym Hb)) as Hlen. rewrite <- app_assoc in H.
        destruct (app_same_length_inv m l _ _ (eq_sym Hlen) H) as [-> H2].
        assert (P : is_prefix (List.concat (map enc_label x)) (List.concat (map enc_label y)) = true)
          by (apply is_prefix_spec; exists t; exact H2).
        apply IH in P. destruct P as [t' ->]. exists t'. reflexivity.
      * intros [t H]. injection H as -> ->. rewrite map_app, concat_app. exists (List.concat (map enc_label t)).
        rewrite <- app_assoc. reflexivity.
Qed.

Lemma get_key_enc n : get_key n = List.concat (map enc_label (rev n)).
Proof. reflexivity. Qed.

(* the key lemma of C13 (false for the pinned get_key: finding F17) *)
Theorem key_prefix_iff_suffix : forall a b, short_labels a -> short_labels b ->
  (is_prefix (get_key a) (get_key b) = true <-> exists pre, b = pre ++ a).
Proof.
  intros a b Ha Hb. rewrite !get_key_enc.
  rewrite enc_prefix_code by (apply Forall_rev; assumption). split.
  - intros [t H]. apply (f_equal (@rev label)) in H. rewrite rev_involutive, rev_app_distr, rev_involutive in H. exists (rev t). exact H.
  - intros [pre ->]. exists (rev pre). apply rev_app_distr.
Qed.
Theorem key_injective : forall a b, short_labels a -> short_labels b -> get_key a = get_key b -> a = b.
Proof.
  intros a b Ha Hb H.
  assert (P1 : is_prefix (get_key a) (get_key b) = true) by (rewrite H; apply is_prefix_refl).
  assert (P2 : is_prefix (get_key b) (get_key a) = true) by (rewrite H; apply is_prefix_refl).
  apply key_prefix_iff_suffix in P1; try assumption. apply key_prefix_iff_suffix in P2; try assumption.
  destruct P1 as [p1 E1]. destruct P2 as [p2 E2]. rewrite E1 in E2. rewrite app_assoc in E2.
  assert (L : length (p2 ++ p1) = 0%nat) by (apply (f_equal (@length label)) in E2; rewrite app_length in E2; lia).
  rewrite app_length in L. destruct p1; [exact (eq_sym E1)|cbn in L; lia].
Qed.

(* the pinned key concatenated label texts: "officeprinter.local" and "printer.office.local" collide under prefixing *)
Definition pinned_key (n : list label) : list byte := List.concat (rev n).
Example pinned_key_collision :
  let office_printer := [map bN [111; 102; 102; 105; 99; 101; 112; 114; 105; 110; 116; 101; 114]; map bN [108; 111; 99; 97; 108]] in
  let printer_office := [map bN [112; 114; 105; 110; 116; 101; 114]; map bN [111; 102; 102; 105; 99; 101]; map bN [108; 111; 99; 97; 108]] in
  is_prefix (pinned_key office_printer) (pinned_key printer_office) = true /\
  is_prefix (get_key office_printer) (get_key printer_office) = false.
Proof. vm_compute. split; reflexivity. Qed.

(* ================= store invariant ================= *)
Definition node_ok (n : tnode) : Prop := forall e, In e (snd n) -> fst n = get_key (rname (fst e)).
Definition store_ok (st : store) : Prop := Forall node_ok st.

Lemma rr_eqb_name a b : rr_eqb a b = true -> rname a = rname b.
Proof. unfold rr_eqb. intros H. apply andb_prop in H. destruct H as [H _]. apply andb_prop in H. destruct H as [H _]. apply labels_eqb_eq. exact H. Qed.

Lemma find_node_in st k m : find_node st k = Some m -> In (k, m) st.
Proof.
  induction st as [|[k' m'] r IH]; cbn [find_node]; [discriminate|]. destruct (bytes_eqb k' k) eqn:E.
  - apply bytes_eqb_eq in E. intros H. injection H as <-. left. congruence.
  - intros H. right. apply IH. exact H.
Qed.
Lemma set_node_ok st k m : store_ok st -> node_ok (k, m) -> store_ok (set_node st k m).
Proof.
  intros Hs Hn. induction st as [|[k' m'] r IH]; cbn [set_node]; [constructor; [exact Hn|constructor]|].
  destruct (bytes_eqb k' k); [constructor; [exact Hn|exact (Forall_inv_tail Hs)]|].
  constructor; [exact (Forall_inv Hs)|apply IH; exact (Forall_inv_tail Hs)].
Qed.
Lemma map_insert_in m r v e : In e (map_insert m r v) -> (exists v', In (fst e, v') m) \/ e = (r, v).
Proof.
  induction m as [|[r' v'] t IH]; cbn [map_insert]; [intros [<- | []]; right; reflexivity|].
  destruct (rr_eqb r' r).
  - intros [<- | H]; [left; exists v'; left; reflexivity|]. left. exists (snd e). right. destruct e; exact H.
  - intros [<- | H]; [left; exists v'; left; reflexivity|]. destruct (IH H) as [[v2 H2] | H2]; [left; exists v2; right; exact H2|right; exact H2].
Qed.

Lemma add_authoritative_ok st r : store_ok st -> store_ok (add_authoritative st r).
Proof.
  intros Hs. unfold add_authoritative. destruct (find_node st (get_key (rname r))) as [m|] eqn:E.
  - apply set_node_ok; [exact Hs|]. intros e He. cbn [fst snd] in *. apply map_insert_in in He.
    destruct He as [[v' He] | ->]; [|reflexivity].
    apply find_node_in in E. unfold store_ok in Hs; rewrite Forall_forall in Hs. exact (Hs _ E (fst e, v') He).
  - apply set_node_ok; [exact Hs|]. intros e [<- | []]. reflexivity.
Qed.
Lemma add_cached_ok st r now : store_ok st -> store_ok (add_cached st r now).
Proof.
  intros Hs. unfold add_cached. destruct (find_node st (get_key (rname r))) as [m|] eqn:E.
  - destruct (map_get m r) as [[|e']|]; try exact Hs;
      (apply set_node_ok; [exact Hs|]; intros e He; cbn [fst snd] in *; apply map_insert_in in He;
       destruct He as [[v' He] | ->]; [|reflexivity];
       apply find_node_in in E; unfold store_ok in Hs; rewrite Forall_forall in Hs; exact (Hs _ E (fst e, v') He)).
  - apply set_node_ok; [exact Hs|]. intros e [<- | []]. reflexivity.
Qed.
Lemma remove_record_ok st r : store_ok st -> store_ok (remove_record st r).
Proof.
  intros Hs. unfold remove_record. destruct (find_node st (get_key (rname r))) as [m|] eqn:E; [|exact Hs].
  apply set_node_ok; [exact Hs|]. intros e He. cbn [fst snd] in *. unfold map_remove in He. apply filter_In in He. destruct He as [He _].
  apply find_node_in in E. unfold store_ok in Hs; rewrite Forall_forall in Hs. exact (Hs _ E e He).
Qed.

(* every store reachable by any sequence of operations satisfies the invariant *)
Inductive sop := OpAddAuth (r : rr) | OpAddCached (r : rr) (now : N) | OpRemove (r : rr) | OpClear.
Definition apply_op (st : store) (o : sop) : store :=
  match o with
  | OpAddAuth r => add_authoritative st r | OpAddCached r now => add_cached st r now
  | OpRemove r => remove_record st r | OpClear => clear_store
  end.
Theorem reachable_ok : forall ops, store_ok (fold_left apply_op ops []).
Proof.
  intros ops. assert (G : forall st, store_ok st -> store_ok (fold_left apply_op ops st)).
  { induction ops as [|o r IH]; intros st H; [exact H|]. cbn [fold_left]. apply IH. destruct o; cbn [apply_op].
    - apply add_authoritative_ok; exact H. - apply add_cached_ok; exact H. - apply remove_record_ok; exact H. - constructor. }
  apply G. constructor.
Qed.

(* ================= queries ================= *)
Definition registered (st : store) (r : rr) (v : kind) : Prop := exists k m, In (k, m) st /\ In (r, v) m.

Lemma query_sound st name f now r : In r (List.concat (query st name f now)) ->
  exists k m v, In (k, m) st /\ In (r, v) m /\ match_filter f v now = true /\
                (if f_sub f then is_prefix (get_key name) k = true else k = get_key name).
Proof.
  unfold query. intros H. apply in_concat in H. destruct H as (g & Hg & Hr). apply filter_In in Hg. destruct Hg as [Hg _].
  destruct (f_sub f).
  - destruct (node_exists st (get_key name)); [|contradiction].
    apply in_map_iff in Hg. destruct Hg as ([k m] & <- & Hn). apply filter_In in Hn. destruct Hn as [Hin Hp]. cbn [fst snd] in *.
    apply in_map_iff in Hr. destruct Hr as ([r' v] & <- & He). apply filter_In in He. destruct He as [He Hf]. cbn [fst snd] in *.
    exists k, m, v. repeat split; assumption.
  - destruct (find_node st (get_key name)) as [m|] eqn:E; [|contradiction]. destruct Hg as [<- | []].
    apply in_map_iff in Hr. destruct Hr as ([r' v] & <- & He). apply filter_In in He. destruct He as [He Hf]. cbn [fst snd] in *.
    exists (get_key name), m, v. repeat split; try assumption. apply find_node_in. exact E.
Qed.

Lemma auth_filter_kind sub v now : match_filter (filter_authoritative sub) v now = true -> v = Auth.
Proof. destruct v; cbn; [reflexivity|discriminate]. Qed.

Definition names_short (st : store) : Prop := forall k m e, In (k, m) st -> In e m -> short_labels (rname (fst e)).

(* soundness of the reply: every answer is a registered authoritative record whose owner is the question name or a label-wise
   subdomain of it and which matches the question's type and class *)
Theorem answers_sound st q now a : store_ok st -> names_short st -> short_labels (qname q) ->
  In a (answers_for st q now) ->
  registered st a Auth /\ (exists pre, rname a = pre ++ qname q) /\
  match_qtype (type_of_rdata (rdata_of a)) (q_type q) = true /\ match_qclass (rclass a) (q_class q) = true.
Proof.
  intros Hok Hsh Hq H. unfold answers_for in H. apply filter_In in H. destruct H as [H Hm].
  apply andb_prop in Hm. destruct Hm as [Hc Ht].
  destruct (query_sound _ _ _ _ _ H) as (k & m & v & Hin & He & Hf & Hp). cbn [f_sub filter_authoritative] in Hp.
  apply auth_filter_kind in Hf. subst v. split; [exists k, m; split; assumption|]. split; [|split; assumption].
  unfold store_ok in Hok. rewrite Forall_forall in Hok. pose proof (Hok _ Hin (a, Auth) He) as Hk. cbn [fst snd] in Hk. rewrite Hk in Hp.
  apply key_prefix_iff_suffix in Hp; [exact Hp|exact Hq|]. exact (Hsh _ _ _ Hin He).
Qed.

Lemma node_exists_key st k m : In (k, m) st -> node_exists st k = true.
Proof.
  intros H. unfold node_exists. destruct k; [reflexivity|]. apply orb_true_iff. left. apply existsb_exists.
  exists (b :: k, m). split; [exact H|]. apply bytes_eqb_eq. reflexivity.
Qed.

(* completeness: every registered authoritative record whose owner equals the question name and matches is in the reply *)
Theorem answers_complete st q now a k m : In (k, m) st -> In (a, Auth) m -> k = get_key (rname a) -> rname a = qname q ->
  match_qtype (type_of_rdata (rdata_of a)) (q_type q) = true -> match_qclass (rclass a) (q_class q) = true ->
  In a (answers_for st q now).
Proof.
  intros Hin He Hk Hn Ht Hc. unfold answers_for. apply filter_In. split; [|rewrite Hc, Ht; reflexivity].
  unfold query. cbn [f_sub filter_authoritative]. rewrite <- Hn, <- Hk. rewrite (node_exists_key _ _ _ Hin).
  apply in_concat. exists (map fst (filter (fun e => match_filter (filter_authoritative true) (snd e) now) m)). split.
  - apply filter_In. split.
    + apply in_map_iff. exists (k, m). split; [reflexivity|]. apply filter_In. split; [exact Hin|apply is_prefix_refl].
    + assert (Hi : In a (map fst (filter (fun e => match_filter (filter_authoritative true) (snd e) now) m))).
      { apply in_map_iff. exists (a, Auth). split; [reflexivity|]. apply filter_In. split; [exact He|reflexivity]. }
      destruct (map fst (filter (fun e => match_filter (filter_authoritative true) (snd e) now) m)); [contradiction|reflexivity].
  - apply in_map_iff. exists (a, Auth). split; [reflexivity|]. apply filter_In. split; [exact He|reflexivity].
Qed.

(* ================= the reply as a whole ================= *)
Theorem reply_sound st p now r : store_ok st -> names_short st -> Forall (fun q => short_labels (qname q)) (qs p) ->
  build_reply st p now = Some r ->
  rp_id r = h_id (hdr p) /\ rp_response r = true /\ rp_unicast r = existsb unicast (qs p) /\ rp_answers r <> [] /\
  (forall a, In a (rp_answers r) -> exists q, In q (qs p) /\ registered st a Auth /\ (exists pre, rname a = pre ++ qname q) /\
                                   match_qtype (type_of_rdata (rdata_of a)) (q_type q) = true /\ match_qclass (rclass a) (q_class q) = true).
Proof.
  intros Hok Hsh Hq H. unfold build_reply in H.
  destruct (List.concat (map (fun q => answers_for st q now) (qs p))) as [|a0 ar] eqn:E; [discriminate|].
  injection H as <-. cbn [rp_id rp_response rp_unicast rp_answers]. repeat split; try discriminate.
  intros a Ha. rewrite <- E in Ha. apply in_concat in Ha. destruct Ha as (l & Hl & Hal). apply in_map_iff in Hl.
  destruct Hl as (q & <- & Hqin). exists q. split; [exact Hqin|]. apply (answers_sound st q now a Hok Hsh); [|exact Hal].
  rewrite Forall_forall in Hq. exact (Hq q Hqin).
Qed.

Theorem reply_none_iff st p now : build_reply st p now = None <-> (forall q, In q (qs p) -> answers_for st q now = []).
Proof.
  unfold build_reply. destruct (List.concat (map (fun q => answers_for st q now) (qs p))) as [|a0 ar] eqn:E; split; intros H; try reflexivity; try discriminate.
  - intros q Hq. destruct (answers_for st q now) as [|x xs] eqn:Ea; [reflexivity|]. exfalso.
    assert (Hin : In x (List.concat (map (fun q => answers_for st q now) (qs p)))).
    { apply in_concat. exists (answers_for st q now). split; [apply in_map_iff; exists q; split; [reflexivity|exact Hq]|rewrite Ea; left; reflexivity]. }
    rewrite E in Hin. exact Hin.
  - exfalso. assert (Hin : In a0 (List.concat (map (fun q => answers_for st q now) (qs p)))) by (rewrite E; left; reflexivity).
    apply in_concat in Hin. destruct Hin as (l & Hl & Hal). apply in_map_iff in Hl. destruct Hl as (q & <- & Hqin).
    rewrite (H q Hqin) in Hal. exact Hal.
Qed.

Lemma dedup_in l x : In x (dedup l) -> In x l.
Proof.
  induction l as [|y r IH]; [intros []|]. cbn [dedup]. destruct (existsb (rr_eqb y) r); [intros H; right; apply IH; exact H|].
  intros [<-|H]; [left; reflexivity|right; apply IH; exact H].
Qed.

(* additional records: only registered authoritative address records owned (exactly) by the target of an included SRV answer *)
Theorem additional_sound st p now r x : build_reply st p now = Some r -> In x (rp_additional r) ->
  exists q a t, In q (qs p) /\ In a (rp_answers r) /\ srv_target (rdata_of a) = Some t /\
    registered st x Auth /\ (type_of_rdata (rdata_of x) = TY M_A \/ type_of_rdata (rdata_of x) = TY M_AAAA) /\
    match_qclass (rclass x) (q_class q) = true /\
    (store_ok st -> names_short st -> short_labels t -> rname x = t).
Proof.
  intros H Hx. unfold build_reply in H.
  destruct (List.concat (map (fun q => answers_for st q now) (qs p))) as [|a0 ar] eqn:E; [discriminate|].
  injection H as <-. cbn [rp_additional rp_answers] in *. apply dedup_in in Hx. apply in_concat in Hx. destruct Hx as (l & Hl & Hxl).
  apply in_map_iff in Hl. destruct Hl as (q & <- & Hq). apply in_concat in Hxl. destruct Hxl as (l2 & Hl2 & Hx2).
  apply in_map_iff in Hl2. destruct Hl2 as (a & <- & Ha). unfold additional_for in Hx2.
  destruct (srv_target (rdata_of a)) as [t|] eqn:Et; [|contradiction].
  exists q, a, t. split; [exact Hq|]. split.
  { rewrite <- E. apply in_concat. exists (answers_for st q now). split; [apply in_map_iff; exists q; split; [reflexivity|exact Hq]|exact Ha]. }
  split; [exact Et|]. apply filter_In in Hx2. destruct Hx2 as [Hx2 Hm].
  destruct (query_sound _ _ _ _ _ Hx2) as (k & m & v & Hin & He & Hf & Hk). apply auth_filter_kind in Hf. subst v.
  cbn [f_sub filter_authoritative] in Hk.
  split; [exists k, m; split; assumption|].
  apply andb_prop in Hm. destruct Hm as [Hm Hc]. split.
  - apply orb_prop in Hm. cbn [match_qtype] in Hm. destruct Hm as [Hm|Hm]; apply ty_eqb_eq in Hm; [left|right]; congruence.
  - split; [exact Hc|]. intros Hok Hsh Ht. unfold store_ok in Hok. rewrite Forall_forall in Hok.
    pose proof (Hok _ Hin (x, Auth) He) as Hkx. cbn [fst snd] in Hkx. rewrite Hk in Hkx.
    symmetry. apply key_injective; [exact Ht|exact (Hsh _ _ _ Hin He)|exact Hkx].
Qed.

(* ================= C20: expiry ================= *)
Lemma items_eqb_refl a : items_eqb a a = true.
Proof. induction a as [|[t x] a IH]; [reflexivity|]. cbn [items_eqb]. rewrite IH, (proj2 (bytes_eqb_eq x x) eq_refl). lia. Qed.
Lemma fvals_eqb_refl a : fvals_eqb a a = true.
Proof.
  induction a as [|v a IH]; [reflexivity|]. cbn [fvals_eqb]. rewrite IH.
  destruct v as [x|ls|b|its]; cbn [fval_eqb]; [|rewrite (proj2 (labels_eqb_eq ls ls) eq_refl)|rewrite (proj2 (bytes_eqb_eq b b) eq_refl)|rewrite items_eqb_refl]; try reflexivity. lia.
Qed.
Lemma rr_eqb_refl r : rr_eqb r r = true.
Proof.
  unfold rr_eqb. rewrite (proj2 (labels_eqb_eq _ _) eq_refl), (proj2 (class_eqb_eq _ _) eq_refl). cbn [andb].
  destruct (rdata_of r) as [m vs|c b|t]; cbn [rdata_eqb].
  - rewrite (proj2 (mnem_eqb_eq m m) eq_refl), fvals_eqb_refl. reflexivity.
  - rewrite (proj2 (bytes_eqb_eq b b) eq_refl). lia.
  - apply ty_eqb_eq. reflexivity.
Qed.

Definition kind_of (st : store) (r : rr) : option kind :=
  match find_node st (get_key (rname r)) with Some m => map_get m r | None => None end.

Lemma find_set_node st k m : find_node (set_node st k m) k = Some m.
Proof.
  induction st as [|[k' m'] r IH]; cbn [set_node find_node]; [rewrite (proj2 (bytes_eqb_eq k k) eq_refl); reflexivity|].
  destruct (bytes_eqb k' k) eqn:E; cbn [find_node]; [rewrite (proj2 (bytes_eqb_eq k k) eq_refl); reflexivity|rewrite E; exact IH].
Qed.
Lemma map_get_insert m r v : map_get (map_insert m r v) r = Some v.
Proof.
  induction m as [|[r' v'] t IH]; cbn [map_insert map_get]; [rewrite rr_eqb_refl; reflexivity|].
  destruct (rr_eqb r' r) eqn:E; cbn [map_get]; rewrite E; [reflexivity|exact IH].
Qed.
Lemma map_get_remove m r : map_get (map_remove m r) r = None.
Proof.
  induction m as [|[r' v'] t IH]; [reflexivity|]. cbn [map_remove filter fst]. destruct (rr_eqb r' r) eqn:E; cbn [negb]; [exact IH|].
  cbn [map_get]. rewrite E. exact IH.
Qed.

(* registering locally makes the record authoritative *)
Theorem kind_after_add_auth st r : kind_of (add_authoritative st r) r = Some Auth.
Proof.
  unfold kind_of, add_authoritative. destruct (find_node st (get_key (rname r))); rewrite find_set_node; [apply map_get_insert|].
  cbn [map_get]. rewrite rr_eqb_refl. reflexivity.
Qed.
(* receiving a record: it expires TTL seconds after THIS reception (one second with the cache-flush bit) -
   unless it is registered locally, in which case it stays authoritative *)
Theorem kind_after_add_cached st r now :
  kind_of (add_cached st r now) r =
  match kind_of st r with Some Auth => Some Auth | _ => Some (Cached (now + 2 * (if rcf r then 1 else rttl r))) end.
Proof.
  unfold kind_of, add_cached. destruct (find_node st (get_key (rname r))) as [m|] eqn:E.
  - destruct (map_get m r) as [[|e]|] eqn:Eg.
    + rewrite E, Eg. reflexivity.
    + rewrite find_set_node. apply map_get_insert.
    + rewrite find_set_node. apply map_get_insert.
  - rewrite find_set_node. cbn [map_get]. rewrite rr_eqb_refl. reflexivity.
Qed.
Theorem kind_after_remove st r : kind_of (remove_record st r) r = None.
Proof.
  unfold kind_of, remove_record. destruct (find_node st (get_key (rname r))) as [m|] eqn:E; [|rewrite E; reflexivity].
  rewrite find_set_node. apply map_get_remove.
Qed.
Theorem kind_after_clear r : kind_of clear_store r = None.
Proof. reflexivity. Qed.

(* what the three filters show *)
Theorem filter_semantics v now :
  (match_filter (filter_authoritative false) v now = true <-> v = Auth) /\
  (match_filter filter_cached v now = true <-> exists e, v = Cached e /\ now < e) /\
  (match_filter filter_all v now = true <-> v = Auth \/ exists e, v = Cached e /\ now < e).
Proof.
  split; [|split].
  - destruct v as [|e]; cbn; split; intros H; try discriminate; reflexivity.
  - destruct v as [|e]; cbn; split; intros H; try discriminate.
    + destruct H as (e & H & _). discriminate.
    + exists e. split; [reflexivity|lia].
    + destruct H as (e' & H & Hl). injection H as <-. lia.
  - destruct v as [|e]; cbn; split; intros H; try reflexivity.
    + left. reflexivity.
    + right. exists e. split; [reflexivity|lia].
    + destruct H as [H|(e' & H & Hl)]; [discriminate|]. injection H as <-. lia.
Qed.
(* a record received with TTL 0 is never visible; otherwise exactly while fewer than TTL seconds (2 ticks each) have passed *)
Corollary cached_window t ttl now : match_filter filter_cached (Cached (t + 2 * ttl)) now = true <-> now < t + 2 * ttl.
Proof. cbn. split; lia. Qed.
Corollary ttl_zero_never_visible t now : t <= now -> match_filter filter_cached (Cached (t + 2 * 0)) now = false.
Proof. intros H. cbn. lia. Qed.

(* what a query returns is registered and passes the filter; and everything registered under the exact name that passes is returned *)
Theorem query_exact_complete st name f now r v m : f_sub f = false -> find_node st (get_key name) = Some m -> In (r, v) m ->
  match_filter f v now = true -> In r (List.concat (query st name f now)).
Proof.
  intros Hs Hf He Hm. unfold query. rewrite Hs, Hf.
  assert (Hi : In r (map fst (filter (fun e => match_filter f (snd e) now) m))).
  { apply in_map_iff. exists (r, v). split; [reflexivity|]. apply filter_In. split; [exact He|exact Hm]. }
  apply in_concat. exists (map fst (filter (fun e => match_filter f (snd e) now) m)). split; [|exact Hi].
  apply filter_In. split; [left; reflexivity|].
  destruct (map fst (filter (fun e => match_filter f (snd e) now) m)); [contradiction|reflexivity].
Qed.
