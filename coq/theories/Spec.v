(* Specification tables written from the RFCs (not from the code): RDATA layouts, which names may be compressed.
   The IANA numbers are in Codes.v (iana_type). No proofs here. *)
Require Import SD.Base SD.Codes SD.RData.
Open Scope N_scope.

Definition u8 := F_be 1. Definition u16 := F_be 2. Definition u32 := F_be 4.
Definition dname := F_name false.       (* <domain-name>; whether it may be compressed is a separate table *)
Definition cstr := F_cstr.              (* <character-string>: one length octet then that many octets *)
Definition opaque := F_rest.            (* remaining octets of the RDATA *)

(* RFC layout of each supported type; `vs` only matters for IPSECKEY, whose gateway field depends on the gateway type *)
Definition rfc_layout (m : mnem) (vs : list fval) : layout :=
  match m with
  (* RFC 1035 section 3.3 / 3.4 *)
  | M_A => [u32]                                          (* 3.4.1 ADDRESS *)
  | M_NS | M_MD | M_MF | M_CNAME | M_MB | M_MG | M_MR | M_PTR => [dname]
  | M_SOA => [dname; dname; u32; u32; u32; u32; u32]      (* MNAME RNAME SERIAL REFRESH RETRY EXPIRE MINIMUM *)
  | M_NULL => [opaque]
  | M_WKS => [u32; u8; opaque]                            (* ADDRESS PROTOCOL BITMAP *)
  | M_HINFO => [cstr; cstr]                               (* CPU OS *)
  | M_MINFO => [dname; dname]                             (* RMAILBX EMAILBX *)
  | M_MX => [u16; dname]                                  (* PREFERENCE EXCHANGE *)
  | M_TXT => [F_items I_cstr]                             (* one or more <character-string>s *)
  (* RFC 1183 *)
  | M_RP => [dname; dname]                                (* mbox-dname txt-dname *)
  | M_AFSDB => [u16; dname]                               (* subtype hostname *)
  | M_ISDN => [cstr; cstr]                                (* ISDN-address sa (sa optional in the RFC: known finding F25) *)
  | M_RouteThrough => [u16; dname]                        (* preference intermediate-host *)
  (* RFC 1706 (20-octet GOSIP form: known finding F30) / RFC 1348 *)
  | M_NSAP => [u8; u16; u8; F_be 3; u16; u16; u16; F_be 6; u8]   (* AFI IDI DFI AA Rsvd RD Area ID Sel *)
  | M_NSAP_PTR => [dname]
  | M_AAAA => [F_be 16]                                   (* RFC 3596 2.2 *)
  | M_LOC => [F_ver0; u8; u8; u8; u32; u32; u32]          (* RFC 1876 2: VERSION(=0) SIZE HORIZ VERT LAT LONG ALT *)
  | M_SRV => [u16; u16; u16; dname]                       (* RFC 2782: Priority Weight Port Target *)
  | M_NAPTR => [u16; u16; cstr; cstr; cstr; dname]        (* RFC 3403 4.1: ORDER PREF FLAGS SERVICES REGEXP REPLACEMENT *)
  | M_KX => [u16; dname]                                  (* RFC 2230 3.1 *)
  | M_CERT => [u16; u16; u8; opaque]                      (* RFC 4398 2: type, key tag, algorithm, certificate *)
  | M_OPT => [F_items I_optcode]                          (* RFC 6891 6.1.2: {OPTION-CODE, OPTION-LENGTH, OPTION-DATA}* *)
  | M_DS => [u16; u8; u8; opaque]                         (* RFC 4034 5.1: key tag, algorithm, digest type, digest *)
  | M_IPSECKEY =>                                         (* RFC 4025 2.1: precedence, gateway type, algorithm, gateway, key *)
      match vs with
      | _ :: V_int 0 :: _ => [u8; u8; u8; opaque]
      | _ :: V_int 1 :: _ => [u8; u8; u8; u32; opaque]
      | _ :: V_int 2 :: _ => [u8; u8; u8; F_be 16; opaque]
      | _ :: V_int 3 :: _ => [u8; u8; u8; dname; opaque]
      | _ => []
      end
  | M_RRSIG => [u16; u8; u8; u32; u32; u32; u16; dname; opaque]   (* RFC 4034 3.1 *)
  | M_NSEC => [dname; F_items I_win]                      (* RFC 4034 4.1: next domain name, {window, length, bitmap}* *)
  | M_DNSKEY => [u16; u8; u8; opaque]                     (* RFC 4034 2.1: flags, protocol, algorithm, public key *)
  | M_DHCID => [u16; u8; opaque]                          (* RFC 4701 3.1: identifier type, digest type, digest *)
  | M_ZONEMD => [u32; u8; u8; opaque]                     (* RFC 8976 2.2: serial, scheme, hash algorithm, digest *)
  | M_SVCB | M_HTTPS => [u16; dname; F_items I_param]     (* RFC 9460 2.2: SvcPriority, TargetName, SvcParams (keys increasing) *)
  | M_EUI48 => [F_be 6] | M_EUI64 => [F_be 8]             (* RFC 7043 3.1 / 4.1 *)
  | M_CAA => [u8; cstr; opaque]                           (* RFC 8659 4.1: flags, tag (length-prefixed), value *)
  end.

(* forget whether the library compresses a name field *)
Definition erase_fld (f : fld) : fld := match f with F_name _ => F_name false | f => f end.

(* names that must be written in full (the type's specification forbids compression; RFC 3597 section 4) *)
Definition forbids_compression (m : mnem) : bool :=
  match m with M_SRV | M_NAPTR | M_KX | M_RRSIG | M_NSEC | M_IPSECKEY | M_SVCB | M_HTTPS => true | _ => false end.
(* RFC 1035 types whose RDATA names are compressed *)
Definition rfc1035_compressed (m : mnem) : bool :=
  match m with M_NS | M_MD | M_MF | M_CNAME | M_SOA | M_MB | M_MG | M_MR | M_PTR | M_MINFO | M_MX => true | _ => false end.
