(* The typed RDATA parsers / writers / len() of simple-dns/src/dns/rdata/*.rs as field layouts interpreted by
   parse_layout / enc_layout / len_layout / wc_layout, plus CharacterString (character_string.rs). No proofs here. *)
Require Import SD.Base SD.Codes SD.Name.
Open Scope N_scope.

(* repeated trailing items: TXT strings, NSEC windows, SVCB params, OPT codes *)
Inductive item := I_cstr | I_win | I_param | I_optcode.
Definition tagw (k : item) : nat := match k with I_cstr => 0 | I_win => 1 | I_param | I_optcode => 2 end.
Definition lenw (k : item) : nat := match k with I_cstr | I_win => 1 | I_param | I_optcode => 2 end.
(* SVCB: `key <= previous_key` is an error; NSEC: `last.window_block >= window_block` is an error *)
Definition ordered (k : item) : bool := match k with I_win | I_param => true | _ => false end.

Inductive fld :=
| F_be (n : nat)              (* n-byte big-endian unsigned integer (also [u8; n] addresses) *)
| F_ver0                      (* LOC version: one byte that must be 0, on parse and on write *)
| F_name (compress : bool)    (* domain name; `compress` = the type implements write_compressed_to for it *)
| F_cstr                      (* CharacterString *)
| F_rest                      (* &data[position..] *)
| F_items (k : item).         (* while position < data.len() { item } *)
Definition layout := list fld.

Inductive fval :=
| V_int (v : N) | V_name (ls : list label) | V_bytes (bs : list byte) | V_items (its : list (N * list byte)).

(* ---- the layout of each type, read off its parse / write_to ---- *)
Definition nm := F_name true.     (* RFC 1035 names: compressed by write_compressed_to *)
Definition nmu := F_name false.   (* no write_compressed_to: always written in full *)
Definition layout_of (m : mnem) : layout :=
  match m with
  | M_A => [F_be 4] | M_AAAA => [F_be 16]
  | M_NS | M_MD | M_MF | M_CNAME | M_MB | M_MG | M_MR | M_PTR | M_NSAP_PTR => [nm]
  | M_HINFO => [F_cstr; F_cstr]
  | M_MINFO => [nm; nm]
  | M_MX => [F_be 2; nm]
  | M_TXT => [F_items I_cstr]
  | M_SOA => [nm; nm; F_be 4; F_be 4; F_be 4; F_be 4; F_be 4]
  | M_WKS => [F_be 4; F_be 1; F_rest]
  | M_SRV => [F_be 2; F_be 2; F_be 2; nmu]
  | M_RP => [nm; nm]
  | M_AFSDB => [F_be 2; nm]
  | M_ISDN => [F_cstr; F_cstr]
  | M_RouteThrough => [F_be 2; nm]
  | M_NAPTR => [F_be 2; F_be 2; F_cstr; F_cstr; F_cstr; nmu]
  | M_NSAP => [F_be 1; F_be 2; F_be 1; F_be 3; F_be 2; F_be 2; F_be 2; F_be 6; F_be 1]
  | M_LOC => [F_ver0; F_be 1; F_be 1; F_be 1; F_be 4; F_be 4; F_be 4]
  | M_OPT => [F_items I_optcode]                      (* the RDATA part; udp size and version live in the RR header *)
  | M_CAA => [F_be 1; F_cstr; F_rest]
  | M_SVCB | M_HTTPS => [F_be 2; nmu; F_items I_param]
  | M_EUI48 => [F_be 6] | M_EUI64 => [F_be 8]
  | M_CERT => [F_be 2; F_be 2; F_be 1; F_rest]
  | M_ZONEMD => [F_be 4; F_be 1; F_be 1; F_rest]
  | M_KX => [F_be 2; nmu]
  | M_IPSECKEY => []                                  (* depends on the gateway type: ipseckey_layout *)
  | M_DNSKEY => [F_be 2; F_be 1; F_be 1; F_rest]
  | M_RRSIG => [F_be 2; F_be 1; F_be 1; F_be 4; F_be 4; F_be 4; F_be 2; nmu; F_rest]
  | M_DS => [F_be 2; F_be 1; F_be 1; F_rest]
  | M_NSEC => [nmu; F_items I_win]
  | M_DHCID => [F_be 2; F_be 1; F_rest]
  | M_NULL => [F_rest]
  end.
(* IPSECKEY: precedence, gateway type, algorithm, gateway (by type), public key *)
Definition ipseckey_layout (gwtype : N) : option layout :=
  match gwtype with
  | 0 => Some [F_be 1; F_be 1; F_be 1; F_rest]
  | 1 => Some [F_be 1; F_be 1; F_be 1; F_be 4; F_rest]
  | 2 => Some [F_be 1; F_be 1; F_be 1; F_be 16; F_rest]
  | 3 => Some [F_be 1; F_be 1; F_be 1; nmu; F_rest]
  | _ => None
  end.

(* ---- parsing ---- *)
(* CharacterString::parse *)
Definition parse_cstr (d : list byte) (p : N) : outcome (list byte * N) :=
  if len d <=? p then Err InsufficientData else
  match byte_at d p with
  | None => Panic 301
  | Some l =>
    if (255 <? l) || (len d <? l + p + 1) then Err InvalidCharacterString else
    match bytes_at d (p + 1) l with
    | Some bs => Ok (bs, p + l + 1)
    | None => Panic 302
    end
  end.

Definition parse_item (k : item) (d : list byte) (p : N) (prev : option N) : outcome ((N * list byte) * N) :=
  match be_at d p (tagw k), be_at d (p + N.of_nat (tagw k)) (lenw k) with
  | Some tag, Some l =>
    if ordered k && match prev with Some q => tag <=? q | None => false end
    then Err (match k with I_win => AttemptedInvalidOperation | _ => InvalidDnsPacket end)
    else match bytes_at d (p + N.of_nat (tagw k) + N.of_nat (lenw k)) l with
         | Some bs => Ok ((tag, bs), p + N.of_nat (tagw k) + N.of_nat (lenw k) + l)
         | None => Err (match k with I_cstr => InvalidCharacterString | _ => InsufficientData end)
         end
  | _, _ => Err InsufficientData
  end.

Fixpoint parse_items (fuel : nat) (k : item) (d : list byte) (p : N) (prev : option N)
  : outcome (list (N * list byte) * N) :=
  match fuel with
  | O => OutOfFuel
  | S f =>
    if len d <=? p then Ok ([], p) else
    match parse_item k d p prev with
    | Ok (it, p') =>
      match parse_items f k d p' (Some (fst it)) with
      | Ok (its, p'') => Ok (it :: its, p'')
      | Err e => Err e | Panic s => Panic s | OutOfFuel => OutOfFuel
      end
    | Err e => Err e | Panic s => Panic s | OutOfFuel => OutOfFuel
    end
  end.

Definition parse_fld (f : fld) (d : list byte) (p : N) : outcome (fval * N) :=
  match f with
  | F_be n => match be_at d p n with
              | Some v => Ok (V_int v, p + N.of_nat n) | None => Err InsufficientData end
  | F_ver0 => match be_at d p 1 with
              | Some v => if v =? 0 then Ok (V_int v, p + 1) else Err InvalidDnsPacket
              | None => Err InsufficientData end
  | F_name _ => match parse_name d p with
                | Ok (ls, p') => Ok (V_name ls, p') | Err e => Err e | Panic s => Panic s | OutOfFuel => OutOfFuel end
  | F_cstr => match parse_cstr d p with
              | Ok (bs, p') => Ok (V_bytes bs, p') | Err e => Err e | Panic s => Panic s | OutOfFuel => OutOfFuel end
  | F_rest => match bytes_at d p (len d - p) with
              | Some bs => if p <=? len d then Ok (V_bytes bs, len d) else Panic 303
              | None => Panic 303 end                                   (* &data[position..] with position > len *)
  | F_items k => match parse_items (S (length d)) k d p None with
                 | Ok (its, p') => Ok (V_items its, p') | Err e => Err e | Panic s => Panic s | OutOfFuel => OutOfFuel end
  end.

Fixpoint parse_layout (lay : layout) (d : list byte) (p : N) : outcome (list fval * N) :=
  match lay with
  | [] => Ok ([], p)
  | f :: r => match parse_fld f d p with
              | Ok (v, p') => match parse_layout r d p' with
                              | Ok (vs, p'') => Ok (v :: vs, p'') | Err e => Err e | Panic s => Panic s | OutOfFuel => OutOfFuel end
              | Err e => Err e | Panic s => Panic s | OutOfFuel => OutOfFuel end
  end.

(* <type>::parse for every typed variant: `d` is the buffer cut at the end of the RDATA, `p` its start *)
Definition parse_typed (m : mnem) (d : list byte) (p : N) : outcome (list fval * N) :=
  match m with
  | M_IPSECKEY =>
    if len d <? p + 3 then Err InsufficientData else
    match byte_at d (p + 1) with
    | None => Panic 304
    | Some gw => match ipseckey_layout gw with
                 | Some lay => parse_layout lay d p
                 | None => Err AttemptedInvalidOperation end
    end
  | _ => parse_layout (layout_of m) d p
  end.

(* ---- writing: write_to ---- *)
Definition enc_item (k : item) (it : N * list byte) : list byte :=
  be_enc (tagw k) (fst it) ++ be_enc (lenw k) (len (snd it)) ++ snd it.

(* NSEC::write_to sorts a clone by window_block (stable) *)
Fixpoint insert_item (it : N * list byte) (l : list (N * list byte)) : list (N * list byte) :=
  match l with
  | [] => [it]
  | x :: r => if fst x <? fst it then x :: insert_item it r else it :: l   (* stable, like Vec::sort_by: an equal key stays behind *)
  end.
Definition sort_items (l : list (N * list byte)) : list (N * list byte) := fold_right insert_item [] l.

Definition enc_items (k : item) (its : list (N * list byte)) : list byte :=
  match k, its with
  | I_cstr, [] => [bN 0]                                              (* TXT with no strings writes one empty string *)
  | I_win, _ => List.concat (map (enc_item k) (sort_items its))
  | _, _ => List.concat (map (enc_item k) its)
  end.

Definition enc_fld (f : fld) (v : fval) : list byte :=
  match f, v with
  | F_be n, V_int x => be_enc n x
  | F_ver0, V_int x => be_enc 1 x
  | F_name _, V_name ls => write_name ls
  | F_cstr, V_bytes bs => bN (len bs) :: bs
  | F_rest, V_bytes bs => bs
  | F_items k, V_items its => enc_items k its
  | _, _ => []
  end.
Fixpoint enc_layout (lay : layout) (vs : list fval) : list byte :=
  match lay, vs with f :: r, v :: vr => enc_fld f v ++ enc_layout r vr | _, _ => [] end.

(* ---- len() ---- *)
Definition len_items (k : item) (its : list (N * list byte)) : N :=
  match k, its with
  | I_cstr, [] => 1
  | _, _ => fold_right (fun it a => N.of_nat (tagw k) + N.of_nat (lenw k) + len (snd it) + a) 0 its
  end.
Definition len_fld (f : fld) (v : fval) : N :=
  match f, v with
  | F_be n, V_int _ => N.of_nat n
  | F_ver0, V_int _ => 1
  | F_name _, V_name ls => name_len ls
  | F_cstr, V_bytes bs => len bs + 1
  | F_rest, V_bytes bs => len bs
  | F_items k, V_items its => len_items k its
  | _, _ => 0
  end.
Fixpoint len_layout (lay : layout) (vs : list fval) : N :=
  match lay, vs with f :: r, v :: vr => len_fld f v + len_layout r vr | _, _ => 0 end.

(* ---- write_compressed_to: names of compressing fields go through the table ---- *)
Definition wc_fld (f : fld) (v : fval) (t : table) (off : N) : list byte * table :=
  match f, v with
  | F_name true, V_name ls => wc_name t off ls
  | _, _ => (enc_fld f v, t)
  end.
Fixpoint wc_layout (lay : layout) (vs : list fval) (t : table) (off : N) : list byte * table :=
  match lay, vs with
  | f :: r, v :: vr =>
    let '(b1, t1) := wc_fld f v t off in
    let '(b2, t2) := wc_layout r vr t1 (off + len b1) in
    (b1 ++ b2, t2)
  | _, _ => ([], t)
  end.

(* ---- RData ---- *)
Inductive rdata :=
| RD (m : mnem) (vs : list fval)          (* a typed variant, fields in layout order *)
| RD_null (code : N) (bs : list byte)     (* RData::NULL(code, NULL) *)
| RD_empty (t : ty).                      (* RData::Empty(TYPE) *)

(* value-dependent layout *)
Definition layout_for (m : mnem) (vs : list fval) : layout :=
  match m, vs with
  | M_IPSECKEY, _ :: V_int gw :: _ => match ipseckey_layout gw with Some l => l | None => [] end
  | M_IPSECKEY, _ => []
  | M_OPT, _ => [F_be 2; F_be 1; F_items I_optcode]   (* value list: udp size, version, codes *)
  | _, _ => layout_of m
  end.

(* RData::type_code *)
Definition type_of_rdata (r : rdata) : ty :=
  match r with RD m _ => TY m | RD_null c _ => type_of_code c | RD_empty t => t end.

(* what write_to / len() / write_compressed_to see of an OPT value: only the option codes *)
Definition opt_codes_of (vs : list fval) : list fval := match vs with [_; _; c] => [c] | _ => [] end.

Definition enc_rdata (r : rdata) : list byte :=
  match r with
  | RD M_OPT vs => enc_layout [F_items I_optcode] (opt_codes_of vs)
  | RD m vs => enc_layout (layout_for m vs) vs
  | RD_null _ bs => bs
  | RD_empty _ => []
  end.
Definition len_rdata (r : rdata) : N :=
  match r with
  | RD M_OPT vs => len_layout [F_items I_optcode] (opt_codes_of vs)
  | RD m vs => len_layout (layout_for m vs) vs
  | RD_null _ bs => len bs mod 65536            (* NULL.length is a u16 *)
  | RD_empty _ => 0
  end.
Definition wc_rdata (r : rdata) (t : table) (off : N) : list byte * table :=
  match r with
  | RD M_OPT vs => (enc_rdata r, t)
  | RD m vs => wc_layout (layout_for m vs) vs t off
  | _ => (enc_rdata r, t)
  end.
(* LOC::write_to refuses a non-zero version *)
Definition rdata_writable (r : rdata) : bool :=
  match r with RD M_LOC (V_int v :: _) => v =? 0 | _ => true end.
