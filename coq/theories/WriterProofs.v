Require Import SD.Base SD.BaseProofs SD.Writer.
From Coq Require Import ZArith ZifyN ZifyNat ZifyBool.
Ltac Zify.zify_post_hook ::= Z.div_mod_to_equations.

Lemma skipn_add {A} (a b : nat) (l : list A) : skipn (a + b) l = skipn b (skipn a l).
Proof. revert l. induction a as [|a IH]; intros l; [reflexivity|]. destruct l; [cbn; rewrite skipn_nil; reflexivity|]. cbn [Nat.add skipn]. apply IH. Qed.

(* the buffer seen from the write position: what precedes it and what follows *)
Lemma put_split pre rest bs : put (pre ++ rest) (len pre) bs = pre ++ bs ++ skipn (length bs) rest.
Proof.
  unfold put, len. rewrite !Nat2N.id. rewrite firstn_app, firstn_all, Nat.sub_diag. cbn [firstn]. rewrite app_nil_r.
  replace (length pre - length (pre ++ rest))%nat with 0%nat by (rewrite app_length; lia). cbn [zeros_w app].
  f_equal. f_equal. replace (N.to_nat (N.of_nat (length pre) + N.of_nat (length bs))) with (length pre + length bs)%nat by lia.
  rewrite skipn_add. rewrite skipn_app, skipn_all, Nat.sub_diag. reflexivity.
Qed.

Lemma split_buf (buf : list byte) p : p <= len buf -> exists pre rest, buf = pre ++ rest /\ len pre = p.
Proof.
  intros H. exists (firstn (N.to_nat p) buf), (skipn (N.to_nat p) buf). split; [symmetry; apply firstn_skipn|].
  unfold len in *. rewrite firstn_length. lia.
Qed.

(* two consecutive writes are one write of the concatenation *)
Lemma put_put buf p a b : p <= len buf -> put (put buf p a) (p + len a) b = put buf p (a ++ b).
Proof.
  intros H. destruct (split_buf buf p H) as (pre & rest & -> & <-).
  rewrite put_split. replace (len pre + len a) with (len (pre ++ a)) by (rewrite len_app; reflexivity).
  rewrite (app_assoc pre a). rewrite put_split. rewrite put_split. rewrite <- !app_assoc. f_equal. f_equal. f_equal.
  rewrite app_length. symmetry. apply skipn_add.
Qed.

Lemma len_put buf p bs : p <= len buf -> p + len bs <= len (put buf p bs).
Proof.
  intros H. destruct (split_buf buf p H) as (pre & rest & -> & <-). rewrite put_split. rewrite !len_app. lia.
Qed.

Lemma cwrite_cwrite c a b : cpos c <= len (cbuf c) -> cwrite (cwrite c a) b = cwrite c (a ++ b).
Proof.
  intros H. unfold cwrite. cbn [cbuf cpos]. rewrite put_put by exact H. rewrite len_app. f_equal. lia.
Qed.

Lemma cwrite_ok c a : cpos c <= len (cbuf c) -> cpos (cwrite c a) <= len (cbuf (cwrite c a)).
Proof. intros H. unfold cwrite. cbn [cbuf cpos]. apply len_put. exact H. Qed.

(* overwriting x, in the middle of what was just written, by y of the same length *)
Lemma put_patch buf p a x r y : p <= len buf -> length x = length y ->
  put (put buf p (a ++ x ++ r)) (p + len a) y = put buf p (a ++ y ++ r).
Proof.
  intros H Hxy. destruct (split_buf buf p H) as (pre & rest & -> & <-).
  rewrite !put_split.
  replace (pre ++ (a ++ x ++ r) ++ skipn (length (a ++ x ++ r)) rest)
    with ((pre ++ a) ++ (x ++ r ++ skipn (length (a ++ x ++ r)) rest)) by (rewrite <- !app_assoc; reflexivity).
  replace (len pre + len a) with (len (pre ++ a)) by (rewrite len_app; reflexivity).
  rewrite put_split. rewrite <- Hxy. rewrite skipn_app, skipn_all, Nat.sub_diag. cbn [app skipn].
  rewrite <- !app_assoc. f_equal. f_equal. f_equal. f_equal. f_equal. rewrite !app_length. lia.
Qed.

(* the imperative record writer produces what the functional one does, wherever the writer stands and whatever the
   storage already holds: name, fixed part, RDLENGTH = number of RDATA bytes written, RDATA - and ends right after them *)
Theorem rr_write_refines : forall c nameb commonb rdatab, cpos c <= len (cbuf c) -> len rdatab < 65536 ->
  rr_write_imp c nameb commonb rdatab = cwrite c (nameb ++ commonb ++ be_enc 2 (len rdatab) ++ rdatab).
Proof.
  intros [buf p] nameb commonb rdatab Hp Hl. cbn [cbuf cpos] in Hp. unfold rr_write_imp.
  rewrite !cwrite_cwrite by (repeat apply cwrite_ok; cbn [cbuf cpos]; exact Hp).
  unfold cwrite, cseek. cbn [cbuf cpos].
  assert (E : p + len (nameb ++ commonb ++ [x00; x00] ++ rdatab) - (p + len (nameb ++ commonb)) - 2 = len rdatab).
  { rewrite !len_app. unfold len. cbn [length]. lia. }
  rewrite E. f_equal.
  - rewrite (app_assoc nameb commonb ([x00; x00] ++ rdatab)). rewrite put_patch; [rewrite <- app_assoc; reflexivity|exact Hp|].
    cbn [length]. apply Nat2N.inj. symmetry. exact (len_be_enc 2 (len rdatab)).
  - rewrite !len_app, len_be_enc. unfold len. cbn [length]. lia.
Qed.

(* on the pinned tree the final seek went to the end of the storage: over pre-filled storage the next record lands there *)
Example pinned_record_writer_refuted :
  let c := {| cbuf := [x55; x55; x55; x55; x55; x55; x55; x55; x55; x55]; cpos := 0 |} in
  rr_write_imp_pinned c [x00] [x01] [x02] <> cwrite c ([x00] ++ [x01] ++ be_enc 2 1 ++ [x02]) /\
  rr_write_imp c [x00] [x01] [x02] = cwrite c ([x00] ++ [x01] ++ be_enc 2 1 ++ [x02]).
Proof. split; [vm_compute; discriminate|vm_compute; reflexivity]. Qed.

(* a fixed-capacity writer either behaves exactly like the growable one or fails: it never yields a truncated record *)
Theorem rr_write_cap_refines : forall cap c nameb commonb rdatab,
  rr_write_imp_cap cap c nameb commonb rdatab =
  if cpos c + len nameb + len commonb + 2 + len rdatab <=? cap then Ok (rr_write_imp c nameb commonb rdatab) else Err FailedToWrite.
Proof.
  intros cap c nameb commonb rdatab. assert (L2 : len [x00; x00] = 2) by reflexivity.
  unfold rr_write_imp_cap, rr_write_imp, cwrite_cap, cseek_o.
  destruct (cpos c + len nameb <=? cap) eqn:E1; [|destruct (cpos c + len nameb + len commonb + 2 + len rdatab <=? cap) eqn:E; [lia|reflexivity]].
  cbn [cwrite cpos cbuf]. destruct (cpos c + len nameb + len commonb <=? cap) eqn:E2;
    [|destruct (cpos c + len nameb + len commonb + 2 + len rdatab <=? cap) eqn:E; [lia|reflexivity]].
  cbn [cwrite cpos cbuf]. rewrite !L2.
  destruct (cpos c + len nameb + len commonb + 2 <=? cap) eqn:E3;
    [|destruct (cpos c + len nameb + len commonb + 2 + len rdatab <=? cap) eqn:E; [lia|reflexivity]].
  cbn [cwrite cpos cbuf]. rewrite ?L2.
  destruct (cpos c + len nameb + len commonb + 2 + len rdatab <=? cap) eqn:E4; [|reflexivity].
  cbn [cwrite cseek cpos cbuf]. rewrite ?L2, len_be_enc. change (N.of_nat 2) with 2. rewrite E3. reflexivity.
Qed.
