(* C03 / C07: the compression table invariant and what Name::compress_append emits *)
Require Import SD.Base SD.BaseProofs SD.Sweep SD.Name SD.NameProofs SD.RData SD.RDataProofs SD.TextApiProofs.
From Coq Require Import ZArith ZifyN ZifyNat ZifyBool.
Ltac Zify.zify_post_hook ::= Z.div_mod_to_equations.

(* the two pointer bytes: (p as u16 | 0xC000).to_be_bytes() for an offset that fits 14 bits *)
Definition ptr_ok (p : N) : bool :=
  match be_enc 2 (N.lor (p mod 65536) 49152) with
  | [b1; b2] => (Byte.to_N b1 =? 192 + p / 256) && (Byte.to_N b2 =? p mod 256)
  | _ => false
  end.
Lemma ptr_sweep : forallb ptr_ok (upto 16384) = true.
Proof. vm_compute. reflexivity. Qed.
Lemma ptr_bytes p : p <= 16383 -> be_enc 2 (N.lor (p mod 65536) 49152) = [bN (192 + p / 256); bN p].
Proof.
  intros H. pose proof (sweep _ _ ptr_sweep p ltac:(lia)) as E. unfold ptr_ok in E.
  destruct (be_enc 2 (N.lor (p mod 65536) 49152)) as [|b1 [|b2 [|b3 r]]]; try discriminate.
  apply andb_prop in E. destruct E as [E1 E2].
  f_equal; [|f_equal].
  - rewrite <- (bN_to_N b1). f_equal. lia.
  - rewrite <- (bN_to_N b2). unfold bN. replace (Byte.to_N b2 mod 256) with (p mod 256) by (pose proof (Byte.to_N_bounded b2); lia). reflexivity.
Qed.

Lemma rfc_bw_app d p k more : rfc_bw d p k -> rfc_bw (d ++ more) p k.
Proof.
  induction 1 as [p H0 | p n l ls Hn Hr Hl Hrest IH | p b1 b2 ls H1 Hm H2 Hlt Hrest IH].
  - apply bw_root. rewrite byte_at_app_l; [assumption|]. apply byte_at_lt in H0; tauto.
  - eapply bw_label; eauto. rewrite byte_at_app_l; [assumption|]. apply byte_at_lt in Hn; tauto.
    apply bytes_at_app_l; assumption.
  - eapply bw_ptr; eauto; (rewrite byte_at_app_l; [assumption|]).
    apply byte_at_lt in H1; tauto. apply byte_at_lt in H2; tauto.
Qed.

(* what a table entry promises: a non-empty suffix, at an offset a pointer can express, that decodes there *)
Definition valid (out : list byte) (p : N) (k : list label) : Prop := k <> [] /\ p <= 16383 /\ rfc_bw out p k.
Definition TInv (out : list byte) (t : table) : Prop := forall k p, lookup t k = Some p -> valid out p k.
(* inside one name the entry for the suffix being written is inserted before its bytes exist: only shorter keys are looked up below *)
Definition old_ok (out : list byte) (t : table) (n : nat) := forall k p, lookup t k = Some p -> (length k <= n)%nat -> valid out p k.

Lemma TInv_app out t more : TInv out t -> TInv (out ++ more) t.
Proof. intros H k p Hk. destruct (H k p Hk) as (A & B & C). split; [|split]; auto. apply rfc_bw_app. exact C. Qed.

Lemma lookup_cons_eq t k p : lookup ((k, p) :: t) k = Some p.
Proof. cbn [lookup]. rewrite (proj2 (labels_eqb_eq k k) eq_refl). reflexivity. Qed.

(* the in-place shape of what is emitted for one name *)
Theorem wc_name_ok : forall ls out t bs t',
  wf_labels ls -> old_ok out t (length ls) -> wc_name t (len out) ls = (bs, t') ->
  (forall more, rfc_bw (out ++ bs ++ more) (len out) ls) /\
  (forall more, inplace (out ++ bs ++ more) (len out) (len out + len bs)) /\
  len bs <= len (write_name ls) /\
  (forall k p, lookup t' k = Some p ->
      lookup t k = Some p \/
      (lookup t k = None /\ (length k <= length ls)%nat /\ forall more, valid (out ++ bs ++ more) p k)).
Proof.
  induction ls as [|l rest IH]; intros out t bs t' Hwf Hold Hw; cbn [wc_name] in Hw.
  - injection Hw as <- <-.
    assert (B : forall more, byte_at (out ++ [bN 0] ++ more) (len out) = Some 0).
    { intros more. rewrite byte_at_app_r by lia. rewrite N.sub_diag. cbn [app]. rewrite byte_at_cons0, to_N_bN. reflexivity. }
    split; [intros more; apply bw_root; apply B|]. split; [intros more; replace (len [bN 0]) with 1 by reflexivity; apply ip_root; apply B|].
    split; [cbn; lia|]. intros k p H; left; exact H.
  - pose proof (Forall_inv Hwf) as Hl. pose proof (Forall_inv_tail Hwf) as Hrest'. cbn beta in Hl.
    destruct (lookup t (l :: rest)) as [p|] eqn:Hlk.
    + (* the whole remaining suffix is known: a pointer *)
      destruct (Hold _ _ Hlk (le_n _)) as (_ & Hp & Hdec). rewrite (ptr_bytes p Hp) in Hw.
      injection Hw as <- <-.
      pose proof (rfc_bw_lt _ _ _ Hdec) as Hplt.
      destruct (ptr_bits (p / 256)) as [Hb1 Hb2]; [lia|].
      assert (B1 : forall more, byte_at (out ++ [bN (192 + p / 256); bN p] ++ more) (len out) = Some (192 + p / 256)).
      { intros more. rewrite byte_at_app_r by lia. rewrite N.sub_diag. cbn [app]. rewrite byte_at_cons0, to_N_bN. f_equal. lia. }
      assert (B2 : forall more, byte_at (out ++ [bN (192 + p / 256); bN p] ++ more) (len out + 1) = Some (p mod 256)).
      { intros more. rewrite byte_at_app_r by lia. replace (len out + 1 - len out) with 1 by lia.
        cbn [app]. rewrite byte_at_cons1, to_N_bN. reflexivity. }
      split; [|split; [|split]].
      * intros more. eapply bw_ptr with (b1 := 192 + p / 256) (b2 := p mod 256); [apply B1|exact Hb1|apply B2| |].
        -- rewrite Hb2. lia.
        -- rewrite Hb2. replace (p / 256 * 256 + p mod 256) with p by lia. apply rfc_bw_app. exact Hdec.
      * intros more. replace (len [bN (192 + p / 256); bN p]) with 2 by reflexivity. eapply ip_ptr; [apply B1|exact Hb1].
      * replace (len [bN (192 + p / 256); bN p]) with 2 by reflexivity. cbn [write_name]. rewrite len_cons, len_app. lia.
      * intros k q H; left; exact H.
    + match type of Hw with (let '(_, _) := ?c in _) = _ => destruct c as [bs2 t2] eqn:Hrec end.
      injection Hw as <- <-.
      set (out1 := out ++ bN (len l) :: l).
      assert (Hlen1 : len out1 = len out + 1 + len l) by (unfold out1; rewrite len_app, len_cons; lia).
      unfold MAX_POINTER_OFFSET in Hrec.
      specialize (IH out1 (if len out <=? 16383 then (l :: rest, len out) :: t else t) bs2 t2 Hrest').
      rewrite Hlen1 in IH. destruct IH as (IHdec & IHip & IHlen & IHtbl); [|exact Hrec|].
      { intros k p Hk Hlenk. destruct (len out <=? 16383) eqn:E.
        - cbn [lookup] in Hk. destruct (labels_eqb (l :: rest) k) eqn:Ek.
          + apply labels_eqb_eq in Ek. subst k. cbn [length] in Hlenk. lia.
          + destruct (Hold k p Hk) as (A & B & C); [cbn [length]; lia|]. split; [|split]; auto.
            unfold out1. apply rfc_bw_app. exact C.
        - destruct (Hold k p Hk) as (A & B & C); [cbn [length]; lia|]. split; [|split]; auto.
          unfold out1. apply rfc_bw_app. exact C. }
      assert (Eshape : forall more, out ++ (bN (len l) :: l ++ bs2) ++ more = out1 ++ bs2 ++ more).
      { intros more. unfold out1. rewrite <- !app_assoc. cbn [app]. rewrite <- !app_assoc. reflexivity. }
      assert (Bl : forall more, byte_at (out ++ (bN (len l) :: l ++ bs2) ++ more) (len out) = Some (len l)).
      { intros more. rewrite byte_at_app_r by lia. rewrite N.sub_diag. cbn [app]. rewrite byte_at_cons0, to_N_bN. f_equal. lia. }
      assert (Hhere : forall more, rfc_bw (out ++ (bN (len l) :: l ++ bs2) ++ more) (len out) (l :: rest)).
      { intros more. eapply bw_label with (n := len l); [apply Bl|exact Hl| |].
        - replace (out ++ (bN (len l) :: l ++ bs2) ++ more) with ((out ++ [bN (len l)]) ++ l ++ (bs2 ++ more)).
          2:{ rewrite <- !app_assoc. cbn. rewrite <- !app_assoc. reflexivity. }
          replace (len out + 1) with (len (out ++ [bN (len l)])) by (rewrite len_app; cbn; lia).
          apply bytes_at_here.
        - rewrite Eshape. apply IHdec. }
      split; [exact Hhere|]. split; [|split].
      * intros more. eapply ip_label with (n := len l); [apply Bl|lia| |].
        -- pose proof (small_not_ptr (len l) ltac:(lia)). lia.
        -- rewrite Eshape. rewrite len_cons, len_app.
           replace (len out + (1 + (len l + len bs2))) with (len out + 1 + len l + len bs2) by lia. apply IHip.
      * cbn [write_name]. rewrite !len_cons, !len_app. lia.
      * intros k p Hk. destruct (IHtbl k p Hk) as [Hprev | (Hnone & Hlenk & Hval)].
        -- destruct (len out <=? 16383) eqn:E; [|left; exact Hprev].
           cbn [lookup] in Hprev. destruct (labels_eqb (l :: rest) k) eqn:Ek; [|left; exact Hprev].
           apply labels_eqb_eq in Ek. subst k. injection Hprev as <-. right.
           split; [exact Hlk|]. split; [lia|]. intros more. split; [discriminate|]. split; [lia|]. apply Hhere.
        -- right. destruct (len out <=? 16383) eqn:E.
           ++ cbn [lookup] in Hnone. destruct (labels_eqb (l :: rest) k); [discriminate|].
              split; [exact Hnone|]. split; [cbn [length]; lia|]. intros more. rewrite Eshape. apply Hval.
           ++ split; [exact Hnone|]. split; [cbn [length]; lia|]. intros more. rewrite Eshape. apply Hval.
Qed.

(* at the level of whole names: the invariant is preserved, the name decodes in place, and it is never longer than the plain form *)
Theorem wc_name_inv : forall ls out t bs t', wf_labels ls -> TInv out t -> wc_name t (len out) ls = (bs, t') ->
  (forall more, rfc_bw (out ++ bs ++ more) (len out) ls) /\
  (forall more, inplace (out ++ bs ++ more) (len out) (len out + len bs)) /\
  len bs <= len (write_name ls) /\ TInv (out ++ bs) t'.
Proof.
  intros ls out t bs t' Hwf Hinv Hw.
  destruct (wc_name_ok ls out t bs t' Hwf (fun k p Hk _ => Hinv k p Hk) Hw) as (Hd & Hi & Hl & Ht).
  split; [exact Hd|]. split; [exact Hi|]. split; [exact Hl|].
  intros k p Hk. destruct (Ht k p Hk) as [Hold|(_ & _ & Hv)].
  - exact (TInv_app out t bs Hinv k p Hold).
  - specialize (Hv []). rewrite app_nil_r in Hv. exact Hv.
Qed.

(* Name::parse reads back exactly the name that was written, compressed or not *)
Theorem parse_name_compressed : forall ls out t bs t' more, wf_labels ls -> labels_len ls <= 254 -> TInv out t ->
  wc_name t (len out) ls = (bs, t') ->
  parse_name (out ++ bs ++ more) (len out) = Ok (ls, len out + len bs).
Proof.
  intros ls out t bs t' more Hwf Hsz Hinv Hw. destruct (wc_name_inv ls out t bs t' Hwf Hinv Hw) as (Hd & Hi & _ & _).
  destruct (parse_name_complete _ _ _ (Hd more) Hsz) as (e & He & Hp). rewrite He. f_equal. f_equal.
  eapply inplace_det; [exact Hp|apply Hi].
Qed.

(* C07: every pointer emitted points strictly backwards, to an offset <= 16383, at a position where the remaining labels decode *)
Theorem emitted_pointer_valid : forall t out l rest p, TInv out t -> lookup t (l :: rest) = Some p ->
  wc_name t (len out) (l :: rest) = ([bN (192 + p / 256); bN p], t) /\ p <= 16383 /\ p < len out /\ rfc_bw out p (l :: rest).
Proof.
  intros t out l rest p Hinv Hlk. destruct (Hinv _ _ Hlk) as (_ & Hp & Hd). cbn [wc_name]. rewrite Hlk, (ptr_bytes p Hp).
  split; [reflexivity|]. split; [exact Hp|]. split; [apply (rfc_bw_lt _ _ _ Hd)|exact Hd].
Qed.
(* a name written at a recordable offset is in the table afterwards: a later occurrence is a pointer *)
Lemma wc_name_table_grows : forall ls t off bs t' k p, wc_name t off ls = (bs, t') -> lookup t k = Some p -> lookup t' k = Some p.
Proof.
  induction ls as [|l rest IH]; intros t off bs t' k p Hw Hk; cbn [wc_name] in Hw; [injection Hw as _ <-; exact Hk|].
  destruct (lookup t (l :: rest)) as [q|] eqn:E; [injection Hw as _ <-; exact Hk|].
  match type of Hw with (let '(_, _) := ?c in _) = _ => destruct c as [bs2 t2] eqn:Hrec end. injection Hw as _ <-.
  eapply IH; [exact Hrec|]. destruct (off <=? MAX_POINTER_OFFSET); [|exact Hk].
  cbn [lookup]. destruct (labels_eqb (l :: rest) k) eqn:Ek; [|exact Hk]. apply labels_eqb_eq in Ek. subst k. congruence.
Qed.
Theorem written_name_recorded : forall l rest t off bs t', wc_name t off (l :: rest) = (bs, t') ->
  (off <= 16383 \/ lookup t (l :: rest) <> None) -> lookup t' (l :: rest) <> None.
Proof.
  intros l rest t off bs t' Hw Hc. cbn [wc_name] in Hw. destruct (lookup t (l :: rest)) as [q|] eqn:E.
  - injection Hw as _ <-. rewrite E. discriminate.
  - match type of Hw with (let '(_, _) := ?c in _) = _ => destruct c as [bs2 t2] eqn:Hrec end. injection Hw as _ <-.
    destruct Hc as [Hc|Hc]; [|congruence]. unfold MAX_POINTER_OFFSET in Hrec. destruct (off <=? 16383) eqn:Eo; [|lia].
    rewrite (wc_name_table_grows _ _ _ _ _ (l :: rest) off Hrec (lookup_cons_eq t (l :: rest) off)). discriminate.
Qed.
