(* C16: owned copies and hashing. into_owned / clone rebuild a value field by field from the same data, which in the
   value-level model is the identity; what is modelled with content is the Hash implementation of InstanceInformation
   after the F16 repair: name, then the addresses in sorted order, then the ports in sorted order. No proofs here. *)
Require Import SD.Base SD.Codes SD.Name SD.RData SD.Packet SD.Store.
Open Scope N_scope.

(* into_owned, per type: a field-wise rebuild (so a dropped or swapped field would be expressible) *)
Definition fval_into_owned (v : fval) : fval :=
  match v with V_int x => V_int x | V_name ls => V_name (map (fun l => l) ls) | V_bytes b => V_bytes b | V_items its => V_items (map (fun it => (fst it, snd it)) its) end.
Definition rdata_into_owned (r : rdata) : rdata :=
  match r with RD m vs => RD m (map fval_into_owned vs) | RD_null c b => RD_null c b | RD_empty t => RD_empty t end.
Definition rr_into_owned (r : rr) : rr :=
  {| rname := map (fun l => l) (rname r); rclass := rclass r; rttl := rttl r; rdata_of := rdata_into_owned (rdata_of r); rcf := rcf r |}.
Definition question_into_owned (q : question) : question :=
  {| qname := map (fun l => l) (qname q); q_type := q_type q; q_class := q_class q; unicast := unicast q |}.

(* insertion sort on numbers: the `sort()` of the repaired Hash impl *)
Fixpoint insertN (x : N) (l : list N) : list N :=
  match l with [] => [x] | y :: r => if x <=? y then x :: l else y :: insertN x r end.
Definition sortN (l : list N) : list N := fold_right insertN [] l.
(* addresses ordered as IpAddr: V4 before V6, then numerically: encoded as a single number *)
Definition ip_key (ip : bool * N) : N := (if fst ip then 340282366920938463463374607431768211456 else 0) + snd ip.
(* the token stream fed to the hasher, for a given enumeration of the two sets *)
Definition instance_hash_tokens (name : list byte) (ips : list (bool * N)) (ports : list N) : list byte * list N * list N :=
  (name, sortN (map ip_key ips), sortN ports).
