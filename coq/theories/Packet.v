(* RData::parse (rdata/macros.rs), OPT::parse (rdata/opt.rs), ResourceRecord, Question, Packet::parse /
   write_to / write_compressed_to (packet.rs) transliterated. No proofs here. *)
Require Import SD.Base SD.Codes SD.Header SD.Name SD.RData.
Open Scope N_scope.

Record question := { qname : list label; q_type : qtype; q_class : qclass; unicast : bool }.
Record rr := { rname : list label; rclass : class; rttl : N; rdata_of : rdata; rcf : bool }.
Record optv := { o_udp : N; o_version : N; o_codes : list (N * list byte) }.
Record packet := { hdr : header; popt : option optv; qs : list question; ans : list rr; nss : list rr; adds : list rr }.

Definition CACHE_FLUSH : N := 32768.

(* opt::masks after the F11 repair *)
Definition OPT_RCODE_MASK : N := 4278190080.   (* 0xFF00_0000 *)
Definition OPT_VERSION_MASK : N := 16711680.   (* 0x00FF_0000 *)

(* OPT::parse on the buffer cut at the end of the record; `p` is the start of the fixed RR part (type field) *)
Definition parse_opt (d : list byte) (p : N) : outcome (list fval * N) :=
  if len d <? p + 10 then Err InsufficientData else
  match be_at d (p + 2) 2, be_at d (p + 4) 4 with
  | Some udp, Some ttl =>
    let version := N.shiftr (N.land ttl OPT_VERSION_MASK) 16 mod 256 in
    match parse_items (S (length d)) I_optcode d (p + 10) None with
    | Ok (codes, p') => Ok ([V_int udp; V_int version; V_items codes], p')
    | Err e => Err e | Panic s => Panic s | OutOfFuel => OutOfFuel
    end
  | _, _ => Panic 401
  end.

(* parse_rdata: dispatch on TYPE *)
Definition parse_rdata_typed (d : list byte) (p : N) (t : ty) : outcome (rdata * N) :=
  match t with
  | TY M_NULL => match parse_layout [F_rest] d p with
                 | Ok ([V_bytes bs], p') => Ok (RD_null (code_of_mnem M_NULL) bs, p')
                 | Ok _ => Panic 402 | Err e => Err e | Panic s => Panic s | OutOfFuel => OutOfFuel end
  | TUnknown c => match parse_layout [F_rest] d p with
                  | Ok ([V_bytes bs], p') => Ok (RD_null c bs, p')
                  | Ok _ => Panic 402 | Err e => Err e | Panic s => Panic s | OutOfFuel => OutOfFuel end
  | TY M_OPT => match parse_opt d p with     (* unreachable from RData::parse, which returns earlier for OPT *)
                | Ok (vs, p') => Ok (RD M_OPT vs, p') | Err e => Err e | Panic s => Panic s | OutOfFuel => OutOfFuel end
  | TY m => match parse_typed m d p with
            | Ok (vs, p') => Ok (RD m vs, p') | Err e => Err e | Panic s => Panic s | OutOfFuel => OutOfFuel end
  end.

(* RData::parse: `p` points at the TYPE field of the record *)
Definition parse_rdata (d : list byte) (p : N) : outcome (rdata * N) :=
  if len d <? p + 10 then Err InsufficientData else
  match be_at d p 2, be_at d (p + 8) 2 with
  | Some tc, Some rdlen =>
    let t := type_of_code tc in
    if ty_eqb t (TY M_OPT) then
      if len d <? p + rdlen + 10 then Err InsufficientData else
      match parse_opt (firstn (N.to_nat (p + rdlen + 10)) d) p with
      | Ok (vs, p') => Ok (RD M_OPT vs, p') | Err e => Err e | Panic s => Panic s | OutOfFuel => OutOfFuel
      end
    else
      let p := p + 10 in
      if rdlen =? 0 then Ok (RD_empty t, p) else
      if len d <? p + rdlen then Err InsufficientData else
      let rdata_end := p + rdlen in
      match parse_rdata_typed (firstn (N.to_nat rdata_end) d) p t with
      | Ok (rd, _) => Ok (rd, rdata_end)           (* the cursor is set to the end of RDLENGTH *)
      | Err e => Err e | Panic s => Panic s | OutOfFuel => OutOfFuel
      end
  | _, _ => Panic 403
  end.

(* ResourceRecord::parse *)
Definition parse_rr (d : list byte) (p : N) : outcome (rr * N) :=
  match parse_name d p with
  | Ok (name, p1) =>
    if len d <? p1 + 8 then Err InsufficientData else
    match be_at d (p1 + 2) 2, be_at d (p1 + 4) 4 with
    | Some class_value, Some ttl =>
      match parse_rdata d p1 with
      | Ok (rd, p2) =>
        if ty_eqb (type_of_rdata rd) (TY M_OPT) then
          Ok ({| rname := name; rclass := IN; rttl := ttl; rdata_of := rd; rcf := false |}, p2)
        else
          match class_of_code (N.land class_value 32767) with
          | Ok c => Ok ({| rname := name; rclass := c; rttl := ttl; rdata_of := rd;
                           rcf := N.land class_value CACHE_FLUSH =? CACHE_FLUSH |}, p2)
          | Err e => Err e | Panic s => Panic s | OutOfFuel => OutOfFuel
          end
      | Err e => Err e | Panic s => Panic s | OutOfFuel => OutOfFuel
      end
    | _, _ => Panic 404
    end
  | Err e => Err e | Panic s => Panic s | OutOfFuel => OutOfFuel
  end.

(* Question::parse *)
Definition parse_question (d : list byte) (p : N) : outcome (question * N) :=
  match parse_name d p with
  | Ok (name, p1) =>
    if len d <? p1 + 4 then Err InsufficientData else
    match be_at d p1 2, be_at d (p1 + 2) 2 with
    | Some qt, Some qc =>
      match qtype_of_code qt with
      | Ok t =>
        match qclass_of_code (N.land qc 32767) with
        | Ok c => Ok ({| qname := name; q_type := t; q_class := c; unicast := N.land qc 32768 =? 32768 |}, p1 + 4)
        | Err e => Err e | Panic s => Panic s | OutOfFuel => OutOfFuel
        end
      | Err e => Err e | Panic s => Panic s | OutOfFuel => OutOfFuel
      end
    | _, _ => Panic 405
    end
  | Err e => Err e | Panic s => Panic s | OutOfFuel => OutOfFuel
  end.

(* Packet::parse_section: `for _ in 0..count { push(T::parse(data, offset)?) }` *)
Fixpoint parse_section {A} (P : list byte -> N -> outcome (A * N)) (count : nat) (d : list byte) (p : N)
  : outcome (list A * N) :=
  match count with
  | O => Ok ([], p)
  | S k => match P d p with
           | Ok (x, p') => match parse_section P k d p' with
                           | Ok (xs, p'') => Ok (x :: xs, p'') | Err e => Err e | Panic s => Panic s | OutOfFuel => OutOfFuel end
           | Err e => Err e | Panic s => Panic s | OutOfFuel => OutOfFuel
           end
  end.

(* additional_records.iter().position(|rr| type == OPT).map(|i| remove(i)) *)
Fixpoint take_first_opt (l : list rr) : option (rr * list rr) :=
  match l with
  | [] => None
  | x :: r => if ty_eqb (type_of_rdata (rdata_of x)) (TY M_OPT) then Some (x, r)
              else match take_first_opt r with Some (o, r') => Some (o, x :: r') | None => None end
  end.

Definition optv_of (r : rdata) : option optv :=
  match r with
  | RD M_OPT [V_int u; V_int v; V_items c] => Some {| o_udp := u; o_version := v; o_codes := c |}
  | _ => None
  end.

(* OPT::extract_rcode_from_ttl *)
Definition extract_rcode (ttl : N) (h : header) : rcode :=
  rcode_of_code ((N.lor (N.shiftl (N.shiftr (N.land ttl OPT_RCODE_MASK) 24) 4) (rcode_disc (h_rcode h))) mod 65536).

(* Packet::parse *)
Definition parse_packet (d : list byte) : outcome packet :=
  match parse_header d with
  | Ok h =>
    match peek_questions d, peek_answers d, peek_name_servers d, peek_additional_records d with
    | Ok qd, Ok an, Ok ns, Ok ar =>
      match parse_section parse_question (N.to_nat qd) d 12 with
      | Ok (q, p1) =>
        match parse_section parse_rr (N.to_nat an) d p1 with
        | Ok (a, p2) =>
          match parse_section parse_rr (N.to_nat ns) d p2 with
          | Ok (n, p3) =>
            match parse_section parse_rr (N.to_nat ar) d p3 with
            | Ok (x, _) =>
              match take_first_opt x with
              | Some (o, x') =>
                match optv_of (rdata_of o) with
                | Some ov =>
                  Ok {| hdr := {| h_id := h_id h; h_opcode := h_opcode h; h_rcode := extract_rcode (rttl o) h; h_flags := h_flags h |};
                        popt := Some ov; qs := q; ans := a; nss := n; adds := x' |}
                | None => Panic 406                                       (* unreachable!() *)
                end
              | None => Ok {| hdr := h; popt := None; qs := q; ans := a; nss := n; adds := x |}
              end
            | Err e => Err e | Panic s => Panic s | OutOfFuel => OutOfFuel end
          | Err e => Err e | Panic s => Panic s | OutOfFuel => OutOfFuel end
        | Err e => Err e | Panic s => Panic s | OutOfFuel => OutOfFuel end
      | Err e => Err e | Panic s => Panic s | OutOfFuel => OutOfFuel end
    | _, _, _, _ => Err InvalidHeaderData
    end
  | Err e => Err e | Panic s => Panic s | OutOfFuel => OutOfFuel
  end.

(* ---- writing ---- *)
(* Question::write_common *)
Definition enc_question_common (q : question) : list byte :=
  be_enc 2 (code_of_qtype (q_type q)) ++
  be_enc 2 (if unicast q then N.lor (code_of_qclass (q_class q)) 32768 else code_of_qclass (q_class q)).
Definition enc_question (q : question) : list byte := write_name (qname q) ++ enc_question_common q.

(* ResourceRecord::write_common *)
Definition enc_rr_common (r : rr) : list byte :=
  be_enc 2 (code_of_type (type_of_rdata (rdata_of r))) ++
  (match rdata_of r with
   | RD M_OPT (V_int udp :: _) => be_enc 2 udp
   | RD M_OPT _ => be_enc 2 0
   | _ => be_enc 2 (if rcf r then N.lor (code_of_class (rclass r)) CACHE_FLUSH else code_of_class (rclass r))
   end) ++
  be_enc 4 (rttl r).
(* ResourceRecord::write_to: RDLENGTH is `self.rdata.len() as u16` *)
Definition enc_rr (r : rr) : list byte :=
  write_name (rname r) ++ enc_rr_common r ++ be_enc 2 (len_rdata (rdata_of r)) ++ enc_rdata (rdata_of r).

(* OPT::encode_ttl, Header::opt_rr *)
Definition encode_ttl (o : optv) (h : header) : N :=
  N.lor (N.land (N.shiftl (N.shiftr (rcode_disc (h_rcode h)) 4) 24) OPT_RCODE_MASK) (N.shiftl (o_version o mod 256) 16).
Definition opt_rr (p : packet) : option rr :=
  match popt p with
  | Some o => Some {| rname := []; rclass := IN; rttl := encode_ttl o (hdr p);
                      rdata_of := RD M_OPT [V_int (o_udp o); V_int (o_version o); V_items (o_codes o)]; rcf := false |}
  | None => None
  end.

(* Packet::write_header: the lengths are `as u16` *)
Definition enc_packet_header (p : packet) : list byte :=
  write_header (hdr p) (len (qs p)) (len (ans p)) (len (nss p))
               ((len (adds p) mod 65536 + (match popt p with Some _ => 1 | None => 0 end)) mod 65536).

(* Packet::write_to *)
Definition enc_packet (p : packet) : list byte :=
  enc_packet_header p ++ List.concat (map enc_question (qs p)) ++ List.concat (map enc_rr (ans p)) ++
  List.concat (map enc_rr (nss p)) ++ (match opt_rr p with Some r => enc_rr r | None => [] end) ++
  List.concat (map enc_rr (adds p)).

Definition packet_writable (p : packet) : bool :=
  forallb (fun r => rdata_writable (rdata_of r)) (ans p ++ nss p ++ adds p).
(* build_bytes_vec *)
Definition write_packet (p : packet) : outcome (list byte) :=
  if packet_writable p then Ok (enc_packet p) else Err InvalidDnsPacket.

(* ---- compressed writing; `off` is the message-relative position of the next byte ---- *)
Definition wc_question (q : question) (t : table) (off : N) : list byte * table :=
  let '(b, t1) := wc_name t off (qname q) in (b ++ enc_question_common q, t1).
(* ResourceRecord::write_compressed_to: RDLENGTH is patched to the number of bytes actually written *)
Definition wc_rr (r : rr) (t : table) (off : N) : list byte * table :=
  let '(b, t1) := wc_name t off (rname r) in
  let off1 := off + len b + 10 in
  let '(rb, t2) := wc_rdata (rdata_of r) t1 off1 in
  (b ++ enc_rr_common r ++ be_enc 2 (len rb) ++ rb, t2).

Fixpoint wc_list {A} (W : A -> table -> N -> list byte * table) (l : list A) (t : table) (off : N) : list byte * table :=
  match l with
  | [] => ([], t)
  | x :: r => let '(b1, t1) := W x t off in
              let '(b2, t2) := wc_list W r t1 (off + len b1) in
              (b1 ++ b2, t2)
  end.

(* Packet::write_compressed_to *)
Definition encc_packet (p : packet) : list byte :=
  let h := enc_packet_header p in
  let '(bq, t1) := wc_list wc_question (qs p) [] 12 in
  let '(ba, t2) := wc_list wc_rr (ans p) t1 (12 + len bq) in
  let '(bn, t3) := wc_list wc_rr (nss p) t2 (12 + len bq + len ba) in
  let bo := match opt_rr p with Some r => enc_rr r | None => [] end in
  let '(bx, _) := wc_list wc_rr (adds p) t3 (12 + len bq + len ba + len bn + len bo) in
  h ++ bq ++ ba ++ bn ++ bo ++ bx.
(* build_bytes_vec_compressed *)
Definition write_packet_compressed (p : packet) : outcome (list byte) :=
  if packet_writable p then Ok (encc_packet p) else Err InvalidDnsPacket.

(* Packet::parse_section reserves min(remaining / 5, count) entries up front (after the F06 repair) *)
Definition section_capacity (d : list byte) (offset count : N) : N := N.min ((len d - offset) / 5) count.
