(* Layout-level lemmas: safety (no panic, cursor stays inside the buffer), round trip, len() agreement *)
Require Import SD.Base SD.BaseProofs SD.Sweep SD.Codes SD.Name SD.NameProofs SD.RData.
From Coq Require Import ZArith ZifyN ZifyNat ZifyBool.
Ltac Zify.zify_post_hook ::= Z.div_mod_to_equations.

(* ================= well-formed values ================= *)
Definition wf_item (k : item) (it : N * list byte) : Prop :=
  fst it < 256 ^ N.of_nat (tagw k) /\ len (snd it) < 256 ^ N.of_nat (lenw k).
Fixpoint increasing (prev : option N) (its : list (N * list byte)) : Prop :=
  match its with
  | [] => True
  | it :: r => match prev with Some q => q < fst it | None => True end /\ increasing (Some (fst it)) r
  end.
Definition wf_items (k : item) (its : list (N * list byte)) : Prop :=
  Forall (wf_item k) its /\ (ordered k = true -> increasing None its) /\ (k = I_cstr -> its <> []).
Definition wf_fld (f : fld) (v : fval) : Prop :=
  match f, v with
  | F_be n, V_int x => x < 256 ^ N.of_nat n
  | F_ver0, V_int x => x = 0
  | F_name _, V_name ls => wf_labels ls /\ labels_len ls <= 254
  | F_cstr, V_bytes bs => len bs <= 255
  | F_rest, V_bytes bs => True
  | F_items k, V_items its => wf_items k its
  | _, _ => False
  end.
Fixpoint wf_vals (lay : layout) (vs : list fval) : Prop :=
  match lay, vs with
  | [], [] => True
  | f :: r, v :: vr => wf_fld f v /\ wf_vals r vr
  | _, _ => False
  end.
(* a field that consumes the rest of the data may only come last *)
Definition ends_fld (f : fld) : bool := match f with F_rest | F_items _ => true | _ => false end.
Fixpoint lay_ok (lay : layout) : bool :=
  match lay with
  | [] => true
  | [f] => true
  | f :: r => negb (ends_fld f) && lay_ok r
  end.
Definition ends_data (lay : layout) : bool := existsb ends_fld lay.

(* ================= names: cursor facts ================= *)
Lemma inplace_le d p e : inplace d p e -> forall ls, rfc_bw d p ls -> p < e <= len d.
Proof.
  induction 1 as [p H0|p b1 H1 Hm|p n e Hn Hz Hnp Hrest IH]; intros ls Hd.
  - apply byte_at_lt in H0. lia.
  - inversion Hd; subst; uniq.
    + vm_compute in Hm. discriminate.
    + pose proof (small_not_ptr n ltac:(lia)). lia.
    + match goal with H : byte_at d (p + 1) = Some _ |- _ => apply byte_at_lt in H end. lia.
  - inversion Hd; subst; uniq.
    + congruence.
    + specialize (IH _ ltac:(eassumption)). lia.
    + contradiction.
Qed.

Lemma parse_name_cursor d p ls e : parse_name d p = Ok (ls, e) -> p < e <= len d.
Proof. intros H. apply parse_name_sound in H. destruct H as (Hd & _ & _ & Hi). eapply inplace_le; eauto. Qed.

(* write_name produces an RFC derivation and its in-place end, wherever it is embedded *)
Lemma write_name_dec : forall ls pre post, wf_labels ls ->
  rfc_bw (pre ++ write_name ls ++ post) (len pre) ls /\
  inplace (pre ++ write_name ls ++ post) (len pre) (len pre + len (write_name ls)).
Proof.
  induction ls as [|l r IH]; intros pre post Hwf; cbn [write_name].
  - assert (B : byte_at (pre ++ [bN 0] ++ post) (len pre) = Some 0).
    { rewrite byte_at_app_r by lia. rewrite N.sub_diag. cbn [app]. rewrite byte_at_cons0, to_N_bN. reflexivity. }
    split; [apply bw_root; exact B|]. replace (len [bN 0]) with 1 by reflexivity. apply ip_root. exact B.
  - pose proof (Forall_inv Hwf) as Hl. pose proof (Forall_inv_tail Hwf) as Hr. cbn beta in Hl.
    assert (B : byte_at (pre ++ (bN (len l) :: l ++ write_name r) ++ post) (len pre) = Some (len l)).
    { rewrite byte_at_app_r by lia. rewrite N.sub_diag. cbn [app]. rewrite byte_at_cons0, to_N_bN. f_equal. lia. }
    assert (E : pre ++ (bN (len l) :: l ++ write_name r) ++ post = (pre ++ bN (len l) :: l) ++ write_name r ++ post).
    { rewrite <- !app_assoc. cbn [app]. rewrite <- !app_assoc. reflexivity. }
    assert (L1 : len (pre ++ bN (len l) :: l) = len pre + 1 + len l) by (rewrite len_app, len_cons; lia).
    destruct (IH (pre ++ bN (len l) :: l) post Hr) as [IHd IHi]. rewrite L1 in IHd, IHi. rewrite <- E in IHd, IHi.
    split.
    + eapply bw_label; eauto.
      replace (pre ++ (bN (len l) :: l ++ write_name r) ++ post) with ((pre ++ [bN (len l)]) ++ l ++ (write_name r ++ post)).
      2:{ rewrite <- !app_assoc. cbn [app]. rewrite <- !app_assoc. reflexivity. }
      replace (len pre + 1) with (len (pre ++ [bN (len l)])) by (rewrite len_app; cbn; lia). apply bytes_at_here.
    + eapply ip_label; eauto; try lia.
      * pose proof (small_not_ptr (len l) ltac:(lia)). lia.
      * rewrite len_cons, len_app. replace (len pre + (1 + (len l + len (write_name r)))) with (len pre + 1 + len l + len (write_name r)) by lia. exact IHi.
Qed.

Lemma parse_name_write : forall ls pre post, wf_labels ls -> labels_len ls <= 254 ->
  parse_name (pre ++ write_name ls ++ post) (len pre) = Ok (ls, len pre + len (write_name ls)).
Proof.
  intros ls pre post Hwf Hsz. destruct (write_name_dec ls pre post Hwf) as [Hd Hi].
  destruct (parse_name_complete _ _ _ Hd Hsz) as (e & He & Hp). rewrite He. f_equal. f_equal.
  eapply inplace_det; eauto.
Qed.

Lemma len_write_name ls : len (write_name ls) = name_len ls.
Proof. induction ls as [|l r IH]; cbn [write_name name_len]; [reflexivity|]. rewrite len_cons, len_app, IH. lia. Qed.
Lemma name_len_labels ls : name_len ls = labels_len ls + 1.
Proof. induction ls as [|l r IH]; cbn [name_len labels_len]; lia. Qed.

(* ================= safety: no panic, no fuel exhaustion, cursor inside the buffer ================= *)
Definition safe_res {A} (d : list byte) (p : N) (o : outcome (A * N)) : Prop :=
  match o with Panic _ => False | OutOfFuel => False | Ok (_, p') => p <= p' <= len d | Err _ => True end.

Lemma parse_cstr_safe d p : p <= len d -> safe_res d p (parse_cstr d p).
Proof.
  intros Hp. unfold parse_cstr. destruct (len d <=? p) eqn:E; [exact I|].
  destruct (byte_at_some d p) as (l & -> & Hl); [lia|].
  destruct ((255 <? l) || (len d <? l + p + 1)) eqn:E2; [exact I|].
  destruct (bytes_at_some d (p + 1) l) as (bs & -> & _); [lia|]. cbn. lia.
Qed.

Lemma parse_item_safe k d p prev : p <= len d ->
  match parse_item k d p prev with
  | Panic _ => False | OutOfFuel => False | Err _ => True
  | Ok (_, p') => p + 1 <= p' <= len d
  end.
Proof.
  intros Hp. unfold parse_item.
  destruct (be_at d p (tagw k)) as [tag|]; [|exact I].
  destruct (be_at d (p + N.of_nat (tagw k)) (lenw k)) as [l|] eqn:El; [|exact I].
  destruct (ordered k && _); [destruct k; exact I|].
  destruct (bytes_at d (p + N.of_nat (tagw k) + N.of_nat (lenw k)) l) as [bs|] eqn:Eb; [|destruct k; exact I].
  apply bytes_at_len in Eb. destruct k; cbn [tagw lenw] in *; lia.
Qed.

Lemma parse_items_safe : forall fuel k d p prev, p <= len d -> (N.to_nat (len d - p) < fuel)%nat ->
  safe_res d p (parse_items fuel k d p prev).
Proof.
  induction fuel as [|f IH]; intros k d p prev Hp Hf; [lia|]. cbn [parse_items].
  destruct (len d <=? p) eqn:E; [cbn; lia|].
  pose proof (parse_item_safe k d p prev Hp) as Hi.
  destruct (parse_item k d p prev) as [[it p']|e|s|]; try exact Hi; try exact I.
  specialize (IH k d p' (Some (fst it)) ltac:(lia) ltac:(lia)).
  destruct (parse_items f k d p' (Some (fst it))) as [[its p'']|e|s|]; cbn in *; try exact IH; try exact I. lia.
Qed.

Lemma parse_fld_safe f d p : p <= len d -> safe_res d p (parse_fld f d p).
Proof.
  intros Hp. destruct f as [n| |c| | |k]; cbn [parse_fld].
  - destruct (be_at d p n) as [v|] eqn:E; [|exact I]. unfold be_at in E.
    destruct (bytes_at d p (N.of_nat n)) as [bs|] eqn:Eb; [|discriminate]. apply bytes_at_len in Eb. cbn. lia.
  - destruct (be_at d p 1) as [v|] eqn:E; [|exact I]. unfold be_at in E.
    destruct (bytes_at d p (N.of_nat 1)) as [bs|] eqn:Eb; [|discriminate]. apply bytes_at_len in Eb.
    destruct (v =? 0); cbn; [lia|exact I].
  - destruct (parse_name d p) as [[ls e]|e|s|] eqn:E; cbn.
    + apply parse_name_cursor in E. lia.
    + exact I.
    + eapply parse_name_no_panic; eauto.
    + eapply parse_name_terminates; eauto.
  - pose proof (parse_cstr_safe d p Hp) as H. destruct (parse_cstr d p) as [[bs e]|e|s|]; cbn in *; auto.
  - destruct (bytes_at_some d p (len d - p)) as (bs & -> & _); [lia|].
    destruct (p <=? len d) eqn:E; [cbn; lia|lia].
  - pose proof (parse_items_safe (S (length d)) k d p None Hp) as H.
    assert (Hf : (N.to_nat (len d - p) < S (length d))%nat) by (unfold len; lia). specialize (H Hf).
    destruct (parse_items (S (length d)) k d p None) as [[its e]|e|s|]; cbn in *; auto.
Qed.

Lemma parse_layout_safe : forall lay d p, p <= len d -> safe_res d p (parse_layout lay d p).
Proof.
  induction lay as [|f r IH]; intros d p Hp; cbn [parse_layout]; [cbn; lia|].
  pose proof (parse_fld_safe f d p Hp) as Hf.
  destruct (parse_fld f d p) as [[v p']|e|s|]; cbn in *; auto.
  specialize (IH d p' ltac:(lia)).
  destruct (parse_layout r d p') as [[vs p'']|e|s|]; cbn in *; auto. lia.
Qed.

Lemma parse_typed_safe m d p : p <= len d -> safe_res d p (parse_typed m d p).
Proof.
  intros Hp. destruct m; try (apply parse_layout_safe; exact Hp).
  cbn [parse_typed]. destruct (len d <? p + 3) eqn:E; [exact I|].
  destruct (byte_at_some d (p + 1)) as (gw & -> & _); [lia|].
  destruct (ipseckey_layout gw); [apply parse_layout_safe; exact Hp|exact I].
Qed.

(* ================= round trip: parse (enc x) = x ================= *)
Lemma len_enc_item k it : len (enc_item k it) = N.of_nat (tagw k) + N.of_nat (lenw k) + len (snd it).
Proof. unfold enc_item. rewrite !len_app, !len_be_enc. lia. Qed.

Lemma parse_item_enc : forall k it pre post prev, wf_item k it ->
  (ordered k = true -> match prev with Some q => q < fst it | None => True end) ->
  parse_item k (pre ++ enc_item k it ++ post) (len pre) prev = Ok (it, len pre + len (enc_item k it)).
Proof.
  intros k [tag bs] pre post prev [Ht Hl] Ho. cbn [fst snd] in *. unfold parse_item, enc_item. cbn [fst snd].
  rewrite <- !app_assoc.
  rewrite (be_at_here pre (tagw k) tag). rewrite N.mod_small by exact Ht.
  replace (len pre + N.of_nat (tagw k)) with (len (pre ++ be_enc (tagw k) tag)) by (rewrite len_app, len_be_enc; reflexivity).
  rewrite (app_assoc pre (be_enc (tagw k) tag)).
  rewrite (be_at_here (pre ++ be_enc (tagw k) tag) (lenw k) (len bs)). rewrite N.mod_small by exact Hl.
  assert (Hord : ordered k && match prev with Some q => tag <=? q | None => false end = false).
  { destruct (ordered k) eqn:Eo; [|reflexivity]. specialize (Ho eq_refl). destruct prev as [q|]; [|reflexivity]. cbn. lia. }
  rewrite Hord.
  replace (len (pre ++ be_enc (tagw k) tag) + N.of_nat (lenw k))
    with (len ((pre ++ be_enc (tagw k) tag) ++ be_enc (lenw k) (len bs))) by (rewrite !len_app, !len_be_enc; reflexivity).
  rewrite (app_assoc (pre ++ be_enc (tagw k) tag)).
  rewrite bytes_at_here. f_equal. f_equal. rewrite !len_app, !len_be_enc. lia.
Qed.

Lemma parse_items_enc : forall k its pre fuel prev, Forall (wf_item k) its ->
  (ordered k = true -> increasing prev its) -> (length its < fuel)%nat ->
  parse_items fuel k (pre ++ List.concat (map (enc_item k) its)) (len pre) prev
  = Ok (its, len pre + len (List.concat (map (enc_item k) its))).
Proof.
  induction its as [|it r IH]; intros pre fuel prev Hwf Hinc Hf; (destruct fuel as [|f]; [cbn in Hf; lia|]); cbn [parse_items map List.concat].
  - rewrite app_nil_r. destruct (len pre <=? len pre) eqn:E; [|lia]. f_equal. f_equal. unfold len; cbn; lia.
  - pose proof (Forall_inv Hwf) as Hit. pose proof (Forall_inv_tail Hwf) as Hr.
    assert (Hpos : 1 <= len (enc_item k it)) by (rewrite len_enc_item; destruct k; cbn; lia).
    rewrite !len_app. destruct (len pre + (len (enc_item k it) + len (List.concat (map (enc_item k) r))) <=? len pre) eqn:E; [lia|].
    rewrite parse_item_enc; [|exact Hit|].
    2:{ intros Ho. specialize (Hinc Ho). cbn [increasing] in Hinc. tauto. }
    replace (len pre + len (enc_item k it)) with (len (pre ++ enc_item k it)) by (rewrite len_app; reflexivity).
    rewrite (app_assoc pre). rewrite IH; [| exact Hr | | cbn in Hf; lia].
    2:{ intros Ho. specialize (Hinc Ho). cbn [increasing] in Hinc. tauto. }
    f_equal. f_equal. rewrite !len_app. lia.
Qed.

Lemma length_concat_ge : forall k its, Forall (wf_item k) its -> (length its <= length (List.concat (map (enc_item k) its)))%nat.
Proof.
  induction its as [|it r IH]; intros H; cbn [map List.concat length]; [lia|].
  rewrite app_length. specialize (IH (Forall_inv_tail H)).
  assert (1 <= length (enc_item k it))%nat.
  { pose proof (len_enc_item k it) as L. unfold len in L. destruct k; cbn [tagw lenw] in L; lia. }
  lia.
Qed.

(* insertion sort leaves a strictly increasing list alone *)
Lemma insert_item_head it l : (match l with [] => True | x :: _ => fst it < fst x end) -> insert_item it l = it :: l.
Proof. destruct l as [|x r]; cbn [insert_item]; [reflexivity|]. intros H. destruct (fst x <? fst it) eqn:E; [lia|reflexivity]. Qed.
Lemma sort_items_increasing : forall its prev, increasing prev its -> sort_items its = its.
Proof.
  induction its as [|it r IH]; intros prev H; [reflexivity|]. cbn [increasing] in H. destruct H as [_ H].
  unfold sort_items in *. cbn [fold_right]. rewrite (IH _ H). apply insert_item_head.
  destruct r as [|x r']; [exact I|]. cbn [increasing] in H. tauto.
Qed.

Lemma enc_items_concat k its : wf_items k its -> enc_items k its = List.concat (map (enc_item k) its).
Proof.
  intros (Hf & Ho & Hn). destruct k; cbn [enc_items]; try reflexivity.
  - destruct its; [exfalso; apply Hn; reflexivity|reflexivity].
  - rewrite (sort_items_increasing its None); [reflexivity|]. apply Ho. reflexivity.
Qed.

Lemma parse_fld_enc : forall f v pre post, wf_fld f v -> (ends_fld f = true -> post = []) ->
  parse_fld f (pre ++ enc_fld f v ++ post) (len pre) = Ok (v, len pre + len (enc_fld f v)).
Proof.
  intros f v pre post Hwf Hpost.
  destruct f as [n| |c| | |k]; destruct v as [x|ls|bs|its]; cbn [wf_fld] in Hwf; try contradiction; cbn [parse_fld enc_fld].
  - rewrite be_at_here. rewrite N.mod_small by exact Hwf. rewrite len_be_enc. reflexivity.
  - subst x. rewrite be_at_here. cbn. reflexivity.
  - destruct Hwf as [Hw Hs]. rewrite parse_name_write by assumption. reflexivity.
  - unfold parse_cstr.
    replace (pre ++ (bN (len bs) :: bs) ++ post) with ((pre ++ [bN (len bs)]) ++ bs ++ post).
    2:{ rewrite <- !app_assoc. cbn [app]. reflexivity. }
    rewrite !len_app. replace (len [bN (len bs)]) with 1 by reflexivity.
    destruct (len pre + 1 + (len bs + len post) <=? len pre) eqn:E; [lia|].
    rewrite byte_at_app_l by (rewrite len_app; cbn; lia). rewrite byte_at_app_r by lia.
    rewrite N.sub_diag, byte_at_cons0, to_N_bN. rewrite N.mod_small by lia.
    destruct ((255 <? len bs) || (len pre + 1 + (len bs + len post) <? len bs + len pre + 1)) eqn:E2; [lia|].
    replace (len pre + 1) with (len (pre ++ [bN (len bs)])) by (rewrite len_app; cbn; lia).
    rewrite bytes_at_here. f_equal. f_equal. unfold len. rewrite ?app_length. cbn [length]. lia.
  - rewrite (Hpost eq_refl). rewrite !app_nil_r.
    replace (len (pre ++ bs) - len pre) with (len bs) by (rewrite len_app; lia).
    pose proof (bytes_at_here pre bs []) as B. rewrite !app_nil_r in B. rewrite B.
    rewrite len_app. destruct (len pre <=? len pre + len bs) eqn:E; [|lia]. reflexivity.
  - rewrite (Hpost eq_refl). rewrite app_nil_r.
    rewrite (enc_items_concat k its Hwf). destruct Hwf as (Hf & Ho & Hn).
    rewrite parse_items_enc; [reflexivity|exact Hf|exact Ho|].
    pose proof (length_concat_ge k its Hf). rewrite app_length. lia.
Qed.

Lemma lay_ok_tail f r : lay_ok (f :: r) = true -> lay_ok r = true /\ (r <> [] -> ends_fld f = false).
Proof.
  destruct r as [|g r']; [intros _; split; [reflexivity|intros Hne; congruence]|].
  cbn [lay_ok]. intros H. apply andb_prop in H. destruct H as [H1 H2]. split; [exact H2|]. intros _.
  destruct (ends_fld f); [discriminate|reflexivity].
Qed.

Theorem layout_roundtrip : forall lay vs pre post, lay_ok lay = true -> wf_vals lay vs -> (ends_data lay = true -> post = []) ->
  parse_layout lay (pre ++ enc_layout lay vs ++ post) (len pre) = Ok (vs, len pre + len (enc_layout lay vs)).
Proof.
  induction lay as [|f r IH]; intros vs pre post Hok Hwf Hpost; destruct vs as [|v vr]; cbn [wf_vals] in Hwf; try contradiction.
  - cbn. f_equal. f_equal. unfold len; cbn; lia.
  - destruct Hwf as [Hf Hr]. cbn [enc_layout parse_layout]. destruct (lay_ok_tail f r Hok) as [Hokr Hlast].
    assert (Hstep : parse_fld f (pre ++ (enc_fld f v ++ enc_layout r vr) ++ post) (len pre)
                    = Ok (v, len pre + len (enc_fld f v))).
    { rewrite <- app_assoc. eapply parse_fld_enc; [exact Hf|].
      intros He. destruct r as [|f' r']; [|rewrite Hlast in He by discriminate; discriminate].
      destruct vr; cbn [wf_vals] in Hr; try contradiction. cbn [enc_layout app].
      apply Hpost. cbn [ends_data existsb]. rewrite He. reflexivity. }
    rewrite Hstep.
    replace (pre ++ (enc_fld f v ++ enc_layout r vr) ++ post) with ((pre ++ enc_fld f v) ++ enc_layout r vr ++ post)
      by (rewrite <- !app_assoc; reflexivity).
    replace (len pre + len (enc_fld f v)) with (len (pre ++ enc_fld f v)) by (rewrite len_app; reflexivity).
    rewrite IH; [|exact Hokr|exact Hr|].
    + rewrite !len_app. do 2 f_equal. lia.
    + intros H. apply Hpost. cbn [ends_data existsb]. unfold ends_data in H. rewrite H. apply orb_true_r.
Qed.

(* ================= len() agrees with what write_to emits ================= *)
Lemma len_concat_items k its :
  len (List.concat (map (enc_item k) its)) = fold_right (fun it a => N.of_nat (tagw k) + N.of_nat (lenw k) + len (snd it) + a) 0 its.
Proof.
  induction its as [|it r IH]; cbn [map List.concat fold_right]; [reflexivity|].
  rewrite len_app, len_enc_item, IH. reflexivity.
Qed.

Lemma len_enc_fld : forall f v, wf_fld f v -> len (enc_fld f v) = len_fld f v.
Proof.
  intros f v H. destruct f as [n| |c| | |k]; destruct v as [x|ls|bs|its]; cbn [wf_fld] in H; try contradiction;
    cbn [enc_fld len_fld].
  - apply len_be_enc.
  - apply len_be_enc.
  - apply len_write_name.
  - rewrite len_cons. lia.
  - reflexivity.
  - rewrite (enc_items_concat k its H). rewrite len_concat_items.
    destruct H as (_ & _ & Hn). unfold len_items. destruct k; try reflexivity.
    destruct its; [exfalso; apply Hn; reflexivity|reflexivity].
Qed.

Theorem len_enc_layout : forall lay vs, wf_vals lay vs -> len (enc_layout lay vs) = len_layout lay vs.
Proof.
  induction lay as [|f r IH]; intros vs H; destruct vs as [|v vr]; cbn [wf_vals] in H; try contradiction; [reflexivity|].
  destruct H as [Hf Hr]. cbn [enc_layout len_layout]. rewrite len_app, (len_enc_fld _ _ Hf), (IH _ Hr). reflexivity.
Qed.

(* ================= image of the parsers: whatever is accepted is well-formed ================= *)
Lemma be_at_bound d p n v : be_at d p n = Some v -> v < 256 ^ N.of_nat n /\ p + N.of_nat n <= len d.
Proof.
  unfold be_at. destruct (bytes_at d p (N.of_nat n)) as [bs|] eqn:E; [|discriminate]. cbn. intros H. injection H as <-.
  apply bytes_at_len in E. destruct E as [E1 E2]. pose proof (be_dec_bound bs 0) as B. rewrite E2 in B. split; lia.
Qed.

Lemma parse_item_sound k d p prev it p' : parse_item k d p prev = Ok (it, p') ->
  wf_item k it /\ (ordered k = true -> match prev with Some q => q < fst it | None => True end).
Proof.
  unfold parse_item. destruct (be_at d p (tagw k)) as [tag|] eqn:Et; [|discriminate].
  destruct (be_at d (p + N.of_nat (tagw k)) (lenw k)) as [l|] eqn:El; [|discriminate].
  destruct (ordered k && match prev with Some q => tag <=? q | None => false end) eqn:Eo; [destruct k; discriminate|].
  destruct (bytes_at d (p + N.of_nat (tagw k) + N.of_nat (lenw k)) l) as [bs|] eqn:Eb; [|destruct k; discriminate].
  intros H. injection H as <- <-. unfold wf_item. cbn [fst snd]. apply be_at_bound in Et. apply be_at_bound in El. apply bytes_at_len in Eb.
  split; [split; [tauto|]|].
  - destruct Eb as [_ Eb]. rewrite Eb. tauto.
  - intros Ho. rewrite Ho in Eo. destruct prev as [q|]; [|exact I]. cbn in Eo. lia.
Qed.

Lemma parse_items_sound : forall fuel k d p prev its p', parse_items fuel k d p prev = Ok (its, p') ->
  Forall (wf_item k) its /\ (ordered k = true -> increasing prev its) /\ (p < len d -> its <> []).
Proof.
  induction fuel as [|f IH]; intros k d p prev its p' H; cbn [parse_items] in H; [discriminate|].
  destruct (len d <=? p) eqn:E.
  - injection H as <- <-. split; [constructor|]. split; [intros _; exact I|lia].
  - destruct (parse_item k d p prev) as [[it p1]|e|s|] eqn:Ei; try discriminate.
    destruct (parse_items f k d p1 (Some (fst it))) as [[r p2]|e|s|] eqn:Er; try discriminate.
    injection H as <- <-. apply parse_item_sound in Ei. destruct Ei as [Hw Ho].
    destruct (IH _ _ _ _ _ _ Er) as (Hf & Hi & _).
    split; [constructor; assumption|]. split; [|discriminate].
    intros Hk. cbn [increasing]. split; [apply Ho; exact Hk|apply Hi; exact Hk].
Qed.

(* an inner length that overruns the data is an error *)
Lemma parse_item_overrun k d p prev tag l :
  be_at d p (tagw k) = Some tag -> be_at d (p + N.of_nat (tagw k)) (lenw k) = Some l ->
  len d < p + N.of_nat (tagw k) + N.of_nat (lenw k) + l -> exists e, parse_item k d p prev = Err e.
Proof.
  intros Ht Hl Ho. unfold parse_item. rewrite Ht, Hl.
  destruct (ordered k && _); [eauto|]. rewrite bytes_at_none by lia. eauto.
Qed.
Lemma parse_cstr_overrun d p l : byte_at d p = Some l -> len d < p + 1 + l -> exists e, parse_cstr d p = Err e.
Proof.
  intros Hb Ho. unfold parse_cstr. destruct (len d <=? p); [eauto|]. rewrite Hb.
  destruct ((255 <? l) || (len d <? l + p + 1)) eqn:E; [eauto|]. lia.
Qed.

Lemma parse_cstr_sound d p bs p' : parse_cstr d p = Ok (bs, p') -> len bs <= 255.
Proof.
  unfold parse_cstr. destruct (len d <=? p); [discriminate|].
  destruct (byte_at d p) as [l|] eqn:Eb; [|discriminate].
  destruct ((255 <? l) || (len d <? l + p + 1)) eqn:E; [discriminate|].
  destruct (bytes_at d (p + 1) l) as [b|] eqn:E2; [|discriminate]. intros H. injection H as <- <-.
  apply bytes_at_len in E2. lia.
Qed.

Definition no_txt (lay : layout) : bool := forallb (fun f => match f with F_items I_cstr => false | _ => true end) lay.

Lemma parse_fld_image f d p v p' : parse_fld f d p = Ok (v, p') ->
  (match f with F_items I_cstr => p < len d | _ => True end) -> wf_fld f v.
Proof.
  destruct f as [n| |c| | |k]; cbn [parse_fld]; intros H Hp.
  - destruct (be_at d p n) as [x|] eqn:E; [|discriminate]. injection H as <- <-. cbn. apply be_at_bound in E. tauto.
  - destruct (be_at d p 1) as [x|] eqn:E; [|discriminate]. destruct (x =? 0) eqn:E0; [|discriminate].
    injection H as <- <-. cbn. lia.
  - destruct (parse_name d p) as [[ls e]|e|s|] eqn:E; try discriminate. injection H as <- <-. cbn.
    apply parse_name_sound in E. tauto.
  - destruct (parse_cstr d p) as [[bs e]|e|s|] eqn:E; try discriminate. injection H as <- <-. cbn.
    eapply parse_cstr_sound; eauto.
  - destruct (bytes_at d p (len d - p)); [|discriminate]. destruct (p <=? len d); [|discriminate].
    injection H as <- <-. exact I.
  - destruct (parse_items (S (length d)) k d p None) as [[its e]|e|s|] eqn:E; try discriminate. injection H as <- <-.
    cbn. apply parse_items_sound in E. destruct E as (Hf & Ho & Hn). split; [exact Hf|]. split; [exact Ho|].
    intros ->. apply Hn. exact Hp.
Qed.

Theorem parse_layout_image : forall lay d p vs p', parse_layout lay d p = Ok (vs, p') ->
  (no_txt lay = true \/ (lay = [F_items I_cstr] /\ p < len d)) -> wf_vals lay vs.
Proof.
  induction lay as [|f r IH]; intros d p vs p' H Hn; cbn [parse_layout] in H.
  - injection H as <- <-. exact I.
  - destruct (parse_fld f d p) as [[v p1]|e|s|] eqn:Ef; try discriminate.
    destruct (parse_layout r d p1) as [[vr p2]|e|s|] eqn:Er; try discriminate. injection H as <- <-.
    cbn [wf_vals]. split.
    + eapply parse_fld_image; [exact Ef|]. destruct Hn as [Hn|[Hn Hp]].
      * cbn [no_txt forallb] in Hn. apply andb_prop in Hn. destruct Hn as [Hn _].
        destruct f as [| | | | |[]]; try exact I. discriminate.
      * injection Hn as -> ->. exact Hp.
    + eapply IH; [exact Er|]. left. destruct Hn as [Hn|[Hn _]].
      * cbn [no_txt forallb] in Hn. apply andb_prop in Hn. tauto.
      * injection Hn as -> ->. reflexivity.
Qed.

(* ================= typed level ================= *)
Definition wf_typed (m : mnem) (vs : list fval) : Prop :=
  wf_vals (layout_for m vs) vs /\
  match m with
  | M_IPSECKEY => exists pr gw al rest, vs = V_int pr :: V_int gw :: V_int al :: rest /\ gw <= 3
  | M_OPT => False          (* OPT is carried by the packet header (Packet.popt), see RoundTrip *)
  | M_NULL => False         (* RData::NULL(code, data) is RD_null, not a typed variant *)
  | _ => True
  end.

Lemma layouts_ok : forall m, lay_ok (layout_of m) = true.
Proof. destruct m; reflexivity. Qed.
Lemma ipseckey_layouts_ok : forall gw l, ipseckey_layout gw = Some l -> lay_ok l = true /\ ends_data l = true.
Proof.
  intros gw l H. unfold ipseckey_layout in H.
  destruct gw as [|[[|[]|]|[|[]|]|]]; try discriminate; injection H as <-; split; reflexivity.
Qed.

Theorem typed_roundtrip : forall m vs pre, wf_typed m vs ->
  parse_typed m (pre ++ enc_layout (layout_for m vs) vs) (len pre)
  = Ok (vs, len pre + len (enc_layout (layout_for m vs) vs)).
Proof.
  intros m vs pre [Hwf Hm].
  assert (G : forall lay, lay_ok lay = true -> wf_vals lay vs ->
              parse_layout lay (pre ++ enc_layout lay vs) (len pre) = Ok (vs, len pre + len (enc_layout lay vs))).
  { intros lay Hok Hw. pose proof (layout_roundtrip lay vs pre [] Hok Hw (fun _ => eq_refl)) as R.
    rewrite app_nil_r in R. exact R. }
  destruct m; try contradiction;
    try (cbn [parse_typed]; apply G; [apply layouts_ok|exact Hwf]).
  (* IPSECKEY *)
  destruct Hm as (pr & gw & al & rest & -> & Hgw). cbn [parse_typed layout_for] in *.
  destruct (ipseckey_layout gw) as [lay|] eqn:El.
  2:{ unfold ipseckey_layout in El. destruct gw as [|[[|[]|]|[|[]|]|]]; try discriminate; lia. }
  assert (Hshape : exists r, lay = F_be 1 :: F_be 1 :: F_be 1 :: r).
  { unfold ipseckey_layout in El. destruct gw as [|[[|[]|]|[|[]|]|]]; try discriminate; injection El as <-; eauto. }
  destruct Hshape as (r & ->). cbn [wf_vals wf_fld] in Hwf. destruct Hwf as (Hp & Hg & Ha & Hr).
  cbn [enc_layout enc_fld]. rewrite !len_app, !len_be_enc.
  destruct (len pre + (N.of_nat 1 + (N.of_nat 1 + (N.of_nat 1 + len (enc_layout r rest)))) <? len pre + 3) eqn:E; [lia|].
  assert (B : byte_at (pre ++ be_enc 1 pr ++ be_enc 1 gw ++ be_enc 1 al ++ enc_layout r rest) (len pre + 1) = Some gw).
  { rewrite byte_at_skip. cbn [be_enc app]. rewrite byte_at_cons1, to_N_bN. f_equal.
    change (256 ^ N.of_nat 0) with 1. rewrite N.div_1_r. apply N.mod_small. exact Hg. }
  rewrite B, El.
  pose proof (G (F_be 1 :: F_be 1 :: F_be 1 :: r)) as R. cbn [enc_layout enc_fld] in R.
  rewrite R; [rewrite !len_app, !len_be_enc; reflexivity| |cbn [wf_vals wf_fld]; tauto].
  apply (ipseckey_layouts_ok gw). exact El.
Qed.

Theorem typed_len : forall m vs, wf_typed m vs -> len (enc_layout (layout_for m vs) vs) = len_layout (layout_for m vs) vs.
Proof. intros m vs [H _]. apply len_enc_layout. exact H. Qed.

(* LOC: a version other than 0 is rejected *)
Lemma loc_version_rejected d p v : byte_at d p = Some v -> v <> 0 -> exists e, parse_typed M_LOC d p = Err e.
Proof.
  intros Hb Hv. cbn [parse_typed layout_of parse_layout parse_fld]. rewrite be_at_1, Hb.
  destruct (v =? 0) eqn:E0; [lia|]. eauto.
Qed.

(* ================= the code's layouts are the RFC layouts ================= *)
Require Import SD.Spec.
Theorem layouts_are_rfc : forall m vs, m <> M_OPT -> map erase_fld (layout_for m vs) = rfc_layout m vs.
Proof.
  intros m vs Hm. destruct m; try reflexivity; try contradiction.
  cbn [layout_for rfc_layout]. destruct vs as [|v0 [|[gw| | |] r]]; try reflexivity.
  destruct gw as [|[[|[]|]|[|[]|]|]]; reflexivity.
Qed.
Lemma opt_rdata_layout_is_rfc : map erase_fld (layout_of M_OPT) = rfc_layout M_OPT [].
Proof. reflexivity. Qed.

(* the wire encoding does not depend on the compress flag *)
Lemma enc_layout_erase : forall lay vs, enc_layout (map erase_fld lay) vs = enc_layout lay vs.
Proof.
  induction lay as [|f r IH]; intros vs; destruct vs as [|v vr]; cbn [map enc_layout]; try reflexivity.
  rewrite IH. f_equal. destruct f; reflexivity.
Qed.

(* forbidden types have no compressing name field; RFC 1035 types compress all their names *)
Definition has_compressing (lay : layout) : bool := existsb (fun f => match f with F_name true => true | _ => false end) lay.
Definition all_names_compress (lay : layout) : bool := forallb (fun f => match f with F_name false => false | _ => true end) lay.
Theorem forbidden_never_compress : forall m vs, forbids_compression m = true -> has_compressing (layout_for m vs) = false.
Proof.
  intros m vs H. destruct m; try discriminate; try reflexivity.
  cbn [layout_for]. destruct vs as [|v0 [|[gw| | |] r]]; try reflexivity.
  destruct (ipseckey_layout gw) as [l|] eqn:E; [|reflexivity].
  unfold ipseckey_layout in E. destruct gw as [|[[|[]|]|[|[]|]|]]; try discriminate; injection E as <-; reflexivity.
Qed.
Theorem rfc1035_names_compress : forall m vs, rfc1035_compressed m = true -> all_names_compress (layout_for m vs) = true.
Proof. intros m vs H. destruct m; try discriminate; reflexivity. Qed.

(* the item loop stops exactly at the end of its data *)
Lemma parse_items_end : forall fuel k d p prev its p', p <= len d -> parse_items fuel k d p prev = Ok (its, p') -> p' = len d.
Proof.
  induction fuel as [|f IH]; intros k d p prev its p' Hp H; cbn [parse_items] in H; [discriminate|].
  destruct (len d <=? p) eqn:E; [injection H as _ <-; lia|].
  pose proof (parse_item_safe k d p prev Hp) as S.
  destruct (parse_item k d p prev) as [[it p1]|e|s|]; try discriminate.
  destruct (parse_items f k d p1 (Some (fst it))) as [[r p2]|e|s|] eqn:Er; try discriminate.
  injection H as _ <-. eapply IH; [|exact Er]. lia.
Qed.
