Require Import SD.Base SD.Codes SD.Sweep.
From Coq Require Import ZArith ZifyN ZifyNat ZifyBool.

Lemma mnem_code_inv : forall m, mnem_of_code (code_of_mnem m) = Some m.
Proof. destruct m; reflexivity. Qed.

Lemma code_of_mnem_inj : forall a b, code_of_mnem a = code_of_mnem b -> a = b.
Proof.
  intros a b H. pose proof (mnem_code_inv a) as Ha. rewrite H, mnem_code_inv in Ha. congruence.
Qed.

Lemma mnem_eqb_eq : forall a b, mnem_eqb a b = true <-> a = b.
Proof.
  intros a b. unfold mnem_eqb. split.
  - intros H. apply code_of_mnem_inj. lia.
  - intros ->. lia.
Qed.

Lemma code_of_mnem_bound : forall m, code_of_mnem m < 65536.
Proof. destruct m; vm_compute; reflexivity. Qed.

(* exhaustive sweep: every 16-bit code survives TYPE::from then u16::from *)
Definition type_rt_ok (c : N) : bool := code_of_type (type_of_code c) =? c.
Lemma type_rt_sweep : forallb type_rt_ok (upto 65536) = true.
Proof. vm_compute. reflexivity. Qed.

Lemma type_code_roundtrip : forall c, c < 65536 -> code_of_type (type_of_code c) = c.
Proof. intros c H. pose proof (sweep _ _ type_rt_sweep c H) as E. unfold type_rt_ok in E. lia. Qed.

(* a TYPE value as the library can produce it *)
Definition wf_ty (t : ty) : bool :=
  match t with TY _ => true | TUnknown c => (c <? 65536) && match mnem_of_code c with None => true | Some _ => false end end.

Lemma type_of_code_wf : forall c, c < 65536 -> wf_ty (type_of_code c) = true.
Proof.
  intros c H. unfold type_of_code. destruct (mnem_of_code c) eqn:E; cbn [wf_ty]; [reflexivity|].
  rewrite E. lia.
Qed.

Lemma code_type_roundtrip : forall t, wf_ty t = true -> type_of_code (code_of_type t) = t.
Proof.
  intros [m|c] H; cbn [code_of_type]; unfold type_of_code.
  - rewrite mnem_code_inv. reflexivity.
  - cbn [wf_ty] in H. destruct (mnem_of_code c); [lia|reflexivity].
Qed.

Lemma type_mnemonics_iana : forall m, code_of_mnem m = iana_type m.
Proof. destruct m; reflexivity. Qed.
Lemma class_mnemonics_iana : forall k, code_of_class k = iana_class k.
Proof. destruct k; reflexivity. Qed.

(* CLASS *)
Definition class_ok (c : N) : bool :=
  match class_of_code c with
  | Ok k => code_of_class k =? c
  | Err (InvalidClass v) => (v =? c) && negb (existsb (N.eqb c) [1;2;3;4;254])
  | _ => false
  end.
Lemma class_sweep : forallb class_ok (upto 65536) = true.
Proof. vm_compute. reflexivity. Qed.
Lemma class_code_roundtrip : forall c, c < 65536 ->
  match class_of_code c with
  | Ok k => code_of_class k = c
  | Err e => e = InvalidClass c /\ ~ In c [1;2;3;4;254]
  | _ => False
  end.
Proof.
  intros c H. pose proof (sweep _ _ class_sweep c H) as E. unfold class_ok in E.
  destruct (class_of_code c) as [k|e| |]; try discriminate; [lia|].
  destruct e; try discriminate. apply andb_prop in E. destruct E as [E1 E2].
  split; [f_equal; lia|]. intros Hin. apply negb_true_iff in E2.
  assert (existsb (N.eqb c) [1;2;3;4;254] = true); [|congruence].
  apply existsb_exists. exists c. split; [exact Hin|lia].
Qed.
Lemma code_class_roundtrip : forall k, class_of_code (code_of_class k) = Ok k.
Proof. destruct k; reflexivity. Qed.

(* QCLASS *)
Definition qclass_ok (c : N) : bool :=
  match qclass_of_code c with
  | Ok q => code_of_qclass q =? c
  | Err (InvalidClass v) => (v =? c) && negb (existsb (N.eqb c) [1;2;3;4;254;255])
  | _ => false
  end.
Lemma qclass_sweep : forallb qclass_ok (upto 65536) = true.
Proof. vm_compute. reflexivity. Qed.
Lemma qclass_code_roundtrip : forall c, c < 65536 ->
  match qclass_of_code c with
  | Ok q => code_of_qclass q = c
  | Err e => e = InvalidClass c /\ ~ In c [1;2;3;4;254;255]
  | _ => False
  end.
Proof.
  intros c H. pose proof (sweep _ _ qclass_sweep c H) as E. unfold qclass_ok in E.
  destruct (qclass_of_code c) as [k|e| |]; try discriminate; [lia|].
  destruct e; try discriminate. apply andb_prop in E. destruct E as [E1 E2].
  split; [f_equal; lia|]. intros Hin. apply negb_true_iff in E2.
  assert (existsb (N.eqb c) [1;2;3;4;254;255] = true); [|congruence].
  apply existsb_exists. exists c. split; [exact Hin|lia].
Qed.
Lemma code_qclass_roundtrip : forall q, qclass_of_code (code_of_qclass q) = Ok q.
Proof. destruct q as [k|]; [destruct k|]; reflexivity. Qed.

(* QTYPE: supported types and the five specials are accepted, everything else is InvalidQType *)
Definition qtype_ok (c : N) : bool :=
  match qtype_of_code c with
  | Ok q => (code_of_qtype q =? c) &&
            match q with QT (TUnknown _) => false | _ => true end
  | Err (InvalidQType v) => (v =? c) && match mnem_of_code c with None => true | Some _ => false end
                            && negb (existsb (N.eqb c) [251;252;253;254;255])
  | _ => false
  end.
Lemma qtype_sweep : forallb qtype_ok (upto 65536) = true.
Proof. vm_compute. reflexivity. Qed.
Lemma qtype_code_roundtrip : forall c, c < 65536 ->
  match qtype_of_code c with
  | Ok q => code_of_qtype q = c /\ (forall u, q <> QT (TUnknown u))
  | Err e => e = InvalidQType c /\ mnem_of_code c = None /\ ~ In c [251;252;253;254;255]
  | _ => False
  end.
Proof.
  intros c H. pose proof (sweep _ _ qtype_sweep c H) as E. unfold qtype_ok in E.
  destruct (qtype_of_code c) as [q|e| |]; try discriminate.
  - apply andb_prop in E. destruct E as [E1 E2]. split; [lia|].
    intros u ->. discriminate.
  - destruct e; try discriminate. apply andb_prop in E. destruct E as [E E3]. apply andb_prop in E. destruct E as [E1 E2].
    split; [f_equal; lia|]. split; [destruct (mnem_of_code c); [discriminate|reflexivity]|].
    intros Hin. apply negb_true_iff in E3.
    assert (existsb (N.eqb c) [251;252;253;254;255] = true); [|congruence].
    apply existsb_exists. exists c. split; [exact Hin|lia].
Qed.
Lemma code_qtype_roundtrip : forall q, (forall u, q <> QT (TUnknown u)) -> qtype_of_code (code_of_qtype q) = Ok q.
Proof.
  intros q Hq. destruct q as [t| | | | |]; try reflexivity.
  destruct t as [m|u]; [|exfalso; eapply Hq; reflexivity].
  destruct m; reflexivity.
Qed.

(* matching *)
Lemma ty_eqb_eq : forall a b, ty_eqb a b = true <-> a = b.
Proof.
  intros [m|c] [m'|c']; cbn [ty_eqb]; split; intros H; try discriminate.
  - apply mnem_eqb_eq in H. congruence.
  - apply mnem_eqb_eq. congruence.
  - f_equal. lia.
  - injection H as ->. lia.
Qed.

Definition mailbox_group (t : ty) : Prop := t = TY M_MB \/ t = TY M_MG \/ t = TY M_MR.

Lemma match_qtype_spec : forall rt q,
  (q = QT_ANY \/ q = QT_MAILB \/ exists t, q = QT t) ->
  (match_qtype rt q = true <-> (q = QT_ANY \/ q = QT rt \/ (q = QT_MAILB /\ mailbox_group rt))).
Proof.
  intros rt q Hq. destruct Hq as [-> | [-> | [t ->]]]; cbn [match_qtype].
  - split; auto.
  - split.
    + intros H. right. right. split; [reflexivity|]. unfold mailbox_group.
      apply orb_prop in H. destruct H as [H|H]; [apply orb_prop in H; destruct H as [H|H]|];
        apply ty_eqb_eq in H; auto.
    + intros [H|[H|[_ H]]]; try discriminate. unfold mailbox_group in H.
      destruct H as [-> | [-> | ->]]; reflexivity.
  - split.
    + intros H. apply ty_eqb_eq in H. subst. auto.
    + intros [H|[H|[H _]]]; try discriminate. injection H as ->. apply ty_eqb_eq. reflexivity.
Qed.

(* the remaining question types, as the code has them (documented, outside the property's quantifier) *)
Lemma match_qtype_other : forall rt,
  match_qtype rt QT_IXFR = false /\ match_qtype rt QT_AXFR = true /\
  (match_qtype rt QT_MAILA = true <-> rt = TY M_MX).
Proof.
  intros rt. repeat split; cbn [match_qtype]; intros H.
  - apply ty_eqb_eq in H. exact H.
  - apply ty_eqb_eq. exact H.
Qed.

Lemma class_eqb_eq : forall a b, class_eqb a b = true <-> a = b.
Proof. destruct a, b; vm_compute; split; congruence. Qed.

Lemma match_qclass_spec : forall rc q, match_qclass rc q = true <-> (q = QC_ANY \/ q = QC rc).
Proof.
  intros rc [c|]; cbn [match_qclass]; split; auto.
  - intros H. apply class_eqb_eq in H. subst. auto.
  - intros [H|H]; [discriminate|]. injection H as ->. apply class_eqb_eq. reflexivity.
Qed.
