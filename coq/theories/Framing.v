(* C05: whatever Packet::parse accepts corresponds entry by entry to the envelope delimited by counts and RDLENGTHs *)
Require Import SD.Base SD.BaseProofs SD.Sweep SD.Codes SD.CodesProofs SD.Header SD.HeaderProofs SD.Name SD.NameProofs
  SD.RData SD.RDataProofs SD.Packet SD.PacketProofs SD.Walker.
From Coq Require Import ZArith ZifyN ZifyNat ZifyBool.
Ltac Zify.zify_post_hook ::= Z.div_mod_to_equations.

Lemma firstn_firstn_same {A} (d : list A) n : firstn n (firstn n d) = firstn n d.
Proof. rewrite firstn_firstn. f_equal. lia. Qed.

Lemma parse_opt_end d p vs p' : p + 10 <= len d -> parse_opt d p = Ok (vs, p') -> p' = len d.
Proof.
  intros Hp. unfold parse_opt. destruct (len d <? p + 10); [discriminate|].
  destruct (be_at d (p + 2) 2); [|discriminate]. destruct (be_at d (p + 4) 4); [|discriminate].
  destruct (parse_items (S (length d)) I_optcode d (p + 10) None) as [[c e]|x|x|] eqn:E; try discriminate.
  intros H. injection H as _ <-. eapply parse_items_end; [|exact E]. lia.
Qed.

(* the cursor lemma (finding F09): a record ends where its RDLENGTH says, whatever its typed content consumed,
   and its type is the one its TYPE field denotes *)
Theorem parse_rdata_cursor d p rd e : parse_rdata d p = Ok (rd, e) ->
  exists tc rl, be_at d p 2 = Some tc /\ be_at d (p + 8) 2 = Some rl /\ e = p + 10 + rl /\ e <= len d /\
                type_of_rdata rd = type_of_code tc.
Proof.
  unfold parse_rdata. destruct (len d <? p + 10) eqn:E; [discriminate|].
  destruct (be_at d p 2) as [tc|] eqn:Et; [|discriminate]. destruct (be_at d (p + 8) 2) as [rl|] eqn:Er; [|discriminate].
  destruct (ty_eqb (type_of_code tc) (TY M_OPT)) eqn:Eo.
  - destruct (len d <? p + rl + 10) eqn:E2; [discriminate|].
    destruct (parse_opt (firstn (N.to_nat (p + rl + 10)) d) p) as [[vs p']|x|x|] eqn:Ep; try discriminate.
    intros H. injection H as <- <-. apply parse_opt_end in Ep; [|rewrite len_firstn; lia]. rewrite len_firstn in Ep by lia.
    apply ty_eqb_eq in Eo. exists tc, rl. repeat split; try lia. cbn. congruence.
  - destruct (rl =? 0) eqn:E0.
    + intros H. injection H as <- <-. exists tc, rl. repeat split; try lia.
    + destruct (len d <? p + 10 + rl) eqn:E2; [discriminate|].
      pose proof (parse_rdata_typed_safe (firstn (N.to_nat (p + 10 + rl)) d) (p + 10) (type_of_code tc)) as S.
      rewrite len_firstn in S by lia. specialize (S ltac:(lia) Eo (type_of_code_unknown tc)).
      destruct (parse_rdata_typed (firstn (N.to_nat (p + 10 + rl)) d) (p + 10) (type_of_code tc)) as [[r e']|x|x|]; try discriminate.
      intros H. injection H as <- <-. exists tc, rl. repeat split; try lia. tauto.
Qed.

(* RData::parse reads nothing beyond the end of the record: the RDATA is decoded from exactly its RDLENGTH bytes *)
Theorem parse_rdata_local d p rd e : parse_rdata d p = Ok (rd, e) -> parse_rdata (firstn (N.to_nat e) d) p = Ok (rd, e).
Proof.
  intros H. destruct (parse_rdata_cursor _ _ _ _ H) as (tc & rl & Ht & Hr & He & Hle & _).
  revert H. unfold parse_rdata. rewrite len_firstn by exact Hle.
  destruct (len d <? p + 10) eqn:E; [discriminate|]. destruct (e <? p + 10) eqn:E'; [lia|].
  rewrite !be_at_firstn by (try exact Hle; cbn; lia). rewrite Ht, Hr.
  destruct (ty_eqb (type_of_code tc) (TY M_OPT)).
  - destruct (len d <? p + rl + 10) eqn:E2; [discriminate|]. destruct (e <? p + rl + 10) eqn:E3; [lia|].
    replace (p + rl + 10) with e by lia. rewrite firstn_firstn_same. tauto.
  - destruct (rl =? 0); [tauto|]. destruct (len d <? p + 10 + rl) eqn:E2; [discriminate|].
    destruct (e <? p + 10 + rl) eqn:E3; [lia|]. replace (p + 10 + rl) with e by lia. rewrite firstn_firstn_same. tauto.
Qed.

(* ---- one record ---- *)
Definition rr_matches (r : rr) (e : entry) : Prop :=
  e_owner e = rname r /\ e_type e = code_of_type (type_of_rdata (rdata_of r)) /\ e_ttl e = rttl r /\
  (type_of_rdata (rdata_of r) <> TY M_OPT ->
     code_of_class (rclass r) = N.land (e_class e) 32767 /\ rcf r = (N.land (e_class e) CACHE_FLUSH =? CACHE_FLUSH)).

Theorem parse_rr_framed d p r p' : parse_rr d p = Ok (r, p') ->
  exists e, walk_rr d p = Some (e, p') /\ e_start e = p /\ p' = e_end e /\ rr_matches r e /\
            parse_rdata (firstn (N.to_nat p') d) (e_fixed e) = Ok (rdata_of r, p').
Proof.
  unfold parse_rr, walk_rr. destruct (parse_name d p) as [[name p1]|x|x|]; try discriminate.
  destruct (len d <? p1 + 8) eqn:E; [discriminate|].
  destruct (be_at d (p1 + 2) 2) as [cv|] eqn:Ec; [|discriminate]. destruct (be_at d (p1 + 4) 4) as [ttl|] eqn:Ettl; [|discriminate].
  destruct (parse_rdata d p1) as [[rd p2]|x|x|] eqn:Erd; try discriminate.
  destruct (parse_rdata_cursor _ _ _ _ Erd) as (tc & rl & Ht & Hr & He & Hle & Hty). rewrite Ht, Hr.
  destruct (p1 + 10 + rl <=? len d) eqn:E2; [|lia].
  assert (Htc : tc < 65536) by (apply be_at_bound in Ht; change (256 ^ N.of_nat 2) with 65536 in Ht; tauto).
  assert (Hcv : cv < 65536) by (apply be_at_bound in Ec; change (256 ^ N.of_nat 2) with 65536 in Ec; tauto).
  destruct (ty_eqb (type_of_rdata rd) (TY M_OPT)) eqn:Eo.
  - intros H. injection H as <- <-. eexists. split; [rewrite He; reflexivity|]. cbn [e_start e_fixed e_rdlen e_owner e_type e_class e_ttl rname rdata_of rttl rclass rcf].
    split; [reflexivity|]. split; [unfold e_end; cbn; lia|]. split.
    + unfold rr_matches. cbn [e_owner e_type e_class e_ttl rname rdata_of rttl rclass rcf].
      split; [reflexivity|]. split; [rewrite Hty; symmetry; apply type_code_roundtrip; exact Htc|]. split; [reflexivity|].
      intros Hn. apply ty_eqb_eq in Eo. contradiction.
    + apply parse_rdata_local. exact Erd.
  - pose proof (class_code_roundtrip (N.land cv 32767) (land15_lt cv Hcv)) as Hc.
    destruct (class_of_code (N.land cv 32767)) as [c|x|x|] eqn:Ecls; try discriminate.
    intros H. injection H as <- <-. eexists. split; [rewrite He; reflexivity|].
    cbn [e_start e_fixed e_rdlen e_owner e_type e_class e_ttl rname rdata_of rttl rclass rcf].
    split; [reflexivity|]. split; [unfold e_end; cbn; lia|]. split.
    + unfold rr_matches. cbn [e_owner e_type e_class e_ttl rname rdata_of rttl rclass rcf].
      split; [reflexivity|]. split; [rewrite Hty; symmetry; apply type_code_roundtrip; exact Htc|]. split; [reflexivity|].
      intros _. split; [exact Hc|reflexivity].
    + apply parse_rdata_local. exact Erd.
Qed.

(* ---- one question ---- *)
Definition q_matches (q : question) (e : qentry) : Prop :=
  qe_name e = qname q /\ qe_type e = code_of_qtype (q_type q) /\
  code_of_qclass (q_class q) = N.land (qe_class e) 32767 /\ unicast q = (N.land (qe_class e) 32768 =? 32768).

Theorem parse_question_framed d p q p' : parse_question d p = Ok (q, p') ->
  exists e, walk_question d p = Some (e, p') /\ q_matches q e.
Proof.
  unfold parse_question, walk_question. destruct (parse_name d p) as [[name p1]|x|x|]; try discriminate.
  destruct (len d <? p1 + 4) eqn:E; [discriminate|].
  destruct (be_at d p1 2) as [qt|] eqn:Et; [|discriminate]. destruct (be_at d (p1 + 2) 2) as [qc|] eqn:Ec; [|discriminate].
  assert (Hqt : qt < 65536) by (apply be_at_bound in Et; change (256 ^ N.of_nat 2) with 65536 in Et; tauto).
  assert (Hqc : qc < 65536) by (apply be_at_bound in Ec; change (256 ^ N.of_nat 2) with 65536 in Ec; tauto).
  pose proof (qtype_code_roundtrip qt Hqt) as Rt. destruct (qtype_of_code qt) as [t|x|x|]; try discriminate.
  pose proof (qclass_code_roundtrip (N.land qc 32767) (land15_lt qc Hqc)) as Rc.
  destruct (qclass_of_code (N.land qc 32767)) as [c|x|x|]; try discriminate.
  intros H. injection H as <- <-. eexists. split; [reflexivity|]. unfold q_matches. cbn. repeat split; try tauto; lia.
Qed.

(* ---- sections ---- *)
Lemma section_framed {A B} (P : list byte -> N -> outcome (A * N)) (W : list byte -> N -> option (B * N)) (d : list byte)
  (M : A -> B -> Prop) :
  (forall p x p', P d p = Ok (x, p') -> exists e, W d p = Some (e, p') /\ M x e) ->
  forall count p xs p', parse_section P count d p = Ok (xs, p') ->
  exists es, walk_section W count d p = Some (es, p') /\ Forall2 M xs es.
Proof.
  intros HP. induction count as [|k IH]; intros p xs p' H; cbn [parse_section walk_section] in *.
  - injection H as <- <-. exists []. split; [reflexivity|constructor].
  - destruct (P d p) as [[x p1]|e|s|] eqn:Ex; try discriminate.
    destruct (parse_section P k d p1) as [[r p2]|e|s|] eqn:Er; try discriminate. injection H as <- <-.
    destruct (HP _ _ _ Ex) as (e & -> & Hm). destruct (IH _ _ _ Er) as (es & -> & Hf).
    exists (e :: es). split; [reflexivity|constructor; assumption].
Qed.

(* a record of the parsed packet and the envelope entry it comes from *)
Definition rr_framed (d : list byte) (r : rr) (e : entry) : Prop :=
  rr_matches r e /\ e_end e <= len d /\ parse_rdata (firstn (N.to_nat (e_end e)) d) (e_fixed e) = Ok (rdata_of r, e_end e).

Lemma rr_section_framed count d p xs p' : parse_section parse_rr count d p = Ok (xs, p') ->
  exists es, walk_section walk_rr count d p = Some (es, p') /\ Forall2 (rr_framed d) xs es.
Proof.
  apply (section_framed parse_rr walk_rr d (rr_framed d)). intros p0 x p0' H.
  destruct (parse_rr_framed _ _ _ _ H) as (e & Hw & _ & He & Hm & Hl). exists e. split; [exact Hw|].
  split; [exact Hm|]. rewrite <- He. split; [|exact Hl].
  pose proof (parse_rr_safe d p0) as S. destruct (N.le_gt_cases p0 (len d)) as [Hp|Hp].
  - specialize (S Hp). rewrite H in S. lia.
  - (* a record cannot start beyond the buffer: Name::parse rejects it *)
    exfalso. unfold parse_rr in H. destruct (parse_name d p0) as [[n p1]|y|y|] eqn:En; try discriminate.
    apply parse_name_cursor in En. lia.
Qed.

Lemma q_section_framed count d p xs p' : parse_section parse_question count d p = Ok (xs, p') ->
  exists es, walk_section walk_question count d p = Some (es, p') /\ Forall2 q_matches xs es.
Proof.
  apply (section_framed parse_question walk_question d q_matches). intros p0 x p0' H. apply parse_question_framed. exact H.
Qed.

(* ---- the whole message ---- *)
Theorem parse_packet_framed : forall d p, parse_packet d = Ok p ->
  exists w xs, walk d = Some w /\ w_end w <= len d /\
    Forall2 q_matches (qs p) (w_qs w) /\ Forall2 (rr_framed d) (ans p) (w_ans w) /\ Forall2 (rr_framed d) (nss p) (w_nss w) /\
    Forall2 (rr_framed d) xs (w_adds w) /\
    (* the additional section, with the first OPT record (if any) lifted into the header data *)
    ((take_first_opt xs = None /\ adds p = xs /\ popt p = None) \/
     (exists o, take_first_opt xs = Some (o, adds p) /\ popt p = optv_of (rdata_of o) /\ popt p <> None)).
Proof.
  intros d p. unfold parse_packet, walk.
  destruct (parse_header d) as [h|e|s|] eqn:Eh; try discriminate.
  assert (Hl : 12 <= len d).
  { unfold parse_header in Eh. destruct (len d <? 12) eqn:E; [discriminate|lia]. }
  unfold peek_questions, peek_answers, peek_name_servers, peek_additional_records, peek16.
  destruct (be_at_some d 0 2) as (idv & -> & _); [cbn; lia|].
  destruct (be_at_some d 2 2) as (wv & -> & _); [cbn; lia|].
  destruct (be_at_some d 4 2) as (qd & -> & _); [cbn; lia|].
  destruct (be_at_some d 6 2) as (an & -> & _); [cbn; lia|].
  destruct (be_at_some d 8 2) as (ns & -> & _); [cbn; lia|].
  destruct (be_at_some d 10 2) as (ar & -> & _); [cbn; lia|].
  destruct (parse_section parse_question (N.to_nat qd) d 12) as [[q p1]|e|s|] eqn:E1; try discriminate.
  destruct (q_section_framed _ _ _ _ _ E1) as (eq & -> & F1).
  pose proof (parse_questions_safe (N.to_nat qd) d 12 Hl) as S1. rewrite E1 in S1.
  destruct (parse_section parse_rr (N.to_nat an) d p1) as [[a p2]|e|s|] eqn:E2; try discriminate.
  destruct (rr_section_framed _ _ _ _ _ E2) as (ea & -> & F2).
  pose proof (parse_rrs_safe (N.to_nat an) d p1 ltac:(lia)) as S2. rewrite E2 in S2.
  destruct (parse_section parse_rr (N.to_nat ns) d p2) as [[n p3]|e|s|] eqn:E3; try discriminate.
  destruct (rr_section_framed _ _ _ _ _ E3) as (en & -> & F3).
  pose proof (parse_rrs_safe (N.to_nat ns) d p2 ltac:(lia)) as S3. rewrite E3 in S3.
  destruct (parse_section parse_rr (N.to_nat ar) d p3) as [[x p4]|e|s|] eqn:E4; try discriminate.
  destruct (rr_section_framed _ _ _ _ _ E4) as (ex & -> & F4).
  pose proof (parse_rrs_safe (N.to_nat ar) d p3 ltac:(lia)) as S4. rewrite E4 in S4.
  destruct (take_first_opt x) as [[o x']|] eqn:Eo.
  - destruct (optv_of (rdata_of o)) as [ov|] eqn:Ev; [|discriminate]. intros H. injection H as <-.
    eexists. exists x. split; [reflexivity|]. cbn [w_end w_qs w_ans w_nss w_adds qs ans nss adds popt].
    split; [lia|]. repeat (split; [assumption|]). right. exists o. rewrite Ev. split; [exact Eo|]. split; [reflexivity|discriminate].
  - intros H. injection H as <-. eexists. exists x. split; [reflexivity|].
    cbn [w_end w_qs w_ans w_nss w_adds qs ans nss adds popt]. split; [lia|]. repeat (split; [assumption|]). left. auto.
Qed.

(* a message whose counts or lengths run past its end is rejected *)
Theorem unframed_rejected : forall d, walk d = None -> forall p, parse_packet d <> Ok p.
Proof. intros d Hw p H. destruct (parse_packet_framed d p H) as (w & xs & Hw' & _). congruence. Qed.
