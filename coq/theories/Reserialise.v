(* C11: whatever Packet::parse accepts is a well-formed packet (so it serialises and parses back to itself) *)
Require Import SD.Base SD.BaseProofs SD.Sweep SD.Codes SD.CodesProofs SD.Header SD.HeaderProofs SD.Name SD.NameProofs
  SD.RData SD.Spec SD.RDataProofs SD.Packet SD.PacketProofs SD.RoundTrip SD.CompressProofs SD.CompressRoundTrip.
From Coq Require Import ZArith ZifyN ZifyNat ZifyBool.
Ltac Zify.zify_post_hook ::= Z.div_mod_to_equations.

(* ---------- typed RDATA ---------- *)
Lemma ipseckey_no_txt gw lay : ipseckey_layout gw = Some lay -> no_txt lay = true /\ gw <= 3 /\ exists r, lay = F_be 1 :: F_be 1 :: F_be 1 :: r.
Proof.
  unfold ipseckey_layout. destruct gw as [|[[|[]|]|[|[]|]|]]; try discriminate; intros H; injection H as <-;
    (split; [reflexivity|split; [lia|eauto]]).
Qed.

Lemma parse_typed_image m d p vs p' : m <> M_OPT -> m <> M_NULL -> p < len d ->
  parse_typed m d p = Ok (vs, p') -> wf_typed m vs.
Proof.
  intros Ho Hn Hp H.
  assert (G : m <> M_IPSECKEY -> parse_layout (layout_of m) d p = Ok (vs, p') -> wf_typed m vs).
  { intros Hi E. assert (El : layout_for m vs = layout_of m) by (destruct m; try reflexivity; contradiction).
    split; [|destruct m; try exact I; contradiction]. rewrite El. eapply parse_layout_image; [exact E|].
    destruct m; first [left; reflexivity | right; split; [reflexivity|exact Hp]]. }
  destruct m; try (apply G; [discriminate|exact H]).
  clear G. cbn [parse_typed] in H. destruct (len d <? p + 3) eqn:E3; [discriminate|].
  destruct (byte_at d (p + 1)) as [gw|] eqn:Eg; [|discriminate].
  destruct (ipseckey_layout gw) as [lay|] eqn:El; [|discriminate].
  destruct (ipseckey_no_txt gw lay El) as (Hnt & Hgw & r & ->).
  pose proof (parse_layout_image _ _ _ _ _ H (or_introl Hnt)) as Hwf.
  cbn [parse_layout parse_fld] in H.
  destruct (be_at d p 1) as [pr|] eqn:E1; [|discriminate]. rewrite be_at_1 in H.
  change (N.of_nat 1) with 1 in H. rewrite Eg in H.
  destruct (be_at d (p + 1 + 1) 1) as [al|] eqn:E2; [|discriminate].
  change (N.of_nat 1) with 1 in H.
  destruct (parse_layout r d (p + 1 + 1 + 1)) as [[rest e]|e|s|] eqn:Er; try discriminate.
  injection H as <- <-.
  split; [cbn [layout_for]; rewrite El; exact Hwf|]. exists pr, gw, al, rest. split; [reflexivity|exact Hgw].
Qed.

Definition rdata_fits (r : rdata) : Prop :=
  match r with RD m vs => len (enc_layout (layout_for m vs) vs) <= 65535 | _ => True end.

Lemma type_of_code_unknown_eq tc c : type_of_code tc = TUnknown c -> c = tc.
Proof. unfold type_of_code. destruct (mnem_of_code tc); [discriminate|]. intros H. injection H as <-. reflexivity. Qed.

Lemma parse_rest_image d p vs p' : parse_layout [F_rest] d p = Ok (vs, p') -> exists bs, vs = [V_bytes bs] /\ len bs = len d - p.
Proof.
  cbn [parse_layout parse_fld]. destruct (bytes_at d p (len d - p)) as [bs|] eqn:E; [|discriminate].
  destruct (p <=? len d); [|discriminate]. intros H. injection H as <- <-. exists bs. split; [reflexivity|].
  apply bytes_at_len in E. tauto.
Qed.

Theorem parse_rdata_image d p rd e : parse_rdata d p = Ok (rd, e) -> type_of_rdata rd <> TY M_OPT -> rdata_fits rd -> wf_rdata rd.
Proof.
  unfold parse_rdata. destruct (len d <? p + 10) eqn:E; [discriminate|].
  destruct (be_at d p 2) as [tc|] eqn:Etc; [|discriminate]. destruct (be_at d (p + 8) 2) as [rdlen|] eqn:Erl; [|discriminate].
  pose proof (be_at_bound _ _ _ _ Etc) as [Htc _]. pose proof (be_at_bound _ _ _ _ Erl) as [Hrl _].
  change (256 ^ N.of_nat 2) with 65536 in *.
  destruct (ty_eqb (type_of_code tc) (TY M_OPT)) eqn:Et.
  - destruct (len d <? p + rdlen + 10); [discriminate|].
    destruct (parse_opt _ p) as [[vs p']|x|s|]; try discriminate. intros H. injection H as <- <-. intros Hno. exfalso. apply Hno. reflexivity.
  - destruct (rdlen =? 0) eqn:E0.
    + intros H. injection H as <- <-. intros _ _. cbn [wf_rdata]. split; [apply type_of_code_wf; exact Htc|].
      intros Heq. rewrite Heq in Et. vm_compute in Et. discriminate.
    + destruct (len d <? p + 10 + rdlen) eqn:E2; [discriminate|].
      set (d' := firstn (N.to_nat (p + 10 + rdlen)) d).
      assert (Ld : len d' = p + 10 + rdlen) by (apply len_firstn; lia).
      destruct (parse_rdata_typed d' (p + 10) (type_of_code tc)) as [[rd' e']|x|s|] eqn:Ep; try discriminate.
      intros H. injection H as <- <-. intros Hno Hfit.
      destruct (type_of_code tc) as [m|c] eqn:Ety.
      * assert (Hm : m <> M_OPT) by (intros ->; vm_compute in Et; discriminate).
        destruct (mnem_eqb m M_NULL) eqn:En.
        -- apply mnem_eqb_eq in En. subst m. cbn [parse_rdata_typed] in Ep.
           destruct (parse_layout [F_rest] d' (p + 10)) as [[vs q]|x|s|] eqn:El; try discriminate.
           destruct (parse_rest_image _ _ _ _ El) as (bs & -> & Lb). injection Ep as <- <-.
           cbn [wf_rdata]. change (code_of_mnem M_NULL) with 10. split; [lia|]. split; [left; reflexivity|lia].
        -- assert (Hn : m <> M_NULL) by (intros ->; vm_compute in En; discriminate).
           assert (Ep' : exists vs, parse_typed m d' (p + 10) = Ok (vs, e') /\ rd' = RD m vs).
           { destruct m; try contradiction; cbn [parse_rdata_typed] in Ep;
               match type of Ep with context [parse_typed ?mm d' (p + 10)] =>
                 destruct (parse_typed mm d' (p + 10)) as [[vs q]|x|s|]; try discriminate; injection Ep as <- <-; eauto end. }
           destruct Ep' as (vs & Ev & ->). cbn [wf_rdata]. split; [|exact Hfit].
           eapply parse_typed_image; [exact Hm|exact Hn| |exact Ev]. lia.
      * cbn [parse_rdata_typed] in Ep.
        destruct (parse_layout [F_rest] d' (p + 10)) as [[vs q]|x|s|] eqn:El; try discriminate.
        destruct (parse_rest_image _ _ _ _ El) as (bs & -> & Lb). injection Ep as <- <-.
        pose proof (type_of_code_unknown_eq _ _ Ety) as ->. pose proof (type_of_code_unknown _ _ Ety) as Hnone.
        cbn [wf_rdata]. split; [lia|]. split; [right; exact Hnone|lia].
Qed.

(* ---------- records and questions ---------- *)
Lemma parse_name_wf d p ls e : parse_name d p = Ok (ls, e) -> wf_name ls.
Proof. intros H. apply parse_name_sound in H. unfold wf_name. tauto. Qed.

Theorem parse_rr_image d p r e : parse_rr d p = Ok (r, e) -> type_of_rdata (rdata_of r) <> TY M_OPT -> rdata_fits (rdata_of r) -> wf_rr r.
Proof.
  unfold parse_rr. destruct (parse_name d p) as [[name p1]|x|s|] eqn:En; try discriminate.
  destruct (len d <? p1 + 8); [discriminate|].
  destruct (be_at d (p1 + 2) 2) as [cv|]; [|discriminate]. destruct (be_at d (p1 + 4) 4) as [ttl|] eqn:Ettl; [|discriminate].
  destruct (parse_rdata d p1) as [[rd p2]|x|s|] eqn:Erd; try discriminate.
  pose proof (be_at_bound _ _ _ _ Ettl) as [Httl _]. change (256 ^ N.of_nat 4) with 4294967296 in Httl.
  destruct (ty_eqb (type_of_rdata rd) (TY M_OPT)) eqn:Et.
  - intros H. injection H as <- <-. cbn [rdata_of]. intros Hno. apply ty_eqb_eq in Et. contradiction.
  - destruct (class_of_code (N.land cv 32767)) as [c|x|s|]; try discriminate. intros H. injection H as <- <-.
    cbn [rdata_of]. intros Hno Hfit. split; [eapply parse_name_wf; exact En|]. split; [exact Httl|].
    eapply parse_rdata_image; eassumption.
Qed.

Lemma qtype_of_code_known v q : v < 65536 -> qtype_of_code v = Ok q -> forall u, q <> QT (TUnknown u).
Proof. intros Hv H. pose proof (qtype_code_roundtrip v Hv) as R. rewrite H in R. tauto. Qed.

Theorem parse_question_image d p q e : parse_question d p = Ok (q, e) -> wf_question q.
Proof.
  unfold parse_question. destruct (parse_name d p) as [[name p1]|x|s|] eqn:En; try discriminate.
  destruct (len d <? p1 + 4); [discriminate|].
  destruct (be_at d p1 2) as [qt|] eqn:Eqt; [|discriminate]. destruct (be_at d (p1 + 2) 2) as [qc|]; [|discriminate].
  destruct (qtype_of_code qt) as [t|x|s|] eqn:Et; try discriminate.
  destruct (qclass_of_code (N.land qc 32767)) as [c|x|s|]; try discriminate. intros H. injection H as <- <-.
  split; [eapply parse_name_wf; exact En|]. cbn [q_type]. eapply qtype_of_code_known; [|exact Et].
  apply be_at_bound in Eqt. change (256 ^ N.of_nat 2) with 65536 in Eqt. tauto.
Qed.

Lemma parse_section_image {A} (P : list byte -> N -> outcome (A * N)) (Q : A -> Prop) :
  (forall d p x e, P d p = Ok (x, e) -> Q x) ->
  forall count d p xs e, parse_section P count d p = Ok (xs, e) -> Forall Q xs /\ length xs = count.
Proof.
  intros HP. induction count as [|k IH]; intros d p xs e H; cbn [parse_section] in H.
  - injection H as <- <-. split; [constructor|reflexivity].
  - destruct (P d p) as [[x p1]|y|s|] eqn:E1; try discriminate.
    destruct (parse_section P k d p1) as [[r p2]|y|s|] eqn:E2; try discriminate. injection H as <- <-.
    destruct (IH _ _ _ _ E2) as [F L]. split; [constructor; [eapply HP; exact E1|exact F]|cbn; f_equal; exact L].
Qed.

(* ---------- header ---------- *)
Lemma rcode_low_sweep : forallb (fun w => let r := rcode_of_code (N.land w RESPONSE_CODE_MASK) in
                                     (rcode_disc r <? 16) || (rcode_disc r =? 17)) (upto 65536) = true.
Proof. vm_compute. reflexivity. Qed.
Lemma parse_header_image d h : parse_header d = Ok h ->
  h_id h < 65536 /\ (exists i, i < 128 /\ h_flags h = flagset i) /\ (named_rcode (h_rcode h) -> rcode_disc (h_rcode h) < 16) /\ 12 <= len d.
Proof.
  unfold parse_header. destruct (len d <? 12) eqn:E; [discriminate|].
  destruct (be_at d 2 2) as [w|] eqn:Ew; [|discriminate]. destruct (be_at d 0 2) as [id|] eqn:Ei; [|discriminate].
  destruct (negb (N.land w RESERVED_MASK =? 0)); [discriminate|]. intros H. injection H as <-.
  apply be_at_bound in Ew. apply be_at_bound in Ei. change (256 ^ N.of_nat 2) with 65536 in *.
  unfold header_of_word. cbn [h_id h_flags h_rcode]. split; [tauto|]. split; [apply flagsets_cover; tauto|].
  split; [|lia]. pose proof (sweep _ _ rcode_low_sweep w ltac:(tauto)) as S. cbv beta zeta in S.
  intros Hn. destruct (rcode_of_code (N.land w RESPONSE_CODE_MASK)); cbn in *; try lia. exfalso. apply Hn. reflexivity.
Qed.

(* ---------- the OPT record that is lifted out ---------- *)
Lemma parse_opt_image d p vs e : parse_opt d p = Ok (vs, e) -> len d <= p + 10 + 65535 ->
  exists u v c, vs = [V_int u; V_int v; V_items c] /\
    wf_opt {| o_udp := u; o_version := v; o_codes := c |}.
Proof.
  unfold parse_opt. destruct (len d <? p + 10) eqn:E; [discriminate|].
  destruct (be_at d (p + 2) 2) as [u|] eqn:Eu; [|discriminate]. destruct (be_at d (p + 4) 4) as [ttl|]; [|discriminate].
  destruct (parse_items (S (length d)) I_optcode d (p + 10) None) as [[c q]|x|s|] eqn:Ec; try discriminate.
  intros H Hl. injection H as <- <-. eexists _, _, c. split; [reflexivity|].
  apply be_at_bound in Eu. change (256 ^ N.of_nat 2) with 65536 in Eu.
  pose proof (parse_items_sound _ _ _ _ _ _ _ Ec) as (Hf & Ho & _).
  assert (Hw : wf_items I_optcode c) by (split; [exact Hf|split; [intros Hx; discriminate|intros Hx; discriminate]]).
  split; [tauto|]. split; [cbn [o_version]; apply N.mod_lt; lia|]. split; [exact Hw|]. cbn [o_codes].
  (* the codes were read from at most 65535 bytes *)
  assert (Hsz : forall fuel k dd pp prev its pe, parse_items fuel k dd pp prev = Ok (its, pe) -> pp <= len dd ->
            pp + len (List.concat (map (enc_item k) its)) <= len dd).
  { induction fuel as [|f IH]; intros k dd pp prev its pe Hp Hle; cbn [parse_items] in Hp; [discriminate|].
    destruct (len dd <=? pp) eqn:E1; [injection Hp as <- <-; cbn [map List.concat]; change (len (@nil byte)) with 0; lia|].
    destruct (parse_item k dd pp prev) as [[it p1]|x|s|] eqn:Ei; try discriminate.
    destruct (parse_items f k dd p1 (Some (fst it))) as [[r p2]|x|s|] eqn:Er; try discriminate. injection Hp as <- <-.
    pose proof (parse_item_safe k dd pp prev ltac:(lia)) as Hs. rewrite Ei in Hs. cbn in Hs.
    assert (Hadv : p1 = pp + len (enc_item k it)).
    { unfold parse_item in Ei. rewrite len_enc_item.
      destruct (be_at dd pp (tagw k)) as [tg|]; [|discriminate].
      destruct (be_at dd (pp + N.of_nat (tagw k)) (lenw k)) as [ln|]; [|discriminate].
      revert Ei. repeat match goal with |- context [if ?c then _ else _] => destruct c; try discriminate end.
      destruct (bytes_at dd (pp + N.of_nat (tagw k) + N.of_nat (lenw k)) ln) as [bs|] eqn:Eb; try discriminate.
      intros Hi. injection Hi as <- <-. cbn [snd]. apply bytes_at_len in Eb. lia. }
    cbn [map List.concat]. rewrite len_app. specialize (IH k dd p1 (Some (fst it)) r p2 Er ltac:(lia)). lia. }
  specialize (Hsz _ _ _ _ _ _ _ Ec ltac:(lia)). lia.
Qed.

(* what parse_rr guarantees for every record, OPT-typed or not *)
Definition rr_image (r : rr) : Prop :=
  (type_of_rdata (rdata_of r) <> TY M_OPT -> rdata_fits (rdata_of r) -> wf_rr r) /\
  (type_of_rdata (rdata_of r) = TY M_OPT ->
     exists u v c, rdata_of r = RD M_OPT [V_int u; V_int v; V_items c] /\ wf_opt {| o_udp := u; o_version := v; o_codes := c |}).

Lemma parse_rr_rr_image d p r e : parse_rr d p = Ok (r, e) -> rr_image r.
Proof.
  intros H. split; [apply (parse_rr_image d p r e H)|].
  revert H. unfold parse_rr. destruct (parse_name d p) as [[name p1]|x|s|] eqn:En; try discriminate.
  destruct (len d <? p1 + 8); [discriminate|].
  destruct (be_at d (p1 + 2) 2) as [cv|]; [|discriminate]. destruct (be_at d (p1 + 4) 4) as [ttl|]; [|discriminate].
  destruct (parse_rdata d p1) as [[rd p2]|x|s|] eqn:Erd; try discriminate.
  assert (G : type_of_rdata rd = TY M_OPT ->
              exists u v c, rd = RD M_OPT [V_int u; V_int v; V_items c] /\ wf_opt {| o_udp := u; o_version := v; o_codes := c |}).
  { intros Hty. revert Erd. unfold parse_rdata. destruct (len d <? p1 + 10) eqn:E; [discriminate|].
    destruct (be_at d p1 2) as [tc|]; [|discriminate]. destruct (be_at d (p1 + 8) 2) as [rdlen|] eqn:Erl; [|discriminate].
    apply be_at_bound in Erl. change (256 ^ N.of_nat 2) with 65536 in Erl.
    destruct (ty_eqb (type_of_code tc) (TY M_OPT)) eqn:Et.
    - destruct (len d <? p1 + rdlen + 10) eqn:E2; [discriminate|].
      destruct (parse_opt (firstn (N.to_nat (p1 + rdlen + 10)) d) p1) as [[vs q]|x|s|] eqn:Eo; try discriminate.
      intros H. injection H as <- <-.
      destruct (parse_opt_image _ _ _ _ Eo) as (u & v & c & -> & Hw); [rewrite len_firstn by lia; lia|]. eauto.
    - intros H. exfalso.
      pose proof (parse_rdata_safe d p1 ltac:(lia)) as S.
      destruct (rdlen =? 0).
      + injection H as <- <-. cbn in Hty. rewrite Hty in Et. vm_compute in Et. discriminate.
      + destruct (len d <? p1 + 10 + rdlen) eqn:E2; [discriminate|].
        pose proof (parse_rdata_typed_safe (firstn (N.to_nat (p1 + 10 + rdlen)) d) (p1 + 10) (type_of_code tc)) as T.
        rewrite len_firstn in T by lia. specialize (T ltac:(lia) Et (type_of_code_unknown tc)).
        destruct (parse_rdata_typed _ _ _) as [[rd' e']|x|s|]; try discriminate. injection H as <- <-.
        destruct T as [_ T]. rewrite T in Hty. rewrite Hty in Et. vm_compute in Et. discriminate. }
  destruct (ty_eqb (type_of_rdata rd) (TY M_OPT)) eqn:Et.
  - intros H. injection H as <- <-. cbn [rdata_of]. exact G.
  - destruct (class_of_code (N.land cv 32767)) as [c|x|s|]; try discriminate. intros H. injection H as <- <-.
    cbn [rdata_of]. exact G.
Qed.

Lemma take_first_opt_spec : forall l o l', take_first_opt l = Some (o, l') ->
  type_of_rdata (rdata_of o) = TY M_OPT /\ In o l /\ (forall x, In x l' -> In x l) /\ length l = S (length l').
Proof.
  induction l as [|y r IH]; intros o l' H; cbn [take_first_opt] in H; [discriminate|].
  destruct (ty_eqb (type_of_rdata (rdata_of y)) (TY M_OPT)) eqn:E.
  - injection H as <- <-. apply ty_eqb_eq in E. split; [exact E|]. split; [left; reflexivity|]. split; [intros x Hx; right; exact Hx|reflexivity].
  - destruct (take_first_opt r) as [[o' r']|] eqn:Er; [|discriminate]. injection H as <- <-.
    destruct (IH _ _ eq_refl) as (A & B & C & D). split; [exact A|]. split; [right; exact B|].
    split; [intros x [->|Hx]; [left; reflexivity|right; apply C; exact Hx]|cbn; f_equal; exact D].
Qed.

Definition no_stray_opt (p : packet) : Prop :=
  Forall (fun r => type_of_rdata (rdata_of r) <> TY M_OPT) (ans p ++ nss p ++ adds p).
Definition rdata_fit (p : packet) : Prop := Forall (fun r => rdata_fits (rdata_of r)) (ans p ++ nss p ++ adds p).

Lemma image_wf l : Forall rr_image l -> Forall (fun r => type_of_rdata (rdata_of r) <> TY M_OPT) l ->
  Forall (fun r => rdata_fits (rdata_of r)) l -> Forall wf_rr l.
Proof.
  induction l as [|x r IH]; intros A B C; constructor.
  - apply (proj1 (Forall_inv A)); [exact (Forall_inv B)|exact (Forall_inv C)].
  - apply IH; eapply Forall_inv_tail; eassumption.
Qed.

(* ---------- the image of Packet::parse ---------- *)
Theorem parse_packet_image : forall d p, parse_packet d = Ok p ->
  named_opcode (h_opcode (hdr p)) -> named_rcode (h_rcode (hdr p)) -> no_stray_opt p -> rdata_fit p -> wf_packet p.
Proof.
  intros d p. unfold parse_packet.
  destruct (parse_header d) as [h|e|s|] eqn:Eh; try discriminate.
  destruct (parse_header_image d h Eh) as (Hid & Hfl & Hrc & Hl).
  unfold peek_questions, peek_answers, peek_name_servers, peek_additional_records, peek16.
  destruct (be_at_some d 4 2) as (qd & -> & Bq); [cbn; lia|].
  destruct (be_at_some d 6 2) as (an & -> & Ba); [cbn; lia|].
  destruct (be_at_some d 8 2) as (ns & -> & Bn); [cbn; lia|].
  destruct (be_at_some d 10 2) as (ar & -> & Bx); [cbn; lia|].
  change (256 ^ N.of_nat 2) with 65536 in *.
  destruct (parse_section parse_question (N.to_nat qd) d 12) as [[q p1]|e|s|] eqn:E1; try discriminate.
  destruct (parse_section parse_rr (N.to_nat an) d p1) as [[a p2]|e|s|] eqn:E2; try discriminate.
  destruct (parse_section parse_rr (N.to_nat ns) d p2) as [[n p3]|e|s|] eqn:E3; try discriminate.
  destruct (parse_section parse_rr (N.to_nat ar) d p3) as [[x p4]|e|s|] eqn:E4; try discriminate.
  destruct (parse_section_image parse_question wf_question parse_question_image _ _ _ _ _ E1) as [Fq Lq].
  destruct (parse_section_image parse_rr rr_image parse_rr_rr_image _ _ _ _ _ E2) as [Fa La].
  destruct (parse_section_image parse_rr rr_image parse_rr_rr_image _ _ _ _ _ E3) as [Fn Ln].
  destruct (parse_section_image parse_rr rr_image parse_rr_rr_image _ _ _ _ _ E4) as [Fx Lx].
  destruct (take_first_opt x) as [[o x']|] eqn:Eo.
  - destruct (take_first_opt_spec _ _ _ Eo) as (To & Io & Sub & Len).
    destruct (optv_of (rdata_of o)) as [ov|] eqn:Eov; [|discriminate].
    intros H. injection H as <-. cbn [hdr popt qs ans nss adds h_opcode h_rcode h_id h_flags].
    intros Hop Hrcn Hstray Hfit. unfold no_stray_opt, rdata_fit in *. cbn [ans nss adds] in *.
    apply Forall_app in Hstray. destruct Hstray as [Sa Hstray]. apply Forall_app in Hstray. destruct Hstray as [Sn Sx].
    apply Forall_app in Hfit. destruct Hfit as [Ta Hfit]. apply Forall_app in Hfit. destruct Hfit as [Tn Tx].
    assert (Fx' : Forall rr_image x').
    { rewrite Forall_forall in *. intros y Hy. apply Fx. apply Sub. exact Hy. }
    constructor; cbn [hdr popt qs ans nss adds h_opcode h_rcode h_id h_flags]; try assumption.
    + intros Hx. discriminate.
    + intros o' Ho'. injection Ho' as <-.
      rewrite Forall_forall in Fx. destruct (proj2 (Fx o Io) To) as (u & v & c & Erd & Hw). rewrite Erd in Eov.
      cbn [optv_of] in Eov. injection Eov as <-. exact Hw.
    + apply image_wf; assumption.
    + apply image_wf; assumption.
    + apply image_wf; assumption.
    + unfold opt_count. cbn [popt]. unfold len in *. lia.
  - intros H. injection H as <-. cbn [hdr popt qs ans nss adds].
    intros Hop Hrcn Hstray Hfit. unfold no_stray_opt, rdata_fit in *. cbn [ans nss adds] in *.
    apply Forall_app in Hstray. destruct Hstray as [Sa Hstray]. apply Forall_app in Hstray. destruct Hstray as [Sn Sx].
    apply Forall_app in Hfit. destruct Hfit as [Ta Hfit]. apply Forall_app in Hfit. destruct Hfit as [Tn Tx].
    constructor; cbn [hdr popt qs ans nss adds]; try assumption.
    + intros _. apply Hrc. exact Hrcn.
    + intros o' Ho'. discriminate.
    + apply image_wf; assumption.
    + apply image_wf; assumption.
    + apply image_wf; assumption.
    + unfold opt_count. cbn [popt]. unfold len in *. lia.
Qed.

(* C11: an accepted message re-serialises, plain or compressed, to bytes that parse to the same packet *)
Theorem reserialise : forall d p, parse_packet d = Ok p ->
  named_opcode (h_opcode (hdr p)) -> named_rcode (h_rcode (hdr p)) -> no_stray_opt p -> rdata_fit p ->
  exists b bc, write_packet p = Ok b /\ write_packet_compressed p = Ok bc /\ parse_packet b = Ok p /\ parse_packet bc = Ok p.
Proof.
  intros d p Hp Ho Hr Hs Hf. pose proof (parse_packet_image d p Hp Ho Hr Hs Hf) as Hw.
  destruct (compressed_equals_plain p Hw) as (b & bc & A & B & C & D & _). exists b, bc. rewrite C. tauto.
Qed.

(* F21: a reserved opcode or response code is not preserved (both collapse to one variant whose number is written back) *)
(* a reserved OPCODE (6..15) is written back as 6, which parses to the same variant: the packet is unchanged although the bytes differ *)
Definition f21_message : list byte := map bN [0;1; 120;0; 0;0; 0;0; 0;0; 0;0].     (* opcode 15 *)
Example reserved_opcode_same_packet :
  exists p, parse_packet f21_message = Ok p /\ h_opcode (hdr p) = OpReserved /\ parse_packet (enc_packet p) = Ok p /\ enc_packet p <> f21_message.
Proof. eexists. split; [vm_compute; reflexivity|]. split; [reflexivity|]. split; [vm_compute; reflexivity|vm_compute; discriminate]. Qed.
Definition f21_message_rc : list byte := map bN [0;1; 0;15; 0;0; 0;0; 0;0; 0;0].   (* rcode 15 *)
Example reserved_rcode_rewritten :
  exists p, parse_packet f21_message_rc = Ok p /\ h_rcode (hdr p) = RcReserved /\ parse_packet (enc_packet p) <> Ok p.
Proof. eexists. split; [vm_compute; reflexivity|]. split; [reflexivity|]. vm_compute. discriminate. Qed.

(* the side conditions are met by the serialisation of every well-formed packet, so the theorem is not vacuous *)
Lemma wf_rr_side r : wf_rr r -> type_of_rdata (rdata_of r) <> TY M_OPT /\ rdata_fits (rdata_of r).
Proof.
  intros (_ & _ & Hrd). split; [apply (type_of_rdata_wf _ Hrd)|].
  destruct (rdata_of r) as [m vs|c bs|t]; cbn in *; tauto.
Qed.
Theorem side_conditions_satisfiable : forall p, wf_packet p ->
  parse_packet (enc_packet p) = Ok p /\ named_opcode (h_opcode (hdr p)) /\ named_rcode (h_rcode (hdr p)) /\ no_stray_opt p /\ rdata_fit p.
Proof.
  intros p Hw. split; [apply packet_roundtrip; exact Hw|]. destruct Hw as [_ Hop Hrc _ _ _ _ Ha Hn Hx _].
  split; [exact Hop|]. split; [exact Hrc|].
  assert (F : Forall wf_rr (ans p ++ nss p ++ adds p)) by (rewrite !Forall_app; tauto).
  split; (eapply Forall_impl; [|exact F]; intros r Hr; apply wf_rr_side in Hr; tauto).
Qed.
