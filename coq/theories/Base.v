(* Base definitions shared by the whole model: bytes, positions, outcomes. No proofs here. *)
From Coq Require Export List NArith Lia Bool.
From Coq.Strings Require Export Byte.
Export ListNotations.
Open Scope N_scope.
Arguments N.add : simpl never. Arguments N.sub : simpl never. Arguments N.mul : simpl never.
Arguments N.eqb : simpl never. Arguments N.ltb : simpl never. Arguments N.leb : simpl never.
Arguments N.div : simpl never. Arguments N.modulo : simpl never. Arguments N.land : simpl never.
Arguments N.lor : simpl never. Arguments N.pow : simpl never. Arguments N.shiftl : simpl never.
Arguments N.shiftr : simpl never. Arguments N.testbit : simpl never.

(* SimpleDnsError, collapsed to the classes the properties distinguish *)
Inductive err :=
| InsufficientData | InvalidDnsPacket | InvalidServiceLabel | InvalidServiceName
| InvalidCharacterString | InvalidHeaderData | AttemptedInvalidOperation
| InvalidClass (c : N) | InvalidQClass (c : N) | InvalidQType (c : N)
| FailedToWrite.

(* Result of running a piece of Rust: a value, a Rust `Err`, a panic (with the site that raised it),
   or exhaustion of the explicit fuel that stands for a loop *)
Inductive outcome (A : Type) := Ok (a : A) | Err (e : err) | Panic (site : N) | OutOfFuel.
Arguments Ok {A}. Arguments Err {A}. Arguments Panic {A}. Arguments OutOfFuel {A}.

Definition bind {A B} (o : outcome A) (f : A -> outcome B) : outcome B :=
  match o with Ok a => f a | Err e => Err e | Panic s => Panic s | OutOfFuel => OutOfFuel end.
Notation "'do' x <- o ; f" := (bind o (fun x => f)) (at level 200, x pattern, o at level 100, f at level 200).

Definition is_ok {A} (o : outcome A) : bool := match o with Ok _ => true | _ => false end.
Definition is_err {A} (o : outcome A) : bool := match o with Err _ => true | _ => false end.
Definition is_panic {A} (o : outcome A) : bool := match o with Panic _ => true | _ => false end.

Definition len {A} (d : list A) : N := N.of_nat (length d).
(* data[p] *)
Definition byte_at (d : list byte) (p : N) : option N := option_map Byte.to_N (nth_error d (N.to_nat p)).
(* &data[a..a+n], None when out of bounds *)
Definition bytes_at (d : list byte) (a n : N) : option (list byte) :=
  if a + n <=? len d then Some (firstn (N.to_nat n) (skipn (N.to_nat a) d)) else None.

Definition label := list byte.

(* `x as u8` *)
Definition bN (n : N) : byte := match Byte.of_N (n mod 256) with Some x => x | None => x00 end.

(* n-byte big-endian unsigned *)
Fixpoint be_enc (n : nat) (v : N) : list byte :=
  match n with O => [] | S k => bN (v / 256 ^ N.of_nat k) :: be_enc k v end.
Fixpoint be_dec (bs : list byte) (acc : N) : N :=
  match bs with [] => acc | b :: r => be_dec r (acc * 256 + Byte.to_N b) end.
(* u16::from_be_bytes(data[p..p+2]) etc. *)
Definition be_at (d : list byte) (p : N) (n : nat) : option N :=
  option_map (fun bs => be_dec bs 0) (bytes_at d p (N.of_nat n)).

(* finite ranges built from N literals (a nat literal of this size stalls coqc) *)
Fixpoint rangeN (fuel : nat) (start : N) : list N :=
  match fuel with O => [] | S k => start :: rangeN k (start + 1) end.
Definition upto (n : N) : list N := rangeN (N.to_nat n) 0.

Definition byte_eqb (a b : byte) : bool := Byte.eqb a b.
Fixpoint bytes_eqb (a b : list byte) : bool :=
  match a, b with
  | [], [] => true
  | x :: a', y :: b' => Byte.eqb x y && bytes_eqb a' b'
  | _, _ => false
  end.
Fixpoint labels_eqb (a b : list label) : bool :=
  match a, b with
  | [], [] => true
  | x :: a', y :: b' => bytes_eqb x y && labels_eqb a' b'
  | _, _ => false
  end.
