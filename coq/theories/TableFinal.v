(* The table the TABLE case kind prints for the model (Driver.encc_table) is the t4 of compressed_tables_sound: every entry of it
   names labels that begin, at an offset of at most 16383, in the message just written. The TABLE oracle checks exactly this
   sentence on the implementation's own table. *)
Require Import SD.Base SD.Codes SD.Header SD.Name SD.RData SD.Packet SD.RoundTrip SD.CompressProofs SD.CompressRoundTrip SD.Driver.
Open Scope N_scope.

Theorem final_table_sound : forall p, wf_packet p -> TInv (encc_packet p) (encc_table p).
Proof.
  intros p Hwf. unfold encc_table.
  destruct (wc_list wc_question (qs p) [] 12) as [bq t1] eqn:Eq.
  destruct (wc_list wc_rr (ans p) t1 (12 + len bq)) as [ba t2] eqn:Ea.
  destruct (wc_list wc_rr (nss p) t2 (12 + len bq + len ba)) as [bn t3] eqn:En.
  destruct (wc_list wc_rr (adds p) t3 (12 + len bq + len ba + len bn + len match opt_rr p with Some r => enc_rr r | None => [] end)) as [bx t4] eqn:Ex.
  destruct (compressed_tables_sound p Hwf bq t1 ba t2 bn t3 bx t4 Eq Ea En Ex) as (E & _ & _ & _ & H4).
  rewrite E. exact H4.
Qed.
