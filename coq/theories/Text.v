(* Text glue for the correspondence check, written in Gallina so that the same case lines can be
   evaluated by the extracted driver and by `vm_compute` inside Coq. Lines are whitespace-separated
   tokens; integers are hexadecimal; byte strings are hexadecimal with "-" for the empty string. *)
Require Import SD.Base.
From Coq Require Import String Ascii.
Open Scope N_scope.

Definition s2b (s : string) : list byte := list_byte_of_string s.

(* rev_append, not rev: List.rev is quadratic and a token can be a 64 KiB message in hexadecimal *)
Definition is_space (b : byte) : bool := match b with x20 | x09 | x0a | x0d => true | _ => false end.
Fixpoint split_ws (l cur : list byte) : list (list byte) :=
  match l with
  | [] => match cur with [] => [] | _ => [rev_append cur []] end
  | b :: r => if is_space b
              then match cur with [] => split_ws r [] | _ => rev_append cur [] :: split_ws r [] end
              else split_ws r (b :: cur)
  end.
Definition tokens (l : list byte) : list (list byte) := split_ws l [].

Definition hexval (b : byte) : option N :=
  let n := Byte.to_N b in
  if (48 <=? n) && (n <=? 57) then Some (n - 48)
  else if (97 <=? n) && (n <=? 102) then Some (n - 87)
  else if (65 <=? n) && (n <=? 70) then Some (n - 55)
  else None.
Fixpoint hex_acc (l : list byte) (acc : N) : option N :=
  match l with
  | [] => Some acc
  | b :: r => match hexval b with Some v => hex_acc r (acc * 16 + v) | None => None end
  end.
Definition hex_to_N (l : list byte) : option N := match l with [] => None | _ => hex_acc l 0 end.
Fixpoint hex_pairs (l : list byte) : option (list byte) :=
  match l with
  | [] => Some []
  | a :: b :: r => match hexval a, hexval b, hex_pairs r with
                   | Some x, Some y, Some t => Some (bN (x * 16 + y) :: t)
                   | _, _, _ => None end
  | _ => None
  end.
Definition hex_to_bytes (l : list byte) : option (list byte) :=
  match l with [x2d] => Some [] | _ => hex_pairs l end.

Definition hexdigit (v : N) : byte := if v <? 10 then bN (48 + v) else bN (87 + v).
Fixpoint to_hex_fuel (fuel : nat) (n : N) (acc : list byte) : list byte :=
  match fuel with
  | O => acc
  | S k => if n =? 0 then acc else to_hex_fuel k (n / 16) (hexdigit (n mod 16) :: acc)
  end.
Definition N_to_hex (n : N) : list byte :=
  match to_hex_fuel (S (N.size_nat n)) n [] with [] => [x30] | l => l end.
Fixpoint bytes_to_hex_aux (l : list byte) : list byte :=
  match l with
  | [] => []
  | b :: r => let n := Byte.to_N b in hexdigit (n / 16) :: hexdigit (n mod 16) :: bytes_to_hex_aux r
  end.
Definition bytes_to_hex (l : list byte) : list byte := match l with [] => [x2d] | _ => bytes_to_hex_aux l end.

Definition sp : list byte := [x20].
Fixpoint unwords (l : list (list byte)) : list byte :=
  match l with [] => [] | [x] => x | x :: r => x ++ sp ++ unwords r end.
Definition tok_eqb (t : list byte) (s : string) : bool := bytes_eqb t (s2b s).
Definition bool_tok (b : bool) : list byte := if b then [x31] else [x30].
