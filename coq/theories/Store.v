(* simple-mdns: ResourceRecordManager (resource_record_manager.rs), build_reply (lib.rs), the discovery ingest
   add_response_to_resources (sync_discovery/service_discovery.rs) and InstanceInformation::from_records /
   into_records (instance_information.rs), transliterated. Time is an explicit number of half-seconds since an
   arbitrary origin (Instant::now()). radix_trie 0.2.1 is modelled by the calls used here: insert, get, get_mut,
   subtrie, iter. HashMap / HashSet iteration order is not modelled: results are compared as sorted multisets. No proofs here. *)
Require Import SD.Base SD.Codes SD.Name SD.RData SD.Packet SD.Header SD.TextApi.
Open Scope N_scope.

(* ---- equality of records: ResourceRecord's PartialEq / Hash use name, class and rdata only ---- *)
Fixpoint items_eqb (a b : list (N * list byte)) : bool :=
  match a, b with
  | [], [] => true
  | (t, x) :: a', (u, y) :: b' => (t =? u) && bytes_eqb x y && items_eqb a' b'
  | _, _ => false
  end.
Definition fval_eqb (a b : fval) : bool :=
  match a, b with
  | V_int x, V_int y => x =? y
  | V_name x, V_name y => labels_eqb x y
  | V_bytes x, V_bytes y => bytes_eqb x y
  | V_items x, V_items y => items_eqb x y
  | _, _ => false
  end.
Fixpoint fvals_eqb (a b : list fval) : bool :=
  match a, b with
  | [], [] => true
  | x :: a', y :: b' => fval_eqb x y && fvals_eqb a' b'
  | _, _ => false
  end.
Definition rdata_eqb (a b : rdata) : bool :=
  match a, b with
  | RD m x, RD n y => mnem_eqb m n && fvals_eqb x y
  | RD_null c x, RD_null d y => (c =? d) && bytes_eqb x y
  | RD_empty t, RD_empty u => ty_eqb t u
  | _, _ => false
  end.
Definition rr_eqb (a b : rr) : bool :=
  labels_eqb (rname a) (rname b) && class_eqb (rclass a) (rclass b) && rdata_eqb (rdata_of a) (rdata_of b).

(* ---- the store ---- *)
Inductive kind := Auth | Cached (expire_at : N).
Definition srec := (rr * kind)%type.
Definition tnode := (list byte * list srec)%type.      (* trie key, inner HashMap as an association list *)
Definition store := list tnode.                        (* one entry per inserted key *)

(* get_key: labels from the last to the first, each prefixed with its length *)
Definition get_key (n : list label) : list byte := List.concat (map (fun l => bN (len l) :: l) (rev n)).

Fixpoint find_node (st : store) (k : list byte) : option (list srec) :=
  match st with [] => None | (k', m) :: r => if bytes_eqb k' k then Some m else find_node r k end.
Fixpoint set_node (st : store) (k : list byte) (m : list srec) : store :=
  match st with
  | [] => [(k, m)]
  | (k', m') :: r => if bytes_eqb k' k then (k, m) :: r else (k', m') :: set_node r k m
  end.

(* HashMap::insert: an equal key keeps the key already stored and replaces the value *)
Fixpoint map_insert (m : list srec) (r : rr) (v : kind) : list srec :=
  match m with
  | [] => [(r, v)]
  | (r', v') :: t => if rr_eqb r' r then (r', v) :: t else (r', v') :: map_insert t r v
  end.
Fixpoint map_get (m : list srec) (r : rr) : option kind :=
  match m with [] => None | (r', v) :: t => if rr_eqb r' r then Some v else map_get t r end.
Definition map_remove (m : list srec) (r : rr) : list srec := filter (fun e => negb (rr_eqb (fst e) r)) m.

Definition add_authoritative (st : store) (r : rr) : store :=
  let k := get_key (rname r) in
  match find_node st k with
  | Some m => set_node st k (map_insert m r Auth)
  | None => set_node st k [(r, Auth)]
  end.

(* ExpirationInfo::new(ttl): expire_at = now + ttl seconds (two ticks per second) *)
Definition add_cached (st : store) (r : rr) (now : N) : store :=
  let k := get_key (rname r) in
  let ttl := if rcf r then 1 else rttl r in
  let v := Cached (now + 2 * ttl) in
  match find_node st k with
  | Some m => match map_get m r with
              | Some Auth => st                                     (* a locally registered record stays authoritative *)
              | _ => set_node st k (map_insert m r v)
              end
  | None => set_node st k [(r, v)]
  end.

Definition remove_record (st : store) (r : rr) : store :=
  let k := get_key (rname r) in
  match find_node st k with Some m => set_node st k (map_remove m r) | None => st end.
Definition clear_store : store := [].

(* radix_trie: a node exists at `key` iff key is empty, an inserted key, or the (byte-aligned) point where two inserted keys diverge *)
Definition nibbles (k : list byte) : list N := List.concat (map (fun b => [Byte.to_N b / 16; Byte.to_N b mod 16]) k).
Fixpoint lcp (a b : list N) : list N :=
  match a, b with x :: a', y :: b' => if x =? y then x :: lcp a' b' else [] | _, _ => [] end.
Fixpoint nlist_eqb (a b : list N) : bool :=
  match a, b with [], [] => true | x :: a', y :: b' => (x =? y) && nlist_eqb a' b' | _, _ => false end.
Definition node_exists (st : store) (k : list byte) : bool :=
  match k with [] => true | _ =>
    existsb (fun n => bytes_eqb (fst n) k) st ||
    existsb (fun n1 => existsb (fun n2 => negb (bytes_eqb (fst n1) (fst n2)) &&
                                          nlist_eqb (lcp (nibbles (fst n1)) (nibbles (fst n2))) (nibbles k)) st) st
  end.
Fixpoint is_prefix (p l : list byte) : bool :=
  match p, l with [] , _ => true | x :: p', y :: l' => Byte.eqb x y && is_prefix p' l' | _, _ => false end.

(* DomainResourceFilter *)
Record dfilter := { f_sub : bool; f_auth : bool; f_cached : bool }.
Definition filter_authoritative (sub : bool) := {| f_sub := sub; f_auth := true; f_cached := false |}.
Definition filter_cached := {| f_sub := true; f_auth := false; f_cached := true |}.
Definition filter_all := {| f_sub := true; f_auth := true; f_cached := true |}.
Definition match_filter (f : dfilter) (v : kind) (now : N) : bool :=
  match v with Auth => f_auth f | Cached e => f_cached f && (now <? e) end.

(* get_domain_resources: one group per domain, empty groups dropped *)
Definition query (st : store) (name : list label) (f : dfilter) (now : N) : list (list rr) :=
  let k := get_key name in
  let pick (m : list srec) := map fst (filter (fun e => match_filter f (snd e) now) m) in
  let groups :=
    if f_sub f then
      if node_exists st k then map (fun n => pick (snd n)) (filter (fun n => is_prefix k (fst n)) st) else []
    else match find_node st k with Some m => [pick m] | None => [] end in
  filter (fun g => match g with [] => false | _ => true end) groups.

(* ---- build_reply ---- *)
Definition srv_target (r : rdata) : option (list label) :=
  match r with RD M_SRV [_; _; _; V_name t] => Some t | _ => None end.
Fixpoint dedup (l : list rr) : list rr :=
  match l with [] => [] | x :: r => if existsb (rr_eqb x) r then dedup r else x :: dedup r end.

Record reply := { rp_id : N; rp_response : bool; rp_answers : list rr; rp_additional : list rr; rp_unicast : bool }.

Definition answers_for (st : store) (q : question) (now : N) : list rr :=
  filter (fun r => match_qclass (rclass r) (q_class q) && match_qtype (type_of_rdata (rdata_of r)) (q_type q))
         (List.concat (query st (qname q) (filter_authoritative true) now)).
Definition additional_for (st : store) (q : question) (a : rr) (now : N) : list rr :=
  match srv_target (rdata_of a) with
  | Some t => filter (fun r => (match_qtype (type_of_rdata (rdata_of r)) (QT (TY M_A)) || match_qtype (type_of_rdata (rdata_of r)) (QT (TY M_AAAA)))
                               && match_qclass (rclass r) (q_class q))
                     (List.concat (query st t (filter_authoritative false) now))
  | None => []
  end.
Definition build_reply (st : store) (p : packet) (now : N) : option reply :=
  let answers := List.concat (map (fun q => answers_for st q now) (qs p)) in
  let additional := List.concat (map (fun q => List.concat (map (fun a => additional_for st q a now) (answers_for st q now))) (qs p)) in
  match answers with
  | [] => None
  | _ => Some {| rp_id := h_id (hdr p); rp_response := true; rp_answers := answers; rp_additional := dedup additional;
                 rp_unicast := existsb unicast (qs p) |}
  end.
(* the reply as a packet: Packet::new_reply(id) with those sections *)
Definition reply_packet (r : reply) : packet :=
  {| hdr := new_reply (rp_id r) StandardQuery; popt := None; qs := []; ans := rp_answers r; nss := []; adds := rp_additional r |}.

(* ---- service discovery ---- *)
Record instance := { i_name : list byte; i_ips : list (bool * N); i_ports : list N; i_attrs : list attr }.

(* InstanceInformation::from_records *)
Definition from_records (service : list label) (records : list rr) : option instance :=
  let name := fold_left (fun acc r => match acc with
                                      | Some n => Some n
                                      | None => option_map join_dots (without (rname r) service) end) records None in
  let ips := List.concat (map (fun r => match rdata_of r with
                                       | RD M_A [V_int a] => [(false, a)] | RD M_AAAA [V_int a] => [(true, a)] | _ => [] end) records) in
  let ports := List.concat (map (fun r => match rdata_of r with RD M_SRV [_; _; V_int p; _] => [p] | _ => [] end) records) in
  let attrs := fold_left (fun (m : list attr) (r : rr) =>
                            match rdata_of r with
                            | RD M_TXT [V_items its] =>
                              (* HashMap::extend: later values replace earlier ones *)
                              fold_left (fun (m2 : list attr) (a : attr) => a :: filter (fun b : attr => negb (bytes_eqb (fst b) (fst a))) m2)
                                        (attributes (map (@snd N (list byte)) its)) m
                            | _ => m end) records ([] : list attr) in
  match name with Some n => Some {| i_name := n; i_ips := ips; i_ports := ports; i_attrs := attrs |} | None => None end.

(* add_response_to_resources: which records are cached *)
Definition ingest_filter (service full_name : list label) (p : packet) : list rr :=
  filter (fun r => negb (labels_eqb (rname r) full_name) && is_subdomain_of (rname r) service) (ans p ++ adds p).
Definition ingest (st : store) (service full_name : list label) (p : packet) (now : N) : store :=
  fold_left (fun s r => add_cached s r now) (ingest_filter service full_name p) st.
(* get_known_services *)
Definition known_services (st : store) (service : list label) (now : N) : list instance :=
  List.concat (map (fun g => match from_records service g with Some i => [i] | None => [] end) (query st service filter_cached now)).

(* InstanceInformation::into_records, for given iteration orders of the sets / map *)
Definition into_records (i : instance) (full_name : list label) (ttl : N) : outcome (list rr) :=
  match txt_of_attrs (i_attrs i) with
  | Ok strs =>
    Ok (map (fun ip : bool * N => {| rname := full_name; rclass := IN; rttl := ttl; rcf := false;
                          rdata_of := if fst ip then RD M_AAAA [V_int (snd ip)] else RD M_A [V_int (snd ip)] |}) (i_ips i)
        ++ map (fun p : N => {| rname := full_name; rclass := IN; rttl := ttl; rcf := false;
                            rdata_of := RD M_SRV [V_int 0; V_int 0; V_int p; V_name full_name] |}) (i_ports i)
        ++ [{| rname := full_name; rclass := IN; rttl := ttl; rcf := false;
               rdata_of := RD M_TXT [V_items (map (fun s : list byte => (0, s)) strs)] |}])
  | Err e => Err e | Panic s => Panic s | OutOfFuel => OutOfFuel
  end.
