(* A computable version of the C02 well-formedness predicate, proved sound: wf_packetb p = true -> wf_packet p.
   The case interpreter evaluates it on every packet the generators build, so the hypothesis of the round-trip theorems is
   measured against the packets that are actually exercised. *)
Require Import SD.Base SD.BaseProofs SD.Sweep SD.Codes SD.CodesProofs SD.Header SD.HeaderProofs SD.Name SD.NameProofs
  SD.RData SD.Spec SD.RDataProofs SD.Packet SD.RoundTrip.
From Coq Require Import ZArith ZifyN ZifyNat ZifyBool.
Ltac Zify.zify_post_hook ::= Z.div_mod_to_equations.

Definition wf_labelsb (ls : list label) : bool := forallb (fun l => (1 <=? len l) && (len l <=? 63)) ls.
Definition wf_nameb (ls : list label) : bool := wf_labelsb ls && (labels_len ls <=? 254).
Definition wf_itemb (k : item) (it : N * list byte) : bool :=
  (fst it <? 256 ^ N.of_nat (tagw k)) && (len (snd it) <? 256 ^ N.of_nat (lenw k)).
Fixpoint increasingb (prev : option N) (its : list (N * list byte)) : bool :=
  match its with
  | [] => true
  | it :: r => (match prev with Some q => q <? fst it | None => true end) && increasingb (Some (fst it)) r
  end.
Definition wf_itemsb (k : item) (its : list (N * list byte)) : bool :=
  forallb (wf_itemb k) its && (if ordered k then increasingb None its else true) &&
  (match k, its with I_cstr, [] => false | _, _ => true end).
Definition wf_fldb (f : fld) (v : fval) : bool :=
  match f, v with
  | F_be n, V_int x => x <? 256 ^ N.of_nat n
  | F_ver0, V_int x => x =? 0
  | F_name _, V_name ls => wf_nameb ls
  | F_cstr, V_bytes bs => len bs <=? 255
  | F_rest, V_bytes bs => true
  | F_items k, V_items its => wf_itemsb k its
  | _, _ => false
  end.
Fixpoint wf_valsb (lay : layout) (vs : list fval) : bool :=
  match lay, vs with
  | [], [] => true
  | f :: r, v :: vr => wf_fldb f v && wf_valsb r vr
  | _, _ => false
  end.
Definition wf_typedb (m : mnem) (vs : list fval) : bool :=
  wf_valsb (layout_for m vs) vs &&
  match m with
  | M_IPSECKEY => match vs with V_int _ :: V_int gw :: V_int _ :: _ => gw <=? 3 | _ => false end
  | M_OPT | M_NULL => false
  | _ => true
  end.
Definition wf_rdatab (r : rdata) : bool :=
  match r with
  | RD m vs => wf_typedb m vs && (len (enc_layout (layout_for m vs) vs) <=? 65535)
  | RD_null c bs => (c <? 65536) && ((c =? 10) || match mnem_of_code c with None => true | Some _ => false end) &&
                    (1 <=? len bs) && (len bs <=? 65535)
  | RD_empty t => wf_ty t && negb (ty_eqb t (TY M_OPT))
  end.
Definition wf_rrb (r : rr) : bool := wf_nameb (rname r) && (rttl r <? 4294967296) && wf_rdatab (rdata_of r).
Definition wf_questionb (q : question) : bool :=
  wf_nameb (qname q) && match q_type q with QT (TUnknown _) => false | _ => true end.
Definition wf_optb (o : optv) : bool :=
  (o_udp o <? 65536) && (o_version o <? 256) && wf_itemsb I_optcode (o_codes o) &&
  (len (List.concat (map (enc_item I_optcode) (o_codes o))) <=? 65535).
Definition wf_packetb (p : packet) : bool :=
  (h_id (hdr p) <? 65536) &&
  (match h_opcode (hdr p) with OpReserved => false | _ => true end) &&
  (match h_rcode (hdr p) with RcReserved => false | _ => true end) &&
  existsb (fun i => h_flags (hdr p) =? flagset i) (upto 128) &&
  (match popt p with None => rcode_disc (h_rcode (hdr p)) <? 16 | Some o => wf_optb o end) &&
  forallb wf_questionb (qs p) && forallb wf_rrb (ans p) && forallb wf_rrb (nss p) && forallb wf_rrb (adds p) &&
  (len (qs p) <? 65536) && (len (ans p) <? 65536) && (len (nss p) <? 65536) &&
  (len (adds p) + (match popt p with Some _ => 1 | None => 0 end) <? 65536).

Lemma wf_nameb_sound ls : wf_nameb ls = true -> wf_name ls.
Proof.
  unfold wf_nameb, wf_name, wf_labelsb, wf_labels. intros H. apply andb_prop in H. destruct H as [H1 H2]. split; [|lia].
  rewrite forallb_forall in H1. apply Forall_forall. intros l Hl. specialize (H1 l Hl). lia.
Qed.
Lemma increasingb_sound : forall its prev, increasingb prev its = true -> increasing prev its.
Proof.
  induction its as [|it r IH]; intros prev H; [exact I|]. cbn [increasingb increasing] in *. apply andb_prop in H. destruct H as [H1 H2].
  split; [destruct prev; [lia|exact I]|apply IH; exact H2].
Qed.
Lemma wf_itemsb_sound k its : wf_itemsb k its = true -> wf_items k its.
Proof.
  unfold wf_itemsb, wf_items. intros H. apply andb_prop in H. destruct H as [H H3]. apply andb_prop in H. destruct H as [H1 H2].
  split; [|split].
  - rewrite forallb_forall in H1. apply Forall_forall. intros it Hit. specialize (H1 it Hit). unfold wf_itemb, wf_item in *. lia.
  - intros Ho. rewrite Ho in H2. apply increasingb_sound. exact H2.
  - intros -> ->. discriminate.
Qed.
Lemma wf_fldb_sound f v : wf_fldb f v = true -> wf_fld f v.
Proof.
  destruct f as [n| |c| | |k], v as [x|ls|bs|its]; cbn [wf_fldb wf_fld]; intros H; try discriminate; try lia; try exact I.
  - apply wf_nameb_sound in H. exact H.
  - apply wf_itemsb_sound. exact H.
Qed.
Lemma wf_valsb_sound : forall lay vs, wf_valsb lay vs = true -> wf_vals lay vs.
Proof.
  induction lay as [|f r IH]; intros [|v vr] H; cbn [wf_valsb wf_vals] in *; try discriminate; [exact I|].
  apply andb_prop in H. destruct H as [H1 H2]. split; [apply wf_fldb_sound; exact H1|apply IH; exact H2].
Qed.
Lemma wf_typedb_sound m vs : wf_typedb m vs = true -> wf_typed m vs.
Proof.
  unfold wf_typedb, wf_typed. intros H. apply andb_prop in H. destruct H as [H1 H2]. split; [apply wf_valsb_sound; exact H1|].
  destruct m; try exact I; try discriminate.
  destruct vs as [|[pr| | |] [|[gw| | |] [|[al| | |] rest]]]; try discriminate. exists pr, gw, al, rest. split; [reflexivity|lia].
Qed.
Lemma wf_rdatab_sound r : wf_rdatab r = true -> wf_rdata r.
Proof.
  destruct r as [m vs|c bs|t]; cbn [wf_rdatab wf_rdata]; intros H.
  - apply andb_prop in H. destruct H as [H1 H2]. split; [apply wf_typedb_sound; exact H1|lia].
  - apply andb_prop in H. destruct H as [H H4]. apply andb_prop in H. destruct H as [H H3]. apply andb_prop in H. destruct H as [H1 H2].
    split; [lia|]. split; [|lia]. apply orb_prop in H2. destruct H2 as [H2|H2]; [left; lia|right; destruct (mnem_of_code c); [discriminate|reflexivity]].
  - apply andb_prop in H. destruct H as [H1 H2]. split; [exact H1|]. intros ->. vm_compute in H2. discriminate.
Qed.
Lemma wf_rrb_sound r : wf_rrb r = true -> wf_rr r.
Proof.
  unfold wf_rrb, wf_rr. intros H. apply andb_prop in H. destruct H as [H H3]. apply andb_prop in H. destruct H as [H1 H2].
  split; [apply wf_nameb_sound; exact H1|]. split; [lia|apply wf_rdatab_sound; exact H3].
Qed.
Lemma wf_questionb_sound q : wf_questionb q = true -> wf_question q.
Proof.
  unfold wf_questionb, wf_question. intros H. apply andb_prop in H. destruct H as [H1 H2]. split; [apply wf_nameb_sound; exact H1|].
  intros u E. rewrite E in H2. discriminate.
Qed.
Lemma wf_optb_sound o : wf_optb o = true -> wf_opt o.
Proof.
  unfold wf_optb, wf_opt. intros H. apply andb_prop in H. destruct H as [H H4]. apply andb_prop in H. destruct H as [H H3].
  apply andb_prop in H. destruct H as [H1 H2]. split; [lia|]. split; [lia|]. split; [apply wf_itemsb_sound; exact H3|lia].
Qed.
Lemma forallb_Forall {A} (f : A -> bool) (P : A -> Prop) l : (forall x, f x = true -> P x) -> forallb f l = true -> Forall P l.
Proof. intros H Hf. rewrite forallb_forall in Hf. apply Forall_forall. intros x Hx. apply H. apply Hf. exact Hx. Qed.

Theorem wf_packetb_sound : forall p, wf_packetb p = true -> wf_packet p.
Proof.
  intros p H. unfold wf_packetb in H.
  repeat match type of H with (_ && _) = true => let H' := fresh "B" in apply andb_prop in H; destruct H as [H H'] end.
  constructor.
  - lia.
  - intros E. rewrite E in *. discriminate.
  - intros E. rewrite E in *. discriminate.
  - match goal with Hx : existsb _ (upto 128) = true |- _ => apply existsb_exists in Hx; destruct Hx as (i & Hi & He) end.
    exists i. split; [|lia]. unfold upto in Hi. clear -Hi.
    assert (G : forall fuel s x, In x (rangeN fuel s) -> x < s + N.of_nat fuel).
    { induction fuel as [|f IH]; intros s x Hx; [destruct Hx|]. cbn [rangeN] in Hx. destruct Hx as [<-|Hx]; [lia|]. apply IH in Hx. lia. }
    apply G in Hi. lia.
  - intros E. rewrite E in *. lia.
  - intros o E. rewrite E in *. apply wf_optb_sound. assumption.
  - eapply forallb_Forall; [apply wf_questionb_sound|eassumption].
  - eapply forallb_Forall; [apply wf_rrb_sound|eassumption].
  - eapply forallb_Forall; [apply wf_rrb_sound|eassumption].
  - eapply forallb_Forall; [apply wf_rrb_sound|eassumption].
  - unfold opt_count. repeat split; lia.
Qed.
