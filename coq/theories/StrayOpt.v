(* OPT-typed records that stay in a section (a second OPT record, or one outside the additional section): they round-trip
   too, which removes the "no stray OPT" side condition from C11 *)
Require Import SD.Base SD.BaseProofs SD.Sweep SD.Codes SD.CodesProofs SD.Header SD.HeaderProofs SD.Name SD.NameProofs
  SD.RData SD.Spec SD.RDataProofs SD.Packet SD.PacketProofs SD.RoundTrip SD.CompressProofs SD.CompressRoundTrip.
From Coq Require Import ZArith ZifyN ZifyNat ZifyBool.
Ltac Zify.zify_post_hook ::= Z.div_mod_to_equations.

Definition version_of (ttl : N) : N := N.shiftr (N.land ttl OPT_VERSION_MASK) 16 mod 256.
Definition opt_codes_bytes (c : list (N * list byte)) : list byte := List.concat (map (enc_item I_optcode) c).

(* ResourceRecord::parse from the end of the owner name on, for a record of TYPE 41 *)
Lemma parse_rr_opt_tail : forall d p name pre1 udp ttl c post,
  d = pre1 ++ rr_fixed 41 udp ttl (len (opt_codes_bytes c)) ++ opt_codes_bytes c ++ post ->
  parse_name d p = Ok (name, len pre1) -> udp < 65536 -> ttl < 4294967296 -> wf_items I_optcode c -> len (opt_codes_bytes c) <= 65535 ->
  parse_rr d p = Ok ({| rname := name; rclass := IN; rttl := ttl; rcf := false;
                        rdata_of := RD M_OPT [V_int udp; V_int (version_of ttl); V_items c] |}, len pre1 + 10 + len (opt_codes_bytes c)).
Proof.
  intros d p name pre1 udp ttl c post -> Hn Hu Httl Hc Hl. set (codes := opt_codes_bytes c) in *.
  unfold parse_rr. rewrite Hn.
  assert (Hd : len (pre1 ++ rr_fixed 41 udp ttl (len codes) ++ codes ++ post) = len pre1 + 10 + len codes + len post)
    by (rewrite !len_app, len_rr_fixed; lia).
  rewrite Hd. destruct (len pre1 + 10 + len codes + len post <? len pre1 + 8) eqn:E; [lia|].
  destruct (rr_fixed_reads pre1 41 udp ttl (len codes) (codes ++ post)) as (R0 & R2 & R4 & R8). rewrite R2, R4.
  unfold parse_rdata. rewrite Hd. destruct (len pre1 + 10 + len codes + len post <? len pre1 + 10) eqn:E1; [lia|].
  rewrite R0, R8. change (41 mod 65536) with 41. change (type_of_code 41) with (TY M_OPT).
  change (ty_eqb (TY M_OPT) (TY M_OPT)) with true. cbv iota. rewrite (N.mod_small (len codes)) by lia.
  destruct (len pre1 + 10 + len codes + len post <? len pre1 + len codes + 10) eqn:E2; [lia|].
  replace (pre1 ++ rr_fixed 41 udp ttl (len codes) ++ codes ++ post)
    with (((pre1 ++ rr_fixed 41 udp ttl (len codes)) ++ codes) ++ post) by (rewrite <- !app_assoc; reflexivity).
  rewrite firstn_app_exact by (rewrite !len_app, len_rr_fixed; lia).
  unfold parse_opt.
  assert (Hd2 : len ((pre1 ++ rr_fixed 41 udp ttl (len codes)) ++ codes) = len pre1 + 10 + len codes)
    by (rewrite !len_app, len_rr_fixed; lia).
  rewrite Hd2. destruct (len pre1 + 10 + len codes <? len pre1 + 10) eqn:E3; [lia|].
  rewrite <- app_assoc.
  destruct (rr_fixed_reads pre1 41 udp ttl (len codes) codes) as (_ & Q2 & Q4 & _). rewrite Q2, Q4.
  rewrite (N.mod_small udp) by lia. rewrite (N.mod_small ttl) by lia.
  replace (pre1 ++ rr_fixed 41 udp ttl (len codes) ++ codes) with ((pre1 ++ rr_fixed 41 udp ttl (len codes)) ++ codes)
    by (rewrite <- !app_assoc; reflexivity).
  replace (len pre1 + 10) with (len (pre1 ++ rr_fixed 41 udp ttl (len codes))) by (rewrite len_app, len_rr_fixed; reflexivity).
  destruct Hc as (Hf & Ho & _). unfold codes, opt_codes_bytes.
  rewrite (parse_items_enc I_optcode c _ _ None Hf); [|intros F; discriminate|].
  2:{ pose proof (length_concat_ge I_optcode c Hf). rewrite app_length. lia. }
  cbn [type_of_rdata]. change (ty_eqb (TY M_OPT) (TY M_OPT)) with true. cbv iota.
  first [reflexivity | f_equal; f_equal; rewrite !len_app, len_rr_fixed; lia | f_equal; f_equal; [|rewrite !len_app, len_rr_fixed; lia]; reflexivity].
Qed.

(* an OPT-typed record as Packet::parse leaves it in a section *)
Definition opt_rr_ok (r : rr) : Prop :=
  exists u c, rdata_of r = RD M_OPT [V_int u; V_int (version_of (rttl r)); V_items c] /\
              u < 65536 /\ wf_items I_optcode c /\ len (opt_codes_bytes c) <= 65535 /\
              rclass r = IN /\ rcf r = false /\ wf_name (rname r) /\ rttl r < 4294967296.
Definition rr_ok (r : rr) : Prop := wf_rr r \/ opt_rr_ok r.

Lemma enc_rr_opt r u v c : rdata_of r = RD M_OPT [V_int u; V_int v; V_items c] -> wf_items I_optcode c ->
  enc_rr_common r ++ be_enc 2 (len_rdata (rdata_of r)) ++ enc_rdata (rdata_of r)
  = rr_fixed 41 u (rttl r) (len (opt_codes_bytes c)) ++ opt_codes_bytes c.
Proof.
  intros E Hc. unfold enc_rr_common, rr_fixed. rewrite E. cbn [type_of_rdata code_of_type enc_rdata len_rdata opt_codes_of enc_layout enc_fld len_layout len_fld].
  rewrite (enc_items_concat _ _ Hc). rewrite app_nil_r.
  assert (L : len_items I_optcode c + 0 = len (opt_codes_bytes c)).
  { unfold opt_codes_bytes. rewrite len_concat_items. unfold len_items. lia. }
  rewrite L. rewrite <- !app_assoc. reflexivity.
Qed.

Lemma opt_rr_rebuild r u c : rdata_of r = RD M_OPT [V_int u; V_int (version_of (rttl r)); V_items c] -> rclass r = IN -> rcf r = false ->
  {| rname := rname r; rclass := IN; rttl := rttl r; rcf := false; rdata_of := RD M_OPT [V_int u; V_int (version_of (rttl r)); V_items c] |} = r.
Proof. destruct r; cbn. intros -> -> ->. reflexivity. Qed.

Theorem opt_rr_rt r : opt_rr_ok r -> rr_rt r.
Proof.
  intros (u & c & E & Hu & Hc & Hl & Hcl & Hcf & [Hwn Hln] & Httl) pre post.
  unfold enc_rr. rewrite (enc_rr_opt r u _ c E Hc).
  rewrite (parse_rr_opt_tail _ (len pre) (rname r) (pre ++ write_name (rname r)) u (rttl r) c post); try assumption.
  - rewrite (opt_rr_rebuild r u c E Hcl Hcf). f_equal. f_equal. rewrite !len_app, len_rr_fixed. lia.
  - rewrite <- !app_assoc. reflexivity.
  - rewrite len_app. rewrite <- !app_assoc. apply parse_name_write; assumption.
Qed.

Theorem opt_rr_wc_good r : opt_rr_ok r -> wc_good parse_rr wc_rr enc_rr r.
Proof.
  intros (u & c & E & Hu & Hc & Hl & Hcl & Hcf & [Hwn Hln] & Httl) out t bs t' post Hinv Hw.
  unfold wc_rr in Hw. destruct (wc_name t (len out) (rname r)) as [b t1] eqn:En. rewrite E in Hw. cbn [wc_rdata] in Hw.
  apply pair_equal_spec in Hw. destruct Hw as [<- <-].
  destruct (wc_name_inv _ out t b t1 Hwn Hinv En) as (_ & _ & Lb & I1).
  assert (Eb : enc_rr_common r ++ be_enc 2 (len (enc_rdata (RD M_OPT [V_int u; V_int (version_of (rttl r)); V_items c]))) ++
               enc_rdata (RD M_OPT [V_int u; V_int (version_of (rttl r)); V_items c])
               = rr_fixed 41 u (rttl r) (len (opt_codes_bytes c)) ++ opt_codes_bytes c).
  { rewrite <- (enc_rr_opt r u _ c E Hc). rewrite E. f_equal. f_equal.
    cbn [enc_rdata len_rdata opt_codes_of enc_layout enc_fld len_layout len_fld]. rewrite (enc_items_concat _ _ Hc), app_nil_r.
    rewrite len_concat_items. unfold len_items. f_equal. lia. }
  rewrite Eb. split; [|split].
  - rewrite (parse_rr_opt_tail _ (len out) (rname r) (out ++ b) u (rttl r) c post); try assumption.
    + rewrite (opt_rr_rebuild r u c E Hcl Hcf). f_equal. f_equal. rewrite !len_app, len_rr_fixed. lia.
    + rewrite <- !app_assoc. reflexivity.
    + rewrite len_app. rewrite <- !app_assoc. apply (parse_name_compressed _ out t b t1 _ Hwn Hln Hinv En).
  - apply TInv_app with (more := rr_fixed 41 u (rttl r) (len (opt_codes_bytes c)) ++ opt_codes_bytes c) in I1.
    rewrite <- app_assoc in I1. exact I1.
  - unfold enc_rr. rewrite (enc_rr_opt r u _ c E Hc). rewrite !len_app. lia.
Qed.

Lemma rr_ok_rt r : rr_ok r -> rr_rt r.
Proof. intros [H|H]; [intros pre post; apply parse_rr_enc; exact H|apply opt_rr_rt; exact H]. Qed.
Lemma rr_ok_wc_good r : rr_ok r -> wc_good parse_rr wc_rr enc_rr r.
Proof. intros [H|H]; [apply parse_rr_wc; exact H|apply opt_rr_wc_good; exact H]. Qed.

(* ---------- packets whose sections may hold OPT-typed records ---------- *)
Record wf_packet_gen (p : packet) : Prop := {
  g_id : h_id (hdr p) < 65536;
  g_op : named_opcode (h_opcode (hdr p));
  g_rc : named_rcode (h_rcode (hdr p));
  g_fl : exists i, i < 128 /\ h_flags (hdr p) = flagset i;
  g_ext : popt p = None -> rcode_disc (h_rcode (hdr p)) < 16;
  g_opt : forall o, popt p = Some o -> wf_opt o;
  g_qs : Forall wf_question (qs p);
  g_ans : Forall rr_ok (ans p);
  g_nss : Forall rr_ok (nss p);
  g_adds : Forall rr_ok (adds p);
  g_noopt : popt p = None -> take_first_opt (adds p) = None;      (* Packet::parse lifts the first OPT record of the additional section *)
  g_counts : len (qs p) < 65536 /\ len (ans p) < 65536 /\ len (nss p) < 65536 /\ len (adds p) + opt_count p < 65536 }.

Lemma wf_packet_is_gen p : wf_packet p -> wf_packet_gen p.
Proof.
  intros [A B C D E F G H I J K]. constructor; try assumption.
  - eapply Forall_impl; [|exact H]. intros r Hr. left. exact Hr.
  - eapply Forall_impl; [|exact I]. intros r Hr. left. exact Hr.
  - eapply Forall_impl; [|exact J]. intros r Hr. left. exact Hr.
  - intros _. apply take_first_opt_none. exact J.
Qed.

Theorem packet_roundtrip_gen : forall p, wf_packet_gen p -> parse_packet (enc_packet p) = Ok p.
Proof.
  intros p [Hid Hop Hrc (i & Hi & Hfl) Hext Hopt Hqs Hans Hnss Hadds Hnoopt (Cq & Ca & Cn & Cx)].
  (* the additional section as it is on the wire *)
  set (xs := match popt p with Some o => opt_record o (hdr p) :: adds p | None => adds p end).
  assert (Hxs_enc : (match opt_rr p with Some r => enc_rr r | None => [] end) ++ List.concat (map enc_rr (adds p))
                    = List.concat (map enc_rr xs)).
  { unfold xs, opt_rr. destruct (popt p) as [o|]; reflexivity. }
  assert (Hxs_len : len xs = len (adds p) + opt_count p).
  { unfold xs, opt_count. destruct (popt p); [rewrite len_cons; lia|lia]. }
  assert (Hxs_rt : Forall rr_rt xs).
  { assert (Hadds_rt : Forall rr_rt (adds p)).
    { eapply Forall_impl; [|exact Hadds]. intros x Hx. apply rr_ok_rt. exact Hx. }
    unfold xs. destruct (popt p) as [o|] eqn:Eo; [|exact Hadds_rt]. constructor; [|exact Hadds_rt].
    intros pre post. apply parse_opt_record; [apply Hopt; reflexivity|exact Hrc]. }
  unfold enc_packet. rewrite Hxs_enc.
  set (bq := List.concat (map enc_question (qs p))). set (ba := List.concat (map enc_rr (ans p))).
  set (bn := List.concat (map enc_rr (nss p))). set (bx := List.concat (map enc_rr xs)).
  unfold enc_packet_header.
  replace ((len (adds p) mod 65536 + match popt p with Some _ => 1 | None => 0 end) mod 65536) with (len xs).
  2:{ rewrite Hxs_len. unfold opt_count in *. rewrite (N.mod_small (len (adds p))) by (destruct (popt p); lia).
      rewrite N.mod_small; [reflexivity|destruct (popt p); lia]. }
  unfold parse_packet.
  rewrite (write_parse_header_low (hdr p) i _ _ _ _ _ Hid Hop Hrc Hi Hfl).
  change (write_header (hdr p) (len (qs p)) (len (ans p)) (len (nss p)) (len xs))
    with (hdr_bytes (h_id (hdr p)) (get_flags (hdr p)) (len (qs p)) (len (ans p)) (len (nss p)) (len xs)).
  destruct (be_at_hdr (h_id (hdr p)) (get_flags (hdr p)) (len (qs p)) (len (ans p)) (len (nss p)) (len xs) (bq ++ ba ++ bn ++ bx))
    as (_ & _ & P4 & P6 & P8 & P10).
  unfold peek_questions, peek_answers, peek_name_servers, peek_additional_records, peek16. rewrite P4, P6, P8, P10.
  rewrite !N.mod_small by lia.
  set (H12 := hdr_bytes (h_id (hdr p)) (get_flags (hdr p)) (len (qs p)) (len (ans p)) (len (nss p)) (len xs)).
  assert (L12 : len H12 = 12) by apply len_hdr_bytes.
  (* questions *)
  unfold len at 1. rewrite Nat2N.id.
  pose proof (parse_section_enc parse_question enc_question wf_question
                (fun x pre post Hx => parse_question_enc x pre post Hx) (qs p) H12 (ba ++ bn ++ bx) Hqs) as S1.
  rewrite L12 in S1. fold bq in S1. rewrite S1.
  (* answers *)
  assert (RR : forall l pre post, Forall rr_rt l ->
            parse_section parse_rr (length l) (pre ++ List.concat (map enc_rr l) ++ post) (len pre)
            = Ok (l, len pre + len (List.concat (map enc_rr l)))).
  { intros l pre post Hl. apply (parse_section_enc parse_rr enc_rr rr_rt (fun x pre post Hx => Hx pre post)). exact Hl. }
  assert (Hans_rt : Forall rr_rt (ans p)).
  { eapply Forall_impl; [|exact Hans]. intros x Hx. apply rr_ok_rt. exact Hx. }
  assert (Hnss_rt : Forall rr_rt (nss p)).
  { eapply Forall_impl; [|exact Hnss]. intros x Hx. apply rr_ok_rt. exact Hx. }
  unfold len at 1. rewrite Nat2N.id.
  pose proof (RR (ans p) (H12 ++ bq) (bn ++ bx) Hans_rt) as S2. fold ba in S2.
  rewrite len_app, L12 in S2. rewrite <- app_assoc in S2. rewrite S2.
  unfold len at 1. rewrite Nat2N.id.
  pose proof (RR (nss p) (H12 ++ bq ++ ba) bx Hnss_rt) as S3. fold bn in S3.
  rewrite !len_app, L12 in S3. rewrite <- !app_assoc in S3. rewrite N.add_assoc in S3. rewrite S3.
  unfold len at 1. rewrite Nat2N.id.
  pose proof (RR xs (H12 ++ bq ++ ba ++ bn) [] Hxs_rt) as S4. fold bx in S4.
  rewrite !len_app, L12 in S4. rewrite <- !app_assoc in S4. rewrite app_nil_r in S4. rewrite !N.add_assoc in S4. rewrite S4.
  (* lifting the OPT record *)
  unfold xs. destruct (popt p) as [o|] eqn:Eo.
  - cbn [take_first_opt opt_record rdata_of type_of_rdata]. change (ty_eqb (TY M_OPT) (TY M_OPT)) with true. cbv iota.
    unfold opt_record. cbn [optv_of rttl rdata_of].
    destruct (Hopt o eq_refl) as (_ & Hv & _ & _).
    destruct (ttl_facts (h_rcode (hdr p)) (o_version o) Hrc Hv) as (_ & _ & T3 & _).
    unfold extract_rcode. cbn [low_header h_rcode h_id h_opcode h_flags].
    change (encode_ttl o (hdr p)) with (ttl_of (h_rcode (hdr p)) (o_version o)). rewrite T3.
    f_equal. destruct p as [[hid hop hrc hfl] po q a n x]. cbn in *. subst po. destruct o. reflexivity.
  - rewrite (Hnoopt eq_refl). f_equal. unfold low_header. rewrite (low_rcode_small _ (Hext eq_refl)).
    destruct p as [[hid hop hrc hfl] po q a n x]. cbn in *. subst po. reflexivity.
Qed.

Theorem packet_roundtrip_compressed_gen : forall p, wf_packet_gen p ->
  parse_packet (encc_packet p) = Ok p /\ len (encc_packet p) <= len (enc_packet p).
Proof.
  intros p [Hid Hop Hrc (i & Hi & Hfl) Hext Hopt Hqs Hans Hnss Hadds Hnoopt (Cq & Ca & Cn & Cx)].
  set (xs := match popt p with Some o => opt_record o (hdr p) :: adds p | None => adds p end).
  assert (Hxs_len : len xs = len (adds p) + opt_count p).
  { unfold xs, opt_count. destruct (popt p); [rewrite len_cons; lia|lia]. }
  unfold encc_packet, enc_packet, enc_packet_header.
  replace ((len (adds p) mod 65536 + match popt p with Some _ => 1 | None => 0 end) mod 65536) with (len xs).
  2:{ rewrite Hxs_len. unfold opt_count in *. rewrite (N.mod_small (len (adds p))) by (destruct (popt p); lia).
      rewrite N.mod_small; [reflexivity|destruct (popt p); lia]. }
  change (write_header (hdr p) (len (qs p)) (len (ans p)) (len (nss p)) (len xs))
    with (hdr_bytes (h_id (hdr p)) (get_flags (hdr p)) (len (qs p)) (len (ans p)) (len (nss p)) (len xs)).
  set (H12 := hdr_bytes (h_id (hdr p)) (get_flags (hdr p)) (len (qs p)) (len (ans p)) (len (nss p)) (len xs)).
  assert (L12 : len H12 = 12) by apply len_hdr_bytes.
  set (bo := match opt_rr p with Some r => enc_rr r | None => [] end).
  assert (Gq : Forall (wc_good parse_question wc_question enc_question) (qs p))
    by (eapply Forall_impl; [|exact Hqs]; intros x Hx; apply parse_question_wc; exact Hx).
  assert (Grr : forall l, Forall rr_ok l -> Forall (wc_good parse_rr wc_rr enc_rr) l)
    by (intros l Hl; eapply Forall_impl; [|exact Hl]; intros x Hx; apply rr_ok_wc_good; exact Hx).
  destruct (wc_list wc_question (qs p) [] 12) as [bq t1] eqn:Eq.
  destruct (wc_list wc_rr (ans p) t1 (12 + len bq)) as [ba t2] eqn:Ea.
  destruct (wc_list wc_rr (nss p) t2 (12 + len bq + len ba)) as [bn t3] eqn:En.
  destruct (wc_list wc_rr (adds p) t3 (12 + len bq + len ba + len bn + len bo)) as [bx t4] eqn:Ex.
  rewrite <- L12 in Eq.
  destruct (wc_list_rt _ _ _ (qs p) Gq H12 [] bq t1 (ba ++ bn ++ bo ++ bx) (TInv_nil _) Eq) as (S1 & I1 & Lq).
  replace (12 + len bq) with (len (H12 ++ bq)) in Ea by (rewrite len_app; lia).
  destruct (wc_list_rt _ _ _ (ans p) (Grr _ Hans) (H12 ++ bq) t1 ba t2 (bn ++ bo ++ bx) I1 Ea) as (S2 & I2 & La).
  replace (12 + len bq + len ba) with (len ((H12 ++ bq) ++ ba)) in En by (rewrite !len_app; lia).
  destruct (wc_list_rt _ _ _ (nss p) (Grr _ Hnss) ((H12 ++ bq) ++ ba) t2 bn t3 (bo ++ bx) I2 En) as (S3 & I3 & Ln).
  replace (12 + len bq + len ba + len bn + len bo) with (len ((((H12 ++ bq) ++ ba) ++ bn) ++ bo)) in Ex by (rewrite !len_app; lia).
  destruct (wc_list_rt _ _ _ (adds p) (Grr _ Hadds) ((((H12 ++ bq) ++ ba) ++ bn) ++ bo) t3 bx t4 [] (TInv_app _ _ bo I3) Ex) as (S4 & _ & Lx).
  rewrite app_nil_r in S4.
  split.
  2:{ rewrite !len_app in *. lia. }
  (* the additional section as the parser sees it *)
  assert (S4' : parse_section parse_rr (length xs) ((((H12 ++ bq) ++ ba) ++ bn) ++ bo ++ bx) (len (((H12 ++ bq) ++ ba) ++ bn))
                = Ok (xs, len (((H12 ++ bq) ++ ba) ++ bn) + len bo + len bx)).
  { unfold xs, bo, opt_rr. destruct (popt p) as [o|] eqn:Eo.
    - fold (opt_record o (hdr p)). cbn [length parse_section].
      rewrite (parse_opt_record o (hdr p) _ bx (Hopt o eq_refl) Hrc).
      unfold bo, opt_rr in S4. rewrite Eo in S4. fold (opt_record o (hdr p)) in S4.
      rewrite app_assoc. rewrite <- len_app. rewrite S4.
      first [reflexivity | f_equal; f_equal; rewrite !len_app; lia | f_equal; rewrite !len_app; lia].
    - unfold bo, opt_rr in S4. rewrite Eo in S4. rewrite app_nil_r in S4. cbn [app]. rewrite S4.
      first [reflexivity | f_equal; f_equal; change (len (@nil byte)) with 0; lia]. }
  unfold parse_packet.
  pose proof (write_parse_header_low (hdr p) i (len (qs p)) (len (ans p)) (len (nss p)) (len xs) (bq ++ ba ++ bn ++ bo ++ bx)
                Hid Hop Hrc Hi Hfl) as PH.
  change (write_header (hdr p) (len (qs p)) (len (ans p)) (len (nss p)) (len xs)) with H12 in PH. rewrite PH.
  destruct (be_at_hdr (h_id (hdr p)) (get_flags (hdr p)) (len (qs p)) (len (ans p)) (len (nss p)) (len xs) (bq ++ ba ++ bn ++ bo ++ bx))
    as (_ & _ & P4 & P6 & P8 & P10). fold H12 in P4, P6, P8, P10.
  unfold peek_questions, peek_answers, peek_name_servers, peek_additional_records, peek16. rewrite P4, P6, P8, P10.
  rewrite !N.mod_small by lia.
  unfold len at 1. rewrite Nat2N.id. rewrite L12 in S1. rewrite S1.
  unfold len at 1. rewrite Nat2N.id.
  rewrite len_app, L12 in S2. rewrite <- !app_assoc in S2. rewrite S2.
  unfold len at 1. rewrite Nat2N.id.
  rewrite !len_app, L12 in S3. rewrite <- !app_assoc in S3. rewrite S3.
  unfold len at 1. rewrite Nat2N.id.
  rewrite !len_app, L12 in S4'. rewrite <- !app_assoc in S4'. rewrite S4'.
  unfold xs. destruct (popt p) as [o|] eqn:Eo.
  - cbn [take_first_opt opt_record rdata_of type_of_rdata]. change (ty_eqb (TY M_OPT) (TY M_OPT)) with true. cbv iota.
    unfold opt_record. cbn [optv_of rttl rdata_of].
    destruct (Hopt o eq_refl) as (_ & Hv & _ & _).
    destruct (ttl_facts (h_rcode (hdr p)) (o_version o) Hrc Hv) as (_ & _ & T3 & _).
    unfold extract_rcode. cbn [low_header h_rcode h_id h_opcode h_flags].
    change (encode_ttl o (hdr p)) with (ttl_of (h_rcode (hdr p)) (o_version o)). rewrite T3.
    f_equal. destruct p as [[hid hop hrc hfl] po q a n x]. cbn in *. subst po. destruct o. reflexivity.
  - rewrite (Hnoopt eq_refl). f_equal. unfold low_header. rewrite (low_rcode_small _ (Hext eq_refl)).
    destruct p as [[hid hop hrc hfl] po q a n x]. cbn in *. subst po. reflexivity.
Qed.
