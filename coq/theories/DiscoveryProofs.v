(* C15: an advertised instance is reported as advertised; the ingest filter; records <-> instance *)
Require Import SD.Base SD.BaseProofs SD.Codes SD.CodesProofs SD.Header SD.HeaderProofs SD.Name SD.NameProofs SD.RData SD.RDataProofs
  SD.Packet SD.PacketProofs SD.RoundTrip SD.CompressProofs SD.CompressRoundTrip SD.TextApi SD.TextApiProofs SD.Store SD.StoreProofs.
From Coq Require Import ZArith ZifyN ZifyNat ZifyBool.
Ltac Zify.zify_post_hook ::= Z.div_mod_to_equations.

(* ---------- the ingest filter (add_response_to_resources) ---------- *)
Theorem ingest_filter_spec : forall service me p r,
  In r (ingest_filter service me p) <->
  In r (ans p ++ adds p) /\ rname r <> me /\ exists pre, pre <> [] /\ rname r = pre ++ service.
Proof.
  intros service me p r. unfold ingest_filter. rewrite filter_In. rewrite andb_true_iff, negb_true_iff.
  rewrite is_subdomain_of_spec. split.
  - intros (Hin & Hne & Hsub). split; [exact Hin|]. split; [|exact Hsub]. intros E.
    apply (proj2 (labels_eqb_eq _ _)) in E. congruence.
  - intros (Hin & Hne & Hsub). split; [exact Hin|]. split; [|exact Hsub].
    destruct (labels_eqb (rname r) me) eqn:E; [|reflexivity]. apply labels_eqb_eq in E. contradiction.
Qed.

(* ---------- into_records then from_records ---------- *)
Definition ip_rr (full : list label) (ttl : N) (ip : bool * N) : rr :=
  {| rname := full; rclass := IN; rttl := ttl; rcf := false;
     rdata_of := if fst ip then RD M_AAAA [V_int (snd ip)] else RD M_A [V_int (snd ip)] |}.
Definition port_rr (full : list label) (ttl : N) (p : N) : rr :=
  {| rname := full; rclass := IN; rttl := ttl; rcf := false; rdata_of := RD M_SRV [V_int 0; V_int 0; V_int p; V_name full] |}.
Definition txt_rr (full : list label) (ttl : N) (its : list (N * list byte)) : rr :=
  {| rname := full; rclass := IN; rttl := ttl; rcf := false; rdata_of := RD M_TXT [V_items its] |}.

Lemma into_records_shape i full ttl recs : into_records i full ttl = Ok recs ->
  recs = map (ip_rr full ttl) (i_ips i) ++ map (port_rr full ttl) (i_ports i)
         ++ [txt_rr full ttl (map (fun s => (0, s)) (map txt_entry (i_attrs i)))] /\
  Forall (fun a => len (txt_entry a) <= 255) (i_attrs i).
Proof.
  unfold into_records, txt_of_attrs. destruct (forallb _ (i_attrs i)) eqn:E; [|discriminate]. intros H. injection H as <-.
  split; [reflexivity|]. rewrite forallb_forall in E. apply Forall_forall. intros a Ha. specialize (E a Ha). lia.
Qed.

(* name: the first record decides *)
Definition name_step (service : list label) (acc : option (list byte)) (r : rr) : option (list byte) :=
  match acc with Some n => Some n | None => option_map join_dots (without (rname r) service) end.
Lemma name_fold_some service l n : fold_left (name_step service) l (Some n) = Some n.
Proof. induction l as [|r l IH]; [reflexivity|]. cbn [fold_left name_step]. exact IH. Qed.

Definition ip_of (r : rr) : list (bool * N) :=
  match rdata_of r with RD M_A [V_int a] => [(false, a)] | RD M_AAAA [V_int a] => [(true, a)] | _ => [] end.
Definition port_of (r : rr) : list N := match rdata_of r with RD M_SRV [_; _; V_int p; _] => [p] | _ => [] end.
Lemma concat_map_nil {A B} (f : A -> list B) l : (forall x, In x l -> f x = []) -> List.concat (map f l) = [].
Proof. induction l as [|x r IH]; intros H; [reflexivity|]. cbn. rewrite (H x (or_introl eq_refl)). apply IH. intros y Hy. apply H. right. exact Hy. Qed.
Lemma concat_map_single {A B} (f : A -> list B) (g : A -> B) l : (forall x, In x l -> f x = [g x]) -> List.concat (map f l) = map g l.
Proof. induction l as [|x r IH]; intros H; [reflexivity|]. cbn. rewrite (H x (or_introl eq_refl)). cbn. f_equal. apply IH. intros y Hy. apply H. right. exact Hy. Qed.

(* HashMap::extend with distinct keys enumerates every entry once *)
Definition attr_put (m2 : list attr) (a : attr) : list attr := a :: filter (fun b : attr => negb (bytes_eqb (fst b) (fst a))) m2.
Lemma filter_all_true {A} (f : A -> bool) l : (forall x, In x l -> f x = true) -> filter f l = l.
Proof. induction l as [|x r IH]; intros H; [reflexivity|]. cbn. rewrite (H x (or_introl eq_refl)). f_equal. apply IH. intros y Hy. apply H. right. exact Hy. Qed.
Lemma attr_put_all : forall order acc, NoDup (map fst (acc ++ order)) -> fold_left attr_put order acc = rev order ++ acc.
Proof.
  induction order as [|a r IH]; intros acc Hnd; [reflexivity|]. cbn [fold_left]. unfold attr_put at 2.
  rewrite map_app in Hnd. cbn [map] in Hnd.
  assert (Hna : ~ In (fst a) (map fst acc) /\ ~ In (fst a) (map fst r)).
  { pose proof (NoDup_remove_2 _ _ _ Hnd) as H. rewrite in_app_iff in H. tauto. }
  assert (Hf : filter (fun b : attr => negb (bytes_eqb (fst b) (fst a))) acc = acc).
  { apply filter_all_true. intros b Hb. apply negb_true_iff.
    destruct (bytes_eqb (fst b) (fst a)) eqn:E; [|reflexivity]. apply bytes_eqb_eq in E. exfalso.
    apply (proj1 Hna). rewrite <- E. apply in_map. exact Hb. }
  rewrite Hf. rewrite IH.
  - cbn [rev]. rewrite <- app_assoc. reflexivity.
  - change (NoDup (fst a :: map fst (acc ++ r))). apply NoDup_cons.
    + rewrite map_app, in_app_iff. tauto.
    + rewrite map_app. apply NoDup_remove_1 in Hnd. exact Hnd.
Qed.

Definition attrs_step (m : list attr) (r : rr) : list attr :=
  match rdata_of r with
  | RD M_TXT [V_items its] => fold_left attr_put (attributes (map (@snd N (list byte)) its)) m
  | _ => m end.
Lemma from_records_unfold service records :
  from_records service records =
  match fold_left (name_step service) records None with
  | Some n => Some {| i_name := n; i_ips := List.concat (map ip_of records); i_ports := List.concat (map port_of records);
                     i_attrs := fold_left attrs_step records [] |}
  | None => None end.
Proof. reflexivity. Qed.

Lemma name_fold_first service full c l : l <> [] -> (forall r, In r l -> rname r = full) -> without full service = Some c ->
  fold_left (name_step service) l None = Some (join_dots c).
Proof.
  intros Hne Hall Hw. destruct l as [|r l]; [contradiction|]. cbn [fold_left name_step].
  rewrite (Hall r (or_introl eq_refl)), Hw. cbn [option_map]. apply name_fold_some.
Qed.

Lemma attrs_fold_skip l m : (forall r m', In r l -> attrs_step m' r = m') -> fold_left attrs_step l m = m.
Proof. intros H. induction l as [|r l IH]; [reflexivity|]. cbn [fold_left]. rewrite (H r m (or_introl eq_refl)). apply IH. intros y m' Hy. apply H. right. exact Hy. Qed.

(* the records of one instance, with the TXT strings `its` that a receiver sees *)
Definition instance_records (i : instance) (full : list label) (ttl : N) (its : list (N * list byte)) : list rr :=
  map (ip_rr full ttl) (i_ips i) ++ map (port_rr full ttl) (i_ports i) ++ [txt_rr full ttl its].

Theorem from_instance_records : forall i service inst full ttl its,
  full = inst :: service -> inst <> [] ->
  attributes (map (@snd N (list byte)) its) = i_attrs i -> NoDup (map fst (i_attrs i)) ->
  from_records service (instance_records i full ttl its)
  = Some {| i_name := inst; i_ips := i_ips i; i_ports := i_ports i; i_attrs := rev (i_attrs i) |}.
Proof.
  intros i service inst full ttl its Hfull Hinst Hattr Hnd. rewrite from_records_unfold. unfold instance_records.
  assert (Hw : without full service = Some [inst]).
  { apply without_spec. split; [discriminate|]. rewrite Hfull. reflexivity. }
  rewrite (name_fold_first service full [inst]); [| |intros r Hr|exact Hw].
  2:{ destruct (i_ips i); [destruct (i_ports i)|]; discriminate. }
  2:{ rewrite !in_app_iff in Hr. destruct Hr as [Hr|[Hr|[<-|[]]]]; [| |reflexivity];
      apply in_map_iff in Hr; destruct Hr as (x & <- & _); reflexivity. }
  cbn [join_dots]. f_equal. f_equal.
  - rewrite !map_app, !concat_app. rewrite (concat_map_single ip_of (fun r => match rdata_of r with RD M_AAAA [V_int a] => (true, a) | RD M_A [V_int a] => (false, a) | _ => (false, 0) end)).
    + rewrite (concat_map_nil ip_of (map (port_rr full ttl) (i_ports i))).
      * cbn. rewrite app_nil_r. rewrite map_map. rewrite <- (map_id (i_ips i)) at 2. apply map_ext. intros [[|] a]; reflexivity.
      * intros x Hx. apply in_map_iff in Hx. destruct Hx as (y & <- & _). reflexivity.
    + intros x Hx. apply in_map_iff in Hx. destruct Hx as ([[|] a] & <- & _); reflexivity.
  - rewrite !map_app, !concat_app. rewrite (concat_map_nil port_of (map (ip_rr full ttl) (i_ips i))).
    + rewrite (concat_map_single port_of (fun r => match rdata_of r with RD M_SRV [_; _; V_int p; _] => p | _ => 0 end)).
      * cbn. rewrite app_nil_r. rewrite map_map. rewrite <- (map_id (i_ports i)) at 2. apply map_ext. intros a; reflexivity.
      * intros x Hx. apply in_map_iff in Hx. destruct Hx as (y & <- & _). reflexivity.
    + intros x Hx. apply in_map_iff in Hx. destruct Hx as ([[|] a] & <- & _); reflexivity.
  - rewrite !fold_left_app.
    rewrite (attrs_fold_skip (map (ip_rr full ttl) (i_ips i)) []).
    2:{ intros r m' Hr. apply in_map_iff in Hr. destruct Hr as ([[|] a] & <- & _); reflexivity. }
    rewrite (attrs_fold_skip (map (port_rr full ttl) (i_ports i)) []).
    2:{ intros r m' Hr. apply in_map_iff in Hr. destruct Hr as (a & <- & _); reflexivity. }
    cbn [fold_left attrs_step txt_rr rdata_of]. rewrite Hattr. rewrite attr_put_all; [apply app_nil_r|exact Hnd].
Qed.

(* ---------- across the wire ---------- *)
(* a TXT record without strings is written as one empty string, and that is what the receiver parses *)
Definition norm_items (its : list (N * list byte)) : list (N * list byte) := match its with [] => [(0, [])] | _ => its end.
Definition norm_rr (r : rr) : rr :=
  match rdata_of r with
  | RD M_TXT [V_items []] => {| rname := rname r; rclass := rclass r; rttl := rttl r; rcf := rcf r; rdata_of := RD M_TXT [V_items [(0, [])]] |}
  | _ => r end.
Lemma wc_rr_norm r t off : wc_rr (norm_rr r) t off = wc_rr r t off.
Proof.
  unfold norm_rr. destruct (rdata_of r) as [m vs|c bs|ty] eqn:E; try reflexivity.
  destruct m; try reflexivity. destruct vs as [|v [|v2 vr]]; try reflexivity; destruct v as [x|ls|bs|[|it its]]; try reflexivity.
  unfold wc_rr, enc_rr_common. cbn [rname rdata_of rclass rttl rcf]. rewrite E. destruct (wc_name t off (rname r)) as [b t1]. reflexivity.
Qed.
Lemma wc_list_norm : forall l t off, wc_list wc_rr (map norm_rr l) t off = wc_list wc_rr l t off.
Proof.
  induction l as [|x r IH]; intros t off; [reflexivity|]. cbn [map wc_list]. rewrite wc_rr_norm.
  destruct (wc_rr x t off) as [b1 t1]. rewrite IH. reflexivity.
Qed.

Definition announcement (h : header) (recs : list rr) : packet :=
  {| hdr := h; popt := None; qs := []; ans := recs; nss := []; adds := [] |}.
Lemma encc_announcement_norm h recs : encc_packet (announcement h (map norm_rr recs)) = encc_packet (announcement h recs).
Proof.
  unfold encc_packet, enc_packet_header, announcement. cbn [hdr popt qs ans nss adds wc_list opt_rr].
  rewrite wc_list_norm. unfold len. rewrite map_length. reflexivity.
Qed.
Lemma instance_records_norm i full ttl its : map norm_rr (instance_records i full ttl its) = instance_records i full ttl (norm_items its).
Proof.
  unfold instance_records. rewrite !map_app, !map_map.
  rewrite (map_ext (fun x => norm_rr (ip_rr full ttl x)) (ip_rr full ttl)) by (intros [[|] a]; reflexivity).
  rewrite (map_ext (fun x => norm_rr (port_rr full ttl x)) (port_rr full ttl)) by (intros a; reflexivity).
  destruct its; reflexivity.
Qed.

(* what an instance description must satisfy to be advertised within DNS limits *)
Record instance_ok (i : instance) (full : list label) (ttl : N) : Prop := {
  iok_ips : Forall (fun ip : bool * N => snd ip < (if fst ip then 256 ^ 16 else 256 ^ 4)) (i_ips i);
  iok_ports : Forall (fun p => p < 65536) (i_ports i);
  iok_keys : NoDup (map fst (i_attrs i));
  iok_attrs : Forall wf_attr (i_attrs i);
  iok_name : wf_name full;
  iok_ttl : ttl < 4294967296;
  iok_count : len (i_ips i) + len (i_ports i) + 1 < 65536;
  iok_txt : len (enc_items I_cstr (norm_items (map (fun s => (0, s)) (map txt_entry (i_attrs i))))) <= 65535 }.

Lemma txt_items_wf order : Forall (fun a => len (txt_entry a) <= 255) order ->
  wf_items I_cstr (norm_items (map (fun s => (0, s)) (map txt_entry order))).
Proof.
  intros H. destruct order as [|a r].
  - split; [constructor; [split; vm_compute; reflexivity|constructor]|]. split; [intros E; discriminate|intros _; discriminate].
  - cbn [map norm_items]. split; [|split; [intros E; discriminate|intros _; discriminate]].
    rewrite map_map. apply Forall_forall. intros it Hit.
    change ((0, txt_entry a) :: map (fun x => (0, txt_entry x)) r) with (map (fun x => (0, txt_entry x)) (a :: r)) in Hit.
    apply in_map_iff in Hit. destruct Hit as (x & <- & Hx). rewrite Forall_forall in H. specialize (H x Hx).
    unfold wf_item. cbn [fst snd tagw lenw]. change (256 ^ N.of_nat 0) with 1. change (256 ^ N.of_nat 1) with 256. lia.
Qed.

Lemma instance_records_wf i full ttl : instance_ok i full ttl -> Forall (fun a => len (txt_entry a) <= 255) (i_attrs i) ->
  Forall wf_rr (instance_records i full ttl (norm_items (map (fun s => (0, s)) (map txt_entry (i_attrs i))))).
Proof.
  intros [Hips Hports _ _ Hname Httl _ Htxt] Hent. unfold instance_records. rewrite !Forall_app. split; [|split].
  - apply Forall_forall. intros r Hr. apply in_map_iff in Hr. destruct Hr as ([[|] a] & <- & Ha);
      rewrite Forall_forall in Hips; specialize (Hips _ Ha); cbn [fst snd] in Hips;
      (split; [exact Hname|]; split; [exact Httl|]); cbn [ip_rr rdata_of fst snd wf_rdata].
    + split; [split; [cbn [layout_for layout_of wf_vals wf_fld]; split; [exact Hips|exact I]|exact I]|]. cbn [layout_for layout_of enc_layout enc_fld].
      rewrite app_nil_r, len_be_enc. cbn. lia.
    + split; [split; [cbn [layout_for layout_of wf_vals wf_fld]; split; [exact Hips|exact I]|exact I]|]. cbn [layout_for layout_of enc_layout enc_fld].
      rewrite app_nil_r, len_be_enc. cbn. lia.
  - apply Forall_forall. intros r Hr. apply in_map_iff in Hr. destruct Hr as (a & <- & Ha).
    rewrite Forall_forall in Hports; specialize (Hports _ Ha). split; [exact Hname|]. split; [exact Httl|].
    cbn [port_rr rdata_of wf_rdata]. destruct Hname as [Hl Hs].
    split; [split; [cbn [layout_for layout_of wf_vals wf_fld]; unfold nmu; cbn [wf_fld]; repeat split; try (cbn; lia); assumption|exact I]|].
    cbn [layout_for layout_of enc_layout enc_fld]. unfold nmu. cbn [enc_fld]. rewrite app_nil_r, !len_app, !len_be_enc, len_write_name, name_len_labels. cbn. lia.
  - constructor; [|constructor]. split; [exact Hname|]. split; [exact Httl|]. cbn [txt_rr rdata_of wf_rdata].
    split; [split; [cbn [layout_for layout_of wf_vals wf_fld]; split; [apply txt_items_wf; exact Hent|exact I]|exact I]|].
    cbn [layout_for layout_of enc_layout enc_fld]. rewrite app_nil_r. exact Htxt.
Qed.

Lemma attributes_norm order : NoDup (map fst order) -> Forall wf_attr order ->
  attributes (map (@snd N (list byte)) (norm_items (map (fun s => (0, s)) (map txt_entry order)))) = order.
Proof.
  intros Hnd Hwf. destruct order as [|a r]; [reflexivity|].
  change (norm_items (map (fun s => (0, s)) (map txt_entry (a :: r)))) with (map (fun s : list byte => (0, s)) (map txt_entry (a :: r))).
  rewrite (map_map (fun s : list byte => (0, s)) (@snd N (list byte))). cbn [snd]. rewrite map_id.
  apply attrs_roundtrip; assumption.
Qed.

(* what the discoverer parses out of the compressed announcement *)
Lemma announcement_wire : forall i service inst ttl h recs,
  let full := inst :: service in
  instance_ok i full ttl ->
  h_id h < 65536 -> named_opcode (h_opcode h) -> named_rcode (h_rcode h) -> rcode_disc (h_rcode h) < 16 -> (exists k, k < 128 /\ h_flags h = flagset k) ->
  into_records i full ttl = Ok recs ->
  let its := norm_items (map (fun s => (0, s)) (map txt_entry (i_attrs i))) in
  write_packet_compressed (announcement h recs) = Ok (encc_packet (announcement h (instance_records i full ttl its))) /\
  parse_packet (encc_packet (announcement h (instance_records i full ttl its))) = Ok (announcement h (instance_records i full ttl its)) /\
  attributes (map (@snd N (list byte)) its) = i_attrs i.
Proof.
  intros i service inst ttl h recs full Hok Hid Hop Hrc Hrc16 Hfl Hrec its'.
  destruct (into_records_shape i full ttl recs Hrec) as [-> Hent].
  set (its := map (fun s => (0, s)) (map txt_entry (i_attrs i))).
  fold (instance_records i full ttl its). unfold its'. fold its.
  set (p' := announcement h (instance_records i full ttl (norm_items its))).
  assert (Hwf : wf_packet p').
  { constructor; cbn [p' announcement hdr popt qs ans nss adds].
    - exact Hid.
    - exact Hop.
    - exact Hrc.
    - exact Hfl.
    - intros _. exact Hrc16.
    - intros o Ho. discriminate.
    - constructor.
    - apply instance_records_wf; assumption.
    - constructor.
    - constructor.
    - unfold opt_count, p', announcement. cbn [popt]. change (len (@nil question)) with 0. change (len (@nil rr)) with 0.
      unfold instance_records. rewrite !len_app. unfold len in *. rewrite !map_length. destruct Hok as [_ _ _ _ _ _ Hc _]. unfold len in Hc. cbn [length]. lia. }
  split; [|split; [apply (packet_roundtrip_compressed _ Hwf)|apply attributes_norm; apply Hok]].
  unfold write_packet_compressed.
  assert (Hwr : packet_writable (announcement h (instance_records i full ttl its)) = true).
  { unfold packet_writable, announcement. cbn [ans nss adds]. rewrite !app_nil_r. apply forallb_forall. intros r Hr.
    unfold instance_records in Hr. rewrite !in_app_iff in Hr. destruct Hr as [Hr|[Hr|[<-|[]]]]; [| |reflexivity];
      apply in_map_iff in Hr; destruct Hr as (x & <- & _); [destruct x as [[|] a]|]; reflexivity. }
  rewrite Hwr. f_equal. unfold p'. rewrite <- instance_records_norm. symmetry. apply encc_announcement_norm.
Qed.

(* C15, one announcement: the instance's records are sent in a compressed packet; what the discoverer builds from the
   records it keeps is the advertised instance *)
Theorem advertised_instance_discovered : forall i service inst me ttl h recs,
  let full := inst :: service in
  instance_ok i full ttl -> full <> me ->
  h_id h < 65536 -> named_opcode (h_opcode h) -> named_rcode (h_rcode h) -> rcode_disc (h_rcode h) < 16 -> (exists k, k < 128 /\ h_flags h = flagset k) ->
  into_records i full ttl = Ok recs ->
  exists b p', write_packet_compressed (announcement h recs) = Ok b /\ parse_packet b = Ok p' /\
    ingest_filter service me p' = ans p' /\
    from_records service (ingest_filter service me p')
    = Some {| i_name := inst; i_ips := i_ips i; i_ports := i_ports i; i_attrs := rev (i_attrs i) |}.
Proof.
  intros i service inst me ttl h recs full Hok Hme Hid Hop Hrc Hrc16 Hfl Hrec.
  destruct (into_records_shape i full ttl recs Hrec) as [-> Hent].
  set (its := map (fun s => (0, s)) (map txt_entry (i_attrs i))).
  fold (instance_records i full ttl its).
  set (p' := announcement h (instance_records i full ttl (norm_items its))).
  assert (Hwf : wf_packet p').
  { constructor; cbn [p' announcement hdr popt qs ans nss adds].
    - exact Hid.
    - exact Hop.
    - exact Hrc.
    - exact Hfl.
    - intros _. exact Hrc16.
    - intros o Ho. discriminate.
    - constructor.
    - apply instance_records_wf; assumption.
    - constructor.
    - constructor.
    - unfold opt_count, p', announcement. cbn [popt]. change (len (@nil question)) with 0. change (len (@nil rr)) with 0.
      unfold instance_records. rewrite !len_app. unfold len in *. rewrite !map_length. destruct Hok as [_ _ _ _ _ _ Hc _]. unfold len in Hc. cbn [length]. lia. }
  exists (encc_packet p'), p'. split; [|split; [apply (packet_roundtrip_compressed _ Hwf)|]].
  - unfold write_packet_compressed.
    assert (Hwr : packet_writable (announcement h (instance_records i full ttl its)) = true).
    { unfold packet_writable, announcement. cbn [ans nss adds]. rewrite !app_nil_r. apply forallb_forall. intros r Hr.
      unfold instance_records in Hr. rewrite !in_app_iff in Hr. destruct Hr as [Hr|[Hr|[<-|[]]]]; [| |reflexivity];
        apply in_map_iff in Hr; destruct Hr as (x & <- & _); [destruct x as [[|] a]|]; reflexivity. }
    rewrite Hwr. f_equal. unfold p'. rewrite <- instance_records_norm. symmetry. apply encc_announcement_norm.
  - assert (Hall : ingest_filter service me p' = ans p').
    { unfold ingest_filter. cbn [p' announcement ans adds]. rewrite app_nil_r. apply filter_all_true. intros r Hr.
      assert (Hn : rname r = full).
      { unfold instance_records in Hr. rewrite !in_app_iff in Hr. destruct Hr as [Hr|[Hr|[<-|[]]]]; [| |reflexivity];
          apply in_map_iff in Hr; destruct Hr as (x & <- & _); reflexivity. }
      rewrite Hn. apply andb_true_iff. split.
      - apply negb_true_iff. destruct (labels_eqb full me) eqn:E; [|reflexivity]. apply labels_eqb_eq in E. contradiction.
      - apply is_subdomain_of_spec. exists [inst]. split; [discriminate|reflexivity]. }
    split; [exact Hall|]. rewrite Hall. cbn [p' announcement ans].
    apply from_instance_records; [reflexivity| | |apply Hok].
    + destruct Hok as [_ _ _ _ [Hl _] _ _ _]. pose proof (Forall_inv Hl) as H1. cbn beta in H1. intros ->. cbn in H1. lia.
    + apply attributes_norm; apply Hok.
Qed.

(* what is never kept: the discoverer's own records, records owned by the service name itself, anything not strictly below it *)
Corollary never_ingested : forall service me p r,
  (rname r = me \/ rname r = service \/ ~ (exists pre, pre <> [] /\ rname r = pre ++ service)) -> ~ In r (ingest_filter service me p).
Proof.
  intros service me p r H Hin. apply ingest_filter_spec in Hin. destruct Hin as (_ & Hne & pre & Hp & E).
  destruct H as [H|[H|H]]; [contradiction| |apply H; eauto].
  rewrite H in E. apply (f_equal (@length label)) in E. rewrite app_length in E. destruct pre; [contradiction|]. cbn in E. lia.
Qed.

(* non-vacuity: a concrete instance with two addresses, a port and three kinds of attribute value meets instance_ok *)
Definition sample_instance : instance :=
  {| i_name := map bN [112; 49]; i_ips := [(false, 167772161); (true, 338288524927261089654018896841347694593)]; i_ports := [8080];
     i_attrs := [(map bN [107], Some (map bN [118])); (map bN [101], Some []); (map bN [110], None)] |}.
Definition sample_service : list label := [map bN [95; 115]; map bN [95; 116; 99; 112]; map bN [108; 111; 99; 97; 108]].
Example sample_instance_ok : instance_ok sample_instance (map bN [112; 49] :: sample_service) 120.
Proof.
  constructor.
  - repeat constructor.
  - repeat constructor.
  - cbn. repeat constructor; cbn; intros H; repeat (destruct H as [H|H]; [discriminate|]); exact H.
  - repeat constructor; cbn; try discriminate; try tauto; intros H; repeat (destruct H as [H|H]; [discriminate|]); exact H.
  - split; [repeat (first [apply Forall_nil | apply Forall_cons; [cbv; split; discriminate|]])|cbv; discriminate].
  - reflexivity.
  - reflexivity.
  - cbv. discriminate.
Qed.
