(* C02: parse_packet (enc_packet p) = Ok p for every well-formed packet *)
Require Import SD.Base SD.BaseProofs SD.Sweep SD.Codes SD.CodesProofs SD.Header SD.HeaderProofs SD.Name SD.NameProofs
  SD.RData SD.Spec SD.RDataProofs SD.Packet SD.PacketProofs.
From Coq Require Import ZArith ZifyN ZifyNat ZifyBool.
Ltac Zify.zify_post_hook ::= Z.div_mod_to_equations.

(* ---------- well-formed values (what the public constructors can build within DNS size limits) ---------- *)
Definition wf_name (ls : list label) : Prop := wf_labels ls /\ labels_len ls <= 254.

Definition wf_rdata (r : rdata) : Prop :=
  match r with
  | RD m vs => wf_typed m vs /\ len (enc_layout (layout_for m vs) vs) <= 65535
  | RD_null c bs => c < 65536 /\ (c = 10 \/ mnem_of_code c = None) /\ 1 <= len bs <= 65535
  | RD_empty t => wf_ty t = true /\ t <> TY M_OPT
  end.
Definition wf_rr (r : rr) : Prop := wf_name (rname r) /\ rttl r < 4294967296 /\ wf_rdata (rdata_of r).
Definition wf_question (q : question) : Prop :=
  wf_name (qname q) /\ (forall u, q_type q <> QT (TUnknown u)).

(* ---------- small facts ---------- *)
Lemma firstn_app_exact {A} (a b : list A) n : n = len a -> firstn (N.to_nat n) (a ++ b) = a.
Proof. intros ->. unfold len. rewrite Nat2N.id. rewrite firstn_app, firstn_all, Nat.sub_diag. cbn. apply app_nil_r. Qed.

Lemma be_at_mid a n v b q : q = len a -> be_at (a ++ be_enc n v ++ b) q n = Some (v mod 256 ^ N.of_nat n).
Proof. intros ->. apply be_at_here. Qed.

Lemma code_of_type_bound t : wf_ty t = true -> code_of_type t < 65536.
Proof. destruct t as [m|c]; cbn; [intros _; apply code_of_mnem_bound|intros H; lia]. Qed.

Lemma type_of_rdata_wf r : wf_rdata r -> wf_ty (type_of_rdata r) = true /\ type_of_rdata r <> TY M_OPT.
Proof.
  destruct r as [m vs|c bs|t]; cbn [wf_rdata type_of_rdata].
  - intros [[_ Hm] _]. split; [reflexivity|]. intros E. injection E as ->. exact Hm.
  - intros (Hc & Hk & _). split; [apply type_of_code_wf; exact Hc|].
    unfold type_of_code. destruct Hk as [-> | ->]; [vm_compute|]; discriminate.
  - tauto.
Qed.

Lemma ty_eqb_false a b : a <> b -> ty_eqb a b = false.
Proof. intros H. destruct (ty_eqb a b) eqn:E; [|reflexivity]. apply ty_eqb_eq in E. contradiction. Qed.

(* a typed value never encodes to the empty string *)
Lemma wf_name_enc_nonempty ls : 1 <= len (write_name ls).
Proof. destruct ls; cbn [write_name]; rewrite len_cons; lia. Qed.
Definition fld_min1 (f : fld) : bool :=
  match f with F_be O => false | F_be _ => true | F_ver0 | F_name _ | F_cstr => true | F_items I_cstr => true | _ => false end.
Lemma enc_fld_min1 f v : fld_min1 f = true -> wf_fld f v -> 1 <= len (enc_fld f v).
Proof.
  intros Hm Hf. destruct f as [[|n]| |c| | |k]; try discriminate; destruct v as [x|ls|bs|its]; cbn [wf_fld] in Hf; try contradiction;
    cbn [enc_fld].
  - rewrite len_be_enc. lia.
  - rewrite len_be_enc. lia.
  - apply wf_name_enc_nonempty.
  - rewrite len_cons. lia.
  - destruct k; try discriminate. rewrite (enc_items_concat _ _ Hf). destruct Hf as (_ & _ & Hn).
    destruct its as [|it r]; [exfalso; apply Hn; reflexivity|]. cbn [map List.concat]. rewrite len_app, len_enc_item. cbn. lia.
Qed.
Lemma typed_first_min1 m vs : wf_typed m vs -> exists f r, layout_for m vs = f :: r /\ fld_min1 f = true.
Proof.
  intros [Hw Hm]. destruct m; try contradiction; try (cbn; eexists; eexists; split; reflexivity).
  destruct Hm as (pr & gw & al & rest & -> & Hgw). cbn [layout_for].
  destruct gw as [|[[|[]|]|[|[]|]|]]; try lia; cbn; eexists; eexists; split; reflexivity.
Qed.
Lemma typed_enc_nonempty m vs : wf_typed m vs -> 1 <= len (enc_layout (layout_for m vs) vs).
Proof.
  intros H. destruct (typed_first_min1 m vs H) as (f & r & E & Hm). destruct H as [Hw _]. rewrite E in *.
  destruct vs as [|v vr]; cbn [wf_vals] in Hw; [contradiction|]. destruct Hw as [Hf _].
  cbn [enc_layout]. rewrite len_app. pose proof (enc_fld_min1 f v Hm Hf). lia.
Qed.

(* ---------- RData::parse on a written record body ---------- *)
Definition rr_fixed (tc cls ttl rdlen : N) : list byte := be_enc 2 tc ++ be_enc 2 cls ++ be_enc 4 ttl ++ be_enc 2 rdlen.
Lemma len_rr_fixed tc cls ttl rdlen : len (rr_fixed tc cls ttl rdlen) = 10.
Proof. unfold rr_fixed. rewrite !len_app, !len_be_enc. reflexivity. Qed.

Lemma rr_fixed_reads pre tc cls ttl rdlen post :
  let d := pre ++ rr_fixed tc cls ttl rdlen ++ post in
  be_at d (len pre) 2 = Some (tc mod 65536) /\ be_at d (len pre + 2) 2 = Some (cls mod 65536) /\
  be_at d (len pre + 4) 4 = Some (ttl mod 4294967296) /\ be_at d (len pre + 8) 2 = Some (rdlen mod 65536).
Proof.
  intros d. subst d. unfold rr_fixed. rewrite <- !app_assoc. repeat split.
  - apply be_at_here.
  - rewrite (be_at_skip pre _ 2) by reflexivity. rewrite (be_at_skip _ _ 0) by (rewrite len_be_enc; reflexivity).
    apply (be_at_here [] 2 cls).
  - rewrite (be_at_skip pre _ 4) by reflexivity. rewrite (be_at_skip _ _ 2) by (rewrite len_be_enc; reflexivity).
    rewrite (be_at_skip _ _ 0) by (rewrite len_be_enc; reflexivity). apply (be_at_here [] 4 ttl).
  - rewrite (be_at_skip pre _ 8) by reflexivity. rewrite (be_at_skip _ _ 6) by (rewrite len_be_enc; reflexivity).
    rewrite (be_at_skip _ _ 4) by (rewrite len_be_enc; reflexivity).
    rewrite (be_at_skip _ _ 0) by (rewrite len_be_enc; reflexivity). apply (be_at_here [] 2 rdlen).
Qed.

Lemma len_rdata_enc r : wf_rdata r -> len_rdata r = len (enc_rdata r) /\ len (enc_rdata r) <= 65535 /\
  (len (enc_rdata r) = 0 <-> exists t, r = RD_empty t).
Proof.
  destruct r as [m vs|c bs|t]; cbn [wf_rdata].
  - intros [Hw Hl]. pose proof (typed_enc_nonempty m vs Hw) as Hn. pose proof (typed_len m vs Hw) as Hlen.
    assert (Hm : m <> M_OPT) by (destruct Hw as [_ Hm]; intros ->; exact Hm).
    assert (E : enc_rdata (RD m vs) = enc_layout (layout_for m vs) vs) by (destruct m; try reflexivity; contradiction).
    assert (E2 : len_rdata (RD m vs) = len_layout (layout_for m vs) vs) by (destruct m; try reflexivity; contradiction).
    rewrite E, E2. split; [lia|]. split; [lia|]. split; [lia|]. intros [t Ht]. discriminate.
  - intros (_ & _ & Hl). cbn [len_rdata enc_rdata]. split; [apply N.mod_small; lia|]. split; [lia|].
    split; [lia|]. intros [t Ht]. discriminate.
  - intros _. cbn. split; [reflexivity|]. split; [lia|]. split; eauto.
Qed.

Lemma parse_rdata_typed_enc r pre : wf_rdata r -> (forall t, r <> RD_empty t) ->
  parse_rdata_typed (pre ++ enc_rdata r) (len pre) (type_of_rdata r) = Ok (r, len pre + len (enc_rdata r)).
Proof.
  intros Hw Hne. destruct r as [m vs|c bs|t]; cbn [wf_rdata] in Hw; [| |exfalso; eapply Hne; reflexivity].
  - destruct Hw as [Hw _]. cbn [type_of_rdata].
    assert (Hm : m <> M_OPT /\ m <> M_NULL) by (destruct Hw as [_ Hm]; split; intros ->; exact Hm).
    assert (E : enc_rdata (RD m vs) = enc_layout (layout_for m vs) vs) by (destruct m; try reflexivity; tauto).
    rewrite E. pose proof (typed_roundtrip m vs pre Hw) as R.
    destruct m; try (cbn [parse_rdata_typed]; rewrite R; reflexivity); tauto.
  - destruct Hw as (Hc & Hk & Hl). cbn [type_of_rdata enc_rdata].
    assert (R : parse_layout [F_rest] (pre ++ bs) (len pre) = Ok ([V_bytes bs], len pre + len bs)).
    { pose proof (layout_roundtrip [F_rest] [V_bytes bs] pre [] eq_refl (conj I I) (fun _ => eq_refl)) as R.
      cbn [enc_layout enc_fld] in R. rewrite !app_nil_r in R. exact R. }
    destruct Hk as [->|Hk].
    + change (type_of_code 10) with (TY M_NULL). cbn [parse_rdata_typed]. rewrite R. reflexivity.
    + unfold type_of_code. rewrite Hk. cbn [parse_rdata_typed]. rewrite R. reflexivity.
Qed.

Lemma parse_rdata_enc r pre cls ttl post : wf_rdata r ->
  parse_rdata (pre ++ rr_fixed (code_of_type (type_of_rdata r)) cls ttl (len_rdata r) ++ enc_rdata r ++ post) (len pre)
  = Ok (r, len pre + 10 + len (enc_rdata r)).
Proof.
  intros Hw. destruct (len_rdata_enc r Hw) as (Hlen & Hmax & Hzero). destruct (type_of_rdata_wf r Hw) as [Hty Hno].
  set (tc := code_of_type (type_of_rdata r)). set (rdlen := len_rdata r).
  unfold parse_rdata.
  assert (Hd : len (pre ++ rr_fixed tc cls ttl rdlen ++ enc_rdata r ++ post) = len pre + 10 + len (enc_rdata r) + len post)
    by (rewrite !len_app, len_rr_fixed; lia).
  rewrite Hd. destruct (len pre + 10 + len (enc_rdata r) + len post <? len pre + 10) eqn:E; [lia|].
  destruct (rr_fixed_reads pre tc cls ttl rdlen (enc_rdata r ++ post)) as (R0 & _ & _ & R8). rewrite R0, R8.
  pose proof (code_of_type_bound _ Hty) as Htc. fold tc in Htc.
  rewrite (N.mod_small tc) by lia. rewrite (N.mod_small rdlen) by (unfold rdlen; lia).
  unfold tc. rewrite (code_type_roundtrip _ Hty). rewrite (ty_eqb_false _ _ Hno).
  destruct (rdlen =? 0) eqn:E0.
  - assert (Hz : len (enc_rdata r) = 0) by (unfold rdlen in E0; lia). apply Hzero in Hz. destruct Hz as [t ->].
    cbn [type_of_rdata enc_rdata]. f_equal. f_equal. unfold len; cbn; lia.
  - unfold rdlen. rewrite Hlen. destruct (len pre + 10 + len (enc_rdata r) + len post <? len pre + 10 + len (enc_rdata r)) eqn:E2; [lia|].
    replace (pre ++ rr_fixed (code_of_type (type_of_rdata r)) cls ttl (len (enc_rdata r)) ++ enc_rdata r ++ post)
      with (((pre ++ rr_fixed (code_of_type (type_of_rdata r)) cls ttl (len (enc_rdata r))) ++ enc_rdata r) ++ post)
      by (rewrite <- !app_assoc; reflexivity).
    rewrite firstn_app_exact by (rewrite !len_app, len_rr_fixed; lia).
    replace (len pre + 10) with (len (pre ++ rr_fixed (code_of_type (type_of_rdata r)) cls ttl (len (enc_rdata r))))
      by (rewrite len_app, len_rr_fixed; reflexivity).
    rewrite parse_rdata_typed_enc; [|exact Hw|].
    + first [reflexivity | f_equal; f_equal; rewrite ?len_app, ?len_rr_fixed; lia].
    + intros t ->. unfold rdlen in E0. cbn in E0. lia.
Qed.

(* ---------- ResourceRecord::parse on a written record ---------- *)
Definition class_word (c : class) (cf : bool) : N := if cf then N.lor (code_of_class c) CACHE_FLUSH else code_of_class c.
Lemma class_word_facts c cf :
  class_word c cf < 65536 /\ class_of_code (N.land (class_word c cf) 32767) = Ok c /\
  (N.land (class_word c cf) CACHE_FLUSH =? CACHE_FLUSH) = cf.
Proof. destruct c, cf; vm_compute; repeat split; intros; discriminate. Qed.

Lemma enc_rr_shape r : (forall vs, rdata_of r <> RD M_OPT vs) ->
  enc_rr r = write_name (rname r) ++ rr_fixed (code_of_type (type_of_rdata (rdata_of r))) (class_word (rclass r) (rcf r)) (rttl r)
                                               (len_rdata (rdata_of r)) ++ enc_rdata (rdata_of r).
Proof.
  intros Hno. unfold enc_rr, enc_rr_common, rr_fixed, class_word. rewrite <- !app_assoc.
  destruct (rdata_of r) as [m vs|c bs|t] eqn:E; try reflexivity.
  destruct m; try reflexivity. exfalso. eapply Hno. reflexivity.
Qed.

Lemma wf_rdata_not_opt r : wf_rdata r -> forall vs, r <> RD M_OPT vs.
Proof. intros H vs ->. cbn in H. destruct H as [[_ F] _]. exact F. Qed.

Theorem parse_rr_enc r pre post : wf_rr r ->
  parse_rr (pre ++ enc_rr r ++ post) (len pre) = Ok (r, len pre + len (enc_rr r)).
Proof.
  intros ([Hwn Hln] & Httl & Hrd). rewrite (enc_rr_shape r (wf_rdata_not_opt _ Hrd)).
  set (tc := code_of_type (type_of_rdata (rdata_of r))). set (cw := class_word (rclass r) (rcf r)).
  set (rdlen := len_rdata (rdata_of r)). set (wn := write_name (rname r)).
  unfold parse_rr. rewrite <- !app_assoc. fold wn.
  rewrite (parse_name_write (rname r) pre _ Hwn Hln). fold wn.
  set (p1 := len pre + len wn).
  set (tail := enc_rdata (rdata_of r) ++ post).
  assert (Hd : len (pre ++ wn ++ rr_fixed tc cw (rttl r) rdlen ++ tail) = p1 + 10 + len tail)
    by (rewrite !len_app, len_rr_fixed; unfold p1; lia).
  rewrite Hd. destruct (p1 + 10 + len tail <? p1 + 8) eqn:E; [lia|].
  replace (pre ++ wn ++ rr_fixed tc cw (rttl r) rdlen ++ tail) with ((pre ++ wn) ++ rr_fixed tc cw (rttl r) rdlen ++ tail)
    by (rewrite <- !app_assoc; reflexivity).
  assert (Hp1 : p1 = len (pre ++ wn)) by (rewrite len_app; reflexivity). rewrite Hp1.
  destruct (rr_fixed_reads (pre ++ wn) tc cw (rttl r) rdlen tail) as (_ & R2 & R4 & _). rewrite R2, R4.
  destruct (class_word_facts (rclass r) (rcf r)) as (Hcw & Hcls & Hcf). fold cw in Hcw, Hcls, Hcf.
  rewrite (N.mod_small cw) by lia. rewrite (N.mod_small (rttl r)) by lia.
  unfold tc, rdlen, tail. rewrite (parse_rdata_enc (rdata_of r) (pre ++ wn) cw (rttl r) post Hrd).
  destruct (type_of_rdata_wf _ Hrd) as [_ Hno]. rewrite (ty_eqb_false _ _ Hno). rewrite Hcls, Hcf.
  f_equal. f_equal.
  - destruct r; reflexivity.
  - rewrite !len_app, len_rr_fixed. lia.
Qed.

(* ---------- Question::parse on a written question ---------- *)
Definition qclass_word (c : qclass) (u : bool) : N := if u then N.lor (code_of_qclass c) 32768 else code_of_qclass c.
Lemma qclass_word_facts c u :
  qclass_word c u < 65536 /\ qclass_of_code (N.land (qclass_word c u) 32767) = Ok c /\
  (N.land (qclass_word c u) 32768 =? 32768) = u.
Proof. destruct c as [k|]; [destruct k|]; destruct u; vm_compute; repeat split; intros; discriminate. Qed.

Lemma code_of_qtype_bound q : (forall u, q <> QT (TUnknown u)) -> code_of_qtype q < 65536.
Proof.
  intros H. destruct q as [t| | | | |]; cbn; try lia. destruct t as [m|u]; [apply code_of_mnem_bound|].
  exfalso. eapply H. reflexivity.
Qed.

Theorem parse_question_enc q pre post : wf_question q ->
  parse_question (pre ++ enc_question q ++ post) (len pre) = Ok (q, len pre + len (enc_question q)).
Proof.
  intros ([Hwn Hln] & Hqt). unfold enc_question, enc_question_common. fold (qclass_word (q_class q) (unicast q)).
  set (wn := write_name (qname q)). set (cw := qclass_word (q_class q) (unicast q)). set (tc := code_of_qtype (q_type q)).
  unfold parse_question. rewrite <- !app_assoc. fold wn. rewrite (parse_name_write (qname q) pre _ Hwn Hln). fold wn.
  set (p1 := len pre + len wn).
  assert (Hd : len (pre ++ wn ++ be_enc 2 tc ++ be_enc 2 cw ++ post) = p1 + 4 + len post)
    by (rewrite !len_app, !len_be_enc; unfold p1; lia).
  rewrite Hd. destruct (p1 + 4 + len post <? p1 + 4) eqn:E; [lia|].
  replace (pre ++ wn ++ be_enc 2 tc ++ be_enc 2 cw ++ post) with ((pre ++ wn) ++ be_enc 2 tc ++ be_enc 2 cw ++ post)
    by (rewrite <- !app_assoc; reflexivity).
  assert (Hp1 : p1 = len (pre ++ wn)) by (rewrite len_app; reflexivity). rewrite Hp1.
  rewrite be_at_here.
  rewrite (be_at_skip (pre ++ wn) _ 2) by reflexivity. rewrite (be_at_skip _ _ 0) by (rewrite len_be_enc; reflexivity).
  rewrite (be_at_head 2 cw).
  pose proof (code_of_qtype_bound _ Hqt) as Htc. fold tc in Htc.
  destruct (qclass_word_facts (q_class q) (unicast q)) as (Hcw & Hcls & Hu). fold cw in Hcw, Hcls, Hu.
  rewrite (N.mod_small tc) by (cbn; lia). rewrite (N.mod_small cw) by (cbn; lia).
  unfold tc. rewrite (code_qtype_roundtrip _ Hqt). rewrite Hcls, Hu.
  f_equal. f_equal.
  - destruct q; reflexivity.
  - rewrite !len_app, !len_be_enc. lia.
Qed.

(* ---------- sections ---------- *)
Lemma parse_section_enc {A} (P : list byte -> N -> outcome (A * N)) (E : A -> list byte) (W : A -> Prop) :
  (forall x pre post, W x -> P (pre ++ E x ++ post) (len pre) = Ok (x, len pre + len (E x))) ->
  forall xs pre post, Forall W xs ->
  parse_section P (length xs) (pre ++ List.concat (map E xs) ++ post) (len pre)
  = Ok (xs, len pre + len (List.concat (map E xs))).
Proof.
  intros HP. induction xs as [|x r IH]; intros pre post Hw; cbn [length parse_section map List.concat].
  - f_equal. f_equal. unfold len; cbn; lia.
  - rewrite <- app_assoc. rewrite (HP x pre _ (Forall_inv Hw)).
    replace (pre ++ E x ++ List.concat (map E r) ++ post) with ((pre ++ E x) ++ List.concat (map E r) ++ post)
      by (rewrite <- !app_assoc; reflexivity).
    replace (len pre + len (E x)) with (len (pre ++ E x)) by (rewrite len_app; reflexivity).
    rewrite (IH _ _ (Forall_inv_tail Hw)). f_equal. f_equal. rewrite !len_app. lia.
Qed.

(* ---------- the OPT pseudo-record ---------- *)
Definition ttl_of (rc : rcode) (v : N) : N :=
  N.lor (N.land (N.shiftl (N.shiftr (rcode_disc rc) 4) 24) OPT_RCODE_MASK) (N.shiftl (v mod 256) 16).
Definition low_rcode (rc : rcode) : rcode := rcode_of_code (rcode_disc rc mod 16).
Definition ttl_ok (rc : rcode) (v : N) : bool :=
  let ttl := ttl_of rc v in
  (ttl <? 4294967296) && (N.shiftr (N.land ttl OPT_VERSION_MASK) 16 mod 256 =? v)
  && (rcode_disc (rcode_of_code ((N.lor (N.shiftl (N.shiftr (N.land ttl OPT_RCODE_MASK) 24) 4) (rcode_disc (low_rcode rc))) mod 65536))
      =? rcode_disc rc)
  && (N.shiftr (N.land ttl OPT_RCODE_MASK) 24 =? rcode_disc rc / 16).
Lemma ttl_sweep : forallb (fun rc => forallb (ttl_ok rc) (upto 256)) all_named_rcodes = true.
Proof. vm_compute. reflexivity. Qed.
Lemma ttl_facts rc v : named_rcode rc -> v < 256 ->
  ttl_of rc v < 4294967296 /\ N.shiftr (N.land (ttl_of rc v) OPT_VERSION_MASK) 16 mod 256 = v /\
  rcode_of_code ((N.lor (N.shiftl (N.shiftr (N.land (ttl_of rc v) OPT_RCODE_MASK) 24) 4) (rcode_disc (low_rcode rc))) mod 65536) = rc /\
  N.shiftr (N.land (ttl_of rc v) OPT_RCODE_MASK) 24 = rcode_disc rc / 16.
Proof.
  intros Hrc Hv. pose proof ttl_sweep as E. rewrite forallb_forall in E. specialize (E rc (named_rcode_in rc Hrc)).
  pose proof (sweep _ _ E v Hv) as T. unfold ttl_ok in T. cbv zeta in T.
  apply andb_prop in T; destruct T as [T T4]. apply andb_prop in T; destruct T as [T T3]. apply andb_prop in T; destruct T as [T1 T2].
  repeat split; try lia. apply rcode_disc_inj. lia.
Qed.

Definition wf_opt (o : optv) : Prop :=
  o_udp o < 65536 /\ o_version o < 256 /\ wf_items I_optcode (o_codes o) /\
  len (List.concat (map (enc_item I_optcode) (o_codes o))) <= 65535.

Definition opt_record (o : optv) (h : header) : rr :=
  {| rname := []; rclass := IN; rttl := encode_ttl o h;
     rdata_of := RD M_OPT [V_int (o_udp o); V_int (o_version o); V_items (o_codes o)]; rcf := false |}.

Lemma enc_opt_record o h : wf_opt o ->
  enc_rr (opt_record o h) = [bN 0] ++ rr_fixed 41 (o_udp o) (encode_ttl o h) (len (List.concat (map (enc_item I_optcode) (o_codes o))))
                            ++ List.concat (map (enc_item I_optcode) (o_codes o)).
Proof.
  intros (_ & _ & Hc & _). unfold enc_rr, enc_rr_common, opt_record, rr_fixed. cbn [rname rdata_of rttl write_name type_of_rdata code_of_type].
  cbn [enc_rdata len_rdata opt_codes_of enc_layout enc_fld len_layout len_fld].
  rewrite (enc_items_concat _ _ Hc). rewrite app_nil_r.
  assert (L : len_items I_optcode (o_codes o) + 0 = len (List.concat (map (enc_item I_optcode) (o_codes o)))).
  { rewrite len_concat_items. unfold len_items. lia. }
  rewrite L. rewrite <- !app_assoc. reflexivity.
Qed.

Theorem parse_opt_record o h pre post : wf_opt o -> named_rcode (h_rcode h) ->
  parse_rr (pre ++ enc_rr (opt_record o h) ++ post) (len pre) = Ok (opt_record o h, len pre + len (enc_rr (opt_record o h))).
Proof.
  intros Hw Hrc. rewrite (enc_opt_record o h Hw). destruct Hw as (Hu & Hv & Hc & Hl).
  set (codes := List.concat (map (enc_item I_optcode) (o_codes o))) in *.
  assert (Httl : encode_ttl o h = ttl_of (h_rcode h) (o_version o)) by reflexivity.
  destruct (ttl_facts (h_rcode h) (o_version o) Hrc Hv) as (T1 & T2 & _ & _). rewrite <- Httl in T1, T2.
  set (ttl := encode_ttl o h) in *.
  unfold parse_rr. rewrite <- !app_assoc.
  assert (Hn : parse_name (pre ++ [bN 0] ++ rr_fixed 41 (o_udp o) ttl (len codes) ++ codes ++ post) (len pre) = Ok ([], len pre + 1)).
  { pose proof (parse_name_write [] pre (rr_fixed 41 (o_udp o) ttl (len codes) ++ codes ++ post)) as R. cbn [write_name] in R.
    rewrite R; [reflexivity|constructor|cbn; lia]. }
  rewrite Hn.
  replace (pre ++ [bN 0] ++ rr_fixed 41 (o_udp o) ttl (len codes) ++ codes ++ post)
    with ((pre ++ [bN 0]) ++ rr_fixed 41 (o_udp o) ttl (len codes) ++ codes ++ post) by (rewrite <- !app_assoc; reflexivity).
  assert (Hp1 : len pre + 1 = len (pre ++ [bN 0])) by (rewrite len_app; reflexivity). rewrite Hp1.
  set (pre1 := pre ++ [bN 0]) in *.
  assert (Hd : len (pre1 ++ rr_fixed 41 (o_udp o) ttl (len codes) ++ codes ++ post) = len pre1 + 10 + len codes + len post)
    by (rewrite !len_app, len_rr_fixed; lia).
  rewrite Hd. destruct (len pre1 + 10 + len codes + len post <? len pre1 + 8) eqn:E; [lia|].
  destruct (rr_fixed_reads pre1 41 (o_udp o) ttl (len codes) (codes ++ post)) as (R0 & R2 & R4 & R8). rewrite R2, R4.
  (* RData::parse: the OPT branch *)
  unfold parse_rdata. rewrite Hd. destruct (len pre1 + 10 + len codes + len post <? len pre1 + 10) eqn:E1; [lia|].
  rewrite R0, R8. change (41 mod 65536) with 41. change (type_of_code 41) with (TY M_OPT).
  change (ty_eqb (TY M_OPT) (TY M_OPT)) with true. cbv iota. rewrite (N.mod_small (len codes)) by lia.
  destruct (len pre1 + 10 + len codes + len post <? len pre1 + len codes + 10) eqn:E2; [lia|].
  replace (pre1 ++ rr_fixed 41 (o_udp o) ttl (len codes) ++ codes ++ post)
    with (((pre1 ++ rr_fixed 41 (o_udp o) ttl (len codes)) ++ codes) ++ post) by (rewrite <- !app_assoc; reflexivity).
  rewrite firstn_app_exact by (rewrite !len_app, len_rr_fixed; lia).
  (* OPT::parse on the record cut at its end *)
  unfold parse_opt.
  assert (Hd2 : len ((pre1 ++ rr_fixed 41 (o_udp o) ttl (len codes)) ++ codes) = len pre1 + 10 + len codes)
    by (rewrite !len_app, len_rr_fixed; lia).
  rewrite Hd2. destruct (len pre1 + 10 + len codes <? len pre1 + 10) eqn:E3; [lia|].
  rewrite <- app_assoc.
  destruct (rr_fixed_reads pre1 41 (o_udp o) ttl (len codes) codes) as (_ & Q2 & Q4 & _). rewrite Q2, Q4.
  rewrite (N.mod_small (o_udp o)) by lia. rewrite (N.mod_small ttl) by lia. rewrite T2.
  replace (pre1 ++ rr_fixed 41 (o_udp o) ttl (len codes) ++ codes) with ((pre1 ++ rr_fixed 41 (o_udp o) ttl (len codes)) ++ codes)
    by (rewrite <- !app_assoc; reflexivity).
  replace (len pre1 + 10) with (len (pre1 ++ rr_fixed 41 (o_udp o) ttl (len codes))) by (rewrite len_app, len_rr_fixed; reflexivity).
  destruct Hc as (Hf & Ho & _).
  rewrite (parse_items_enc I_optcode (o_codes o) _ _ None Hf); [|intros F; discriminate|].
  2:{ pose proof (length_concat_ge I_optcode (o_codes o) Hf). rewrite app_length. unfold codes. lia. }
  fold codes. cbn [type_of_rdata]. change (ty_eqb (TY M_OPT) (TY M_OPT)) with true. cbv iota.
  f_equal. f_equal.
  rewrite !len_app, len_rr_fixed. unfold pre1. rewrite !len_app. unfold len. cbn [length]. lia.
Qed.

(* ---------- header ---------- *)
Definition low_header (h : header) : header :=
  {| h_id := h_id h; h_opcode := h_opcode h; h_rcode := low_rcode (h_rcode h); h_flags := h_flags h |}.
Lemma rcode_of_disc r : rcode_of_code (rcode_disc r) = r.
Proof. destruct r; reflexivity. Qed.

Lemma write_parse_header_low : forall h i qd an ns ar rest,
  h_id h < 65536 -> named_opcode (h_opcode h) -> named_rcode (h_rcode h) -> i < 128 -> h_flags h = flagset i ->
  parse_header (write_header h qd an ns ar ++ rest) = Ok (low_header h).
Proof.
  intros [hid hop hrc hfl] i qd an ns ar rest Hid Hop Hrc Hi Hfl.
  cbn [h_id h_opcode h_rcode h_flags] in *. subst hfl.
  pose proof (build_fields _ _ i Hop Hrc Hi) as E. unfold build_ok in E.
  change (write_header {| h_id := hid; h_opcode := hop; h_rcode := hrc; h_flags := flagset i |} qd an ns ar)
    with (hdr_bytes hid (get_flags {| h_id := 0; h_opcode := hop; h_rcode := hrc; h_flags := flagset i |}) qd an ns ar).
  remember (get_flags {| h_id := 0; h_opcode := hop; h_rcode := hrc; h_flags := flagset i |}) as w eqn:Hw.
  cbv zeta in E.
  apply andb_prop in E; destruct E as [E E6]. apply andb_prop in E; destruct E as [E E5].
  apply andb_prop in E; destruct E as [E E4]. apply andb_prop in E; destruct E as [E E3].
  apply andb_prop in E; destruct E as [E1 E2].
  rewrite parse_header_bytes by lia.
  apply negb_true_iff in E3. rewrite E3.
  f_equal. unfold header_of_word, low_header, low_rcode in *. cbn [h_id h_opcode h_rcode h_flags] in *. f_equal.
  - apply opcode_disc_inj. lia.
  - rewrite <- (rcode_of_disc (rcode_of_code (N.land w RESPONSE_CODE_MASK))). f_equal. lia.
  - lia.
Qed.

(* ---------- the packet ---------- *)
Definition opt_count (p : packet) : N := match popt p with Some _ => 1 | None => 0 end.
Record wf_packet (p : packet) : Prop := {
  wfp_id : h_id (hdr p) < 65536;
  wfp_op : named_opcode (h_opcode (hdr p));
  wfp_rc : named_rcode (h_rcode (hdr p));
  wfp_fl : exists i, i < 128 /\ h_flags (hdr p) = flagset i;
  wfp_ext : popt p = None -> rcode_disc (h_rcode (hdr p)) < 16;       (* a response code above 15 needs an OPT record *)
  wfp_opt : forall o, popt p = Some o -> wf_opt o;
  wfp_qs : Forall wf_question (qs p);
  wfp_ans : Forall wf_rr (ans p);
  wfp_nss : Forall wf_rr (nss p);
  wfp_adds : Forall wf_rr (adds p);
  wfp_counts : len (qs p) < 65536 /\ len (ans p) < 65536 /\ len (nss p) < 65536 /\ len (adds p) + opt_count p < 65536 }.

Definition rr_rt (x : rr) : Prop :=
  forall pre post, parse_rr (pre ++ enc_rr x ++ post) (len pre) = Ok (x, len pre + len (enc_rr x)).

Lemma take_first_opt_none : forall l, Forall wf_rr l -> take_first_opt l = None.
Proof.
  induction l as [|x r IH]; intros H; [reflexivity|]. cbn [take_first_opt].
  destruct (Forall_inv H) as (_ & _ & Hrd). destruct (type_of_rdata_wf _ Hrd) as [_ Hno].
  rewrite (ty_eqb_false _ _ Hno). rewrite (IH (Forall_inv_tail H)). reflexivity.
Qed.

Lemma low_rcode_small r : rcode_disc r < 16 -> low_rcode r = r.
Proof. intros H. unfold low_rcode. rewrite N.mod_small by lia. apply rcode_of_disc. Qed.

Theorem packet_roundtrip : forall p, wf_packet p -> parse_packet (enc_packet p) = Ok p.
Proof.
  intros p [Hid Hop Hrc (i & Hi & Hfl) Hext Hopt Hqs Hans Hnss Hadds (Cq & Ca & Cn & Cx)].
  (* the additional section as it is on the wire *)
  set (xs := match popt p with Some o => opt_record o (hdr p) :: adds p | None => adds p end).
  assert (Hxs_enc : (match opt_rr p with Some r => enc_rr r | None => [] end) ++ List.concat (map enc_rr (adds p))
                    = List.concat (map enc_rr xs)).
  { unfold xs, opt_rr. destruct (popt p) as [o|]; reflexivity. }
  assert (Hxs_len : len xs = len (adds p) + opt_count p).
  { unfold xs, opt_count. destruct (popt p); [rewrite len_cons; lia|lia]. }
  assert (Hxs_rt : Forall rr_rt xs).
  { assert (Hadds_rt : Forall rr_rt (adds p)).
    { eapply Forall_impl; [|exact Hadds]. intros x Hx pre post. apply parse_rr_enc. exact Hx. }
    unfold xs. destruct (popt p) as [o|] eqn:Eo; [|exact Hadds_rt]. constructor; [|exact Hadds_rt].
    intros pre post. apply parse_opt_record; [apply Hopt; reflexivity|exact Hrc]. }
  unfold enc_packet. rewrite Hxs_enc.
  set (bq := List.concat (map enc_question (qs p))). set (ba := List.concat (map enc_rr (ans p))).
  set (bn := List.concat (map enc_rr (nss p))). set (bx := List.concat (map enc_rr xs)).
  unfold enc_packet_header.
  replace ((len (adds p) mod 65536 + match popt p with Some _ => 1 | None => 0 end) mod 65536) with (len xs).
  2:{ rewrite Hxs_len. unfold opt_count in *. rewrite (N.mod_small (len (adds p))) by (destruct (popt p); lia).
      rewrite N.mod_small; [reflexivity|destruct (popt p); lia]. }
  unfold parse_packet.
  rewrite (write_parse_header_low (hdr p) i _ _ _ _ _ Hid Hop Hrc Hi Hfl).
  change (write_header (hdr p) (len (qs p)) (len (ans p)) (len (nss p)) (len xs))
    with (hdr_bytes (h_id (hdr p)) (get_flags (hdr p)) (len (qs p)) (len (ans p)) (len (nss p)) (len xs)).
  destruct (be_at_hdr (h_id (hdr p)) (get_flags (hdr p)) (len (qs p)) (len (ans p)) (len (nss p)) (len xs) (bq ++ ba ++ bn ++ bx))
    as (_ & _ & P4 & P6 & P8 & P10).
  unfold peek_questions, peek_answers, peek_name_servers, peek_additional_records, peek16. rewrite P4, P6, P8, P10.
  rewrite !N.mod_small by lia.
  set (H12 := hdr_bytes (h_id (hdr p)) (get_flags (hdr p)) (len (qs p)) (len (ans p)) (len (nss p)) (len xs)).
  assert (L12 : len H12 = 12) by apply len_hdr_bytes.
  (* questions *)
  unfold len at 1. rewrite Nat2N.id.
  pose proof (parse_section_enc parse_question enc_question wf_question
                (fun x pre post Hx => parse_question_enc x pre post Hx) (qs p) H12 (ba ++ bn ++ bx) Hqs) as S1.
  rewrite L12 in S1. fold bq in S1. rewrite S1.
  (* answers *)
  assert (RR : forall l pre post, Forall rr_rt l ->
            parse_section parse_rr (length l) (pre ++ List.concat (map enc_rr l) ++ post) (len pre)
            = Ok (l, len pre + len (List.concat (map enc_rr l)))).
  { intros l pre post Hl. apply (parse_section_enc parse_rr enc_rr rr_rt (fun x pre post Hx => Hx pre post)). exact Hl. }
  assert (Hans_rt : Forall rr_rt (ans p)).
  { eapply Forall_impl; [|exact Hans]. intros x Hx pre post. apply parse_rr_enc. exact Hx. }
  assert (Hnss_rt : Forall rr_rt (nss p)).
  { eapply Forall_impl; [|exact Hnss]. intros x Hx pre post. apply parse_rr_enc. exact Hx. }
  unfold len at 1. rewrite Nat2N.id.
  pose proof (RR (ans p) (H12 ++ bq) (bn ++ bx) Hans_rt) as S2. fold ba in S2.
  rewrite len_app, L12 in S2. rewrite <- app_assoc in S2. rewrite S2.
  unfold len at 1. rewrite Nat2N.id.
  pose proof (RR (nss p) (H12 ++ bq ++ ba) bx Hnss_rt) as S3. fold bn in S3.
  rewrite !len_app, L12 in S3. rewrite <- !app_assoc in S3. rewrite N.add_assoc in S3. rewrite S3.
  unfold len at 1. rewrite Nat2N.id.
  pose proof (RR xs (H12 ++ bq ++ ba ++ bn) [] Hxs_rt) as S4. fold bx in S4.
  rewrite !len_app, L12 in S4. rewrite <- !app_assoc in S4. rewrite app_nil_r in S4. rewrite !N.add_assoc in S4. rewrite S4.
  (* lifting the OPT record *)
  unfold xs. destruct (popt p) as [o|] eqn:Eo.
  - cbn [take_first_opt opt_record rdata_of type_of_rdata]. change (ty_eqb (TY M_OPT) (TY M_OPT)) with true. cbv iota.
    unfold opt_record. cbn [optv_of rttl rdata_of].
    destruct (Hopt o eq_refl) as (_ & Hv & _ & _).
    destruct (ttl_facts (h_rcode (hdr p)) (o_version o) Hrc Hv) as (_ & _ & T3 & _).
    unfold extract_rcode. cbn [low_header h_rcode h_id h_opcode h_flags].
    change (encode_ttl o (hdr p)) with (ttl_of (h_rcode (hdr p)) (o_version o)). rewrite T3.
    f_equal. destruct p as [[hid hop hrc hfl] po q a n x]. cbn in *. subst po. destruct o. reflexivity.
  - rewrite (take_first_opt_none _ Hadds). f_equal. unfold low_header. rewrite (low_rcode_small _ (Hext eq_refl)).
    destruct p as [[hid hop hrc hfl] po q a n x]. cbn in *. subst po. reflexivity.
Qed.

Lemma wf_rdata_writable r : wf_rdata r -> rdata_writable r = true.
Proof.
  destruct r as [m vs|c bs|t]; try reflexivity. intros [[Hw Hm] _]. destruct m; try reflexivity.
  cbn [layout_for layout_of] in Hw. destruct vs as [|v vr]; [contradiction|]. cbn [wf_vals wf_fld] in Hw.
  destruct Hw as [Hv _]. destruct v as [x| | |]; try contradiction. cbn. lia.
Qed.
Lemma wf_packet_writable p : wf_packet p -> packet_writable p = true.
Proof.
  intros H. unfold packet_writable. apply forallb_forall. intros r Hin.
  assert (Hr : wf_rr r).
  { apply in_app_or in Hin. destruct Hin as [Hin|Hin]; [exact (proj1 (Forall_forall _ _) (wfp_ans p H) r Hin)|].
    apply in_app_or in Hin. destruct Hin as [Hin|Hin];
      [exact (proj1 (Forall_forall _ _) (wfp_nss p H) r Hin)|exact (proj1 (Forall_forall _ _) (wfp_adds p H) r Hin)]. }
  destruct Hr as (_ & _ & Hrd). apply wf_rdata_writable. exact Hrd.
Qed.

Theorem build_then_parse : forall p, wf_packet p -> exists b, write_packet p = Ok b /\ parse_packet b = Ok p.
Proof.
  intros p H. exists (enc_packet p). unfold write_packet. rewrite (wf_packet_writable p H).
  split; [reflexivity|apply packet_roundtrip; exact H].
Qed.

(* ================= C04: the written message is well-framed ================= *)
Require Import SD.Walker SD.Framing.

Lemma walk_rr_written r pre post : rr_rt r ->
  exists e, walk_rr (pre ++ enc_rr r ++ post) (len pre) = Some (e, len pre + len (enc_rr r)) /\
            rr_matches r e /\ e_start e = len pre /\ e_end e = len pre + len (enc_rr r).
Proof.
  intros H. destruct (parse_rr_framed _ _ _ _ (H pre post)) as (e & Hw & Hs & He & Hm & _).
  exists e. split; [exact Hw|]. split; [exact Hm|]. split; [exact Hs|symmetry; exact He].
Qed.

Lemma walk_question_written q pre post : wf_question q ->
  exists e, walk_question (pre ++ enc_question q ++ post) (len pre) = Some (e, len pre + len (enc_question q)) /\ q_matches q e.
Proof.
  intros H. destruct (parse_question_framed _ _ _ _ (parse_question_enc q pre post H)) as (e & Hw & Hm). exists e. split; assumption.
Qed.

Lemma walk_section_written {A B} (W : list byte -> N -> option (B * N)) (E : A -> list byte) (M : A -> B -> Prop) (OK : A -> Prop) :
  (forall x pre post, OK x -> exists e, W (pre ++ E x ++ post) (len pre) = Some (e, len pre + len (E x)) /\ M x e) ->
  forall xs pre post, Forall OK xs ->
  exists es, walk_section W (length xs) (pre ++ List.concat (map E xs) ++ post) (len pre)
             = Some (es, len pre + len (List.concat (map E xs))) /\ Forall2 M xs es.
Proof.
  intros HW. induction xs as [|x r IH]; intros pre post Hok; cbn [length walk_section map List.concat].
  - exists []. split; [f_equal; f_equal; unfold len; cbn; lia|constructor].
  - rewrite <- app_assoc. destruct (HW x pre (List.concat (map E r) ++ post) (Forall_inv Hok)) as (e & -> & Hm).
    replace (pre ++ E x ++ List.concat (map E r) ++ post) with ((pre ++ E x) ++ List.concat (map E r) ++ post)
      by (rewrite <- !app_assoc; reflexivity).
    replace (len pre + len (E x)) with (len (pre ++ E x)) by (rewrite len_app; reflexivity).
    destruct (IH (pre ++ E x) post (Forall_inv_tail Hok)) as (es & -> & Hf).
    exists (e :: es). split; [f_equal; f_equal; rewrite !len_app; lia|constructor; assumption].
Qed.

(* every serialised message: a 12-byte header whose four counts are the numbers of questions and records written (the OPT
   pseudo-record counted once), followed by exactly those entries in order, each RDLENGTH delimiting its RDATA, and nothing else *)
Theorem written_message_framed : forall p, wf_packet p ->
  exists w xs, walk (enc_packet p) = Some w /\ w_end w = len (enc_packet p) /\
    xs = (match popt p with Some o => opt_record o (hdr p) :: adds p | None => adds p end) /\
    length (w_qs w) = length (qs p) /\ length (w_ans w) = length (ans p) /\ length (w_nss w) = length (nss p) /\
    length (w_adds w) = length xs /\
    Forall2 q_matches (qs p) (w_qs w) /\ Forall2 rr_matches (ans p) (w_ans w) /\ Forall2 rr_matches (nss p) (w_nss w) /\
    Forall2 rr_matches xs (w_adds w).
Proof.
  intros p [Hid Hop Hrc (i & Hi & Hfl) Hext Hopt Hqs Hans Hnss Hadds (Cq & Ca & Cn & Cx)].
  set (xs := match popt p with Some o => opt_record o (hdr p) :: adds p | None => adds p end).
  assert (Hxs_enc : (match opt_rr p with Some r => enc_rr r | None => [] end) ++ List.concat (map enc_rr (adds p))
                    = List.concat (map enc_rr xs)).
  { unfold xs, opt_rr. destruct (popt p) as [o|]; reflexivity. }
  assert (Hxs_len : len xs = len (adds p) + opt_count p).
  { unfold xs, opt_count. destruct (popt p); [rewrite len_cons; lia|lia]. }
  assert (RT : forall l, Forall wf_rr l -> Forall rr_rt l).
  { intros l Hl. eapply Forall_impl; [|exact Hl]. intros x Hx pre post. apply parse_rr_enc. exact Hx. }
  assert (Hxs_rt : Forall rr_rt xs).
  { unfold xs. destruct (popt p) as [o|] eqn:Eo; [|apply RT; exact Hadds]. constructor; [|apply RT; exact Hadds].
    intros pre post. apply parse_opt_record; [apply Hopt; reflexivity|exact Hrc]. }
  unfold enc_packet. rewrite Hxs_enc.
  set (bq := List.concat (map enc_question (qs p))). set (ba := List.concat (map enc_rr (ans p))).
  set (bn := List.concat (map enc_rr (nss p))). set (bx := List.concat (map enc_rr xs)).
  unfold enc_packet_header.
  replace ((len (adds p) mod 65536 + match popt p with Some _ => 1 | None => 0 end) mod 65536) with (len xs).
  2:{ rewrite Hxs_len. unfold opt_count in *. rewrite (N.mod_small (len (adds p))) by (destruct (popt p); lia).
      rewrite N.mod_small; [reflexivity|destruct (popt p); lia]. }
  change (write_header (hdr p) (len (qs p)) (len (ans p)) (len (nss p)) (len xs))
    with (hdr_bytes (h_id (hdr p)) (get_flags (hdr p)) (len (qs p)) (len (ans p)) (len (nss p)) (len xs)).
  set (H12 := hdr_bytes (h_id (hdr p)) (get_flags (hdr p)) (len (qs p)) (len (ans p)) (len (nss p)) (len xs)).
  assert (L12 : len H12 = 12) by apply len_hdr_bytes.
  unfold walk.
  destruct (be_at_hdr (h_id (hdr p)) (get_flags (hdr p)) (len (qs p)) (len (ans p)) (len (nss p)) (len xs) (bq ++ ba ++ bn ++ bx))
    as (P0 & P2 & P4 & P6 & P8 & P10). fold H12 in P0, P2, P4, P6, P8, P10. rewrite P0, P2, P4, P6, P8, P10.
  rewrite (N.mod_small (len (qs p))), (N.mod_small (len (ans p))), (N.mod_small (len (nss p))), (N.mod_small (len xs)) by lia.
  rewrite !to_nat_len.
  destruct (walk_section_written walk_question enc_question q_matches wf_question
              (fun x pre post Hx => walk_question_written x pre post Hx) (qs p) H12 (ba ++ bn ++ bx) Hqs) as (eq & S1 & F1).
  rewrite L12 in S1. fold bq in S1. rewrite S1.
  assert (WR : forall l pre post, Forall rr_rt l ->
            exists es, walk_section walk_rr (length l) (pre ++ List.concat (map enc_rr l) ++ post) (len pre)
                       = Some (es, len pre + len (List.concat (map enc_rr l))) /\ Forall2 rr_matches l es).
  { intros l pre post Hl.
    apply (walk_section_written walk_rr enc_rr rr_matches rr_rt); [|exact Hl].
    intros x pre0 post0 Hx. destruct (walk_rr_written x pre0 post0 Hx) as (e & Hw & Hm & _). exists e. split; assumption. }
  destruct (WR (ans p) (H12 ++ bq) (bn ++ bx) (RT _ Hans)) as (ea & S2 & F2). fold ba in S2.
  rewrite len_app, L12 in S2. rewrite <- app_assoc in S2. rewrite S2.
  destruct (WR (nss p) (H12 ++ bq ++ ba) bx (RT _ Hnss)) as (en & S3 & F3). fold bn in S3.
  rewrite !len_app, L12 in S3. rewrite <- !app_assoc in S3. rewrite N.add_assoc in S3. rewrite S3.
  destruct (WR xs (H12 ++ bq ++ ba ++ bn) [] Hxs_rt) as (ex & S4 & F4). fold bx in S4.
  rewrite !len_app, L12 in S4. rewrite <- !app_assoc in S4. rewrite app_nil_r in S4. rewrite !N.add_assoc in S4. rewrite S4.
  eexists. exists xs. split; [reflexivity|]. cbn [w_end w_qs w_ans w_nss w_adds].
  split; [rewrite !len_app, L12; lia|]. split; [reflexivity|].
  repeat split; try assumption; symmetry; eapply Forall2_len; eassumption.
Qed.

(* each record's RDLENGTH equals the number of RDATA bytes written: len() agrees with write_to for every RDATA *)
Theorem rdlength_is_written_length : forall r, wf_rdata r -> len_rdata r = len (enc_rdata r).
Proof. intros r H. apply len_rdata_enc. exact H. Qed.
