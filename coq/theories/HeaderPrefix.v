(* What a parsed packet reports about its header is read from the first four bytes of the message and from nothing else
   (apart from the extended response code an OPT record contributes): in particular the ID is bytes 0..1 whatever they are -
   a length, a pointer-like value, anything. *)
Require Import SD.Base SD.BaseProofs SD.Codes SD.Header SD.HeaderProofs SD.Name SD.RData SD.Packet.
Open Scope N_scope.

Theorem parsed_header_is_prefix d p : parse_packet d = Ok p ->
  exists id w, be_at d 0 2 = Some id /\ be_at d 2 2 = Some w /\
    h_id (hdr p) = id /\ h_opcode (hdr p) = h_opcode (header_of_word id w) /\ h_flags (hdr p) = h_flags (header_of_word id w) /\
    (popt p = None -> h_rcode (hdr p) = h_rcode (header_of_word id w)).
Proof.
  unfold parse_packet, parse_header. destruct (len d <? 12); [discriminate|].
  destruct (be_at d 2 2) as [w|]; [|discriminate]. destruct (be_at d 0 2) as [id|]; [|discriminate].
  destruct (negb (N.land w RESERVED_MASK =? 0)); [discriminate|].
  destruct (peek_questions d) as [c1| | |]; try discriminate. destruct (peek_answers d) as [c2| | |]; try discriminate.
  destruct (peek_name_servers d) as [c3| | |]; try discriminate. destruct (peek_additional_records d) as [c4| | |]; try discriminate.
  destruct (parse_section parse_question _ d 12) as [[q p1]|e|s|]; try discriminate.
  destruct (parse_section parse_rr _ d p1) as [[a p2]|e|s|]; try discriminate.
  destruct (parse_section parse_rr _ d p2) as [[n p3]|e|s|]; try discriminate.
  destruct (parse_section parse_rr _ d p3) as [[x p4]|e|s|]; try discriminate.
  destruct (take_first_opt x) as [[o x']|].
  - destruct (optv_of (rdata_of o)); [|discriminate]. intros H. injection H as <-. exists id, w. cbn [hdr h_id h_opcode h_flags popt].
    repeat split; try reflexivity. discriminate.
  - intros H. injection H as <-. exists id, w. cbn [hdr]. repeat split; reflexivity.
Qed.
