Require Import SD.Base SD.BaseProofs SD.Codes SD.CodesProofs SD.Name SD.RData SD.Packet SD.Store SD.Owned SD.TextApi SD.TextApiProofs.
From Coq Require Import ZArith ZifyN ZifyNat ZifyBool Permutation Sorted.

(* ---- into_owned is the identity on values ---- *)
Lemma map_id_label (ls : list label) : map (fun l => l) ls = ls.
Proof. apply map_id. Qed.
Lemma fval_into_owned_id v : fval_into_owned v = v.
Proof.
  destruct v as [x|ls|b|its]; cbn [fval_into_owned]; try reflexivity.
  - rewrite map_id. reflexivity.
  - f_equal. induction its as [|[t b] r IH]; [reflexivity|]. cbn [map fst snd]. rewrite IH. reflexivity.
Qed.
Lemma rdata_into_owned_id r : rdata_into_owned r = r.
Proof.
  destruct r as [m vs|c b|t]; cbn [rdata_into_owned]; try reflexivity. f_equal.
  induction vs as [|v r IH]; [reflexivity|]. cbn [map]. rewrite fval_into_owned_id, IH. reflexivity.
Qed.
Theorem rr_into_owned_id r : rr_into_owned r = r.
Proof. destruct r. unfold rr_into_owned. cbn. rewrite map_id, rdata_into_owned_id. reflexivity. Qed.
Theorem question_into_owned_id q : question_into_owned q = q.
Proof. destruct q. unfold question_into_owned. cbn. rewrite map_id. reflexivity. Qed.
(* hence identical bytes *)
Theorem rr_into_owned_bytes r : enc_rr (rr_into_owned r) = enc_rr r.
Proof. rewrite rr_into_owned_id. reflexivity. Qed.

(* ---- equality implies equal hash input ---- *)
(* ResourceRecord: PartialEq and Hash both use exactly (name, class, rdata) *)
Definition rr_hash_tokens (r : rr) := (rname r, code_of_class (rclass r), rdata_of r).

Lemma items_eqb_eq : forall a b, items_eqb a b = true -> a = b.
Proof.
  induction a as [|[t x] a IH]; destruct b as [|[u y] b]; cbn [items_eqb]; intros H; try discriminate; try reflexivity.
  apply andb_prop in H. destruct H as [H H3]. apply andb_prop in H. destruct H as [H1 H2].
  apply bytes_eqb_eq in H2. apply IH in H3. subst. f_equal. f_equal. lia.
Qed.
Lemma fval_eqb_eq a b : fval_eqb a b = true -> a = b.
Proof.
  destruct a, b; cbn [fval_eqb]; intros H; try discriminate.
  - f_equal. lia.
  - f_equal. apply labels_eqb_eq. exact H.
  - f_equal. apply bytes_eqb_eq. exact H.
  - f_equal. apply items_eqb_eq. exact H.
Qed.
Lemma fvals_eqb_eq : forall a b, fvals_eqb a b = true -> a = b.
Proof.
  induction a as [|x a IH]; destruct b as [|y b]; cbn [fvals_eqb]; intros H; try discriminate; try reflexivity.
  apply andb_prop in H. destruct H as [H1 H2]. apply fval_eqb_eq in H1. apply IH in H2. congruence.
Qed.
Lemma rdata_eqb_eq a b : rdata_eqb a b = true -> a = b.
Proof.
  destruct a, b; cbn [rdata_eqb]; intros H; try discriminate.
  - apply andb_prop in H. destruct H as [H1 H2]. apply mnem_eqb_eq in H1. apply fvals_eqb_eq in H2. congruence.
  - apply andb_prop in H. destruct H as [H1 H2]. apply bytes_eqb_eq in H2. f_equal; [lia|exact H2].
  - apply ty_eqb_eq in H. congruence.
Qed.
Theorem rr_eq_hash a b : rr_eqb a b = true -> rr_hash_tokens a = rr_hash_tokens b.
Proof.
  unfold rr_eqb, rr_hash_tokens. intros H. apply andb_prop in H. destruct H as [H H3]. apply andb_prop in H. destruct H as [H1 H2].
  apply labels_eqb_eq in H1. apply class_eqb_eq in H2. apply rdata_eqb_eq in H3. congruence.
Qed.

(* InstanceInformation: sets are enumerations in arbitrary order; sorting makes the hash input independent of it *)
Lemma insertN_perm x l : Permutation (insertN x l) (x :: l).
Proof.
  induction l as [|y r IH]; cbn [insertN]; [reflexivity|]. destruct (x <=? y); [reflexivity|].
  rewrite IH. apply perm_swap.
Qed.
Lemma sortN_perm l : Permutation (sortN l) l.
Proof. induction l as [|x r IH]; [reflexivity|]. unfold sortN in *. cbn [fold_right]. rewrite insertN_perm, IH. reflexivity. Qed.
Definition sortedN (l : list N) : Prop := StronglySorted N.le l.
Lemma insertN_sorted x l : sortedN l -> sortedN (insertN x l).
Proof.
  induction l as [|y r IH]; intros H; cbn [insertN]; [repeat constructor|].
  inversion H as [|? ? Hs Hf]; subst. destruct (x <=? y) eqn:E.
  - constructor; [exact H|]. constructor; [lia|]. eapply Forall_impl; [|exact Hf]. intros z Hz. lia.
  - constructor; [apply IH; exact Hs|]. eapply Permutation_Forall; [symmetry; apply insertN_perm|].
    constructor; [lia|exact Hf].
Qed.
Lemma sortN_sorted l : sortedN (sortN l).
Proof. induction l as [|x r IH]; [constructor|]. unfold sortN in *. cbn [fold_right]. apply insertN_sorted. exact IH. Qed.
Lemma sorted_perm_eq : forall a b, sortedN a -> sortedN b -> Permutation a b -> a = b.
Proof.
  induction a as [|x a IH]; intros b Ha Hb Hp.
  - apply Permutation_nil in Hp. congruence.
  - destruct b as [|y b]; [symmetry in Hp; apply Permutation_nil in Hp; discriminate|].
    inversion Ha as [|? ? Hsa Hfa]; subst. inversion Hb as [|? ? Hsb Hfb]; subst.
    assert (Hxy : x = y).
    { assert (Hx : In x (y :: b)) by (eapply Permutation_in; [exact Hp|left; reflexivity]).
      assert (Hy : In y (x :: a)) by (eapply Permutation_in; [symmetry; exact Hp|left; reflexivity]).
      destruct Hx as [->|Hx]; [reflexivity|]. destruct Hy as [->|Hy]; [reflexivity|].
      rewrite Forall_forall in Hfa, Hfb. specialize (Hfa _ Hy). specialize (Hfb _ Hx). lia. }
    subst y. f_equal. apply IH; [exact Hsa|exact Hsb|]. eapply Permutation_cons_inv. exact Hp.
Qed.
Theorem sortN_unique a b : Permutation a b -> sortN a = sortN b.
Proof.
  intros H. apply sorted_perm_eq; [apply sortN_sorted|apply sortN_sorted|].
  rewrite sortN_perm, H. symmetry. apply sortN_perm.
Qed.
(* two enumerations of the same sets give the same hash input *)
Theorem instance_hash_order_independent name ips1 ips2 ports1 ports2 :
  Permutation ips1 ips2 -> Permutation ports1 ports2 ->
  instance_hash_tokens name ips1 ports1 = instance_hash_tokens name ips2 ports2.
Proof.
  intros Hi Hp. unfold instance_hash_tokens. f_equal; [f_equal|]; apply sortN_unique; [apply Permutation_map; exact Hi|exact Hp].
Qed.

(* the pinned Hash folded the sets in iteration order (finding F16): two enumerations of {1, 2} then differ *)
Example pinned_hash_order_dependent : [1; 2] <> [2; 1] /\ sortN [1; 2] = sortN [2; 1].
Proof. split; [discriminate|reflexivity]. Qed.

(* ---- C12: the fallible text conversions fail exactly on invalid UTF-8, and nothing else can fail ---- *)
Theorem text_of_txt_total strs : (exists s, text_of_txt strs = Ok s /\ valid_utf8 s = true) \/ (exists e, text_of_txt strs = Err e /\ valid_utf8 (List.concat strs) = false).
Proof. unfold text_of_txt. destruct (valid_utf8 (List.concat strs)) eqn:E; [left|right]; eauto. Qed.
Theorem long_attributes_total strs : (exists m, long_attributes strs = Ok m) \/ (exists e, long_attributes strs = Err e /\ valid_utf8 (List.concat strs) = false).
Proof.
  unfold long_attributes. destruct (text_of_txt_total strs) as [(s & -> & _)|(e & -> & H)]; [left; eauto|right; eauto].
Qed.
