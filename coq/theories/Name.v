(* Name::parse, plain_append, compress_append, len (name.rs) transliterated, and the RFC 1035 4.1.4
   decoding relation used as specification. No proofs here. *)
Require Import SD.Base.
Open Scope N_scope.

Definition MAX_LABEL_LENGTH : N := 63.
Definition MAX_NAME_LENGTH : N := 255.
Definition POINTER_MASK : N := 192.            (* 0b1100_0000 *)
Definition MAX_POINTER_OFFSET : N := 16383.    (* 0b0011_1111_1111_1111 *)

(* loop state of Name::parse: *position, pointer_position, following_compression_pointer, name_size, labels *)
Record st := { pos : N; pp : N; following : bool; nsize : N; acc : list label }.

(* one iteration per fuel unit; the statement order is that of the Rust loop body *)
Fixpoint name_loop (fuel : nat) (d : list byte) (s : st) : outcome (list label * N) :=
  match fuel with O => OutOfFuel | S fuel' =>
  if len d <=? pos s then Err InsufficientData else
  if len d <=? pp s then Err InsufficientData else
  if MAX_NAME_LENGTH <=? nsize s then Err InvalidDnsPacket else
  match byte_at d (pp s) with
  | None => Panic 185                                   (* data[pointer_position] *)
  | Some b =>
    if b =? 0 then Ok (rev (acc s), pos s + 1)
    else if N.land b POINTER_MASK =? POINTER_MASK then
      let pos' := if following s then pos s else pos s + 1 in
      if len d <? pp s + 2 then Err InsufficientData else
      match byte_at d (pp s + 1) with
      | None => Panic 202                               (* data[pointer_position..pointer_position + 2] *)
      | Some b2 =>
        let ptr := (N.land b 63) * 256 + b2 in
        if pp s <=? ptr then Err InvalidDnsPacket
        else name_loop fuel' d {| pos := pos'; pp := ptr; following := true; nsize := nsize s; acc := acc s |}
      end
    else
      let ns := nsize s + 1 + b in
      if len d <? pp s + 1 + b then Err InsufficientData else
      if MAX_LABEL_LENGTH <? b then Err InvalidServiceLabel else
      match bytes_at d (pp s + 1) b with
      | None => Panic 222                               (* &data[pointer_position + 1..pointer_position + 1 + len] *)
      | Some l =>
        name_loop fuel' d {| pos := if following s then pos s else pos s + b + 1;
                             pp := pp s + b + 1; following := following s; nsize := ns; acc := l :: acc s |}
      end
  end end.

(* enough for every input: see NameProofs.name_loop_fuel (measure 2 * (319 - name_size) + read cursor) *)
Definition name_fuel (d : list byte) : nat := N.to_nat (len d + 640).
Definition init_st (p : N) : st := {| pos := p; pp := p; following := false; nsize := 0; acc := [] |}.
(* Name::parse(data, &mut position): the labels and the new position *)
Definition parse_name (d : list byte) (p : N) : outcome (list label * N) := name_loop (name_fuel d) d (init_st p).

(* the loop as it was on the pinned tree (no bound check on the read cursor): kept to exhibit finding F02 *)
Fixpoint name_loop_pinned (fuel : nat) (d : list byte) (s : st) : outcome (list label * N) :=
  match fuel with O => OutOfFuel | S fuel' =>
  if len d <=? pos s then Err InsufficientData else
  if MAX_NAME_LENGTH <=? nsize s then Err InvalidDnsPacket else
  match byte_at d (pp s) with
  | None => Panic 185
  | Some b =>
    if b =? 0 then Ok (rev (acc s), pos s + 1)
    else if N.land b POINTER_MASK =? POINTER_MASK then
      let pos' := if following s then pos s else pos s + 1 in
      if len d <? pp s + 2 then Err InsufficientData else
      match byte_at d (pp s + 1) with
      | None => Panic 202
      | Some b2 =>
        let ptr := (N.land b 63) * 256 + b2 in
        if pp s <=? ptr then Err InvalidDnsPacket
        else name_loop_pinned fuel' d {| pos := pos'; pp := ptr; following := true; nsize := nsize s; acc := acc s |}
      end
    else
      let ns := nsize s + 1 + b in
      if len d <? pp s + 1 + b then Err InsufficientData else
      if MAX_LABEL_LENGTH <? b then Err InvalidServiceLabel else
      match bytes_at d (pp s + 1) b with
      | None => Panic 222
      | Some l =>
        name_loop_pinned fuel' d {| pos := if following s then pos s else pos s + b + 1;
                                    pp := pp s + b + 1; following := following s; nsize := ns; acc := l :: acc s |}
      end
  end end.

(* Name::plain_append: `label.len() as u8`, label bytes, terminating zero *)
Fixpoint write_name (ls : list label) : list byte :=
  match ls with [] => [bN 0] | l :: r => bN (len l) :: l ++ write_name r end.
(* Name::len *)
Fixpoint name_len (ls : list label) : N := match ls with [] => 1 | l :: r => len l + 1 + name_len r end.

(* compression table: HashMap<&[Label], usize>; entry API = first insertion wins *)
Definition table := list (list label * N).
Fixpoint lookup (t : table) (k : list label) : option N :=
  match t with [] => None | (k', p) :: r => if labels_eqb k' k then Some p else lookup r k end.

(* Name::compress_append; `off` is out.stream_position() (message-relative, see MessageWriter) *)
Fixpoint wc_name (t : table) (off : N) (ls : list label) : list byte * table :=
  match ls with
  | [] => ([bN 0], t)
  | l :: rest =>
    match lookup t ls with
    | Some p => (be_enc 2 (N.lor (p mod 65536) 49152), t)         (* (p as u16 | POINTER_MASK_U16).to_be_bytes() *)
    | None =>
      let t1 := if off <=? MAX_POINTER_OFFSET then (ls, off) :: t else t in
      let '(bs, t2) := wc_name t1 (off + 1 + len l) rest in
      (bN (len l) :: l ++ bs, t2)
    end
  end.

(* ---- specification: RFC 1035 section 4.1.4, as a relation independent of the loop ---- *)
Inductive rfc_name (d : list byte) : N -> list label -> Prop :=
| rn_root p : byte_at d p = Some 0 -> rfc_name d p []
| rn_label p n l ls : byte_at d p = Some n -> 1 <= n <= 63 -> bytes_at d (p + 1) n = Some l ->
    rfc_name d (p + 1 + n) ls -> rfc_name d p (l :: ls)
| rn_ptr p b1 b2 ls : byte_at d p = Some b1 -> N.land b1 192 = 192 -> byte_at d (p + 1) = Some b2 ->
    rfc_name d (N.land b1 63 * 256 + b2) ls -> rfc_name d p ls.

(* the same with every pointer strictly backwards (what RFC-conformant encoders emit) *)
Inductive rfc_bw (d : list byte) : N -> list label -> Prop :=
| bw_root p : byte_at d p = Some 0 -> rfc_bw d p []
| bw_label p n l ls : byte_at d p = Some n -> 1 <= n <= 63 -> bytes_at d (p + 1) n = Some l ->
    rfc_bw d (p + 1 + n) ls -> rfc_bw d p (l :: ls)
| bw_ptr p b1 b2 ls : byte_at d p = Some b1 -> N.land b1 192 = 192 -> byte_at d (p + 1) = Some b2 ->
    N.land b1 63 * 256 + b2 < p -> rfc_bw d (N.land b1 63 * 256 + b2) ls -> rfc_bw d p ls.

(* where the enclosing element resumes: after the zero octet, or after the first pointer *)
Inductive inplace (d : list byte) : N -> N -> Prop :=
| ip_root p : byte_at d p = Some 0 -> inplace d p (p + 1)
| ip_ptr p b1 : byte_at d p = Some b1 -> N.land b1 192 = 192 -> inplace d p (p + 2)
| ip_label p n e : byte_at d p = Some n -> n <> 0 -> N.land n 192 <> 192 -> inplace d (p + 1 + n) e -> inplace d p e.

Fixpoint labels_len (ls : list label) : N := match ls with [] => 0 | l :: r => 1 + len l + labels_len r end.
Definition wf_labels (ls : list label) := Forall (fun l : label => 1 <= len l <= 63) ls.
