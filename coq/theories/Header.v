(* Header::parse / write_to / get_flags (header.rs), the header_buffer peeks (header_buffer.rs) and the
   PacketFlag algebra, transliterated. No proofs here. *)
Require Import SD.Base SD.Codes.
Open Scope N_scope.

(* bitflags PacketFlag *)
Definition F_RESPONSE : N := 32768.               (* 0b1000_0000_0000_0000 *)
Definition F_AUTHORITATIVE_ANSWER : N := 1024.    (* 0b0000_0100_0000_0000 *)
Definition F_TRUNCATION : N := 512.
Definition F_RECURSION_DESIRED : N := 256.
Definition F_RECURSION_AVAILABLE : N := 128.
Definition F_AUTHENTIC_DATA : N := 32.
Definition F_CHECKING_DISABLED : N := 16.
Definition all_flags : list N := [F_RESPONSE; F_AUTHORITATIVE_ANSWER; F_TRUNCATION; F_RECURSION_DESIRED;
  F_RECURSION_AVAILABLE; F_AUTHENTIC_DATA; F_CHECKING_DISABLED].
Definition FLAGS_ALL : N := 34736.                (* union of the seven = 0x87B0 *)
(* PacketFlag::from_bits_truncate *)
Definition from_bits_truncate (w : N) : N := N.land w FLAGS_ALL.

(* header::masks *)
Definition OPCODE_MASK : N := 30720.              (* 0b0111_1000_0000_0000 *)
Definition RESERVED_MASK : N := 64.               (* 0b0000_0000_0100_0000 *)
Definition RESPONSE_CODE_MASK : N := 15.

Record header := { h_id : N; h_opcode : opcode; h_rcode : rcode; h_flags : N }.

Definition set_flags (h : header) (f : N) : header :=
  {| h_id := h_id h; h_opcode := h_opcode h; h_rcode := h_rcode h; h_flags := N.lor (h_flags h) f |}.
(* bitflags `remove`: self & !other (16-bit) *)
Definition remove_flags (h : header) (f : N) : header :=
  {| h_id := h_id h; h_opcode := h_opcode h; h_rcode := h_rcode h; h_flags := N.land (h_flags h) (N.lxor f 65535) |}.
(* bitflags `contains` *)
Definition has_flags (h : header) (f : N) : bool := N.land (h_flags h) f =? f.

Definition new_query (id : N) : header := {| h_id := id; h_opcode := StandardQuery; h_rcode := NoError; h_flags := 0 |}.
Definition new_reply (id : N) (op : opcode) : header := {| h_id := id; h_opcode := op; h_rcode := NoError; h_flags := F_RESPONSE |}.

(* the header fields as a function of id and the flags word *)
Definition header_of_word (id w : N) : header :=
  {| h_id := id;
     h_opcode := opcode_of_code (N.shiftr (N.land w OPCODE_MASK) 11);
     h_rcode := rcode_of_code (N.land w RESPONSE_CODE_MASK);
     h_flags := from_bits_truncate w |}.

(* Header::parse *)
Definition parse_header (d : list byte) : outcome header :=
  if len d <? 12 then Err InsufficientData else
  match be_at d 2 2, be_at d 0 2 with
  | Some w, Some id =>
    if negb (N.land w RESERVED_MASK =? 0) then Err InvalidHeaderData
    else Ok (header_of_word id w)
  | _, _ => Panic 1
  end.

(* Header::get_flags *)
Definition get_flags (h : header) : N :=
  N.lor (N.lor (h_flags h) (N.shiftl (opcode_disc (h_opcode h)) 11) mod 65536)
        (N.land (rcode_disc (h_rcode h)) RESPONSE_CODE_MASK).

(* Header::write_to; the counts are `as u16` at the call site *)
Definition write_header (h : header) (qd an ns ar : N) : list byte :=
  be_enc 2 (h_id h) ++ be_enc 2 (get_flags h) ++ be_enc 2 qd ++ be_enc 2 an ++ be_enc 2 ns ++ be_enc 2 ar.

(* header_buffer::* : buffer.get(a..b).ok_or(InvalidHeaderData) *)
Definition peek16 (d : list byte) (p : N) : outcome N :=
  match be_at d p 2 with Some v => Ok v | None => Err InvalidHeaderData end.
Definition peek_id d := peek16 d 0.
Definition peek_questions d := peek16 d 4.
Definition peek_answers d := peek16 d 6.
Definition peek_name_servers d := peek16 d 8.
Definition peek_additional_records d := peek16 d 10.
Definition peek_has_flags d (f : N) : outcome bool :=
  do w <- peek16 d 2; Ok (N.land (from_bits_truncate w) f =? f).
Definition peek_rcode d : outcome rcode := do w <- peek16 d 2; Ok (rcode_of_code (N.land w RESPONSE_CODE_MASK)).
Definition peek_opcode d : outcome opcode :=
  do w <- peek16 d 2; Ok (opcode_of_code (N.shiftr (N.land w OPCODE_MASK) 11)).

(* ---- specification side: RFC 1035 section 4.1.1, by bit position, independent of the masks above ----
     15  14..11  10  9   8   7   6  5   4   3..0
     QR  OPCODE  AA  TC  RD  RA  Z  AD  CD  RCODE *)
Definition rfc_qr (w : N) := N.testbit w 15.
Definition rfc_opcode (w : N) := (w / 2048) mod 16.
Definition rfc_aa (w : N) := N.testbit w 10.
Definition rfc_tc (w : N) := N.testbit w 9.
Definition rfc_rd (w : N) := N.testbit w 8.
Definition rfc_ra (w : N) := N.testbit w 7.
Definition rfc_z (w : N) := N.testbit w 6.
Definition rfc_ad (w : N) := N.testbit w 5.
Definition rfc_cd (w : N) := N.testbit w 4.
Definition rfc_rcode (w : N) := w mod 16.
(* the word RFC 1035 prescribes for given field values *)
Definition b2n (b : bool) : N := if b then 1 else 0.
Definition rfc_word (qr : bool) (op : N) (aa tc rd ra ad cd : bool) (rc : N) : N :=
  b2n qr * 32768 + op * 2048 + b2n aa * 1024 + b2n tc * 512 + b2n rd * 256 + b2n ra * 128
  + b2n ad * 32 + b2n cd * 16 + rc.
