(* C04 for the compressed form: the independent envelope reader accepts it and finds the packet's entries in order *)
Require Import SD.Base SD.Codes SD.Header SD.Name SD.RData SD.Packet SD.Walker SD.Framing SD.RoundTrip SD.CompressProofs SD.CompressRoundTrip.

Theorem compressed_message_framed : forall p, wf_packet p ->
  exists w xs, walk (encc_packet p) = Some w /\ w_end w <= len (encc_packet p) /\
    Forall2 q_matches (qs p) (w_qs w) /\ Forall2 (rr_framed (encc_packet p)) (ans p) (w_ans w) /\
    Forall2 (rr_framed (encc_packet p)) (nss p) (w_nss w) /\ Forall2 (rr_framed (encc_packet p)) xs (w_adds w) /\
    ((take_first_opt xs = None /\ adds p = xs /\ popt p = None) \/
     (exists o, take_first_opt xs = Some (o, adds p) /\ popt p = optv_of (rdata_of o) /\ popt p <> None)).
Proof. intros p Hw. apply parse_packet_framed. apply (packet_roundtrip_compressed p Hw). Qed.
