(* C15, the general case: ANY sequence of record batches received for names directly below the watched service - new
   instances, repeats, and re-announcements that CHANGE an instance's data (more addresses, another port, other text) -
   leaves the discoverer's store equal to a simple abstract view: instance label -> association list of (record, expiry),
   in which a record equal to one already held takes the new expiry in place and a new record is appended.
   get_known_services is then InstanceInformation::from_records over the unexpired records of each entry. *)
Require Import SD.Base SD.BaseProofs SD.Codes SD.CodesProofs SD.Header SD.HeaderProofs SD.Name SD.NameProofs SD.RData SD.RDataProofs
  SD.Packet SD.RoundTrip SD.TextApi SD.TextApiProofs SD.Store SD.StoreProofs SD.HistoryProofs SD.DiscoveryProofs SD.DiscoveryStore SD.Reannounce.
From Coq Require Import ZArith ZifyN ZifyNat ZifyBool.
Ltac Zify.zify_post_hook ::= Z.div_mod_to_equations.

(* what add_cached stores for a record received at `now` *)
Definition val_of (now : N) (r : rr) : kind := Cached (now + 2 * (if rcf r then 1 else rttl r)).
Definition ins_all (now : N) (recs : list rr) (m : list srec) : list srec :=
  fold_left (fun m0 r => map_insert m0 r (val_of now r)) recs m.
Definition cached_only (m : list srec) : Prop := forall e, In e m -> exists x, snd e = Cached x.

Lemma map_insert_cached m r x : cached_only m -> cached_only (map_insert m r (Cached x)).
Proof.
  induction m as [|[r0 v0] t IH]; intros H e He; cbn [map_insert] in He.
  - destruct He as [<-|[]]. cbn [snd]. eauto.
  - destruct (rr_eqb r0 r).
    + destruct He as [<-|He]; [cbn [snd]; eauto|]. apply H. right. exact He.
    + destruct He as [<-|He]; [apply H; left; reflexivity|]. apply IH; [|exact He]. intros e' He'. apply H. right. exact He'.
Qed.
Lemma ins_all_cached now : forall recs m, cached_only m -> cached_only (ins_all now recs m).
Proof.
  induction recs as [|r t IH]; intros m H; [exact H|]. unfold ins_all. cbn [fold_left]. apply IH. apply map_insert_cached. exact H.
Qed.

(* batches for one node: the store-level fold is the map-level fold at that node *)
Lemma node_fold now k : forall recs pre m post,
  find_node pre k = None -> cached_only m -> (forall r, In r recs -> get_key (rname r) = k) ->
  fold_left (fun s r => add_cached s r now) recs (pre ++ (k, m) :: post) = pre ++ (k, ins_all now recs m) :: post.
Proof.
  induction recs as [|r t IH]; intros pre m post Hk Hc Hall; [reflexivity|].
  cbn [fold_left]. unfold ins_all. cbn [fold_left]. fold (ins_all now t (map_insert m r (val_of now r))).
  assert (Step : add_cached (pre ++ (k, m) :: post) r now = pre ++ (k, map_insert m r (val_of now r)) :: post).
  { unfold add_cached. rewrite (Hall r (or_introl eq_refl)). rewrite (find_node_mid _ _ _ _ Hk).
    destruct (map_get m r) as [v|] eqn:Ev.
    - destruct (map_get_in _ _ _ Ev) as (r0 & Hin & _). destruct (Hc _ Hin) as (x & Hx). cbn [snd] in Hx. subst v.
      apply set_node_mid. exact Hk.
    - apply set_node_mid. exact Hk. }
  rewrite Step. apply IH; [exact Hk| apply map_insert_cached; exact Hc | intros r0 Hr0; apply Hall; right; exact Hr0].
Qed.
(* a first batch for a name not yet in the store creates its node at the end *)
Lemma node_create now k : forall recs st,
  find_node st k = None -> recs <> [] -> (forall r, In r recs -> get_key (rname r) = k) ->
  fold_left (fun s r => add_cached s r now) recs st = st ++ [(k, ins_all now recs [])].
Proof.
  intros recs st Hk Hne Hall. destruct recs as [|r t]; [contradiction|]. cbn [fold_left].
  assert (Step : add_cached st r now = st ++ [(k, [(r, val_of now r)])]).
  { unfold add_cached. rewrite (Hall r (or_introl eq_refl)), Hk. apply set_node_new. exact Hk. }
  rewrite Step. refine (node_fold now k t st [(r, val_of now r)] [] Hk _ _).
  - intros e [<-|[]]. unfold val_of. cbn [snd]. eauto.
  - intros r0 Hr0. apply Hall. right. exact Hr0.
Qed.

(* ---------- the abstract view ---------- *)
Record batch := { b_inst : label; b_recs : list rr; b_now : N }.
Definition batch_ok (service : list label) (b : batch) : Prop :=
  b_recs b <> [] /\ forall r, In r (b_recs b) -> rname r = b_inst b :: service.
Definition gentry := (label * list srec)%type.
Definition gnode (service : list label) (x : gentry) : tnode := (get_key (fst x :: service), snd x).
Fixpoint g_insert (st : list gentry) (b : batch) : list gentry :=
  match st with
  | [] => [(b_inst b, ins_all (b_now b) (b_recs b) [])]
  | (i, m) :: t => if bytes_eqb i (b_inst b) then (i, ins_all (b_now b) (b_recs b) m) :: t else (i, m) :: g_insert t b
  end.
Definition g_view (bs : list batch) : list gentry := fold_left g_insert bs [].
Definition receive_batches (bs : list batch) (st : store) : store :=
  fold_left (fun s b => fold_left (fun s' r => add_cached s' r (b_now b)) (b_recs b) s) bs st.

Lemma one_batch service b : batch_ok service b -> forall st pre,
  find_node pre (get_key (b_inst b :: service)) = None -> Forall (fun x => cached_only (snd x)) st ->
  fold_left (fun s r => add_cached s r (b_now b)) (b_recs b) (pre ++ map (gnode service) st)
  = pre ++ map (gnode service) (g_insert st b).
Proof.
  intros (Hne & Hown). induction st as [|[i m] t IH]; intros pre Hpre Hc.
  - cbn [map g_insert]. rewrite app_nil_r. unfold gnode. cbn [fst snd]. apply node_create; [exact Hpre|exact Hne|].
    intros r Hr. rewrite (Hown r Hr). reflexivity.
  - cbn [map g_insert]. destruct (bytes_eqb i (b_inst b)) eqn:E.
    + apply bytes_eqb_eq in E. subst i. unfold gnode at 1. cbn [fst snd]. cbn [map]. unfold gnode at 2. cbn [fst snd].
      apply node_fold; [exact Hpre|exact (Forall_inv Hc)|]. intros r Hr. rewrite (Hown r Hr). reflexivity.
    + cbn [map].
      replace (pre ++ gnode service (i, m) :: map (gnode service) t) with ((pre ++ [gnode service (i, m)]) ++ map (gnode service) t)
        by (rewrite <- app_assoc; reflexivity).
      rewrite IH.
      * rewrite <- app_assoc. reflexivity.
      * rewrite find_node_app_none by exact Hpre. unfold gnode. cbn [fst snd find_node].
        destruct (bytes_eqb (get_key (i :: service)) (get_key (b_inst b :: service))) eqn:Ek; [|reflexivity].
        apply bytes_eqb_eq in Ek. apply peer_key_inj in Ek. rewrite Ek in E. rewrite (proj2 (bytes_eqb_eq _ _) eq_refl) in E. discriminate.
      * exact (Forall_inv_tail Hc).
Qed.
Lemma g_insert_cached st b : Forall (fun x => cached_only (snd x)) st -> Forall (fun x : gentry => cached_only (snd x)) (g_insert st b).
Proof.
  induction st as [|[i m] t IH]; intros H; cbn [g_insert].
  - constructor; [|constructor]. cbn [snd]. apply ins_all_cached. intros e [].
  - destruct (bytes_eqb i (b_inst b)).
    + constructor; [cbn [snd]; apply ins_all_cached; exact (Forall_inv H)|exact (Forall_inv_tail H)].
    + constructor; [exact (Forall_inv H)|apply IH; exact (Forall_inv_tail H)].
Qed.

Theorem receive_batches_view : forall service me ttl0 bs st,
  Forall (batch_ok service) bs -> Forall (fun x => cached_only (snd x)) st ->
  receive_batches bs (fresh_store service me ttl0 ++ map (gnode service) st)
  = fresh_store service me ttl0 ++ map (gnode service) (fold_left g_insert bs st).
Proof.
  intros service me ttl0. induction bs as [|b bs IH]; intros st Hok Hc; [reflexivity|].
  unfold receive_batches. cbn [fold_left]. fold (receive_batches bs).
  rewrite (one_batch service b (Forall_inv Hok) st).
  - apply IH; [exact (Forall_inv_tail Hok)|apply g_insert_cached; exact Hc].
  - change (fresh_store service me ttl0) with [(get_key service, [(ptr_rr service me ttl0, Auth)])]. cbn [find_node].
    rewrite get_key_cons, bytes_eqb_longer. reflexivity.
  - exact Hc.
Qed.

(* the unexpired records of an entry, in the order they were first received *)
Definition live (now' : N) (m : list srec) : list rr :=
  map fst (filter (fun e : rr * kind => match_filter filter_cached (snd e) now') m).
Lemma inst_of_group_nil service : inst_of_group service [] = [].
Proof. reflexivity. Qed.
Lemma entries_groups_gen service now' : forall st : list gentry,
  List.concat (map (inst_of_group service) (filter nonempty (map (pick_cached now')
     (filter (fun n => is_prefix (get_key service) (fst n)) (map (gnode service) st)))))
  = List.concat (map (fun x : gentry => inst_of_group service (live now' (snd x))) st).
Proof.
  induction st as [|[i m] st IH]; [reflexivity|].
  cbn [map filter]. unfold gnode at 1. cbn [fst snd]. rewrite get_key_cons, is_prefix_app. fold (gnode service (i, m)).
  cbn [map]. change (pick_cached now' (gnode service (i, m))) with (live now' m).
  destruct (live now' m) as [|r0 rt] eqn:El.
  - cbn [filter nonempty map List.concat app]. exact IH.
  - cbn [filter nonempty map List.concat]. f_equal. exact IH.
Qed.

(* C15, general: whatever batches arrive, in whatever order and at whatever times *)
Theorem known_after_any_batches : forall service me ttl0 bs now',
  Forall (batch_ok service) bs ->
  known_services (receive_batches bs (fresh_store service me ttl0)) service now' =
  List.concat (map (fun x : gentry => inst_of_group service (live now' (snd x))) (g_view bs)).
Proof.
  intros service me ttl0 bs now' Hok.
  pose proof (receive_batches_view service me ttl0 bs [] Hok (Forall_nil _)) as Hs.
  cbn [map] in Hs. rewrite app_nil_r in Hs. rewrite Hs. fold (g_view bs).
  change (fresh_store service me ttl0) with [(get_key service, [(ptr_rr service me ttl0, Auth)])].
  rewrite known_services_unfold by (apply node_exists_key with (m := [(ptr_rr service me ttl0, Auth)]); left; reflexivity).
  cbn [app filter fst]. rewrite is_prefix_refl. cbn [map].
  change (pick_cached now' (get_key service, [(ptr_rr service me ttl0, Auth)])) with (@nil rr).
  cbn [filter nonempty]. apply entries_groups_gen.
Qed.

(* the view, spelled out: a record equal to one held (same owner, class and data) takes the new expiry where it is; a new one
   goes to the end *)
Lemma ins_all_step now r t m : ins_all now (r :: t) m = ins_all now t (map_insert m r (val_of now r)).
Proof. reflexivity. Qed.
Lemma map_insert_spec m r v :
  (forall e, In e m -> rr_eqb (fst e) r = false) -> map_insert m r v = m ++ [(r, v)].
Proof. exact (map_insert_new m r v). Qed.

(* a re-announcement that changes the data, on concrete values: the instance is first announced with two addresses (TTL 120 s at
   tick 10), then again with a third address and a shorter TTL (60 s at tick 50). The records heard before take the new expiry,
   the new address is added; the merged instance is reported until tick 50 + 2*60 and nothing afterwards - although the first
   announcement alone would have lasted until tick 250 *)
Definition sample_its : list (N * list byte) := [(0, map bN [107; 61; 118]); (0, map bN [101; 61]); (0, map bN [110])].
Definition sample_full : list label := map bN [112; 49] :: sample_service.
Definition sample_instance' : instance :=
  {| i_name := i_name sample_instance; i_ips := i_ips sample_instance ++ [(false, 167772162)]; i_ports := i_ports sample_instance;
     i_attrs := i_attrs sample_instance |}.
Definition sample_batches : list batch :=
  [ {| b_inst := map bN [112; 49]; b_recs := instance_records sample_instance sample_full 120 sample_its; b_now := 10 |};
    {| b_inst := map bN [112; 49]; b_recs := instance_records sample_instance' sample_full 60 sample_its; b_now := 50 |} ].
Example sample_batches_ok : Forall (batch_ok sample_service) sample_batches.
Proof.
  repeat constructor; try discriminate; intros r Hr; cbn in Hr; repeat (destruct Hr as [<-|Hr]; [reflexivity|]); destruct Hr.
Qed.
Example changed_reannouncement :
  let merged := {| i_name := map bN [112; 49]; i_ips := i_ips sample_instance ++ [(false, 167772162)]; i_ports := [8080];
                   i_attrs := rev (i_attrs sample_instance) |} in
  let st := receive_batches sample_batches (fresh_store sample_service [map bN [109; 101]; map bN [95; 115]] 120) in
  known_services st sample_service 100 = [merged] /\ known_services st sample_service 169 = [merged] /\
  known_services st sample_service 170 = [] /\ known_services st sample_service 249 = [].
Proof. vm_compute. repeat split. Qed.
