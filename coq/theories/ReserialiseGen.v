(* C11 without the "no stray OPT record" side condition *)
Require Import SD.Base SD.BaseProofs SD.Sweep SD.Codes SD.CodesProofs SD.Header SD.HeaderProofs SD.Name SD.NameProofs
  SD.RData SD.Spec SD.RDataProofs SD.Packet SD.PacketProofs SD.RoundTrip SD.CompressProofs SD.CompressRoundTrip SD.Reserialise SD.StrayOpt.
From Coq Require Import ZArith ZifyN ZifyNat ZifyBool.
Ltac Zify.zify_post_hook ::= Z.div_mod_to_equations.

Lemma parse_rr_opt_image d p r e : parse_rr d p = Ok (r, e) -> type_of_rdata (rdata_of r) = TY M_OPT -> opt_rr_ok r.
Proof.
  unfold parse_rr. destruct (parse_name d p) as [[name p1]|x|s|] eqn:En; try discriminate.
  destruct (len d <? p1 + 8) eqn:E8; [discriminate|].
  destruct (be_at d (p1 + 2) 2) as [cv|]; [|discriminate]. destruct (be_at d (p1 + 4) 4) as [ttl|] eqn:Ettl; [|discriminate].
  destruct (parse_rdata d p1) as [[rd p2]|x|s|] eqn:Erd; try discriminate.
  pose proof (be_at_bound _ _ _ _ Ettl) as [Httl _]. change (256 ^ N.of_nat 4) with 4294967296 in Httl.
  assert (G : type_of_rdata rd = TY M_OPT ->
              exists u c, rd = RD M_OPT [V_int u; V_int (version_of ttl); V_items c] /\ u < 65536 /\ wf_items I_optcode c /\
                          len (opt_codes_bytes c) <= 65535).
  { intros Hty. revert Erd. unfold parse_rdata. destruct (len d <? p1 + 10) eqn:E; [discriminate|].
    destruct (be_at d p1 2) as [tc|]; [|discriminate]. destruct (be_at d (p1 + 8) 2) as [rdlen|] eqn:Erl; [|discriminate].
    apply be_at_bound in Erl. change (256 ^ N.of_nat 2) with 65536 in Erl.
    destruct (ty_eqb (type_of_code tc) (TY M_OPT)) eqn:Et.
    - destruct (len d <? p1 + rdlen + 10) eqn:E2; [discriminate|].
      set (d' := firstn (N.to_nat (p1 + rdlen + 10)) d).
      destruct (parse_opt d' p1) as [[vs q]|x|s|] eqn:Eo; try discriminate.
      intros H. injection H as <- <-.
      destruct (parse_opt_image _ _ _ _ Eo) as (u & v & c & -> & (Hu & Hv & Hc & Hl)); [unfold d'; rewrite len_firstn by lia; lia|].
      exists u, c. cbn [o_udp o_codes o_version] in *. split; [|split; [exact Hu|split; [exact Hc|exact Hl]]].
      (* the version comes from the same four TTL bytes *)
      revert Eo. unfold parse_opt. destruct (len d' <? p1 + 10); [discriminate|].
      destruct (be_at d' (p1 + 2) 2) as [u'|]; [|discriminate]. destruct (be_at d' (p1 + 4) 4) as [ttl'|] eqn:Et'; [|discriminate].
      destruct (parse_items _ _ d' (p1 + 10) None) as [[c' q']|x|s|]; try discriminate. intros H. injection H as <- <- <- _.
      unfold d' in Et'. rewrite be_at_firstn in Et' by (cbn; lia). rewrite Ettl in Et'. injection Et' as <-. reflexivity.
    - intros H. exfalso. destruct (rdlen =? 0).
      + injection H as <- <-. cbn in Hty. rewrite Hty in Et. vm_compute in Et. discriminate.
      + destruct (len d <? p1 + 10 + rdlen) eqn:E2; [discriminate|].
        pose proof (parse_rdata_typed_safe (firstn (N.to_nat (p1 + 10 + rdlen)) d) (p1 + 10) (type_of_code tc)) as T.
        rewrite len_firstn in T by lia. specialize (T ltac:(lia) Et (type_of_code_unknown tc)).
        destruct (parse_rdata_typed _ _ _) as [[rd' e']|x|s|]; try discriminate. injection H as <- <-.
        destruct T as [_ T]. rewrite T in Hty. rewrite Hty in Et. vm_compute in Et. discriminate. }
  destruct (ty_eqb (type_of_rdata rd) (TY M_OPT)) eqn:Et.
  - intros H. injection H as <- <-. cbn [rdata_of]. intros Hty. destruct (G Hty) as (u & c & -> & Hu & Hc & Hl).
    exists u, c. cbn [rdata_of rttl rclass rcf rname]. split; [reflexivity|]. split; [exact Hu|]. split; [exact Hc|]. split; [exact Hl|].
    split; [reflexivity|]. split; [reflexivity|]. split; [|exact Httl]. apply parse_name_sound in En. unfold wf_name. tauto.
  - destruct (class_of_code (N.land cv 32767)) as [cl|x|s|]; try discriminate. intros H. injection H as <- <-.
    cbn [rdata_of]. intros Hty. rewrite Hty in Et. vm_compute in Et. discriminate.
Qed.

Lemma parse_rr_ok d p r e : parse_rr d p = Ok (r, e) -> rdata_fits (rdata_of r) -> rr_ok r.
Proof.
  intros H Hfit. destruct (ty_eqb (type_of_rdata (rdata_of r)) (TY M_OPT)) eqn:E.
  - right. apply ty_eqb_eq in E. eapply parse_rr_opt_image; eassumption.
  - left. eapply parse_rr_image; [exact H| |exact Hfit]. intros Heq. rewrite Heq in E. vm_compute in E. discriminate.
Qed.

Definition rr_fit_image (r : rr) : Prop := rdata_fits (rdata_of r) -> rr_ok r.
Lemma image_ok l : Forall rr_fit_image l -> Forall (fun r => rdata_fits (rdata_of r)) l -> Forall rr_ok l.
Proof.
  induction l as [|x r IH]; intros A B; constructor.
  - apply (Forall_inv A). exact (Forall_inv B).
  - apply IH; eapply Forall_inv_tail; eassumption.
Qed.

Theorem parse_packet_image_gen : forall d p, parse_packet d = Ok p ->
  named_opcode (h_opcode (hdr p)) -> named_rcode (h_rcode (hdr p)) -> rdata_fit p -> wf_packet_gen p.
Proof.
  intros d p. unfold parse_packet.
  destruct (parse_header d) as [h|e|s|] eqn:Eh; try discriminate.
  destruct (parse_header_image d h Eh) as (Hid & Hfl & Hrc & Hl).
  unfold peek_questions, peek_answers, peek_name_servers, peek_additional_records, peek16.
  destruct (be_at_some d 4 2) as (qd & -> & Bq); [cbn; lia|].
  destruct (be_at_some d 6 2) as (an & -> & Ba); [cbn; lia|].
  destruct (be_at_some d 8 2) as (ns & -> & Bn); [cbn; lia|].
  destruct (be_at_some d 10 2) as (ar & -> & Bx); [cbn; lia|].
  change (256 ^ N.of_nat 2) with 65536 in *.
  destruct (parse_section parse_question (N.to_nat qd) d 12) as [[q p1]|e|s|] eqn:E1; try discriminate.
  destruct (parse_section parse_rr (N.to_nat an) d p1) as [[a p2]|e|s|] eqn:E2; try discriminate.
  destruct (parse_section parse_rr (N.to_nat ns) d p2) as [[n p3]|e|s|] eqn:E3; try discriminate.
  destruct (parse_section parse_rr (N.to_nat ar) d p3) as [[x p4]|e|s|] eqn:E4; try discriminate.
  destruct (parse_section_image parse_question wf_question parse_question_image _ _ _ _ _ E1) as [Fq Lq].
  assert (PI : forall d0 p0 x0 e0, parse_rr d0 p0 = Ok (x0, e0) -> rr_fit_image x0) by (intros d0 p0 x0 e0 H Hf; eapply parse_rr_ok; eassumption).
  destruct (parse_section_image parse_rr rr_fit_image PI _ _ _ _ _ E2) as [Fa La].
  destruct (parse_section_image parse_rr rr_fit_image PI _ _ _ _ _ E3) as [Fn Ln].
  destruct (parse_section_image parse_rr rr_fit_image PI _ _ _ _ _ E4) as [Fx Lx].
  destruct (parse_section_image parse_rr rr_image parse_rr_rr_image _ _ _ _ _ E4) as [Fx2 _].
  destruct (take_first_opt x) as [[o x']|] eqn:Eo.
  - destruct (take_first_opt_spec _ _ _ Eo) as (To & Io & Sub & Len).
    destruct (optv_of (rdata_of o)) as [ov|] eqn:Eov; [|discriminate].
    intros H. injection H as <-. cbn [hdr popt qs ans nss adds h_opcode h_rcode h_id h_flags].
    intros Hop Hrcn Hfit. unfold rdata_fit in *. cbn [ans nss adds] in *.
    apply Forall_app in Hfit. destruct Hfit as [Ta Hfit]. apply Forall_app in Hfit. destruct Hfit as [Tn Tx].
    assert (Fx' : Forall rr_fit_image x').
    { rewrite Forall_forall in *. intros y Hy. apply Fx. apply Sub. exact Hy. }
    constructor; cbn [hdr popt qs ans nss adds h_opcode h_rcode h_id h_flags]; try assumption.
    + intros Hx. discriminate.
    + intros o' Ho'. injection Ho' as <-.
      rewrite Forall_forall in Fx2. destruct (proj2 (Fx2 o Io) To) as (u & v & c & Erd & Hw). rewrite Erd in Eov.
      cbn [optv_of] in Eov. injection Eov as <-. exact Hw.
    + apply image_ok; assumption.
    + apply image_ok; assumption.
    + apply image_ok; assumption.
    + intros Hx. discriminate.
    + unfold opt_count. cbn [popt]. unfold len in *. lia.
  - intros H. injection H as <-. cbn [hdr popt qs ans nss adds].
    intros Hop Hrcn Hfit. unfold rdata_fit in *. cbn [ans nss adds] in *.
    apply Forall_app in Hfit. destruct Hfit as [Ta Hfit]. apply Forall_app in Hfit. destruct Hfit as [Tn Tx].
    constructor; cbn [hdr popt qs ans nss adds]; try assumption.
    + intros _. apply Hrc. exact Hrcn.
    + intros o' Ho'. discriminate.
    + apply image_ok; assumption.
    + apply image_ok; assumption.
    + apply image_ok; assumption.
    + intros _. exact Eo.
    + unfold opt_count. cbn [popt]. unfold len in *. lia.
Qed.

Lemma rr_ok_writable r : rr_ok r -> rdata_writable (rdata_of r) = true.
Proof.
  intros [(_ & _ & H)|(u & c & E & _)]; [apply wf_rdata_writable; exact H|rewrite E; reflexivity].
Qed.
Lemma wf_packet_gen_writable p : wf_packet_gen p -> packet_writable p = true.
Proof.
  intros [_ _ _ _ _ _ _ Ha Hn Hx _ _]. unfold packet_writable. apply forallb_forall. intros r Hr.
  rewrite !in_app_iff in Hr. rewrite Forall_forall in Ha, Hn, Hx. apply rr_ok_writable. destruct Hr as [Hr|[Hr|Hr]]; auto.
Qed.

(* C11: every accepted message whose opcode / response code are named and whose RDATA re-encode within 65535 bytes
   re-serialises (plain and compressed) to bytes that parse to the same packet; the compressed form is not longer *)
Theorem reserialise_gen : forall d p, parse_packet d = Ok p ->
  named_opcode (h_opcode (hdr p)) -> named_rcode (h_rcode (hdr p)) -> rdata_fit p ->
  exists b bc, write_packet p = Ok b /\ write_packet_compressed p = Ok bc /\ parse_packet b = Ok p /\ parse_packet bc = Ok p /\ len bc <= len b.
Proof.
  intros d p Hp Ho Hr Hf. pose proof (parse_packet_image_gen d p Hp Ho Hr Hf) as Hw.
  exists (enc_packet p), (encc_packet p). unfold write_packet, write_packet_compressed. rewrite (wf_packet_gen_writable p Hw).
  destruct (packet_roundtrip_compressed_gen p Hw) as [R L]. rewrite (packet_roundtrip_gen p Hw). tauto.
Qed.

(* a message with two OPT records: the first is lifted, the second stays in the additional section, and it survives *)
Definition two_opt_message : list byte :=
  map bN [0;7; 0;0; 0;0; 0;0; 0;0; 0;2;   0; 0;41; 4;208; 0;0;0;0; 0;0;   0; 0;41; 2;0; 0;1;0;0; 0;4; 0;10;0;0].
Example two_opt_survives :
  exists p, parse_packet two_opt_message = Ok p /\ popt p <> None /\ ~ no_stray_opt p /\
            parse_packet (enc_packet p) = Ok p /\ parse_packet (encc_packet p) = Ok p.
Proof.
  eexists. split; [vm_compute; reflexivity|]. split; [discriminate|]. split.
  - intros H. unfold no_stray_opt in H. cbn in H. apply Forall_inv in H. apply H. reflexivity.
  - split; vm_compute; reflexivity.
Qed.
