(* Canonical text form of packets shared by both drivers (printer and reader). No proofs here.
   PKT id opcode rcode flags7 OPT nq q.. na rr.. nn rr.. nx rr..
   OPT   := O0 | O1 udp version n {code hex}..
   q     := name qtype-code qclass-code unicast
   name  := n hexlabel..
   rr    := name class-code ttl cache-flush rdata
   rdata := T type-code n field.. | U code hex | E type-code
   field := I hexint | N name | B hex | L n {tag hex}..          (all integers hexadecimal) *)
Require Import SD.Base SD.Text SD.Codes SD.Header SD.Name SD.RData SD.Packet.
From Coq Require Import String.
Open Scope N_scope.

Definition tok := list byte.
Definition nat_tok (n : nat) : tok := N_to_hex (N.of_nat n).

Definition name_toks (ls : list label) : list tok := nat_tok (List.length ls) :: map bytes_to_hex ls.
Definition item_toks (it : N * list byte) : list tok := [N_to_hex (fst it); bytes_to_hex (snd it)].
Definition fval_toks (v : fval) : list tok :=
  match v with
  | V_int x => [s2b "I"; N_to_hex x]
  | V_name ls => s2b "N" :: name_toks ls
  | V_bytes bs => [s2b "B"; bytes_to_hex bs]
  | V_items its => s2b "L" :: nat_tok (List.length its) :: List.concat (map item_toks its)
  end.
Definition rdata_toks (r : rdata) : list tok :=
  match r with
  | RD m vs => s2b "T" :: N_to_hex (code_of_mnem m) :: nat_tok (List.length vs) :: List.concat (map fval_toks vs)
  | RD_null c bs => [s2b "U"; N_to_hex c; bytes_to_hex bs]
  | RD_empty t => [s2b "E"; N_to_hex (code_of_type t)]
  end.
Definition rr_toks (r : rr) : list tok :=
  name_toks (rname r) ++ [N_to_hex (code_of_class (rclass r)); N_to_hex (rttl r); bool_tok (rcf r)] ++ rdata_toks (rdata_of r).
Definition question_toks (q : question) : list tok :=
  name_toks (qname q) ++ [N_to_hex (code_of_qtype (q_type q)); N_to_hex (code_of_qclass (q_class q)); bool_tok (unicast q)].
Definition opt_toks (o : option optv) : list tok :=
  match o with
  | None => [s2b "O0"]
  | Some v => [s2b "O1"; N_to_hex (o_udp v); N_to_hex (o_version v); nat_tok (List.length (o_codes v))]
              ++ List.concat (map item_toks (o_codes v))
  end.
Definition flags7_of (h : header) : tok := List.concat (map (fun f => bool_tok (has_flags h f)) all_flags).
Definition packet_toks (p : packet) : list tok :=
  [s2b "PKT"; N_to_hex (h_id (hdr p)); N_to_hex (opcode_disc (h_opcode (hdr p))); N_to_hex (rcode_disc (h_rcode (hdr p)));
   flags7_of (hdr p)] ++ opt_toks (popt p)
  ++ nat_tok (List.length (qs p)) :: List.concat (map question_toks (qs p))
  ++ nat_tok (List.length (ans p)) :: List.concat (map rr_toks (ans p))
  ++ nat_tok (List.length (nss p)) :: List.concat (map rr_toks (nss p))
  ++ nat_tok (List.length (adds p)) :: List.concat (map rr_toks (adds p)).

(* ---- reader ---- *)
Definition reader (A : Type) := list tok -> option (A * list tok).
Definition r_N : reader N := fun ts => match ts with t :: r => option_map (fun v => (v, r)) (hex_to_N t) | [] => None end.
Definition r_bytes : reader (list byte) :=
  fun ts => match ts with t :: r => option_map (fun v => (v, r)) (hex_to_bytes t) | [] => None end.
Definition r_bool : reader bool :=
  fun ts => match ts with [x31] :: r => Some (true, r) | [x30] :: r => Some (false, r) | _ => None end.
Fixpoint r_rep {A} (n : nat) (R : reader A) : reader (list A) :=
  fun ts => match n with
            | O => Some ([], ts)
            | S k => match R ts with
                     | Some (x, r) => match r_rep k R r with Some (xs, r') => Some (x :: xs, r') | None => None end
                     | None => None end
            end.
Definition r_counted {A} (R : reader A) : reader (list A) :=
  fun ts => match r_N ts with Some (n, r) => if n <? 100000 then r_rep (N.to_nat n) R r else None | None => None end.
Definition r_name : reader (list label) := r_counted r_bytes.
Definition r_item : reader (N * list byte) :=
  fun ts => match r_N ts with Some (t, r) => match r_bytes r with Some (b, r') => Some ((t, b), r') | None => None end | None => None end.
Definition r_fval : reader fval :=
  fun ts => match ts with
            | k :: r =>
              if tok_eqb k "I" then option_map (fun '(v, r') => (V_int v, r')) (r_N r)
              else if tok_eqb k "N" then option_map (fun '(v, r') => (V_name v, r')) (r_name r)
              else if tok_eqb k "B" then option_map (fun '(v, r') => (V_bytes v, r')) (r_bytes r)
              else if tok_eqb k "L" then option_map (fun '(v, r') => (V_items v, r')) (r_counted r_item r)
              else None
            | [] => None end.
Definition r_rdata : reader rdata :=
  fun ts => match ts with
            | k :: r =>
              if tok_eqb k "T" then
                match r_N r with
                | Some (c, r1) => match mnem_of_code c, r_counted r_fval r1 with
                                  | Some m, Some (vs, r2) => Some (RD m vs, r2) | _, _ => None end
                | None => None end
              else if tok_eqb k "U" then
                match r_N r with
                | Some (c, r1) => option_map (fun '(b, r2) => (RD_null c b, r2)) (r_bytes r1)
                | None => None end
              else if tok_eqb k "E" then option_map (fun '(c, r1) => (RD_empty (type_of_code c), r1)) (r_N r)
              else None
            | [] => None end.
Definition r_class : reader class :=
  fun ts => match r_N ts with Some (c, r) => match class_of_code c with Ok k => Some (k, r) | _ => None end | None => None end.
Definition r_rr : reader rr :=
  fun ts => match r_name ts with
            | Some (n, r0) =>
              match r_class r0 with
              | Some (c, r1) =>
                match r_N r1 with
                | Some (ttl, r2) =>
                  match r_bool r2 with
                  | Some (cf, r3) =>
                    option_map (fun '(rd, r4) => ({| rname := n; rclass := c; rttl := ttl; rdata_of := rd; rcf := cf |}, r4)) (r_rdata r3)
                  | None => None end
                | None => None end
              | None => None end
            | None => None end.
(* question type for built packets: what try_from gives, else QTYPE::TYPE(TYPE::from(code)) *)
Definition qtype_built (c : N) : qtype := match qtype_of_code c with Ok q => q | _ => QT (type_of_code c) end.
Definition r_question : reader question :=
  fun ts => match r_name ts with
            | Some (n, r0) =>
              match r_N r0 with
              | Some (qt, r1) =>
                match r_N r1 with
                | Some (qc, r2) =>
                  match qclass_of_code qc, r_bool r2 with
                  | Ok c, Some (u, r3) => Some ({| qname := n; q_type := qtype_built qt; q_class := c; unicast := u |}, r3)
                  | _, _ => None end
                | None => None end
              | None => None end
            | None => None end.
Definition r_opt : reader (option optv) :=
  fun ts => match ts with
            | k :: r =>
              if tok_eqb k "O0" then Some (None, r)
              else if tok_eqb k "O1" then
                match r_N r with
                | Some (u, r1) => match r_N r1 with
                                  | Some (v, r2) => option_map (fun '(c, r3) => (Some {| o_udp := u; o_version := v; o_codes := c |}, r3))
                                                               (r_counted r_item r2)
                                  | None => None end
                | None => None end
              else None
            | [] => None end.
Fixpoint flags_of_bits (bits : list byte) (fs : list N) : N :=
  match bits, fs with
  | b :: br, f :: fr => (match b with x31 => f | _ => 0 end) + flags_of_bits br fr
  | _, _ => 0
  end.
Definition r_packet : reader packet :=
  fun ts => match ts with
            | k :: r =>
              if tok_eqb k "PKT" then
                match r_N r with
                | Some (id, r1) =>
                  match r_N r1 with
                  | Some (op, r2) =>
                    match r_N r2 with
                    | Some (rc, r3) =>
                      match r3 with
                      | fl :: r4 =>
                        match r_opt r4 with
                        | Some (o, r5) =>
                          match r_counted r_question r5 with
                          | Some (q, r6) =>
                            match r_counted r_rr r6 with
                            | Some (a, r7) =>
                              match r_counted r_rr r7 with
                              | Some (n, r8) =>
                                match r_counted r_rr r8 with
                                | Some (x, r9) =>
                                  Some ({| hdr := {| h_id := id; h_opcode := opcode_of_code op; h_rcode := rcode_of_code rc;
                                                    h_flags := flags_of_bits fl all_flags |};
                                          popt := o; qs := q; ans := a; nss := n; adds := x |}, r9)
                                | None => None end
                              | None => None end
                            | None => None end
                          | None => None end
                        | None => None end
                      | [] => None end
                    | None => None end
                  | None => None end
                | None => None end
              else None
            | [] => None end.
