Require Import SD.Base SD.BaseProofs SD.Codes SD.Header SD.Sweep.
From Coq Require Import ZArith ZifyN ZifyNat ZifyBool.
Ltac Zify.zify_post_hook ::= Z.div_mod_to_equations.

(* ---------- the flags word: masks/shifts of the code vs RFC bit positions, all 65536 words ---------- *)
Definition flag_bit_ok (w f : N) (b : bool) : bool := Bool.eqb (N.land (from_bits_truncate w) f =? f) b.
Definition word_ok (w : N) : bool :=
  (N.shiftr (N.land w OPCODE_MASK) 11 =? rfc_opcode w) && (N.land w RESPONSE_CODE_MASK =? rfc_rcode w)
  && Bool.eqb (negb (N.land w RESERVED_MASK =? 0)) (rfc_z w)
  && flag_bit_ok w F_RESPONSE (rfc_qr w) && flag_bit_ok w F_AUTHORITATIVE_ANSWER (rfc_aa w)
  && flag_bit_ok w F_TRUNCATION (rfc_tc w) && flag_bit_ok w F_RECURSION_DESIRED (rfc_rd w)
  && flag_bit_ok w F_RECURSION_AVAILABLE (rfc_ra w) && flag_bit_ok w F_AUTHENTIC_DATA (rfc_ad w)
  && flag_bit_ok w F_CHECKING_DISABLED (rfc_cd w).
Lemma word_sweep : forallb word_ok (upto 65536) = true.
Proof. vm_compute. reflexivity. Qed.

Record word_fields (w : N) (h : header) : Prop := {
  wf_opcode : h_opcode h = opcode_of_code (rfc_opcode w);
  wf_rcode : h_rcode h = rcode_of_code (rfc_rcode w);
  wf_qr : has_flags h F_RESPONSE = rfc_qr w;
  wf_aa : has_flags h F_AUTHORITATIVE_ANSWER = rfc_aa w;
  wf_tc : has_flags h F_TRUNCATION = rfc_tc w;
  wf_rd : has_flags h F_RECURSION_DESIRED = rfc_rd w;
  wf_ra : has_flags h F_RECURSION_AVAILABLE = rfc_ra w;
  wf_ad : has_flags h F_AUTHENTIC_DATA = rfc_ad w;
  wf_cd : has_flags h F_CHECKING_DISABLED = rfc_cd w }.

Lemma header_of_word_rfc : forall id w, w < 65536 ->
  h_id (header_of_word id w) = id /\ word_fields w (header_of_word id w) /\
  (negb (N.land w RESERVED_MASK =? 0)) = rfc_z w.
Proof.
  intros id w H. pose proof (sweep _ _ word_sweep w H) as E. unfold word_ok, flag_bit_ok in E.
  repeat (apply andb_prop in E; destruct E as [E ?]).
  repeat match goal with Hx : Bool.eqb _ _ = true |- _ => apply Bool.eqb_prop in Hx end.
  split; [reflexivity|]. split; [|assumption].
  constructor; unfold has_flags, header_of_word; cbn [h_flags h_opcode h_rcode]; try assumption.
  - f_equal. lia.
  - f_equal. lia.
Qed.

(* ---------- Header::parse on an arbitrary 12-byte header followed by anything ---------- *)
Definition hdr_bytes (id w qd an ns ar : N) : list byte :=
  be_enc 2 id ++ be_enc 2 w ++ be_enc 2 qd ++ be_enc 2 an ++ be_enc 2 ns ++ be_enc 2 ar.

Lemma len_hdr_bytes id w qd an ns ar : len (hdr_bytes id w qd an ns ar) = 12.
Proof. unfold hdr_bytes. rewrite !len_app, !len_be_enc. reflexivity. Qed.

Lemma be_at_hdr : forall id w qd an ns ar rest,
  let d := hdr_bytes id w qd an ns ar ++ rest in
  be_at d 0 2 = Some (id mod 65536) /\ be_at d 2 2 = Some (w mod 65536) /\ be_at d 4 2 = Some (qd mod 65536) /\
  be_at d 6 2 = Some (an mod 65536) /\ be_at d 8 2 = Some (ns mod 65536) /\ be_at d 10 2 = Some (ar mod 65536).
Proof.
  intros id w qd an ns ar rest d. subst d. unfold hdr_bytes. rewrite <- !app_assoc.
  pose proof (fun v post => be_at_here [] 2 v post) as H0. cbn [app] in H0. change (len []) with 0 in H0.
  repeat split.
  - apply H0.
  - rewrite (be_at_skip _ _ 0) by (rewrite len_be_enc; reflexivity). apply H0.
  - rewrite (be_at_skip _ _ 2) by (rewrite len_be_enc; reflexivity).
    rewrite (be_at_skip _ _ 0) by (rewrite len_be_enc; reflexivity). apply H0.
  - rewrite (be_at_skip _ _ 4) by (rewrite len_be_enc; reflexivity).
    rewrite (be_at_skip _ _ 2) by (rewrite len_be_enc; reflexivity).
    rewrite (be_at_skip _ _ 0) by (rewrite len_be_enc; reflexivity). apply H0.
  - rewrite (be_at_skip _ _ 6) by (rewrite len_be_enc; reflexivity).
    rewrite (be_at_skip _ _ 4) by (rewrite len_be_enc; reflexivity).
    rewrite (be_at_skip _ _ 2) by (rewrite len_be_enc; reflexivity).
    rewrite (be_at_skip _ _ 0) by (rewrite len_be_enc; reflexivity). apply H0.
  - rewrite (be_at_skip _ _ 8) by (rewrite len_be_enc; reflexivity).
    rewrite (be_at_skip _ _ 6) by (rewrite len_be_enc; reflexivity).
    rewrite (be_at_skip _ _ 4) by (rewrite len_be_enc; reflexivity).
    rewrite (be_at_skip _ _ 2) by (rewrite len_be_enc; reflexivity).
    rewrite (be_at_skip _ _ 0) by (rewrite len_be_enc; reflexivity). apply H0.
Qed.

Lemma parse_header_bytes : forall id w qd an ns ar rest,
  id < 65536 -> w < 65536 ->
  parse_header (hdr_bytes id w qd an ns ar ++ rest) =
    if rfc_z w then Err InvalidHeaderData else Ok (header_of_word id w).
Proof.
  intros id w qd an ns ar rest Hid Hw. unfold parse_header.
  rewrite len_app, len_hdr_bytes. destruct (12 + len rest <? 12) eqn:E; [lia|].
  destruct (be_at_hdr id w qd an ns ar rest) as (H0 & H2 & _). rewrite H0, H2.
  rewrite !N.mod_small by lia.
  destruct (header_of_word_rfc id w Hw) as (_ & _ & Hz). rewrite Hz. reflexivity.
Qed.

Lemma parse_header_short : forall d, len d < 12 -> parse_header d = Err InsufficientData.
Proof. intros d H. unfold parse_header. destruct (len d <? 12) eqn:E; [reflexivity|lia]. Qed.

Lemma parse_header_no_panic : forall d s, parse_header d <> Panic s.
Proof.
  intros d s. unfold parse_header. destruct (len d <? 12) eqn:E; [discriminate|].
  destruct (be_at_some d 2 2) as (w & -> & _); [cbn; lia|].
  destruct (be_at_some d 0 2) as (i & -> & _); [cbn; lia|].
  destruct (negb _); discriminate.
Qed.

(* every 12+ byte buffer is hdr_bytes of its own fields *)
Lemma parse_header_total : forall d, 12 <= len d ->
  exists id w, id < 65536 /\ w < 65536 /\ be_at d 0 2 = Some id /\ be_at d 2 2 = Some w /\
  parse_header d = if rfc_z w then Err InvalidHeaderData else Ok (header_of_word id w).
Proof.
  intros d H. destruct (be_at_some d 0 2) as (id & Hid & Bid); [cbn; lia|].
  destruct (be_at_some d 2 2) as (w & Hw & Bw); [cbn; lia|].
  exists id, w. change (256 ^ N.of_nat 2) with 65536 in *. repeat split; try assumption.
  unfold parse_header. destruct (len d <? 12) eqn:E; [lia|]. rewrite Hid, Hw.
  destruct (header_of_word_rfc id w Bw) as (_ & _ & Hz). rewrite Hz. reflexivity.
Qed.

(* ---------- peeks ---------- *)
Lemma peek16_short : forall d p, len d < p + 2 -> peek16 d p = Err InvalidHeaderData.
Proof. intros d p H. unfold peek16. rewrite be_at_none; [reflexivity|cbn; lia]. Qed.
Lemma peek16_no_panic : forall d p s, peek16 d p <> Panic s.
Proof. intros d p s. unfold peek16. destruct (be_at d p 2); discriminate. Qed.

Lemma peeks_bytes : forall id w qd an ns ar rest,
  id < 65536 -> w < 65536 -> qd < 65536 -> an < 65536 -> ns < 65536 -> ar < 65536 ->
  let d := hdr_bytes id w qd an ns ar ++ rest in
  peek_id d = Ok id /\ peek_questions d = Ok qd /\ peek_answers d = Ok an /\
  peek_name_servers d = Ok ns /\ peek_additional_records d = Ok ar /\
  peek_opcode d = Ok (opcode_of_code (rfc_opcode w)) /\ peek_rcode d = Ok (rcode_of_code (rfc_rcode w)) /\
  peek_has_flags d F_RESPONSE = Ok (rfc_qr w) /\ peek_has_flags d F_AUTHORITATIVE_ANSWER = Ok (rfc_aa w) /\
  peek_has_flags d F_TRUNCATION = Ok (rfc_tc w) /\ peek_has_flags d F_RECURSION_DESIRED = Ok (rfc_rd w) /\
  peek_has_flags d F_RECURSION_AVAILABLE = Ok (rfc_ra w) /\ peek_has_flags d F_AUTHENTIC_DATA = Ok (rfc_ad w) /\
  peek_has_flags d F_CHECKING_DISABLED = Ok (rfc_cd w).
Proof.
  intros id w qd an ns ar rest Hid Hw Hqd Han Hns Har d.
  destruct (be_at_hdr id w qd an ns ar rest) as (H0 & H2 & H4 & H6 & H8 & H10). fold d in H0, H2, H4, H6, H8, H10.
  rewrite N.mod_small in H0, H2, H4, H6, H8, H10 by lia.
  unfold peek_id, peek_questions, peek_answers, peek_name_servers, peek_additional_records,
    peek_opcode, peek_rcode, peek_has_flags, peek16.
  rewrite H0, H2, H4, H6, H8, H10. cbn [bind].
  destruct (header_of_word_rfc id w Hw) as (_ & [Ho Hr Hqr Haa Htc Hrd Hra Had Hcd] & _).
  unfold has_flags, header_of_word in *. cbn [h_flags h_opcode h_rcode] in *.
  rewrite Ho, Hr, Hqr, Haa, Htc, Hrd, Hra, Had, Hcd. repeat split.
Qed.

(* ---------- flag algebra: all 128 x 128 pairs of flag sets ---------- *)
Fixpoint flagset_aux (fs : list N) (i : N) (k : N) : N :=
  match fs with [] => 0 | f :: r => (if N.testbit i k then f else 0) + flagset_aux r i (k + 1) end.
(* the i-th subset of the seven flags *)
Definition flagset (i : N) : N := flagset_aux all_flags i 0.
Definition has (a f : N) : bool := N.land a f =? f.
Definition set_w (a b : N) : N := N.lor a b.
Definition remove_w (a b : N) : N := N.land a (N.lxor b 65535).

Definition algebra_ok (i j : N) : bool :=
  let a := flagset i in let b := flagset j in
  forallb (fun f => Bool.eqb (has (set_w a b) f) (has a f || has b f)
                    && Bool.eqb (has (remove_w a b) f) (has a f && negb (has b f))) all_flags
  && (N.land (set_w a b) (N.lxor FLAGS_ALL 65535) =? 0) && (N.land (remove_w a b) (N.lxor FLAGS_ALL 65535) =? 0)
  && Bool.eqb (has a b) (forallb (fun f => implb (has b f) (has a f)) all_flags).
Lemma algebra_sweep : forallb (fun i => forallb (algebra_ok i) (upto 128)) (upto 128) = true.
Proof. vm_compute. reflexivity. Qed.

Lemma flag_algebra : forall i j, i < 128 -> j < 128 ->
  let a := flagset i in let b := flagset j in
  (forall f, In f all_flags ->
     has (set_w a b) f = (has a f || has b f) /\ has (remove_w a b) f = (has a f && negb (has b f))) /\
  N.land (set_w a b) (N.lxor FLAGS_ALL 65535) = 0 /\ N.land (remove_w a b) (N.lxor FLAGS_ALL 65535) = 0 /\
  has a b = forallb (fun f => implb (has b f) (has a f)) all_flags.
Proof.
  intros i j Hi Hj a b. pose proof (sweep2 _ _ _ algebra_sweep i j Hi Hj) as E. unfold algebra_ok in E.
  fold a b in E.
  apply andb_prop in E; destruct E as [E E3]. apply andb_prop in E; destruct E as [E E2].
  apply andb_prop in E; destruct E as [E E1].
  split; [|split; [lia|split; [lia|apply Bool.eqb_prop; exact E3]]].
  intros f Hf. rewrite forallb_forall in E. specialize (E f Hf). apply andb_prop in E. destruct E as [Ea Eb].
  apply Bool.eqb_prop in Ea. apply Bool.eqb_prop in Eb. split; assumption.
Qed.

(* every value of PacketFlag (any truncated word) is one of the 128 flag sets *)
Definition idx_of (w : N) : N :=
  b2n (N.testbit w 15) + 2 * b2n (N.testbit w 10) + 4 * b2n (N.testbit w 9) + 8 * b2n (N.testbit w 8)
  + 16 * b2n (N.testbit w 7) + 32 * b2n (N.testbit w 5) + 64 * b2n (N.testbit w 4).
Definition cover_ok (w : N) : bool := (from_bits_truncate w =? flagset (idx_of w)) && (idx_of w <? 128).
Lemma cover_sweep : forallb cover_ok (upto 65536) = true.
Proof. vm_compute. reflexivity. Qed.
Lemma flagsets_cover : forall w, w < 65536 -> exists i, i < 128 /\ from_bits_truncate w = flagset i.
Proof.
  intros w H. pose proof (sweep _ _ cover_sweep w H) as E. unfold cover_ok in E.
  apply andb_prop in E. destruct E as [E1 E2]. exists (idx_of w). split; lia.
Qed.

(* ---------- write side: named opcode x named rcode x every flag set ---------- *)
Definition build_ok (op : opcode) (rc : rcode) (i : N) : bool :=
  let fl := flagset i in
  let h := {| h_id := 0; h_opcode := op; h_rcode := rc; h_flags := fl |} in
  let w := get_flags h in
  (w =? rfc_word (has fl F_RESPONSE) (opcode_disc op) (has fl F_AUTHORITATIVE_ANSWER) (has fl F_TRUNCATION)
                 (has fl F_RECURSION_DESIRED) (has fl F_RECURSION_AVAILABLE) (has fl F_AUTHENTIC_DATA)
                 (has fl F_CHECKING_DISABLED) (rcode_disc rc mod 16))
  && (w <? 65536) && negb (rfc_z w)
  && (opcode_disc (h_opcode (header_of_word 0 w)) =? opcode_disc op)
  && (rcode_disc (h_rcode (header_of_word 0 w)) =? rcode_disc rc mod 16)
  && (h_flags (header_of_word 0 w) =? fl).
Lemma build_sweep :
  forallb (fun op => forallb (fun rc => forallb (build_ok op rc) (upto 128)) all_named_rcodes) all_named_opcodes = true.
Proof. vm_compute. reflexivity. Qed.

Definition named_opcode (op : opcode) : Prop := op <> OpReserved.
Definition named_rcode (rc : rcode) : Prop := rc <> RcReserved.
Lemma named_opcode_in op : named_opcode op -> In op all_named_opcodes.
Proof. unfold named_opcode. destruct op; cbn; intros H; try tauto. Qed.
Lemma named_rcode_in rc : named_rcode rc -> In rc all_named_rcodes.
Proof. unfold named_rcode. destruct rc; cbn; intros H; try tauto. Qed.

Lemma opcode_disc_inj a b : opcode_disc a = opcode_disc b -> a = b.
Proof. destruct a, b; vm_compute; congruence. Qed.
Lemma rcode_disc_inj a b : rcode_disc a = rcode_disc b -> a = b.
Proof. destruct a, b; vm_compute; congruence. Qed.

Lemma build_fields : forall op rc i, named_opcode op -> named_rcode rc -> i < 128 ->
  build_ok op rc i = true.
Proof.
  intros op rc i Hop Hrc Hi. pose proof build_sweep as E.
  rewrite forallb_forall in E. specialize (E op (named_opcode_in op Hop)).
  rewrite forallb_forall in E. specialize (E rc (named_rcode_in rc Hrc)).
  rewrite forallb_forall in E. apply E. apply upto_In. exact Hi.
Qed.

(* get_flags does not depend on the id *)
Lemma get_flags_id : forall h, get_flags h = get_flags {| h_id := 0; h_opcode := h_opcode h; h_rcode := h_rcode h; h_flags := h_flags h |}.
Proof. reflexivity. Qed.

Lemma get_flags_rfc : forall h i, named_opcode (h_opcode h) -> named_rcode (h_rcode h) -> i < 128 -> h_flags h = flagset i ->
  let fl := h_flags h in
  get_flags h = rfc_word (has fl F_RESPONSE) (opcode_disc (h_opcode h)) (has fl F_AUTHORITATIVE_ANSWER) (has fl F_TRUNCATION)
                 (has fl F_RECURSION_DESIRED) (has fl F_RECURSION_AVAILABLE) (has fl F_AUTHENTIC_DATA)
                 (has fl F_CHECKING_DISABLED) (rcode_disc (h_rcode h) mod 16).
Proof.
  intros h i Hop Hrc Hi Hfl fl. pose proof (build_fields _ _ i Hop Hrc Hi) as E. unfold build_ok in E.
  repeat (apply andb_prop in E; destruct E as [E ?]).
  rewrite get_flags_id. subst fl. rewrite Hfl. lia.
Qed.

Lemma write_parse_header : forall h i qd an ns ar rest,
  h_id h < 65536 -> named_opcode (h_opcode h) -> named_rcode (h_rcode h) -> rcode_disc (h_rcode h) < 16 ->
  i < 128 -> h_flags h = flagset i ->
  parse_header (write_header h qd an ns ar ++ rest) = Ok h.
Proof.
  intros [hid hop hrc hfl] i qd an ns ar rest Hid Hop Hrc Hlow Hi Hfl.
  cbn [h_id h_opcode h_rcode h_flags] in *. subst hfl.
  pose proof (build_fields _ _ i Hop Hrc Hi) as E. unfold build_ok in E.
  change (write_header {| h_id := hid; h_opcode := hop; h_rcode := hrc; h_flags := flagset i |} qd an ns ar)
    with (hdr_bytes hid (get_flags {| h_id := 0; h_opcode := hop; h_rcode := hrc; h_flags := flagset i |}) qd an ns ar).
  remember (get_flags {| h_id := 0; h_opcode := hop; h_rcode := hrc; h_flags := flagset i |}) as w eqn:Hw.
  cbv zeta in E.
  apply andb_prop in E; destruct E as [E E6]. apply andb_prop in E; destruct E as [E E5].
  apply andb_prop in E; destruct E as [E E4]. apply andb_prop in E; destruct E as [E E3].
  apply andb_prop in E; destruct E as [E1 E2].
  rewrite parse_header_bytes by lia.
  apply negb_true_iff in E3. rewrite E3.
  f_equal. unfold header_of_word in *. cbn [h_id h_opcode h_rcode h_flags] in *. f_equal.
  - apply opcode_disc_inj. lia.
  - apply rcode_disc_inj. rewrite N.mod_small in E5 by lia. lia.
  - lia.
Qed.
