(* C09: the OPT pseudo-record against an RFC 6891 encoder written from section 6.1.2 *)
Require Import SD.Base SD.BaseProofs SD.Sweep SD.Codes SD.Header SD.HeaderProofs SD.Name SD.RData SD.RDataProofs SD.Packet SD.RoundTrip.
From Coq Require Import ZArith ZifyN ZifyNat ZifyBool.
Ltac Zify.zify_post_hook ::= Z.div_mod_to_equations.

(* RFC 6891 6.1.2 / 6.1.3: NAME = 0 (root); TYPE = 41; CLASS = requestor's UDP payload size;
   TTL = EXTENDED-RCODE(8) VERSION(8) DO(1) Z(15); RDLEN; RDATA = {OPTION-CODE(16) OPTION-LENGTH(16) OPTION-DATA}* *)
Definition rfc6891_option (o : N * list byte) : list byte := be_enc 2 (fst o) ++ be_enc 2 (len (snd o)) ++ snd o.
Definition rfc6891_opt (udp ext version flags : N) (options : list (N * list byte)) : list byte :=
  let rdata := List.concat (map rfc6891_option options) in
  [x00] ++ be_enc 2 41 ++ be_enc 2 udp ++ (be_enc 1 ext ++ be_enc 1 version ++ be_enc 2 flags) ++ be_enc 2 (len rdata) ++ rdata.

Lemma be_enc_4_split a b c : a < 256 -> b < 256 -> c < 65536 ->
  be_enc 4 (a * 16777216 + b * 65536 + c) = be_enc 1 a ++ be_enc 1 b ++ be_enc 2 c.
Proof.
  intros Ha Hb Hc. cbn [be_enc app]. change (256 ^ N.of_nat 3) with 16777216. change (256 ^ N.of_nat 2) with 65536.
  change (256 ^ N.of_nat 1) with 256. change (256 ^ N.of_nat 0) with 1.
  assert (B : forall x y, x mod 256 = y mod 256 -> bN x = bN y) by (intros x y H; unfold bN; rewrite H; reflexivity).
  repeat (f_equal; [apply B; lia|]). f_equal. apply B. lia.
Qed.

(* the TTL the library computes is ext * 2^24 + version * 2^16 (flags 0): checked for every named rcode and version *)
Definition ttl_layout_ok (rc : rcode) (v : N) : bool := ttl_of rc v =? (rcode_disc rc / 16) * 16777216 + v * 65536.
Lemma ttl_layout_sweep : forallb (fun rc => forallb (ttl_layout_ok rc) (upto 256)) all_named_rcodes = true.
Proof. vm_compute. reflexivity. Qed.
Lemma ttl_layout rc v : named_rcode rc -> v < 256 -> ttl_of rc v = (rcode_disc rc / 16) * 16777216 + v * 65536.
Proof.
  intros Hrc Hv. pose proof ttl_layout_sweep as E. rewrite forallb_forall in E. specialize (E rc (named_rcode_in rc Hrc)).
  pose proof (sweep _ _ E v Hv) as T. unfold ttl_layout_ok in T. lia.
Qed.

(* the record the library writes for EDNS data is exactly the RFC 6891 encoding *)
Theorem opt_record_is_rfc6891 : forall o h, wf_opt o -> named_rcode (h_rcode h) ->
  enc_rr (opt_record o h) = rfc6891_opt (o_udp o) (rcode_disc (h_rcode h) / 16) (o_version o) 0 (o_codes o).
Proof.
  intros o h Hw Hrc. rewrite (enc_opt_record o h Hw). destruct Hw as (Hu & Hv & _ & _).
  unfold rfc6891_opt, rr_fixed. change (encode_ttl o h) with (ttl_of (h_rcode h) (o_version o)).
  rewrite (ttl_layout _ _ Hrc Hv).
  assert (Hext : rcode_disc (h_rcode h) / 16 < 256) by (destruct (h_rcode h); vm_compute; reflexivity).
  replace (rcode_disc (h_rcode h) / 16 * 16777216 + o_version o * 65536)
    with (rcode_disc (h_rcode h) / 16 * 16777216 + o_version o * 65536 + 0) by lia.
  rewrite be_enc_4_split by lia.
  assert (E : forall its, List.concat (map (enc_item I_optcode) its) = List.concat (map rfc6891_option its)).
  { induction its as [|it r IH]; [reflexivity|]. cbn [map List.concat]. rewrite IH. reflexivity. }
  rewrite E. change (bN 0) with x00. rewrite <- !app_assoc. reflexivity.
Qed.

(* the 12-bit response code is split: low 4 bits in the header, upper 8 bits in the OPT TTL *)
Theorem rcode_split : forall p o, wf_packet p -> popt p = Some o ->
  N.land (get_flags (hdr p)) 15 = rcode_disc (h_rcode (hdr p)) mod 16 /\
  N.shiftr (N.land (encode_ttl o (hdr p)) OPT_RCODE_MASK) 24 = rcode_disc (h_rcode (hdr p)) / 16.
Proof.
  intros p o Hw Ho. destruct Hw as [Hid Hop Hrc (i & Hi & Hfl) _ Hopt _ _ _ _ _]. destruct (Hopt o Ho) as (_ & Hv & _ & _).
  split.
  - pose proof (get_flags_rfc (hdr p) i Hop Hrc Hi Hfl) as G. cbv zeta in G. rewrite G. unfold rfc_word.
    assert (Hd : opcode_disc (h_opcode (hdr p)) <= 6) by (destruct (h_opcode (hdr p)); vm_compute; discriminate).
    set (r := rcode_disc (h_rcode (hdr p)) mod 16). assert (Hr : r < 16) by (unfold r; lia).
    replace 15 with (N.ones 4) by reflexivity. rewrite N.land_ones. change (2 ^ 4) with 16.
    unfold b2n. destruct (has _ F_RESPONSE), (has _ F_AUTHORITATIVE_ANSWER), (has _ F_TRUNCATION), (has _ F_RECURSION_DESIRED),
      (has _ F_RECURSION_AVAILABLE), (has _ F_AUTHENTIC_DATA), (has _ F_CHECKING_DISABLED); lia.
  - destruct (ttl_facts (h_rcode (hdr p)) (o_version o) Hrc Hv) as (_ & _ & _ & T4). exact T4.
Qed.

(* the OPT record is lifted from wherever it sits in the additional section: the first record of type OPT is removed,
   the others keep their order *)
Lemma take_first_opt_anywhere : forall pre o post,
  Forall (fun r => type_of_rdata (rdata_of r) <> TY M_OPT) pre -> type_of_rdata (rdata_of o) = TY M_OPT ->
  take_first_opt (pre ++ o :: post) = Some (o, pre ++ post).
Proof.
  induction pre as [|x r IH]; intros o post Hpre Ho; cbn [app take_first_opt].
  - rewrite Ho. change (ty_eqb (TY M_OPT) (TY M_OPT)) with true. reflexivity.
  - rewrite (ty_eqb_false _ _ (Forall_inv Hpre)). rewrite (IH o post (Forall_inv_tail Hpre) Ho). reflexivity.
Qed.
