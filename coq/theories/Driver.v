(* The case interpreter of the correspondence check: one text line in, one canonical text line out.
   The Rust harness (`impldrv`) implements the same protocol on top of the real library. No proofs here. *)
Require Import SD.Base SD.Text SD.Codes SD.Header SD.Name SD.RData SD.Packet SD.PktText SD.TextApi SD.Store SD.Pipeline SD.Owned SD.WfBool SD.Lossy.
From Coq Require Import String.
Open Scope N_scope.

Definition err_line (e : err) : list byte :=
  match e with
  | InsufficientData => s2b "ERR InsufficientData"
  | InvalidDnsPacket => s2b "ERR InvalidDnsPacket"
  | InvalidServiceLabel => s2b "ERR InvalidServiceLabel"
  | InvalidServiceName => s2b "ERR InvalidServiceName"
  | InvalidCharacterString => s2b "ERR InvalidCharacterString"
  | InvalidHeaderData => s2b "ERR InvalidHeaderData"
  | AttemptedInvalidOperation => s2b "ERR AttemptedInvalidOperation"
  | InvalidClass c => s2b "ERR InvalidClass " ++ N_to_hex c
  | InvalidQClass c => s2b "ERR InvalidQClass " ++ N_to_hex c
  | InvalidQType c => s2b "ERR InvalidQType " ++ N_to_hex c
  | FailedToWrite => s2b "ERR FailedToWrite"
  end.
Definition out_line {A} (o : outcome A) (f : A -> list byte) : list byte :=
  match o with
  | Ok a => s2b "OK " ++ f a
  | Err e => err_line e
  | Panic s => s2b "PANIC " ++ N_to_hex s
  | OutOfFuel => s2b "HANG"
  end.

Definition ty_tok (t : ty) : list byte :=
  match t with TY m => s2b (mnem_name m) | TUnknown c => s2b "Unknown(" ++ N_to_hex c ++ s2b ")" end.
Definition class_tok (c : class) : list byte :=
  s2b (match c with IN => "IN" | CS => "CS" | CH => "CH" | HS => "HS" | NONE => "NONE" end).
Definition qclass_tok (q : qclass) : list byte := match q with QC c => class_tok c | QC_ANY => s2b "ANY" end.
Definition qtype_tok (q : qtype) : list byte :=
  match q with QT t => ty_tok t | QT_IXFR => s2b "IXFR" | QT_AXFR => s2b "AXFR" | QT_MAILB => s2b "MAILB"
             | QT_MAILA => s2b "MAILA" | QT_ANY => s2b "ANY" end.

(* the question type used by MATCH: what try_from gives, or QTYPE::TYPE(TYPE::from(code)) built directly *)
Definition qtype_for_match (c : N) : qtype :=
  match qtype_of_code c with Ok q => q | _ => QT (type_of_code c) end.

Definition run_codes (args : list (list byte)) : list byte :=
  match args with
  | [k; h] =>
    match hex_to_N h with
    | None => s2b "BADCASE"
    | Some c =>
      if tok_eqb k "TYPE" then unwords [ty_tok (type_of_code c); N_to_hex (code_of_type (type_of_code c));
                                         N_to_hex (code_of_qtype (QT (type_of_code c)))]          (* From<TYPE> for QTYPE, back to u16 *)
      else if tok_eqb k "CLASS" then out_line (class_of_code c) (fun k => unwords [class_tok k; N_to_hex (code_of_class k)])
      else if tok_eqb k "QCLASS" then out_line (qclass_of_code c) (fun q => unwords [qclass_tok q; N_to_hex (code_of_qclass q)])
      else if tok_eqb k "QTYPE" then out_line (qtype_of_code c) (fun q => unwords [qtype_tok q; N_to_hex (code_of_qtype q)])
      else if tok_eqb k "OPCODE" then N_to_hex (opcode_disc (opcode_of_code c))
      else if tok_eqb k "RCODE" then N_to_hex (rcode_disc (rcode_of_code c))
      else s2b "BADCASE"
    end
  | _ => s2b "BADCASE"
  end.

(* MATCH <record type code> <record class code> <qtype code> <qclass code> *)
Definition run_match (args : list (list byte)) : list byte :=
  match map hex_to_N args with
  | [Some rt; Some rc; Some qt; Some qc] =>
    match class_of_code rc, qclass_of_code qc with
    | Ok k, Ok q =>
      unwords [ty_tok (type_of_code rt); bool_tok (match_qtype (type_of_code rt) (qtype_for_match qt));
               bool_tok (match_qclass k q)]
    | _, _ => s2b "BADCASE"
    end
  | _ => s2b "BADCASE"
  end.

(* MATCHU: the question type is QTYPE::TYPE(TYPE::from(qt)) built directly *)
Definition run_matchu (args : list (list byte)) : list byte :=
  match map hex_to_N args with
  | [Some rt; Some rc; Some qt; Some qc] =>
    match class_of_code rc, qclass_of_code qc with
    | Ok k, Ok q =>
      unwords [ty_tok (type_of_code rt); bool_tok (match_qtype (type_of_code rt) (QT (type_of_code qt)));
               bool_tok (match_qclass k q)]
    | _, _ => s2b "BADCASE"
    end
  | _ => s2b "BADCASE"
  end.

(* ---- header cases (C08) ---- *)
Definition flags7 (h : header) : list byte := List.concat (map (fun f => bool_tok (has_flags h f)) all_flags).
Definition hdr_tok (h : header) : list byte :=
  unwords [N_to_hex (h_id h); N_to_hex (opcode_disc (h_opcode h)); N_to_hex (rcode_disc (h_rcode h)); flags7 h].
Definition res_tok {A} (o : outcome A) (f : A -> list byte) : list byte :=
  match o with Ok a => f a | Err _ => s2b "E" | Panic _ => s2b "PANIC" | OutOfFuel => s2b "HANG" end.

(* HDR id w qd an ns ar: parse + re-serialise of the header with zero counts, and the eight peeks on the header as given *)
Definition run_hdr (args : list (list byte)) : list byte :=
  match map hex_to_N args with
  | [Some id; Some w; Some qd; Some an; Some ns; Some ar] =>
    let d0 := be_enc 2 id ++ be_enc 2 w ++ be_enc 2 0 ++ be_enc 2 0 ++ be_enc 2 0 ++ be_enc 2 0 in
    let d := be_enc 2 id ++ be_enc 2 w ++ be_enc 2 qd ++ be_enc 2 an ++ be_enc 2 ns ++ be_enc 2 ar in
    let p := match parse_header d0 with
             | Ok h => s2b "OK " ++ hdr_tok h ++ sp ++ bytes_to_hex (write_header h 0 0 0 0)
             | Err e => err_line e | Panic s => s2b "PANIC" | OutOfFuel => s2b "HANG" end in
    unwords [p; s2b "|"; res_tok (peek_id d) N_to_hex; res_tok (peek_questions d) N_to_hex;
             res_tok (peek_answers d) N_to_hex; res_tok (peek_name_servers d) N_to_hex;
             res_tok (peek_additional_records d) N_to_hex;
             List.concat (map (fun f => res_tok (peek_has_flags d f) bool_tok) all_flags);
             res_tok (peek_rcode d) (fun r => N_to_hex (rcode_disc r));
             res_tok (peek_opcode d) (fun o => N_to_hex (opcode_disc o))]
  | _ => s2b "BADCASE"
  end.

(* PEEK <hex buffer>: the eight peeks on an arbitrary (possibly short) buffer *)
Definition run_peek (args : list (list byte)) : list byte :=
  match map hex_to_bytes args with
  | [Some d] =>
    unwords [res_tok (peek_id d) N_to_hex; res_tok (peek_questions d) N_to_hex;
             res_tok (peek_answers d) N_to_hex; res_tok (peek_name_servers d) N_to_hex;
             res_tok (peek_additional_records d) N_to_hex;
             List.concat (map (fun f => res_tok (peek_has_flags d f) bool_tok) all_flags);
             res_tok (peek_rcode d) (fun r => N_to_hex (rcode_disc r));
             res_tok (peek_opcode d) (fun o => N_to_hex (opcode_disc o))]
  | _ => s2b "BADCASE"
  end.

(* PEEKF hex mask: header_buffer::has_flags with a set of flags *)
Definition run_peekf (args : list (list byte)) : list byte :=
  match args with
  | [h; m] => match hex_to_bytes h, hex_to_N m with
              | Some d, Some mask => res_tok (peek_has_flags d (from_bits_truncate mask)) bool_tok
              | _, _ => s2b "BADCASE" end
  | _ => s2b "BADCASE"
  end.

(* FLAGS a b: set / remove / has on PacketFlag::from_bits_truncate of the two words *)
Definition run_flags (args : list (list byte)) : list byte :=
  match map hex_to_N args with
  | [Some a; Some b] =>
    let fa := from_bits_truncate a in let fb := from_bits_truncate b in
    let h := set_flags (new_query 0) fa in
    unwords [flags7 h; flags7 (set_flags h fb); flags7 (remove_flags h fb); bool_tok (has_flags h fb);
             N_to_hex (get_flags (set_flags h fb)); N_to_hex (get_flags (remove_flags h fb))]
  | _ => s2b "BADCASE"
  end.

(* BUILDHDR id opcode rcode flags: header bytes of a packet built through the public setters, and their parse *)
Definition run_buildhdr (args : list (list byte)) : list byte :=
  match map hex_to_N args with
  | [Some id; Some op; Some rc; Some fl] =>
    let h := {| h_id := id; h_opcode := opcode_of_code op; h_rcode := rcode_of_code rc; h_flags := from_bits_truncate fl |} in
    let d := write_header h 0 0 0 0 in
    unwords [bytes_to_hex d;
             match parse_header d with
             | Ok h' => s2b "OK " ++ hdr_tok h'
             | Err e => err_line e | Panic s => s2b "PANIC" | OutOfFuel => s2b "HANG" end]
  | _ => s2b "BADCASE"
  end.

(* COUNTS q a n x opt: a packet with that many minimal entries per section (root-owned, 5-byte questions, 15-byte A records) and
   optionally EDNS data, written plain and compressed: the 12 header bytes and the total length of each output *)
Definition run_counts (args : list (list byte)) : list byte :=
  match map hex_to_N args with
  | [Some q; Some a; Some n; Some x; Some o] =>
    let qq := {| qname := []; q_type := QT (TY M_A); q_class := QC IN; unicast := false |} in
    let r := {| rname := []; rclass := IN; rttl := 0; rdata_of := RD M_A [V_int 0]; rcf := false |} in
    let p := {| hdr := new_query 1; popt := if o =? 0 then None else Some {| o_udp := 512; o_version := 0; o_codes := [] |};
                qs := repeat qq (N.to_nat q); ans := repeat r (N.to_nat a); nss := repeat r (N.to_nat n); adds := repeat r (N.to_nat x) |} in
    let show := fun (w : outcome (list byte)) => out_line w (fun b => unwords [bytes_to_hex (firstn 12 b); N_to_hex (len b)]) in
    unwords [show (write_packet p); s2b "|"; show (write_packet_compressed p)]
  | _ => s2b "BADCASE"
  end.

(* HDRMOD word op rc: parse a header with this flags word, replace opcode and response code through the accessors, serialise *)
Definition run_hdrmod (args : list (list byte)) : list byte :=
  match map hex_to_N args with
  | [Some w; Some op; Some rc] =>
    let d := be_enc 2 4660 ++ be_enc 2 w ++ be_enc 2 0 ++ be_enc 2 0 ++ be_enc 2 0 ++ be_enc 2 0 in
    match parse_header d with
    | Ok h => let h' := {| h_id := h_id h; h_opcode := opcode_of_code op; h_rcode := rcode_of_code rc; h_flags := h_flags h |} in
              s2b "OK " ++ bytes_to_hex (write_header h' 0 0 0 0)
    | Err e => err_line e | Panic s => s2b "PANIC" | OutOfFuel => s2b "HANG"
    end
  | _ => s2b "BADCASE"
  end.

(* ---- packet cases ---- *)
(* PARSE hex: Packet::parse, canonical dump *)
Definition run_parse (args : list (list byte)) : list byte :=
  match map hex_to_bytes args with
  | [Some d] => out_line (parse_packet d) (fun p => unwords (packet_toks p))
  | _ => s2b "BADCASE"
  end.
(* NAME hex pos: Name::parse at an offset *)
Definition run_name (args : list (list byte)) : list byte :=
  match args with
  | [h; p] => match hex_to_bytes h, hex_to_N p with
              | Some d, Some pos => out_line (parse_name d pos) (fun '(ls, e) => unwords (name_toks ls ++ [N_to_hex e]))
              | _, _ => s2b "BADCASE" end
  | _ => s2b "BADCASE"
  end.
(* RR hex pos: ResourceRecord::parse at an offset *)
Definition run_rr (args : list (list byte)) : list byte :=
  match args with
  | [h; p] => match hex_to_bytes h, hex_to_N p with
              | Some d, Some pos => out_line (parse_rr d pos) (fun '(r, e) => unwords (rr_toks r ++ [N_to_hex e]))
              | _, _ => s2b "BADCASE" end
  | _ => s2b "BADCASE"
  end.
(* BUILD mode PKT...: build_bytes_vec (P) / build_bytes_vec_compressed (C) of a packet assembled from its description *)
(* the compression table Packet::write_compressed_to ends with (the same threading of the table as Packet.encc_packet) *)
Definition encc_table (p : packet) : table :=
  let '(bq, t1) := wc_list wc_question (qs p) [] 12 in
  let '(ba, t2) := wc_list wc_rr (ans p) t1 (12 + len bq) in
  let '(bn, t3) := wc_list wc_rr (nss p) t2 (12 + len bq + len ba) in
  let bo := match opt_rr p with Some r => enc_rr r | None => [] end in
  let '(bx, t4) := wc_list wc_rr (adds p) t3 (12 + len bq + len ba + len bn + len bo) in
  t4.
Fixpoint commas (l : list (list byte)) : list byte :=
  match l with [] => [] | [x] => x | x :: r => x ++ [x2c] ++ commas r end.
Definition table_row (e : list label * N) : list byte := commas (name_toks (fst e)) ++ [x40] ++ N_to_hex (snd e).

Definition run_build (args : list (list byte)) : list byte :=
  match args with
  | mode :: rest =>
    match r_packet rest with
    | Some (p, []) =>
      if tok_eqb mode "P" then out_line (write_packet p) bytes_to_hex
      else if tok_eqb mode "C" then out_line (write_packet_compressed p) bytes_to_hex
      else if tok_eqb mode "W" then (if wf_packetb p then s2b "1" else s2b "0")   (* model only: does the C02 hypothesis cover p? *)

      else s2b "BADCASE"
    | _ => s2b "BADCASE"
    end
  | _ => s2b "BADCASE"
  end.

(* RT mode PKT...: serialise (P plain / C compressed), then parse the produced bytes *)
Definition run_rt (args : list (list byte)) : list byte :=
  match args with
  | mode :: rest =>
    match r_packet rest with
    | Some (p, []) =>
      let w := if tok_eqb mode "C" then write_packet_compressed p else write_packet p in
      match w with
      | Ok b => s2b "OK " ++ bytes_to_hex b ++ s2b " | " ++ out_line (parse_packet b) (fun p => unwords (packet_toks p))
      | Err e => err_line e | Panic s => s2b "PANIC" | OutOfFuel => s2b "HANG"
      end
    | _ => s2b "BADCASE"
    end
  | _ => s2b "BADCASE"
  end.

(* REPARSE hex: parse, then re-serialise the parsed packet both ways and parse each result *)
Definition reparse_leg (w : outcome (list byte)) : list byte :=
  match w with
  | Ok b => out_line (parse_packet b) (fun p => unwords (packet_toks p))
  | Err e => s2b "W" ++ err_line e | Panic s => s2b "PANIC" | OutOfFuel => s2b "HANG"
  end.
Definition run_reparse (args : list (list byte)) : list byte :=
  match map hex_to_bytes args with
  | [Some d] =>
    match parse_packet d with
    | Ok p => s2b "OK " ++ unwords (packet_toks p) ++ s2b " | " ++ reparse_leg (write_packet p) ++ s2b " | "
              ++ reparse_leg (write_packet_compressed p)
    | Err e => err_line e | Panic s => s2b "PANIC " ++ N_to_hex s | OutOfFuel => s2b "HANG"
    end
  | _ => s2b "BADCASE"
  end.

(* BUILDW mode kind start storage PKT...: the writer-based entry points.
   kind V = Vec<u8> holding `storage` (append-only Write, plain only); G = Cursor<Vec<u8>> over `storage` positioned at
   `start` (growable); F = Cursor<&mut [u8]> over `storage` positioned at `start` (fixed); S = &mut storage[start..] (fixed,
   Write only, plain only). Result: final storage and position, or the error. *)
Fixpoint zeros (n : nat) : list byte := match n with O => [] | S k => x00 :: zeros k end.
Definition overwrite (storage : list byte) (start : N) (msg : list byte) : list byte :=
  let pre := firstn (N.to_nat start) storage in
  let pad := zeros (N.to_nat start - List.length storage) in
  pre ++ pad ++ msg ++ skipn (N.to_nat (start + len msg)) storage.
Definition write_into (kind : list byte) (start : N) (storage msg : list byte) : outcome (list byte * N) :=
  if tok_eqb kind "V" then Ok (storage ++ msg, len storage + len msg)
  else if tok_eqb kind "G" || tok_eqb kind "Q" || tok_eqb kind "B" then Ok (overwrite storage start msg, start + len msg)   (* Q: a growable writer whose write() accepts a few bytes per call; B: a BufWriter over a growable cursor, H: over a fixed one *)
  else if start + len msg <=? len storage then Ok (overwrite storage start msg, start + len msg)
  else Err FailedToWrite.
Definition run_buildw (args : list (list byte)) : list byte :=
  match args with
  | mode :: kind :: st :: sto :: rest =>
    match hex_to_N st, hex_to_bytes sto, r_packet rest with
    | Some start, Some storage, Some (p, []) =>
      let w := if tok_eqb mode "C" then write_packet_compressed p else write_packet p in
      match w with
      | Ok msg => out_line (write_into kind start storage msg) (fun '(s, e) => unwords [bytes_to_hex s; N_to_hex e])
      | Err e => err_line e | Panic s => s2b "PANIC" | OutOfFuel => s2b "HANG"
      end
    | _, _, _ => s2b "BADCASE"
    end
  | _ => s2b "BADCASE"
  end.

(* MATCHN rt rc qt qc: like MATCH, the record holding RData::NULL(rt, data) *)
Definition run_matchn (args : list (list byte)) : list byte :=
  match map hex_to_N args with
  | [Some rt; Some rc; Some qt; Some qc] =>
    match class_of_code rc, qclass_of_code qc with
    | Ok k, Ok q =>
      let t := type_of_rdata (RD_null rt [x01]) in
      unwords [ty_tok t; bool_tok (match_qtype t (qtype_for_match qt)); bool_tok (match_qclass k q)]
    | _, _ => s2b "BADCASE"
    end
  | _ => s2b "BADCASE"
  end.
(* RRMATCH hex qt qc: a record obtained by parsing, matched against a question type / class *)
Definition run_rrmatch (args : list (list byte)) : list byte :=
  match args with
  | [h; a; b] =>
    match hex_to_bytes h, hex_to_N a, hex_to_N b with
    | Some d, Some qt, Some qc =>
      match qclass_of_code qc with
      | Ok q =>
        out_line (parse_rr d 0) (fun '(r, _) =>
          let t := type_of_rdata (rdata_of r) in
          unwords [ty_tok t; bool_tok (match_qtype t (qtype_for_match qt)); bool_tok (match_qclass (rclass r) q)])
      | _ => s2b "BADCASE"
      end
    | _, _, _ => s2b "BADCASE"
    end
  | _ => s2b "BADCASE"
  end.

(* ---- text API cases (C17, C19, C15 escape) ---- *)
Fixpoint bytes_leb (a b : list byte) : bool :=
  match a, b with
  | [], _ => true
  | _ :: _, [] => false
  | x :: a', y :: b' => let n := Byte.to_N x in let m := Byte.to_N y in if n <? m then true else if m <? n then false else bytes_leb a' b'
  end.
Fixpoint insert_attr (a : attr) (l : list attr) : list attr :=
  match l with [] => [a] | x :: r => if bytes_leb (fst x) (fst a) then x :: insert_attr a r else a :: l end.
Definition sort_attrs (l : list attr) : list attr := fold_right insert_attr [] l.
Definition attr_toks (a : attr) : list (list byte) :=
  match a with (k, Some v) => [bytes_to_hex k; s2b "V"; bytes_to_hex v] | (k, None) => [bytes_to_hex k; s2b "N"] end.
Definition attrs_tok (m : list attr) : list byte :=
  unwords (nat_tok (List.length m) :: List.concat (map attr_toks (sort_attrs m))).

(* NAMENEW utf8-hex: Name::new, Display of the result, Name::new of that *)
Definition run_namenew (args : list (list byte)) : list byte :=
  match map hex_to_bytes args with
  | [Some s] =>
    if negb (valid_utf8 s) then s2b "BADCASE" else
    match name_new s with
    | Ok ls => unwords ([s2b "OK"] ++ name_toks ls ++ [s2b "|"; bytes_to_hex (join_dots ls); s2b "|";
                       out_line (name_new (join_dots ls)) (fun l => unwords (name_toks l));
                       s2b "|"] ++ name_toks (name_new_unchecked s))
    | Err e => unwords ([err_line e; s2b "|"] ++ name_toks (name_new_unchecked s))
    | Panic _ => s2b "PANIC" | OutOfFuel => s2b "HANG"
    end
  | _ => s2b "BADCASE"
  end.
(* SUFFIX nameA nameB: is_subdomain_of, without, is_link_local(A) *)
Definition run_suffix (args : list (list byte)) : list byte :=
  match r_name args with
  | Some (a, rest) =>
    match r_name rest with
    | Some (b, []) =>
      unwords [bool_tok (is_subdomain_of a b);
               match without a b with Some c => unwords (s2b "S" :: name_toks c) | None => s2b "NONE" end;
               bool_tok (is_link_local a)]
    | _ => s2b "BADCASE" end
  | None => s2b "BADCASE"
  end.
Definition run_cstrnew (args : list (list byte)) : list byte :=
  match map hex_to_bytes args with
  | [Some d] => out_line (cstr_new d) bytes_to_hex
  | _ => s2b "BADCASE"
  end.
(* TXTTEXT utf8-hex: TXT::try_from(&str) then String::try_from(TXT) *)
Definition run_txttext (args : list (list byte)) : list byte :=
  match map hex_to_bytes args with
  | [Some s] =>
    if negb (valid_utf8 s) then s2b "BADCASE" else
    match txt_of_text s with
    | Ok strs =>
      (* the same TXT inside a packet: the plain writer takes RDLENGTH from TXT::len(), the compressed one measures it *)
      let p := {| hdr := new_query 1; popt := None; qs := []; nss := []; adds := [];
                  ans := [{| rname := [s2b "t"]; rclass := IN; rttl := 60; rcf := false;
                             rdata_of := RD M_TXT [V_items (map (fun x : list byte => (0, x)) strs)] |}] |} in
      unwords (nat_tok (List.length strs) :: map bytes_to_hex strs ++
               [s2b "|"; out_line (text_of_txt strs) bytes_to_hex; s2b "|"; out_line (write_packet p) bytes_to_hex;
                s2b "|"; out_line (write_packet_compressed p) bytes_to_hex])
    | _ => s2b "ERR"
    end
  | _ => s2b "BADCASE"
  end.
(* TXTATTR n hex...: attributes(), long_attributes(), String::try_from on a TXT holding these strings *)
Definition run_txtattr (args : list (list byte)) : list byte :=
  match r_counted r_bytes args with
  | Some (strs, []) =>
    if forallb (fun s => len s <=? 255) strs then
      unwords [attrs_tok (attributes strs); s2b "|"; out_line (long_attributes strs) attrs_tok; s2b "|";
               out_line (text_of_txt strs) bytes_to_hex]
    else s2b "BADCASE"
  | _ => s2b "BADCASE"
  end.
(* ATTRMAP n {key (N | V value)}...: TXT from a map, attributes() of it *)
Definition r_attr : reader attr :=
  fun ts => match r_bytes ts with
            | Some (k, t :: r) =>
              if tok_eqb t "N" then Some ((k, None), r)
              else if tok_eqb t "V" then match r_bytes r with Some (v, r') => Some ((k, Some v), r') | None => None end
              else None
            | _ => None end.
Definition run_attrmap (args : list (list byte)) : list byte :=
  match r_counted r_attr args with
  | Some (m, []) =>
    match txt_of_attrs m with
    | Ok strs => s2b "OK " ++ attrs_tok (attributes strs)
    | Err e => s2b "ERR" | Panic _ => s2b "PANIC" | OutOfFuel => s2b "HANG"
    end
  | _ => s2b "BADCASE"
  end.
Definition run_escape (args : list (list byte)) : list byte :=
  match map hex_to_bytes args with
  | [Some s] => if negb (valid_utf8 s) then s2b "BADCASE" else
                unwords [bytes_to_hex (escape_name s); bytes_to_hex (unescape_name (escape_name s)); bytes_to_hex (unescape_name s)]
  | _ => s2b "BADCASE"
  end.

(* ---- mDNS store / reply / discovery cases (C13 C14 C15 C20) ----
   STORE op...   with op := AA rr | AC rr | RM rr | CL | T n | Q name filter | R PKT... | I service full PKT... | K service
   Every Q / R / K appends one " | ..." group to the output; unordered results are sorted. *)
Fixpoint insert_tok (a : list byte) (l : list (list byte)) : list (list byte) :=
  match l with [] => [a] | x :: r => if bytes_leb x a then x :: insert_tok a r else a :: l end.
Definition sort_toks (l : list (list byte)) : list (list byte) := fold_right insert_tok [] l.
(* TABLE PKT...: the compression table of the compressed write, sorted *)
Definition run_table (args : list (list byte)) : list byte :=
  match r_packet args with
  | Some (p, []) =>
    out_line (write_packet_compressed p) (fun b => let t := encc_table p in
                                                   unwords (nat_tok (List.length t) :: sort_toks (map table_row t) ++ [s2b "|"; bytes_to_hex b]))
  | _ => s2b "BADCASE"
  end.
Definition rrs_tok (l : list rr) : list byte :=
  unwords (nat_tok (List.length l) :: sort_toks (map (fun r => unwords (rr_toks r)) l)).
Definition groups_tok (g : list (list rr)) : list byte :=
  unwords (nat_tok (List.length g) :: sort_toks (map rrs_tok g)).
Definition ip_tok (ip : bool * N) : list byte := (if fst ip then s2b "6:" else s2b "4:") ++ N_to_hex (snd ip).
Definition instance_tok (i : instance) : list byte :=
  unwords [bytes_to_hex (i_name i);
           unwords (nat_tok (List.length (i_ips i)) :: sort_toks (map ip_tok (i_ips i)));
           unwords (nat_tok (List.length (i_ports i)) :: sort_toks (map N_to_hex (i_ports i)));
           attrs_tok (i_attrs i)].
Definition instances_tok (l : list instance) : list byte :=
  unwords (nat_tok (List.length l) :: sort_toks (map instance_tok l)).
Definition dedup_toks (l : list (list byte)) : list (list byte) :=
  fold_right (fun x acc => if existsb (bytes_eqb x) acc then acc else x :: acc) [] l.

Definition filter_of (n : N) : dfilter :=
  match n with 0 => filter_authoritative false | 1 => filter_authoritative true | 2 => filter_cached | _ => filter_all end.

Fixpoint run_store_ops (fuel : nat) (ts : list (list byte)) (st : store) (now : N) (out : list byte) : list byte :=
  match fuel with
  | O => out ++ s2b " | FUEL"
  | S f =>
    match ts with
    | [] => out
    | op :: rest =>
      if tok_eqb op "AA" then match r_rr rest with Some (r, t) => run_store_ops f t (add_authoritative st r) now out | None => s2b "BADCASE" end
      else if tok_eqb op "AC" then match r_rr rest with Some (r, t) => run_store_ops f t (add_cached st r now) now out | None => s2b "BADCASE" end
      else if tok_eqb op "RM" then match r_rr rest with Some (r, t) => run_store_ops f t (remove_record st r) now out | None => s2b "BADCASE" end
      else if tok_eqb op "CL" then run_store_ops f rest clear_store now out
      else if tok_eqb op "T" then match r_N rest with Some (n, t) => run_store_ops f t st (now + n) out | None => s2b "BADCASE" end
      else if tok_eqb op "Q" then
        match r_name rest with
        | Some (n, t1) => match r_N t1 with
                          | Some (fl, t2) => run_store_ops f t2 st now (out ++ s2b " | Q " ++ groups_tok (query st n (filter_of fl) now))
                          | None => s2b "BADCASE" end
        | None => s2b "BADCASE" end
      else if tok_eqb op "R" then
        match r_packet rest with
        | Some (p, t) =>
          let o := match build_reply st p now with
                   | None => s2b "NONE"
                   | Some r =>
                     unwords [N_to_hex (rp_id r); bool_tok (rp_response r); bool_tok (rp_unicast r); rrs_tok (rp_answers r);
                              rrs_tok (rp_additional r);
                              (* the compressed reply parses back to the same sections *)
                              match write_packet_compressed (reply_packet r) with
                              | Ok b => match parse_packet b with
                                        | Ok q => unwords [s2b "P"; rrs_tok (ans q); rrs_tok (adds q)]
                                        | _ => s2b "PARSEFAIL" end
                              | _ => s2b "WRITEFAIL" end]
                   end in
          run_store_ops f t st now (out ++ s2b " | R " ++ o)
        | None => s2b "BADCASE" end
      else if tok_eqb op "I" then
        match r_name rest with
        | Some (svc, t1) =>
          match r_name t1 with
          | Some (full, t2) =>
            match r_packet t2 with
            | Some (p, t3) =>
              let sent := match ingest_filter svc full p with
                          | [] => s2b "0"
                          | l => instances_tok (match from_records svc l with Some i => [i] | None => [] end) end in
              run_store_ops f t3 (ingest st svc full p now) now (out ++ s2b " | I " ++ sent)
            | None => s2b "BADCASE" end
          | None => s2b "BADCASE" end
        | None => s2b "BADCASE" end
      else if tok_eqb op "D" then
        (* D svc me hex: one datagram through the responder, the one-shot resolver's peeks and the discovery listener *)
        match r_name rest with
        | Some (svc, t1) =>
          match r_name t1 with
          | Some (me, t2) =>
            match r_bytes t2 with
            | Some (d, t3) =>
              (* what a handler did, as the harness prints it: a reply is shown as the records a receiver parses out of it *)
              let handled_tok (h : outcome handled) :=
                match h with
                | Ok H_skip => s2b "SKIP" | Ok (H_invalid _) => s2b "ERR" | Ok H_no_reply => s2b "NONE"
                | Ok (H_build_failed _) => s2b "WRITEFAIL"
                | Ok (H_reply b _) => match parse_packet b with
                                      | Ok q => unwords [s2b "REPLY"; rrs_tok (ans q); rrs_tok (adds q)]
                                      | _ => s2b "PARSEFAIL" end
                | Err _ => s2b "ERR" | Panic _ => s2b "PANIC" | OutOfFuel => s2b "HANG"
                end in
              let responder := handled_tok (responder_step st d now) in
              let buf := d ++ zeros (4096 - List.length d) in
              let oneshot := let '(a, b, c) := resolver_peeks buf in
                             unwords [res_tok a bool_tok; res_tok b N_to_hex; res_tok c N_to_hex] in
              match discovery_step st svc me d now with
              | Ok (st', H_skip) =>
                  let sent := match parse_packet d with
                              | Ok p => match ingest_filter svc me p with
                                        | [] => s2b "0"
                                        | l => instances_tok (match from_records svc l with Some i => [i] | None => [] end) end
                              | _ => s2b "0" end in
                  run_store_ops f t3 st' now (out ++ s2b " | D " ++ responder ++ s2b " / " ++ oneshot ++ s2b " / ING " ++ sent)
              | Ok (st', h) => run_store_ops f t3 st' now (out ++ s2b " | D " ++ responder ++ s2b " / " ++ oneshot ++ s2b " / " ++ handled_tok (Ok h))
              | Err _ => run_store_ops f t3 st now (out ++ s2b " | D " ++ responder ++ s2b " / " ++ oneshot ++ s2b " / ERR")
              | Panic _ => s2b "PANIC" | OutOfFuel => s2b "HANG"
              end
            | None => s2b "BADCASE" end
          | None => s2b "BADCASE" end
        | None => s2b "BADCASE" end
      else if tok_eqb op "K" then
        match r_name rest with
        | Some (svc, t) =>
          run_store_ops f t st now (out ++ s2b " | K " ++
             unwords (let l := dedup_toks (map instance_tok (known_services st svc now)) in nat_tok (List.length l) :: sort_toks l))
        | None => s2b "BADCASE" end
      else s2b "BADCASE"
    end
  end.
Definition run_store (args : list (list byte)) : list byte := run_store_ops (S (List.length args)) args [] 0 (s2b "OK").

(* HISTB h1 ;; h2 ;; ...: independent histories; outputs joined by " ;; " *)
Fixpoint split_hists (ts cur : list (list byte)) : list (list (list byte)) :=
  match ts with
  | [] => [rev cur]
  | t :: r => if tok_eqb t ";;" then rev cur :: split_hists r [] else split_hists r (t :: cur)
  end.
Fixpoint join_hists (l : list (list byte)) : list byte :=
  match l with [] => [] | [x] => x | x :: r => x ++ s2b " ;; " ++ join_hists r end.
Definition run_histb (args : list (list byte)) : list byte := join_hists (map run_store (split_hists args [])).

(* DISC svc me ttl n peer...   peer := svc inst nips {4|6 addr}.. nports port.. attrs
   A discoverer watching `svc` under its own instance name `me` receives, one compressed packet per peer, the records
   each peer's InstanceInformation::into_records produces; output: what each packet sent to the discovery channel, then
   get_known_services. *)
Definition r_ip : reader (bool * N) :=
  fun ts => match ts with
            | k :: r => match r_N r with
                        | Some (a, r') => if tok_eqb k "6" then Some ((true, a), r') else if tok_eqb k "4" then Some ((false, a), r') else None
                        | None => None end
            | [] => None end.
Record peer := { p_svc : list byte; p_inst : list byte; p_ips : list (bool * N); p_ports : list N; p_attrs : list attr }.
Definition r_peer : reader peer :=
  fun ts => match r_bytes ts with
            | Some (svc, t1) =>
              match r_bytes t1 with
              | Some (inst, t2) =>
                match r_counted r_ip t2 with
                | Some (ips, t3) =>
                  match r_counted r_N t3 with
                  | Some (ports, t4) =>
                    match r_counted r_attr t4 with
                    | Some (attrs, t5) => Some ({| p_svc := svc; p_inst := inst; p_ips := ips; p_ports := ports; p_attrs := attrs |}, t5)
                    | None => None end
                  | None => None end
                | None => None end
              | None => None end
            | None => None end.
Definition full_name_of (inst svc : list byte) : outcome (list label) := name_new (escape_name inst ++ DOT :: svc).
Definition announce_bytes (p : peer) (ttl : N) : outcome (list byte) :=
  match full_name_of (p_inst p) (p_svc p) with
  | Ok full =>
    match into_records {| i_name := p_inst p; i_ips := p_ips p; i_ports := p_ports p; i_attrs := p_attrs p |} full ttl with
    | Ok recs => write_packet_compressed {| hdr := new_reply 1 StandardQuery; popt := None; qs := []; ans := recs; nss := []; adds := [] |}
    | Err e => Err e | Panic s => Panic s | OutOfFuel => OutOfFuel
    end
  | Err e => Err e | Panic s => Panic s | OutOfFuel => OutOfFuel
  end.
Fixpoint disc_loop (peers : list peer) (svc me : list label) (ttl : N) (st : store) (out : list byte) : list byte :=
  match peers with
  | [] => out ++ s2b " | K " ++ unwords (let l := dedup_toks (map instance_tok (known_services st svc 1)) in nat_tok (List.length l) :: sort_toks l)
  | p :: r =>
    match announce_bytes p ttl with
    | Ok b =>
      match parse_packet b with
      | Ok pk =>
        let sent := match ingest_filter svc me pk with
                    | [] => s2b "0"
                    | l => instances_tok (match from_records svc l with Some i => [i] | None => [] end) end in
        disc_loop r svc me ttl (ingest st svc me pk 0) (out ++ s2b " | I " ++ sent)
      | _ => disc_loop r svc me ttl st (out ++ s2b " | PARSEFAIL")
      end
    | _ => disc_loop r svc me ttl st (out ++ s2b " | E")
    end
  end.
Definition run_disc (args : list (list byte)) : list byte :=
  match r_bytes args with
  | Some (svc_t, t1) =>
    match r_bytes t1 with
    | Some (me_t, t2) =>
      match r_N t2 with
      | Some (ttl, t3) =>
        match r_counted r_peer t3 with
        | Some (peers, []) =>
          match name_new svc_t, full_name_of me_t svc_t with
          | Ok svc, Ok me =>
            let st0 := add_authoritative [] {| rname := svc; rclass := IN; rttl := ttl; rcf := false; rdata_of := RD M_PTR [V_name me] |} in
            disc_loop peers svc me ttl st0 (s2b "OK")
          | _, _ => s2b "ERR"
          end
        | _ => s2b "BADCASE" end
      | None => s2b "BADCASE" end
    | None => s2b "BADCASE" end
  | None => s2b "BADCASE"
  end.

(* OBSERVE hex: the number of fallible text conversions that report an error on the parsed packet (every TXT record:
   String::try_from and long_attributes; every character-string of HINFO ISDN NAPTR CAA: String::try_from) *)
Definition rdata_text_errors (r : rdata) : N :=
  match r with
  | RD M_TXT [V_items its] => if valid_utf8 (List.concat (map (@snd N (list byte)) its)) then 0 else 2
  | RD _ vs => fold_right (fun v a => match v with V_bytes _ => a | _ => a end) 0 vs
  | _ => 0
  end.
Definition cstr_errors (m : mnem) (vs : list fval) : N :=
  let count := fix go (lay : layout) (vs : list fval) : N :=
    match lay, vs with
    | F_cstr :: lr, V_bytes b :: vr => (if valid_utf8 b then 0 else 1) + go lr vr
    | _ :: lr, _ :: vr => go lr vr
    | _, _ => 0
    end in
  count (layout_for m vs) vs.
Definition rr_text_errors (r : rr) : N :=
  rdata_text_errors (rdata_of r) + match rdata_of r with RD m vs => cstr_errors m vs | _ => 0 end.
Definition run_observe (args : list (list byte)) : list byte :=
  match map hex_to_bytes args with
  | [Some d] =>
    match parse_packet d with
    | Ok p => s2b "OK " ++ N_to_hex (fold_right (fun r a => rr_text_errors r + a) 0 (ans p ++ nss p ++ adds p))
    | Err e => s2b "ERR" | Panic _ => s2b "PANIC" | OutOfFuel => s2b "HANG"
    end
  | _ => s2b "BADCASE"
  end.
(* OWN hex: into_owned / clone of every part equals the original and serialises to the same bytes; equal values hash equally *)
Definition run_own (args : list (list byte)) : list byte :=
  match map hex_to_bytes args with
  | [Some d] =>
    match parse_packet d with
    | Ok p => unwords [s2b "OK"; nat_tok (List.length (qs p)); nat_tok (List.length (ans p ++ nss p ++ adds p)); s2b "same"]
    | Err e => s2b "ERR" | Panic _ => s2b "PANIC" | OutOfFuel => s2b "HANG"
    end
  | _ => s2b "BADCASE"
  end.

(* HASHI name n member...: the same members enumerated in two orders: equality of the sets and of the hash token streams *)
Definition r_member : reader (list byte * N) :=
  fun ts => match ts with
            | k :: r =>
              if tok_eqb k "A" then
                (* an attribute: it takes no part in the hash; read and drop it *)
                match r_attr r with Some (_, r') => Some ((k, 0), r') | None => None end
              else option_map (fun '(v, r') => ((k, v), r')) (r_N r)
            | [] => None end.
Fixpoint nlist_eq (a b : list N) : bool :=
  match a, b with [], [] => true | x :: a', y :: b' => (x =? y) && nlist_eq a' b' | _, _ => false end.
Definition run_hashi (args : list (list byte)) : list byte :=
  match r_bytes args with
  | Some (name, t1) =>
    match r_counted r_member t1 with
    | Some (ms, []) =>
      let ips l := List.concat (map (fun m : list byte * N => if tok_eqb (fst m) "4" then [(false, snd m)] else if tok_eqb (fst m) "6" then [(true, snd m)] else []) l) in
      let ports l := List.concat (map (fun m : list byte * N => if tok_eqb (fst m) "P" then [snd m mod 65536] else []) l) in
      let h l := instance_hash_tokens name (ips l) (ports l) in
      let '(_, a1, p1) := h ms in let '(_, a2, p2) := h (rev ms) in
      unwords [bool_tok true; bool_tok (nlist_eq a1 a2 && nlist_eq p1 p2)]
    | _ => s2b "BADCASE" end
  | None => s2b "BADCASE"
  end.

(* EQHASH N a b | EQHASH R rr rr: equality and equality of the hasher input of two independently built values *)
Definition run_eqhash (args : list (list byte)) : list byte :=
  match args with
  | k :: rest =>
    if tok_eqb k "N" then
      match r_name rest with
      | Some (a, t1) => match r_name t1 with
                        | Some (b, []) => unwords [bool_tok (labels_eqb a b); bool_tok (labels_eqb a b)]
                        | _ => s2b "BADCASE" end
      | None => s2b "BADCASE" end
    else if tok_eqb k "R" then
      match r_rr rest with
      | Some (a, t1) => match r_rr t1 with
                        | Some (b, []) => unwords [bool_tok (rr_eqb a b); bool_tok (rr_eqb a b);
                                                   bool_tok (rdata_eqb (rdata_of a) (rdata_of b)); bool_tok (rdata_eqb (rdata_of a) (rdata_of b))]
                        | _ => s2b "BADCASE" end
      | None => s2b "BADCASE" end
    else s2b "BADCASE"
  | [] => s2b "BADCASE"
  end.

(* SHOW L hex | SHOW C hex | SHOW N hex... | SHOW P hex: what Display writes for a label, a character-string, a name built from
   labels, and for every question name and owner name of a parsed packet (hexadecimal of the UTF-8 text) *)
Fixpoint all_some {A} (l : list (option A)) : option (list A) :=
  match l with
  | [] => Some []
  | Some a :: r => option_map (cons a) (all_some r)
  | None :: _ => None
  end.
Definition run_show (args : list (list byte)) : list byte :=
  match args with
  | k :: rest =>
    if tok_eqb k "L" then
      match map hex_to_bytes rest with [Some d] => bytes_to_hex (display_bytes d) | _ => s2b "BADCASE" end
    else if tok_eqb k "C" then
      match map hex_to_bytes rest with
      | [Some d] => match cstr_new d with Ok d' => bytes_to_hex (display_bytes d') | _ => s2b "ERR" end
      | _ => s2b "BADCASE" end
    else if tok_eqb k "N" then
      match all_some (map hex_to_bytes rest) with Some ls => bytes_to_hex (display_name ls) | None => s2b "BADCASE" end
    else if tok_eqb k "P" then
      match map hex_to_bytes rest with
      | [Some d] =>
        match parse_packet d with
        | Ok p => unwords (s2b "OK" :: map (fun n => bytes_to_hex (display_name n))
                                           (map qname (qs p) ++ map rname (ans p ++ nss p ++ adds p)))
        | Err e => s2b "ERR" | Panic _ => s2b "PANIC" | OutOfFuel => s2b "HANG"
        end
      | _ => s2b "BADCASE" end
    else s2b "BADCASE"
  | [] => s2b "BADCASE"
  end.

Definition run_line (line : list byte) : list byte :=
  match tokens line with
  | [] => []
  | cmd :: args =>
    if tok_eqb cmd "CODE" then run_codes args
    else if tok_eqb cmd "MATCH" then run_match args
    else if tok_eqb cmd "MATCHN" then run_matchn args
    else if tok_eqb cmd "MATCHU" then run_matchu args
    else if tok_eqb cmd "RRMATCH" then run_rrmatch args
    else if tok_eqb cmd "HDR" then run_hdr args
    else if tok_eqb cmd "PARSE" then run_parse args
    else if tok_eqb cmd "PARSEM" then run_parse args
    else if tok_eqb cmd "NAME" then run_name args
    else if tok_eqb cmd "RR" then run_rr args
    else if tok_eqb cmd "BUILD" then run_build args
    else if tok_eqb cmd "RT" then run_rt args
    else if tok_eqb cmd "NAMENEW" then run_namenew args
    else if tok_eqb cmd "STORE" then run_store args
    else if tok_eqb cmd "OBSERVE" then run_observe args
    else if tok_eqb cmd "OWN" then run_own args
    else if tok_eqb cmd "HASHI" then run_hashi args
    else if tok_eqb cmd "EQHASH" then run_eqhash args
    else if tok_eqb cmd "DISC" then run_disc args
    else if tok_eqb cmd "HISTB" then run_histb args
    else if tok_eqb cmd "SUFFIX" then run_suffix args
    else if tok_eqb cmd "CSTRNEW" then run_cstrnew args
    else if tok_eqb cmd "TXTTEXT" then run_txttext args
    else if tok_eqb cmd "TXTATTR" then run_txtattr args
    else if tok_eqb cmd "ATTRMAP" then run_attrmap args
    else if tok_eqb cmd "ESCAPE" then run_escape args
    else if tok_eqb cmd "REPARSE" then run_reparse args
    else if tok_eqb cmd "BUILDW" then run_buildw args
    else if tok_eqb cmd "PEEK" then run_peek args
    else if tok_eqb cmd "FLAGS" then run_flags args
    else if tok_eqb cmd "BUILDHDR" then run_buildhdr args
    else if tok_eqb cmd "HDRMOD" then run_hdrmod args
    else if tok_eqb cmd "PEEKF" then run_peekf args
    else if tok_eqb cmd "SHOW" then run_show args
    else if tok_eqb cmd "COUNTS" then run_counts args
    else if tok_eqb cmd "TABLE" then run_table args
    else if tok_eqb cmd "SOCKR" then s2b "SOCK"
    else if tok_eqb cmd "SOCK" then s2b "SOCK"     (* real sockets: nothing to compute; C14_responder_total says the loop body returns *)
    else s2b "BADCASE"
  end.
