(* The case interpreter of the correspondence check: one text line in, one canonical text line out.
   The Rust harness (`impldrv`) implements the same protocol on top of the real library. No proofs here. *)
Require Import SD.Base SD.Text SD.Codes SD.Header.
From Coq Require Import String.
Open Scope N_scope.

Definition err_line (e : err) : list byte :=
  match e with
  | InsufficientData => s2b "ERR InsufficientData"
  | InvalidDnsPacket => s2b "ERR InvalidDnsPacket"
  | InvalidServiceLabel => s2b "ERR InvalidServiceLabel"
  | InvalidServiceName => s2b "ERR InvalidServiceName"
  | InvalidCharacterString => s2b "ERR InvalidCharacterString"
  | InvalidHeaderData => s2b "ERR InvalidHeaderData"
  | AttemptedInvalidOperation => s2b "ERR AttemptedInvalidOperation"
  | InvalidClass c => s2b "ERR InvalidClass " ++ N_to_hex c
  | InvalidQClass c => s2b "ERR InvalidQClass " ++ N_to_hex c
  | InvalidQType c => s2b "ERR InvalidQType " ++ N_to_hex c
  | FailedToWrite => s2b "ERR FailedToWrite"
  end.
Definition out_line {A} (o : outcome A) (f : A -> list byte) : list byte :=
  match o with
  | Ok a => s2b "OK " ++ f a
  | Err e => err_line e
  | Panic s => s2b "PANIC " ++ N_to_hex s
  | OutOfFuel => s2b "HANG"
  end.

Definition ty_tok (t : ty) : list byte :=
  match t with TY m => s2b (mnem_name m) | TUnknown c => s2b "Unknown(" ++ N_to_hex c ++ s2b ")" end.
Definition class_tok (c : class) : list byte :=
  s2b (match c with IN => "IN" | CS => "CS" | CH => "CH" | HS => "HS" | NONE => "NONE" end).
Definition qclass_tok (q : qclass) : list byte := match q with QC c => class_tok c | QC_ANY => s2b "ANY" end.
Definition qtype_tok (q : qtype) : list byte :=
  match q with QT t => ty_tok t | QT_IXFR => s2b "IXFR" | QT_AXFR => s2b "AXFR" | QT_MAILB => s2b "MAILB"
             | QT_MAILA => s2b "MAILA" | QT_ANY => s2b "ANY" end.

(* the question type used by MATCH: what try_from gives, or QTYPE::TYPE(TYPE::from(code)) built directly *)
Definition qtype_for_match (c : N) : qtype :=
  match qtype_of_code c with Ok q => q | _ => QT (type_of_code c) end.

Definition run_codes (args : list (list byte)) : list byte :=
  match args with
  | [k; h] =>
    match hex_to_N h with
    | None => s2b "BADCASE"
    | Some c =>
      if tok_eqb k "TYPE" then unwords [ty_tok (type_of_code c); N_to_hex (code_of_type (type_of_code c))]
      else if tok_eqb k "CLASS" then out_line (class_of_code c) (fun k => unwords [class_tok k; N_to_hex (code_of_class k)])
      else if tok_eqb k "QCLASS" then out_line (qclass_of_code c) (fun q => unwords [qclass_tok q; N_to_hex (code_of_qclass q)])
      else if tok_eqb k "QTYPE" then out_line (qtype_of_code c) (fun q => unwords [qtype_tok q; N_to_hex (code_of_qtype q)])
      else if tok_eqb k "OPCODE" then N_to_hex (opcode_disc (opcode_of_code c))
      else if tok_eqb k "RCODE" then N_to_hex (rcode_disc (rcode_of_code c))
      else s2b "BADCASE"
    end
  | _ => s2b "BADCASE"
  end.

(* MATCH <record type code> <record class code> <qtype code> <qclass code> *)
Definition run_match (args : list (list byte)) : list byte :=
  match map hex_to_N args with
  | [Some rt; Some rc; Some qt; Some qc] =>
    match class_of_code rc, qclass_of_code qc with
    | Ok k, Ok q =>
      unwords [ty_tok (type_of_code rt); bool_tok (match_qtype (type_of_code rt) (qtype_for_match qt));
               bool_tok (match_qclass k q)]
    | _, _ => s2b "BADCASE"
    end
  | _ => s2b "BADCASE"
  end.

(* ---- header cases (C08) ---- *)
Definition flags7 (h : header) : list byte := List.concat (map (fun f => bool_tok (has_flags h f)) all_flags).
Definition hdr_tok (h : header) : list byte :=
  unwords [N_to_hex (h_id h); N_to_hex (opcode_disc (h_opcode h)); N_to_hex (rcode_disc (h_rcode h)); flags7 h].
Definition res_tok {A} (o : outcome A) (f : A -> list byte) : list byte :=
  match o with Ok a => f a | Err _ => s2b "E" | Panic _ => s2b "PANIC" | OutOfFuel => s2b "HANG" end.

(* HDR id w qd an ns ar: parse + re-serialise of the header with zero counts, and the eight peeks on the header as given *)
Definition run_hdr (args : list (list byte)) : list byte :=
  match map hex_to_N args with
  | [Some id; Some w; Some qd; Some an; Some ns; Some ar] =>
    let d0 := be_enc 2 id ++ be_enc 2 w ++ be_enc 2 0 ++ be_enc 2 0 ++ be_enc 2 0 ++ be_enc 2 0 in
    let d := be_enc 2 id ++ be_enc 2 w ++ be_enc 2 qd ++ be_enc 2 an ++ be_enc 2 ns ++ be_enc 2 ar in
    let p := match parse_header d0 with
             | Ok h => s2b "OK " ++ hdr_tok h ++ sp ++ bytes_to_hex (write_header h 0 0 0 0)
             | Err e => err_line e | Panic s => s2b "PANIC" | OutOfFuel => s2b "HANG" end in
    unwords [p; s2b "|"; res_tok (peek_id d) N_to_hex; res_tok (peek_questions d) N_to_hex;
             res_tok (peek_answers d) N_to_hex; res_tok (peek_name_servers d) N_to_hex;
             res_tok (peek_additional_records d) N_to_hex;
             List.concat (map (fun f => res_tok (peek_has_flags d f) bool_tok) all_flags);
             res_tok (peek_rcode d) (fun r => N_to_hex (rcode_disc r));
             res_tok (peek_opcode d) (fun o => N_to_hex (opcode_disc o))]
  | _ => s2b "BADCASE"
  end.

(* PEEK <hex buffer>: the eight peeks on an arbitrary (possibly short) buffer *)
Definition run_peek (args : list (list byte)) : list byte :=
  match map hex_to_bytes args with
  | [Some d] =>
    unwords [res_tok (peek_id d) N_to_hex; res_tok (peek_questions d) N_to_hex;
             res_tok (peek_answers d) N_to_hex; res_tok (peek_name_servers d) N_to_hex;
             res_tok (peek_additional_records d) N_to_hex;
             List.concat (map (fun f => res_tok (peek_has_flags d f) bool_tok) all_flags);
             res_tok (peek_rcode d) (fun r => N_to_hex (rcode_disc r));
             res_tok (peek_opcode d) (fun o => N_to_hex (opcode_disc o))]
  | _ => s2b "BADCASE"
  end.

(* FLAGS a b: set / remove / has on PacketFlag::from_bits_truncate of the two words *)
Definition run_flags (args : list (list byte)) : list byte :=
  match map hex_to_N args with
  | [Some a; Some b] =>
    let fa := from_bits_truncate a in let fb := from_bits_truncate b in
    let h := set_flags (new_query 0) fa in
    unwords [flags7 h; flags7 (set_flags h fb); flags7 (remove_flags h fb); bool_tok (has_flags h fb);
             N_to_hex (get_flags (set_flags h fb)); N_to_hex (get_flags (remove_flags h fb))]
  | _ => s2b "BADCASE"
  end.

(* BUILDHDR id opcode rcode flags: header bytes of a packet built through the public setters, and their parse *)
Definition run_buildhdr (args : list (list byte)) : list byte :=
  match map hex_to_N args with
  | [Some id; Some op; Some rc; Some fl] =>
    let h := {| h_id := id; h_opcode := opcode_of_code op; h_rcode := rcode_of_code rc; h_flags := from_bits_truncate fl |} in
    let d := write_header h 0 0 0 0 in
    unwords [bytes_to_hex d;
             match parse_header d with
             | Ok h' => s2b "OK " ++ hdr_tok h'
             | Err e => err_line e | Panic s => s2b "PANIC" | OutOfFuel => s2b "HANG" end]
  | _ => s2b "BADCASE"
  end.

Definition run_line (line : list byte) : list byte :=
  match tokens line with
  | [] => []
  | cmd :: args =>
    if tok_eqb cmd "CODE" then run_codes args
    else if tok_eqb cmd "MATCH" then run_match args
    else if tok_eqb cmd "HDR" then run_hdr args
    else if tok_eqb cmd "PEEK" then run_peek args
    else if tok_eqb cmd "FLAGS" then run_flags args
    else if tok_eqb cmd "BUILDHDR" then run_buildhdr args
    else s2b "BADCASE"
  end.
