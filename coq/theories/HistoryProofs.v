(* C20 over whole histories: the state of every record after ANY sequence of store operations equals a small
   specification that looks only at the operations touching that record (up to record equality: name, class, data) *)
Require Import SD.Base SD.BaseProofs SD.Codes SD.CodesProofs SD.Name SD.RData SD.Packet SD.TextApi SD.TextApiProofs SD.Store SD.StoreProofs.
From Coq Require Import ZArith ZifyN ZifyNat ZifyBool.

(* ---------- rr_eqb is the equality of (name, class, data) ---------- *)
Lemma items_eqb_eq : forall a b, items_eqb a b = true <-> a = b.
Proof.
  induction a as [|[t x] a IH]; destruct b as [|[u y] b]; cbn [items_eqb]; split; intros H; try reflexivity; try discriminate.
  - apply andb_prop in H. destruct H as [H H3]. apply andb_prop in H. destruct H as [H1 H2].
    apply N.eqb_eq in H1. apply bytes_eqb_eq in H2. apply IH in H3. subst. reflexivity.
  - injection H as -> -> ->. rewrite N.eqb_refl, (proj2 (bytes_eqb_eq y y) eq_refl), (proj2 (IH b) eq_refl). reflexivity.
Qed.
Lemma fval_eqb_eq a b : fval_eqb a b = true <-> a = b.
Proof.
  destruct a as [x|x|x|x], b as [y|y|y|y]; cbn [fval_eqb]; split; intros H; try discriminate.
  - apply N.eqb_eq in H. subst. reflexivity.
  - injection H as ->. apply N.eqb_refl.
  - apply labels_eqb_eq in H. subst. reflexivity.
  - injection H as ->. apply labels_eqb_eq. reflexivity.
  - apply bytes_eqb_eq in H. subst. reflexivity.
  - injection H as ->. apply bytes_eqb_eq. reflexivity.
  - apply items_eqb_eq in H. subst. reflexivity.
  - injection H as ->. apply items_eqb_eq. reflexivity.
Qed.
Lemma fvals_eqb_eq : forall a b, fvals_eqb a b = true <-> a = b.
Proof.
  induction a as [|x a IH]; destruct b as [|y b]; cbn [fvals_eqb]; split; intros H; try reflexivity; try discriminate.
  - apply andb_prop in H. destruct H as [H1 H2]. apply fval_eqb_eq in H1. apply IH in H2. subst. reflexivity.
  - injection H as -> ->. rewrite (proj2 (fval_eqb_eq y y) eq_refl), (proj2 (IH b) eq_refl). reflexivity.
Qed.
Lemma rdata_eqb_eq a b : rdata_eqb a b = true <-> a = b.
Proof.
  destruct a as [m x|c x|t], b as [n y|d y|u]; cbn [rdata_eqb]; split; intros H; try discriminate.
  - apply andb_prop in H. destruct H as [H1 H2]. apply mnem_eqb_eq in H1. apply fvals_eqb_eq in H2. subst. reflexivity.
  - injection H as -> ->. rewrite (proj2 (mnem_eqb_eq n n) eq_refl), (proj2 (fvals_eqb_eq y y) eq_refl). reflexivity.
  - apply andb_prop in H. destruct H as [H1 H2]. apply N.eqb_eq in H1. apply bytes_eqb_eq in H2. subst. reflexivity.
  - injection H as -> ->. rewrite N.eqb_refl, (proj2 (bytes_eqb_eq y y) eq_refl). reflexivity.
  - apply ty_eqb_eq in H. subst. reflexivity.
  - injection H as ->. apply ty_eqb_eq. reflexivity.
Qed.
Definition same_record (a b : rr) : Prop := rname a = rname b /\ rclass a = rclass b /\ rdata_of a = rdata_of b.
Lemma rr_eqb_spec a b : rr_eqb a b = true <-> same_record a b.
Proof.
  unfold rr_eqb, same_record. rewrite !andb_true_iff, labels_eqb_eq, class_eqb_eq, rdata_eqb_eq. tauto.
Qed.
Lemma rr_eqb_left a a' b : rr_eqb a a' = true -> rr_eqb a b = rr_eqb a' b.
Proof. intros H. apply rr_eqb_spec in H. destruct H as (H1 & H2 & H3). unfold rr_eqb. rewrite H1, H2, H3. reflexivity. Qed.
Lemma rr_eqb_right a b b' : rr_eqb b b' = true -> rr_eqb a b = rr_eqb a b'.
Proof. intros H. apply rr_eqb_spec in H. destruct H as (H1 & H2 & H3). unfold rr_eqb. rewrite H1, H2, H3. reflexivity. Qed.
Lemma rr_eqb_sym a b : rr_eqb a b = rr_eqb b a.
Proof.
  destruct (rr_eqb a b) eqn:E1, (rr_eqb b a) eqn:E2; try reflexivity.
  - apply rr_eqb_spec in E1. assert (same_record b a) by (unfold same_record in *; intuition congruence). apply rr_eqb_spec in H. congruence.
  - apply rr_eqb_spec in E2. assert (same_record a b) by (unfold same_record in *; intuition congruence). apply rr_eqb_spec in H. congruence.
Qed.

(* ---------- frame lemmas ---------- *)
Lemma find_set_node_other st k m k' : bytes_eqb k k' = false -> find_node (set_node st k m) k' = find_node st k'.
Proof.
  intros Hk. induction st as [|[k0 m0] r IH]; cbn [set_node find_node]; [rewrite Hk; reflexivity|].
  destruct (bytes_eqb k0 k) eqn:E; cbn [find_node].
  - apply bytes_eqb_eq in E. subst k0. rewrite Hk. reflexivity.
  - destruct (bytes_eqb k0 k'); [reflexivity|exact IH].
Qed.
Lemma map_get_eqb m a b : rr_eqb a b = true -> map_get m a = map_get m b.
Proof. intros H. induction m as [|[r v] t IH]; [reflexivity|]. cbn [map_get]. rewrite (rr_eqb_right r a b H), IH. reflexivity. Qed.
Lemma map_get_insert_other m a v b : rr_eqb a b = false -> map_get (map_insert m a v) b = map_get m b.
Proof.
  intros H. induction m as [|[r v'] t IH]; cbn [map_insert map_get]; [rewrite H; reflexivity|].
  destruct (rr_eqb r a) eqn:E; cbn [map_get].
  - rewrite (rr_eqb_left r a b E), H. reflexivity.
  - destruct (rr_eqb r b); [reflexivity|exact IH].
Qed.
Lemma map_get_remove_other m a b : rr_eqb a b = false -> map_get (map_remove m a) b = map_get m b.
Proof.
  intros H. induction m as [|[r v'] t IH]; [reflexivity|]. cbn [map_remove filter fst map_get].
  destruct (rr_eqb r a) eqn:E; cbn [negb].
  - rewrite (rr_eqb_left r a b E), H. exact IH.
  - cbn [map_get]. destruct (rr_eqb r b); [reflexivity|exact IH].
Qed.

Lemma kind_of_eqb st a b : rr_eqb a b = true -> kind_of st a = kind_of st b.
Proof.
  intros H. unfold kind_of. rewrite (rr_eqb_name a b H). destruct (find_node st (get_key (rname b))); [apply map_get_eqb; exact H|reflexivity].
Qed.

(* an operation on record a leaves every other record alone *)
Lemma kind_frame_node st a b m' : rr_eqb a b = false ->
  (forall m, find_node st (get_key (rname a)) = Some m -> map_get m' b = map_get m b) ->
  (find_node st (get_key (rname a)) = None -> map_get m' b = None) ->
  kind_of (set_node st (get_key (rname a)) m') b = kind_of st b.
Proof.
  intros Hab Hs Hn. unfold kind_of. destruct (bytes_eqb (get_key (rname a)) (get_key (rname b))) eqn:Ek.
  - apply bytes_eqb_eq in Ek. rewrite <- Ek. rewrite find_set_node.
    destruct (find_node st (get_key (rname a))) as [m|] eqn:E; [apply Hs; reflexivity|apply Hn; reflexivity].
  - rewrite (find_set_node_other _ _ _ _ Ek). reflexivity.
Qed.
Lemma frame_add_auth st a b : rr_eqb a b = false -> kind_of (add_authoritative st a) b = kind_of st b.
Proof.
  intros H. unfold add_authoritative. destruct (find_node st (get_key (rname a))) as [m|] eqn:E; apply kind_frame_node; try exact H.
  - intros m0 E0. rewrite E in E0. injection E0 as <-. apply map_get_insert_other. exact H.
  - intros E0. congruence.
  - intros m0 E0. congruence.
  - intros _. cbn [map_get]. rewrite H. reflexivity.
Qed.
Lemma frame_add_cached st a now b : rr_eqb a b = false -> kind_of (add_cached st a now) b = kind_of st b.
Proof.
  intros H. unfold add_cached. destruct (find_node st (get_key (rname a))) as [m|] eqn:E.
  - destruct (map_get m a) as [[|e]|]; try reflexivity; apply kind_frame_node; try exact H;
      try (intros m0 E0; rewrite E in E0; injection E0 as <-; apply map_get_insert_other; exact H); intros E0; congruence.
  - apply kind_frame_node; try exact H; [intros m0 E0; congruence|]. intros _. cbn [map_get]. rewrite H. reflexivity.
Qed.
Lemma frame_remove st a b : rr_eqb a b = false -> kind_of (remove_record st a) b = kind_of st b.
Proof.
  intros H. unfold remove_record. destruct (find_node st (get_key (rname a))) as [m|] eqn:E; [|reflexivity].
  apply kind_frame_node; try exact H; [|intros E0; congruence].
  intros m0 E0. rewrite E in E0. injection E0 as <-. apply map_get_remove_other. exact H.
Qed.

(* ---------- the specification of one record's life ---------- *)
Definition spec_step (r : rr) (s : option kind) (o : sop) : option kind :=
  match o with
  | OpAddAuth a => if rr_eqb a r then Some Auth else s
  | OpAddCached a now => if rr_eqb a r then match s with Some Auth => Some Auth | _ => Some (Cached (now + 2 * (if rcf a then 1 else rttl a))) end else s
  | OpRemove a => if rr_eqb a r then None else s
  | OpClear => None
  end.
Definition spec_state (ops : list sop) (r : rr) : option kind := fold_left (spec_step r) ops None.

Lemma step_refines st o r : kind_of (apply_op st o) r = spec_step r (kind_of st r) o.
Proof.
  destruct o as [a|a now|a|]; cbn [apply_op spec_step]; try reflexivity.
  - destruct (rr_eqb a r) eqn:E; [|apply frame_add_auth; exact E].
    rewrite <- (kind_of_eqb _ a r E). apply kind_after_add_auth.
  - destruct (rr_eqb a r) eqn:E; [|apply frame_add_cached; exact E].
    rewrite <- (kind_of_eqb _ a r E), <- (kind_of_eqb st a r E). apply kind_after_add_cached.
  - destruct (rr_eqb a r) eqn:E; [|apply frame_remove; exact E].
    rewrite <- (kind_of_eqb _ a r E). apply kind_after_remove.
Qed.

Theorem history_refines : forall ops st r, kind_of (fold_left apply_op ops st) r = fold_left (spec_step r) ops (kind_of st r).
Proof.
  induction ops as [|o ops IH]; intros st r; [reflexivity|]. cbn [fold_left]. rewrite IH, step_refines. reflexivity.
Qed.
Corollary history_from_empty : forall ops r, kind_of (fold_left apply_op ops []) r = spec_state ops r.
Proof. intros ops r. apply history_refines. Qed.

(* what the application then sees: a query by exact name under filter f shows r exactly when the specification's state passes f *)
Definition visible (f : dfilter) (s : option kind) (now : N) : bool := match s with Some v => match_filter f v now | None => false end.

(* inner maps never hold two entries for equal records (HashMap keys are unique) *)
Fixpoint map_ok (m : list srec) : Prop :=
  match m with [] => True | e :: t => (forall e', In e' t -> rr_eqb (fst e) (fst e') = false) /\ map_ok t end.
Lemma map_insert_keys m r v e : In e (map_insert m r v) -> (exists e0, In e0 m /\ fst e = fst e0) \/ (fst e = r /\ forall e0, In e0 m -> rr_eqb (fst e0) r = false).
Proof.
  induction m as [|[r0 v0] t IH]; cbn [map_insert]; intros H.
  - destruct H as [<-|[]]. right. split; [reflexivity|intros e0 []].
  - destruct (rr_eqb r0 r) eqn:E.
    + left. destruct H as [<-|H]; [exists (r0, v0); split; [left; reflexivity|reflexivity]|exists e; split; [right; exact H|reflexivity]].
    + destruct H as [<-|H]; [left; exists (r0, v0); split; [left; reflexivity|reflexivity]|].
      destruct (IH H) as [(e0 & H0 & H1)|[H1 H2]]; [left; exists e0; split; [right; exact H0|exact H1]|].
      right. split; [exact H1|]. intros e0 [<-|H0]; [exact E|apply H2; exact H0].
Qed.
Lemma map_insert_ok m r v : map_ok m -> map_ok (map_insert m r v).
Proof.
  induction m as [|[r0 v0] t IH]; cbn [map_insert map_ok]; intros H; [split; [intros e' []|exact I]|].
  destruct H as [H1 H2]. destruct (rr_eqb r0 r) eqn:E; cbn [map_ok fst].
  - split; [exact H1|exact H2].
  - split; [|apply IH; exact H2]. intros e' He'. destruct (map_insert_keys _ _ _ _ He') as [(e0 & H0 & Hf)|[Hf _]].
    + rewrite Hf. apply H1. exact H0.
    + rewrite Hf. exact E.
Qed.
Lemma map_remove_ok m r : map_ok m -> map_ok (map_remove m r).
Proof.
  unfold map_remove. induction m as [|e t IH]; [intros _; exact I|]. cbn [map_ok filter]. intros [H1 H2].
  destruct (negb (rr_eqb (fst e) r)); [|apply IH; exact H2]. cbn [map_ok]. split; [|apply IH; exact H2].
  intros e' He'. apply filter_In in He'. apply H1. tauto.
Qed.
Definition nodes_ok (st : store) : Prop := forall k m, find_node st k = Some m -> map_ok m.
Lemma set_node_nodes_ok st k m : nodes_ok st -> map_ok m -> nodes_ok (set_node st k m).
Proof.
  intros Hs Hm k' m' H. destruct (bytes_eqb k k') eqn:E.
  - apply bytes_eqb_eq in E. subst k'. rewrite find_set_node in H. injection H as <-. exact Hm.
  - rewrite (find_set_node_other _ _ _ _ E) in H. eapply Hs; exact H.
Qed.
Lemma apply_op_nodes_ok st o : nodes_ok st -> nodes_ok (apply_op st o).
Proof.
  intros H. destruct o as [a|a now|a|]; cbn [apply_op].
  - unfold add_authoritative. destruct (find_node st (get_key (rname a))) as [m|] eqn:E; apply set_node_nodes_ok; try exact H.
    + apply map_insert_ok. eapply H; exact E.
    + split; [intros e' []|exact I].
  - unfold add_cached. destruct (find_node st (get_key (rname a))) as [m|] eqn:E.
    + destruct (map_get m a) as [[|e]|]; try exact H; apply set_node_nodes_ok; try exact H; apply map_insert_ok; eapply H; exact E.
    + apply set_node_nodes_ok; [exact H|]. split; [intros e' []|exact I].
  - unfold remove_record. destruct (find_node st (get_key (rname a))) as [m|] eqn:E; [|exact H].
    apply set_node_nodes_ok; [exact H|]. apply map_remove_ok. eapply H; exact E.
  - intros k m Hf. discriminate.
Qed.
Lemma reachable_nodes_ok : forall ops, nodes_ok (fold_left apply_op ops []).
Proof.
  assert (G : forall ops st, nodes_ok st -> nodes_ok (fold_left apply_op ops st)).
  { induction ops as [|o ops IH]; intros st H; [exact H|]. cbn [fold_left]. apply IH. apply apply_op_nodes_ok. exact H. }
  intros ops. apply G. intros k m H. discriminate.
Qed.

Lemma map_get_in m r v : map_get m r = Some v -> exists r', In (r', v) m /\ rr_eqb r' r = true.
Proof.
  induction m as [|[r0 v0] t IH]; [discriminate|]. cbn [map_get]. destruct (rr_eqb r0 r) eqn:E.
  - intros H. injection H as <-. exists r0. split; [left; reflexivity|exact E].
  - intros H. destruct (IH H) as (r' & H1 & H2). exists r'. split; [right; exact H1|exact H2].
Qed.
Lemma in_map_get m r' v r : map_ok m -> In (r', v) m -> rr_eqb r' r = true -> map_get m r = Some v.
Proof.
  induction m as [|[r0 v0] t IH]; [intros _ []|]. cbn [map_ok map_get fst]. intros [H1 H2] [H|H] E.
  - injection H as -> ->. rewrite E. reflexivity.
  - specialize (H1 _ H). cbn [fst] in H1. rewrite (rr_eqb_right r0 r' r E) in H1. rewrite H1. apply IH; assumption.
Qed.

(* C20 over histories: after ANY sequence of operations, a query by exact name under a filter shows (a stored copy of)
   record r exactly when the specification's state for r passes the filter at that instant *)
Theorem history_visibility : forall ops r f now, f_sub f = false ->
  ((exists r', rr_eqb r' r = true /\ In r' (List.concat (query (fold_left apply_op ops []) (rname r) f now)))
   <-> visible f (spec_state ops r) now = true).
Proof.
  intros ops r f now Hsub. rewrite <- history_from_empty. pose proof (reachable_nodes_ok ops) as Hok.
  set (st := fold_left apply_op ops []) in *. unfold query, kind_of. rewrite Hsub.
  destruct (find_node st (get_key (rname r))) as [m|] eqn:E.
  - pose proof (Hok _ _ E) as Hm.
    set (pick := map fst (filter (fun e : srec => match_filter f (snd e) now) m)).
    assert (Hin : forall x, In x (List.concat (filter (fun g : list rr => match g with [] => false | _ => true end) [pick])) <-> In x pick).
    { intros x. clearbody pick. destruct pick as [|y ys]; cbn [filter List.concat]; [tauto|rewrite app_nil_r; tauto]. }
    assert (Hp : forall x, In x pick <-> exists v, In (x, v) m /\ match_filter f v now = true).
    { intros x. unfold pick. rewrite in_map_iff. split.
      - intros ([x' v] & <- & H). apply filter_In in H. exists v. exact H.
      - intros (v & H1 & H2). exists (x, v). split; [reflexivity|]. apply filter_In. split; assumption. }
    split.
    + intros (r' & Er & H). apply Hin in H. apply Hp in H. destruct H as (v & H1 & H2).
      rewrite (in_map_get m r' v r Hm H1 Er). exact H2.
    + unfold visible. destruct (map_get m r) as [v|] eqn:Eg; [|discriminate]. intros Hv.
      destruct (map_get_in _ _ _ Eg) as (r' & H1 & H2). exists r'. split; [exact H2|]. apply Hin. apply Hp. exists v. tauto.
  - split; [intros (r' & _ & []) | cbn; discriminate].
Qed.

(* C13 completeness below the question name: a registered authoritative record owned by a subdomain of the question name
   is included whenever the trie has a node at the question name's key (radix_trie's subtrie() finds nothing otherwise) *)
Theorem answers_complete_subdomain st q now a k m pre : In (k, m) st -> In (a, Auth) m -> k = get_key (rname a) ->
  rname a = pre ++ qname q -> short_labels (rname a) -> short_labels (qname q) ->
  node_exists st (get_key (qname q)) = true ->
  match_qtype (type_of_rdata (rdata_of a)) (q_type q) = true -> match_qclass (rclass a) (q_class q) = true ->
  In a (answers_for st q now).
Proof.
  intros Hin He Hk Hn Hsa Hsq Hnode Ht Hc. unfold answers_for. apply filter_In. split; [|rewrite Hc, Ht; reflexivity].
  unfold query. cbn [f_sub filter_authoritative]. rewrite Hnode.
  assert (Hp : is_prefix (get_key (qname q)) k = true).
  { rewrite Hk. apply key_prefix_iff_suffix; [exact Hsq|exact Hsa|]. exists pre. exact Hn. }
  apply in_concat. exists (map fst (filter (fun e => match_filter (filter_authoritative true) (snd e) now) m)). split.
  - apply filter_In. split.
    + apply in_map_iff. exists (k, m). split; [reflexivity|]. apply filter_In. split; [exact Hin|exact Hp].
    + assert (Hi : In a (map fst (filter (fun e => match_filter (filter_authoritative true) (snd e) now) m))).
      { apply in_map_iff. exists (a, Auth). split; [reflexivity|]. apply filter_In. split; [exact He|reflexivity]. }
      destruct (map fst (filter (fun e => match_filter (filter_authoritative true) (snd e) now) m)); [contradiction|reflexivity].
  - apply in_map_iff. exists (a, Auth). split; [reflexivity|]. apply filter_In. split; [exact He|reflexivity].
Qed.

(* ---------- whatever holds of every record handed to the store holds of every record it holds ---------- *)
Definition op_record (o : sop) : option rr :=
  match o with OpAddAuth r | OpAddCached r _ => Some r | OpRemove _ | OpClear => None end.
Definition all_records (P : rr -> Prop) (st : store) : Prop := forall k m e, In (k, m) st -> In e m -> P (fst e).

Lemma set_node_in st k m k' m' : In (k', m') (set_node st k m) -> (k' = k /\ m' = m) \/ In (k', m') st.
Proof.
  induction st as [|[k0 m0] r IH]; cbn [set_node]; intros H.
  - destruct H as [H|[]]. injection H as <- <-. left. tauto.
  - destruct (bytes_eqb k0 k).
    + destruct H as [H|H]; [injection H as <- <-; left; tauto|right; right; exact H].
    + destruct H as [H|H]; [right; left; exact H|]. destruct (IH H) as [E|E]; [left; exact E|right; right; exact E].
Qed.
Lemma map_insert_fst m r v e : In e (map_insert m r v) -> (exists e0, In e0 m /\ fst e = fst e0) \/ fst e = r.
Proof. intros H. destruct (map_insert_keys _ _ _ _ H) as [H1|[H1 _]]; [left; exact H1|right; exact H1]. Qed.

Lemma apply_op_records P st o : all_records P st -> (forall r, op_record o = Some r -> P r) -> all_records P (apply_op st o).
Proof.
  intros Hst Hop. destruct o as [a|a now|a|]; cbn [apply_op].
  - unfold add_authoritative. destruct (find_node st (get_key (rname a))) as [m0|] eqn:E; intros k m e Hin He;
      destruct (set_node_in _ _ _ _ _ Hin) as [ [-> ->] | Hold ]; try (eapply Hst; eassumption).
    + destruct (map_insert_fst _ _ _ _ He) as [ (e0 & H0 & ->) | -> ]; [eapply Hst; [apply find_node_in; exact E|exact H0]|apply Hop; reflexivity].
    + destruct He as [<-|[]]. apply Hop. reflexivity.
  - unfold add_cached. destruct (find_node st (get_key (rname a))) as [m0|] eqn:E.
    + destruct (map_get m0 a) as [[|x]|]; try exact Hst; intros k m e Hin He;
        (destruct (set_node_in _ _ _ _ _ Hin) as [ [-> ->] | Hold ]; [|eapply Hst; eassumption]);
        (destruct (map_insert_fst _ _ _ _ He) as [ (e0 & H0 & ->) | -> ]; [eapply Hst; [apply find_node_in; exact E|exact H0]|apply Hop; reflexivity]).
    + intros k m e Hin He. destruct (set_node_in _ _ _ _ _ Hin) as [ [-> ->] | Hold ]; [|eapply Hst; eassumption].
      destruct He as [<-|[]]. apply Hop. reflexivity.
  - unfold remove_record. destruct (find_node st (get_key (rname a))) as [m0|] eqn:E; [|exact Hst].
    intros k m e Hin He. destruct (set_node_in _ _ _ _ _ Hin) as [ [-> ->] | Hold ]; [|eapply Hst; eassumption].
    unfold map_remove in He. apply filter_In in He. eapply Hst; [apply find_node_in; exact E|tauto].
  - intros k m e [].
Qed.
Theorem reachable_records : forall (P : rr -> Prop) ops, (forall o r, In o ops -> op_record o = Some r -> P r) ->
  all_records P (fold_left apply_op ops []).
Proof.
  intros P ops H.
  assert (G : forall ops st, all_records P st -> (forall o r, In o ops -> op_record o = Some r -> P r) -> all_records P (fold_left apply_op ops st)).
  { clear. induction ops as [|o ops IH]; intros st Hst Hops; [exact Hst|]. cbn [fold_left]. apply IH.
    - apply apply_op_records; [exact Hst|]. intros r Hr. apply (Hops o r); [left; reflexivity|exact Hr].
    - intros o' r Ho' Hr. apply (Hops o' r); [right; exact Ho'|exact Hr]. }
  apply G; [intros k m e []|exact H].
Qed.
(* the two side conditions used by C13 / C14 hold in every store built from records with DNS-sized labels / well-formed records *)
Corollary reachable_names_short : forall ops, (forall o r, In o ops -> op_record o = Some r -> short_labels (rname r)) ->
  names_short (fold_left apply_op ops []).
Proof. intros ops H k m e Hin He. exact (reachable_records (fun r => short_labels (rname r)) ops H k m e Hin He). Qed.
Lemma wf_labels_short ls : wf_labels ls -> short_labels ls.
Proof. unfold wf_labels, short_labels. intros H. eapply Forall_impl; [|exact H]. intros l Hl. cbn beta in Hl. lia. Qed.
