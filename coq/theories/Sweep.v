(* Lifting a kernel-evaluated finite sweep to a universally quantified statement *)
Require Import SD.Base.
From Coq Require Import ZArith ZifyN ZifyNat ZifyBool.

Lemma rangeN_In : forall fuel start c, start <= c -> c < start + N.of_nat fuel -> In c (rangeN fuel start).
Proof.
  induction fuel as [|k IH]; intros start c H1 H2; cbn [rangeN]; [lia|].
  destruct (N.eq_dec start c) as [->|Hne]; [left; reflexivity|right].
  apply IH; lia.
Qed.

Lemma upto_In : forall n c, c < n -> In c (upto n).
Proof. intros n c H. unfold upto. apply rangeN_In; lia. Qed.

Lemma sweep : forall (f : N -> bool) n, forallb f (upto n) = true -> forall c, c < n -> f c = true.
Proof. intros f n H c Hc. rewrite forallb_forall in H. apply H. apply upto_In. exact Hc. Qed.

Lemma sweep2 : forall (f : N -> N -> bool) n m,
  forallb (fun a => forallb (f a) (upto m)) (upto n) = true -> forall a b, a < n -> b < m -> f a b = true.
Proof.
  intros f n m H a b Ha Hb. rewrite forallb_forall in H. specialize (H a (upto_In _ _ Ha)).
  rewrite forallb_forall in H. apply H. apply upto_In. exact Hb.
Qed.
