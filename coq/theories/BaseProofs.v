(* Lemmas about bytes, positions and big-endian integers used everywhere *)
Require Import SD.Base.
From Coq Require Import ZArith ZifyN ZifyNat ZifyBool.
Ltac Zify.zify_post_hook ::= Z.div_mod_to_equations.

Lemma to_N_bN n : Byte.to_N (bN n) = n mod 256.
Proof.
  unfold bN. destruct (Byte.of_N (n mod 256)) eqn:E.
  - apply Byte.to_of_N in E. exact E.
  - apply Byte.of_N_None_iff in E. lia.
Qed.

Lemma bN_to_N b : bN (Byte.to_N b) = b.
Proof.
  unfold bN. pose proof (Byte.to_N_bounded b). rewrite N.mod_small by lia. rewrite Byte.of_to_N. reflexivity.
Qed.

Lemma len_app {A} (a b : list A) : len (a ++ b) = len a + len b.
Proof. unfold len. rewrite app_length. lia. Qed.
Lemma len_cons {A} (x : A) a : len (x :: a) = 1 + len a.
Proof. unfold len. cbn [length]. lia. Qed.
Lemma len_nil {A} : len (@nil A) = 0.
Proof. reflexivity. Qed.

Lemma byte_at_app_l a b p : p < len a -> byte_at (a ++ b) p = byte_at a p.
Proof. unfold byte_at, len. intros H. rewrite nth_error_app1 by lia. reflexivity. Qed.
Lemma byte_at_app_r a b p : len a <= p -> byte_at (a ++ b) p = byte_at b (p - len a).
Proof. unfold byte_at, len. intros H. rewrite nth_error_app2 by lia. do 2 f_equal. lia. Qed.
Lemma byte_at_cons0 x r : byte_at (x :: r) 0 = Some (Byte.to_N x).
Proof. reflexivity. Qed.
Lemma byte_at_cons1 x y r : byte_at (x :: y :: r) 1 = Some (Byte.to_N y).
Proof. reflexivity. Qed.

Lemma byte_at_lt d p v : byte_at d p = Some v -> p < len d /\ v < 256.
Proof.
  unfold byte_at, len. destruct (nth_error d (N.to_nat p)) eqn:E; [|discriminate].
  intros H; injection H as <-. split.
  - assert (Hn : nth_error d (N.to_nat p) <> None) by congruence. apply nth_error_Some in Hn. lia.
  - pose proof (Byte.to_N_bounded b). lia.
Qed.
Lemma byte_at_some d p : p < len d -> exists v, byte_at d p = Some v /\ v < 256.
Proof.
  unfold byte_at, len. intros H.
  destruct (nth_error d (N.to_nat p)) eqn:E.
  - eexists; split; [reflexivity|]. pose proof (Byte.to_N_bounded b). lia.
  - apply nth_error_None in E. lia.
Qed.
Lemma byte_at_none d p : len d <= p -> byte_at d p = None.
Proof.
  unfold byte_at, len. intros H. destruct (nth_error d (N.to_nat p)) eqn:E; [|reflexivity].
  assert (Hn : nth_error d (N.to_nat p) <> None) by congruence. apply nth_error_Some in Hn. lia.
Qed.

Lemma bytes_at_len d a n l : bytes_at d a n = Some l -> a + n <= len d /\ len l = n.
Proof.
  unfold bytes_at. destruct (a + n <=? len d) eqn:E; [|discriminate]. intros H; injection H as <-.
  split; [lia|]. unfold len in *. rewrite firstn_length, skipn_length. lia.
Qed.
Lemma bytes_at_some d a n : a + n <= len d -> exists l, bytes_at d a n = Some l /\ len l = n.
Proof.
  unfold bytes_at. intros H. destruct (a + n <=? len d) eqn:E; [|lia].
  eexists; split; [reflexivity|]. unfold len in *. rewrite firstn_length, skipn_length. lia.
Qed.
Lemma bytes_at_none d a n : len d < a + n -> bytes_at d a n = None.
Proof. unfold bytes_at. intros H. destruct (a + n <=? len d) eqn:E; [lia|reflexivity]. Qed.

Lemma bytes_at_app_l a b p n l : bytes_at a p n = Some l -> bytes_at (a ++ b) p n = Some l.
Proof.
  unfold bytes_at. rewrite len_app. destruct (p + n <=? len a) eqn:E; [|discriminate].
  destruct (p + n <=? len a + len b) eqn:E'; [|lia]. intros H; injection H as <-. f_equal.
  rewrite skipn_app. rewrite firstn_app. rewrite skipn_length.
  replace (N.to_nat n - (length a - N.to_nat p))%nat with 0%nat by (unfold len in *; lia).
  cbn [firstn]. rewrite app_nil_r. reflexivity.
Qed.
Lemma bytes_at_here a l b : bytes_at (a ++ l ++ b) (len a) (len l) = Some l.
Proof.
  unfold bytes_at. rewrite !len_app. destruct (len a + len l <=? len a + (len l + len b)) eqn:E; [|lia].
  f_equal. unfold len. rewrite !Nat2N.id. rewrite skipn_app, skipn_all, Nat.sub_diag. cbn [skipn app].
  rewrite firstn_app, firstn_all, Nat.sub_diag. cbn [firstn]. apply app_nil_r.
Qed.
Lemma bytes_at_here' a l b p n : p = len a -> n = len l -> bytes_at (a ++ l ++ b) p n = Some l.
Proof. intros -> ->. apply bytes_at_here. Qed.

Lemma len_be_enc n x : len (be_enc n x) = N.of_nat n.
Proof. induction n as [|k IH]; cbn [be_enc]; [reflexivity|]. rewrite len_cons, IH. lia. Qed.

Lemma be_dec_enc n : forall x acc, be_dec (be_enc n x) acc = acc * 256 ^ N.of_nat n + x mod 256 ^ N.of_nat n.
Proof.
  induction n as [|k IH]; intros x acc; cbn [be_enc be_dec].
  - cbn. rewrite N.mod_1_r. lia.
  - rewrite IH, to_N_bN. replace (N.of_nat (S k)) with (N.succ (N.of_nat k)) by lia.
    rewrite N.pow_succ_r by lia.
    assert (P : 256 ^ N.of_nat k <> 0) by (apply N.pow_nonzero; lia).
    rewrite (N.mul_comm 256 (256 ^ N.of_nat k)).
    rewrite (N.mod_mul_r x (256 ^ N.of_nat k) 256) by lia. lia.
Qed.

Lemma be_dec_bound : forall bs acc, be_dec bs acc < (acc + 1) * 256 ^ len bs.
Proof.
  induction bs as [|b r IH]; intros acc; cbn [be_dec].
  - cbn. lia.
  - rewrite len_cons. specialize (IH (acc * 256 + Byte.to_N b)).
    pose proof (Byte.to_N_bounded b) as Hb.
    replace (1 + len r) with (N.succ (len r)) by lia. rewrite N.pow_succ_r by lia.
    assert (P : 0 < 256 ^ len r) by (apply N.neq_0_lt_0; apply N.pow_nonzero; lia).
    nia.
Qed.

(* u16::from_be_bytes(data[p..p+2]) on a buffer that holds be_enc 2 v at p *)
Lemma be_at_here pre n v post : be_at (pre ++ be_enc n v ++ post) (len pre) n = Some (v mod 256 ^ N.of_nat n).
Proof.
  unfold be_at. rewrite <- (len_be_enc n v) at 1. rewrite bytes_at_here. cbn [option_map].
  rewrite be_dec_enc. f_equal.
Qed.

Lemma be_at_some d p n : p + N.of_nat n <= len d -> exists v, be_at d p n = Some v /\ v < 256 ^ N.of_nat n.
Proof.
  intros H. unfold be_at. destruct (bytes_at_some d p (N.of_nat n) H) as (l & -> & Hl).
  cbn [option_map]. eexists; split; [reflexivity|]. pose proof (be_dec_bound l 0). rewrite Hl in *. lia.
Qed.
Lemma be_at_none d p n : len d < p + N.of_nat n -> be_at d p n = None.
Proof. intros H. unfold be_at. rewrite bytes_at_none by exact H. reflexivity. Qed.

Lemma bytes_at_skip a b p n : bytes_at (a ++ b) (len a + p) n = bytes_at b p n.
Proof.
  unfold bytes_at. rewrite len_app.
  destruct (p + n <=? len b) eqn:E; [destruct (len a + p + n <=? len a + len b) eqn:E2; [|lia]
                                    | destruct (len a + p + n <=? len a + len b) eqn:E2; [lia|reflexivity]].
  f_equal. f_equal. rewrite skipn_app.
  replace (N.to_nat (len a + p) - length a)%nat with (N.to_nat p) by (unfold len; lia).
  rewrite skipn_all2 by (unfold len; lia). reflexivity.
Qed.
Lemma be_at_skip a b p q n : q = len a + p -> be_at (a ++ b) q n = be_at b p n.
Proof. intros ->. unfold be_at. rewrite bytes_at_skip. reflexivity. Qed.
Lemma byte_at_skip a b p : byte_at (a ++ b) (len a + p) = byte_at b p.
Proof. rewrite byte_at_app_r by lia. f_equal. lia. Qed.

Lemma split_at (d : list byte) p : p < len d -> exists a b c, d = a ++ b :: c /\ len a = p.
Proof.
  intros H. destruct (nth_split d x00 (n := N.to_nat p)) as (l1 & l2 & E & L); [unfold len in H; lia|].
  exists l1, (nth (N.to_nat p) d x00), l2. split; [exact E|]. unfold len. lia.
Qed.

Lemma be_enc_1 b : be_enc 1 (Byte.to_N b) = [b].
Proof. cbn [be_enc]. change (256 ^ N.of_nat 0) with 1. rewrite N.div_1_r, bN_to_N. reflexivity. Qed.

(* a one-byte big-endian read is data[p] *)
Lemma be_at_1 d p : be_at d p 1 = byte_at d p.
Proof.
  destruct (N.ltb_spec p (len d)) as [H|H].
  - destruct (split_at d p H) as (a & b & c & -> & <-).
    change (b :: c) with ([b] ++ c). rewrite <- (be_enc_1 b). rewrite be_at_here.
    rewrite (byte_at_app_r a) by lia. rewrite N.sub_diag. rewrite be_enc_1. cbn [app]. rewrite byte_at_cons0.
    f_equal. pose proof (Byte.to_N_bounded b). change (256 ^ N.of_nat 1) with 256. apply N.mod_small. lia.
  - rewrite be_at_none by (cbn; lia). rewrite byte_at_none by lia. reflexivity.
Qed.

Lemma be_at_head n v post : be_at (be_enc n v ++ post) 0 n = Some (v mod 256 ^ N.of_nat n).
Proof. exact (be_at_here [] n v post). Qed.

Lemma to_nat_len {A} (l : list A) : N.to_nat (len l) = length l.
Proof. unfold len. apply Nat2N.id. Qed.

Lemma Forall2_len {A B} (R : A -> B -> Prop) l1 l2 : Forall2 R l1 l2 -> length l1 = length l2.
Proof. induction 1; cbn; congruence. Qed.
