(* Lossy text rendering of raw bytes: `String::from_utf8_lossy` as used by Display for Label, Name and CharacterString
   (name.rs:283-295, 431-435; character_string.rs:99-103). Model only; the proofs are in LossyProofs.v.
   core::str::lossy::Utf8Chunks: a chunk is a maximal well-formed prefix followed by one ill-formed sequence, which is the
   lead byte plus the continuation bytes that are still admissible for it ("maximal subpart", Unicode 3.9 U+FFFD
   substitution); each ill-formed sequence is rendered as one U+FFFD = EF BF BD. *)
Require Import SD.Base SD.TextApi.
Open Scope N_scope.

Definition REPL : list byte := [xef; xbf; xbd].

(* admissible second byte after a three / four byte lead (Table 3-7 of the Unicode standard) *)
Definition second_ok3 (n0 n1 : N) : bool :=
  if n0 =? 224 then (160 <=? n1) && (n1 <=? 191)
  else if n0 =? 237 then (128 <=? n1) && (n1 <=? 159)
  else (128 <=? n1) && (n1 <=? 191).
Definition second_ok4 (n0 n1 : N) : bool :=
  if n0 =? 240 then (144 <=? n1) && (n1 <=? 191)
  else if n0 =? 244 then (128 <=? n1) && (n1 <=? 143)
  else (128 <=? n1) && (n1 <=? 191).

Fixpoint lossy (l : list byte) : list byte :=
  match l with
  | [] => []
  | b0 :: r =>
    let n0 := Byte.to_N b0 in
    if n0 <? 128 then b0 :: lossy r
    else if (194 <=? n0) && (n0 <=? 223) then
      match r with
      | b1 :: r1 => if cont b1 then b0 :: b1 :: lossy r1 else REPL ++ lossy r
      | [] => REPL
      end
    else if (224 <=? n0) && (n0 <=? 239) then
      match r with
      | b1 :: r1 =>
        if second_ok3 n0 (Byte.to_N b1) then
          match r1 with
          | b2 :: r2 => if cont b2 then b0 :: b1 :: b2 :: lossy r2 else REPL ++ lossy r1
          | [] => REPL
          end
        else REPL ++ lossy r
      | [] => REPL
      end
    else if (240 <=? n0) && (n0 <=? 244) then
      match r with
      | b1 :: r1 =>
        if second_ok4 n0 (Byte.to_N b1) then
          match r1 with
          | b2 :: r2 =>
            if cont b2 then
              match r2 with
              | b3 :: r3 => if cont b3 then b0 :: b1 :: b2 :: b3 :: lossy r3 else REPL ++ lossy r2
              | [] => REPL
              end
            else REPL ++ lossy r1
          | [] => REPL
          end
        else REPL ++ lossy r
      | [] => REPL
      end
    else REPL ++ lossy r
  end.

(* the same validity test as TextApi.valid_utf8, by structural recursion (proved equal in LossyProofs) *)
Fixpoint valid_utf8s (l : list byte) : bool :=
  match l with
  | [] => true
  | b0 :: r =>
    let n0 := Byte.to_N b0 in
    if n0 <? 128 then valid_utf8s r
    else if (194 <=? n0) && (n0 <=? 223) then
      match r with b1 :: r' => cont b1 && valid_utf8s r' | _ => false end
    else if (224 <=? n0) && (n0 <=? 239) then
      match r with
      | b1 :: b2 :: r' =>
        let n1 := Byte.to_N b1 in
        cont b1 && cont b2
        && (if n0 =? 224 then 160 <=? n1 else true)
        && (if n0 =? 237 then n1 <=? 159 else true)
        && valid_utf8s r'
      | _ => false end
    else if (240 <=? n0) && (n0 <=? 244) then
      match r with
      | b1 :: b2 :: b3 :: r' =>
        let n1 := Byte.to_N b1 in
        cont b1 && cont b2 && cont b3
        && (if n0 =? 240 then 144 <=? n1 else true)
        && (if n0 =? 244 then n1 <=? 143 else true)
        && valid_utf8s r'
      | _ => false end
    else false
  end.

(* Display for Label and for CharacterString *)
Definition display_bytes (l : list byte) : list byte := lossy l.
(* Display for Name: the labels, each rendered on its own, joined by '.' (no trailing dot; the root renders as "") *)
Fixpoint display_name (ls : list (list byte)) : list byte :=
  match ls with
  | [] => []
  | [l] => lossy l
  | l :: r => lossy l ++ x2e :: display_name r
  end.
