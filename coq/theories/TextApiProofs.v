Require Import SD.Base SD.BaseProofs SD.Name SD.TextApi.
From Coq Require Import ZArith ZifyN ZifyNat ZifyBool.
Ltac Zify.zify_post_hook ::= Z.div_mod_to_equations.

Lemma byte_eqb_eq a b : Byte.eqb a b = true <-> a = b.
Proof. split; [apply Byte.byte_dec_bl|apply Byte.byte_dec_lb]. Qed.
Lemma byte_eqb_neq a b : Byte.eqb a b = false <-> a <> b.
Proof. split; intros H; [intros E; apply byte_eqb_eq in E; congruence|destruct (Byte.eqb a b) eqn:E; [apply byte_eqb_eq in E; contradiction|reflexivity]]. Qed.
Lemma bytes_eqb_eq : forall a b, bytes_eqb a b = true <-> a = b.
Proof.
  induction a as [|x a IH]; destruct b as [|y b]; cbn [bytes_eqb]; split; intros H; try discriminate; try reflexivity.
  - apply andb_prop in H. destruct H as [H1 H2]. apply byte_eqb_eq in H1. apply IH in H2. congruence.
  - injection H as -> ->. apply andb_true_intro. split; [apply byte_eqb_eq; reflexivity|apply IH; reflexivity].
Qed.

(* ================= C17: Name::new ================= *)
Definition alnum (b : byte) : Prop := is_alnum b = true.
(* the grammar of the property, stated on its own *)
Definition label_ok (l : list byte) : Prop :=
  1 <= len l <= 63 /\
  match l with
  | [] => False
  | first :: rest => (alnum first \/ first = x5f) /\ Forall (fun c => alnum c \/ c = x2d \/ c = x5f) rest
  end /\ alnum (last l x00).

Lemma valid_label_spec l : valid_label l = true <-> label_ok l.
Proof.
  unfold valid_label, label_ok. destruct l as [|f r]; [split; [discriminate|intros (H & _); cbn in H; lia]|].
  rewrite !andb_true_iff, orb_true_iff, forallb_forall, Forall_forall, byte_eqb_eq. unfold alnum.
  split.
  - intros (((H1 & H2) & H3) & H4). split; [rewrite len_cons in *; lia|]. split; [split; [exact H2|]|exact H4].
    intros c Hc. specialize (H3 c Hc). rewrite !orb_true_iff, !byte_eqb_eq in H3. tauto.
  - intros (H1 & (H2 & H3) & H4). repeat split; try assumption; [lia|].
    intros c Hc. specialize (H3 c Hc). rewrite !orb_true_iff, !byte_eqb_eq. tauto.
Qed.

Theorem name_new_spec s ls :
  name_new s = Ok ls <-> ls = labels_of_text s /\ Forall label_ok ls /\ name_len ls <= 255.
Proof.
  unfold name_new. destruct (forallb valid_label (labels_of_text s)) eqn:E.
  - rewrite forallb_forall in E. destruct (255 <? name_len (labels_of_text s)) eqn:E2; split; intros H.
    + discriminate.
    + destruct H as (-> & _ & H). lia.
    + injection H as <-. split; [reflexivity|]. split; [|lia]. apply Forall_forall. intros l Hl. apply valid_label_spec. apply E. exact Hl.
    + destruct H as (-> & _ & _). reflexivity.
  - split; [discriminate|]. intros (-> & H & _). exfalso.
    assert (F : forallb valid_label (labels_of_text s) = true).
    { apply forallb_forall. intros l Hl. apply valid_label_spec. exact (proj1 (Forall_forall _ _) H l Hl). }
    congruence.
Qed.

(* the pieces produced by the splitter: non-empty, dot-free, and in order they are the text without its empty labels *)
Definition piece (p : list byte) : Prop := p <> [] /\ ~ In DOT p.

Lemma split_dots_pieces : forall l cur, ~ In DOT cur -> Forall piece (split_dots l cur).
Proof.
  induction l as [|b r IH]; intros cur Hc; cbn [split_dots].
  - destruct cur as [|c cs]; [constructor|]. constructor; [|constructor]. split.
    + intros E. apply (f_equal (@length byte)) in E. rewrite rev_length in E. discriminate.
    + intros Hin. apply in_rev in Hin. contradiction.
  - destruct (Byte.eqb b DOT) eqn:E.
    + destruct cur as [|c cs]; [apply IH; intros []|]. constructor; [|apply IH; intros []]. split.
      * intros E2. apply (f_equal (@length byte)) in E2. rewrite rev_length in E2. discriminate.
      * intros Hin. apply in_rev in Hin. contradiction.
    + apply IH. apply byte_eqb_neq in E. intros [H|H]; [congruence|contradiction].
Qed.

Lemma split_dots_app_piece : forall p cur rest, ~ In DOT p ->
  split_dots (p ++ rest) cur = split_dots rest (rev p ++ cur).
Proof.
  induction p as [|b p IH]; intros cur rest Hp; [reflexivity|]. cbn [app split_dots].
  assert (Hb : Byte.eqb b DOT = false) by (apply byte_eqb_neq; intros E; apply Hp; left; exact E).
  rewrite Hb. rewrite IH by (intros H; apply Hp; right; exact H). cbn [rev]. rewrite <- app_assoc. reflexivity.
Qed.

(* displaying and re-creating: split (join ls) = ls for pieces *)
Lemma split_join : forall ls, Forall piece ls -> split_dots (join_dots ls) [] = ls.
Proof.
  induction ls as [|l r IH]; intros H; [reflexivity|].
  pose proof (Forall_inv H) as [Hne Hnd]. pose proof (Forall_inv_tail H) as Hr.
  destruct r as [|l2 r2].
  - cbn [join_dots]. rewrite <- (app_nil_r l) at 1. rewrite split_dots_app_piece by exact Hnd. cbn [split_dots].
    rewrite app_nil_r. destruct (rev l) eqn:E; [apply (f_equal (@rev byte)) in E; rewrite rev_involutive in E; contradiction|].
    rewrite <- E, rev_involutive. reflexivity.
  - change (join_dots (l :: l2 :: r2)) with (l ++ DOT :: join_dots (l2 :: r2)).
    rewrite split_dots_app_piece by exact Hnd. cbn [split_dots]. rewrite app_nil_r.
    assert (Hd : Byte.eqb DOT DOT = true) by reflexivity. rewrite Hd.
    destruct (rev l) eqn:E; [apply (f_equal (@rev byte)) in E; rewrite rev_involutive in E; contradiction|].
    rewrite <- E, rev_involutive. f_equal. apply IH. exact Hr.
Qed.

Lemma label_ok_piece l : label_ok l -> piece l.
Proof.
  intros (H1 & H2 & H3). destruct l as [|f r]; [contradiction|]. split; [discriminate|].
  destruct H2 as [Hf Hr]. intros [E|Hin].
  - subst f. destruct Hf as [Hf|Hf]; [vm_compute in Hf|]; discriminate.
  - rewrite Forall_forall in Hr. specialize (Hr _ Hin). destruct Hr as [Hr|[Hr|Hr]]; [vm_compute in Hr|..]; discriminate.
Qed.

Theorem name_display_recreate s ls : name_new s = Ok ls -> name_new (join_dots ls) = Ok ls.
Proof.
  intros H. apply name_new_spec in H. destruct H as (E & Hok & Hlen). apply name_new_spec.
  split; [|split; assumption]. unfold labels_of_text. symmetry. apply split_join.
  eapply Forall_impl; [|exact Hok]. intros l. apply label_ok_piece.
Qed.

(* ---------- suffix algebra ---------- *)
Lemma labels_eqb_eq : forall a b, labels_eqb a b = true <-> a = b.
Proof.
  induction a as [|x a IH]; destruct b as [|y b]; cbn [labels_eqb]; split; intros H; try discriminate; try reflexivity.
  - apply andb_prop in H. destruct H as [H1 H2]. apply bytes_eqb_eq in H1. apply IH in H2. congruence.
  - injection H as -> ->. apply andb_true_intro. split; [apply bytes_eqb_eq; reflexivity|apply IH; reflexivity].
Qed.

Lemma zip_all_eq_prefix : forall x y, (length x <= length y)%nat -> (zip_all_eq x y = true <-> exists t, y = x ++ t).
Proof.
  induction x as [|a x IH]; intros y Hl; cbn [zip_all_eq].
  - split; [intros _; exists y; reflexivity|reflexivity].
  - destruct y as [|b y]; [cbn in Hl; lia|]. cbn [length] in Hl. rewrite andb_true_iff, bytes_eqb_eq, (IH y) by lia. split.
    + intros [-> [t ->]]. exists t. reflexivity.
    + intros [t E]. injection E as -> ->. split; [reflexivity|exists t; reflexivity].
Qed.

Theorem is_subdomain_of_spec a b : is_subdomain_of a b = true <-> exists pre, pre <> [] /\ a = pre ++ b.
Proof.
  unfold is_subdomain_of. rewrite andb_true_iff, Nat.ltb_lt. split.
  - intros [Hl Hz]. apply zip_all_eq_prefix in Hz; [|rewrite !rev_length; lia]. destruct Hz as [t E].
    apply (f_equal (@rev label)) in E. rewrite rev_involutive, rev_app_distr, rev_involutive in E.
    exists (rev t). split; [|exact E]. intros E2. rewrite E, E2 in Hl. cbn in Hl. lia.
  - intros (pre & Hne & ->). split.
    + rewrite app_length. destruct pre; [contradiction|cbn; lia].
    + apply zip_all_eq_prefix; [rewrite !rev_length, app_length; lia|]. exists (rev pre). apply rev_app_distr.
Qed.

Theorem without_spec a b c : without a b = Some c <-> c <> [] /\ a = c ++ b.
Proof.
  unfold without. destruct (is_subdomain_of a b) eqn:E.
  - apply is_subdomain_of_spec in E. destruct E as (pre & Hne & ->). rewrite app_length.
    replace (length pre + length b - length b)%nat with (length pre) by lia. rewrite firstn_app, firstn_all, Nat.sub_diag.
    cbn [firstn]. rewrite app_nil_r. split.
    + intros H. injection H as <-. split; [exact Hne|reflexivity].
    + intros [_ H]. apply app_inv_tail in H. congruence.
  - split; [discriminate|]. intros [Hne ->].
    assert (is_subdomain_of (c ++ b) b = true) by (apply is_subdomain_of_spec; exists c; split; [exact Hne|reflexivity]). congruence.
Qed.

Theorem is_link_local_spec n : is_link_local n = true <->
  exists pre l, n = pre ++ [l] /\ map to_lower l = [x6c; x6f; x63; x61; x6c].
Proof.
  unfold is_link_local. destruct (rev n) as [|l r] eqn:E.
  - split; [discriminate|]. intros (pre & l & -> & _). rewrite rev_app_distr in E. discriminate.
  - rewrite bytes_eqb_eq. apply (f_equal (@rev label)) in E. rewrite rev_involutive in E. cbn [rev] in E. split.
    + intros H. exists (rev r), l. split; [exact E|exact H].
    + intros (pre & l' & E2 & H). rewrite E in E2. apply app_inj_tail in E2. destruct E2 as [_ ->]. exact H.
Qed.

(* ================= C19 ================= *)
Theorem cstr_new_spec d : (cstr_new d = Ok d <-> len d <= 255) /\ (255 < len d -> cstr_new d = Err InvalidCharacterString).
Proof. unfold cstr_new. destruct (255 <? len d) eqn:E; split; try split; intros; try discriminate; try reflexivity; lia. Qed.

Lemma chunks_fuel_concat : forall fuel n l, (0 < n)%nat -> (length l < fuel)%nat ->
  List.concat (chunks_fuel fuel n l) = l /\ Forall (fun c => (1 <= length c <= n)%nat) (chunks_fuel fuel n l).
Proof.
  induction fuel as [|f IH]; intros n l Hn Hf; [lia|]. cbn [chunks_fuel]. destruct l as [|b r]; [split; [reflexivity|constructor]|].
  cbn [List.concat]. destruct (IH n (skipn n (b :: r)) Hn) as [Hc Hp].
  { rewrite skipn_length. cbn [length] in *. lia. }
  rewrite Hc, firstn_skipn. split; [reflexivity|]. constructor; [|exact Hp].
  rewrite firstn_length. cbn [length]. lia.
Qed.

Theorem txt_split_join s : valid_utf8 s = true ->
  exists strs, txt_of_text s = Ok strs /\ Forall (fun c => 1 <= len c <= 254) strs /\ text_of_txt strs = Ok s.
Proof.
  intros Hv. exists (chunks 254 s). split; [reflexivity|]. unfold chunks.
  destruct (chunks_fuel_concat (S (length s)) 254 s ltac:(lia) ltac:(lia)) as [Hc Hp]. split.
  - eapply Forall_impl; [|exact Hp]. intros c Hcl. cbv beta in Hcl. unfold len. lia.
  - unfold text_of_txt. rewrite Hc, Hv. reflexivity.
Qed.

(* escaping an instance name and unescaping it gives the name back *)
Lemma unescape_escape_fuel : forall s fuel, (2 * length s < fuel)%nat -> unescape_fuel fuel (escape_name s) = s.
Proof.
  induction s as [|b r IH]; intros fuel Hf; (destruct fuel as [|f]; [cbn in Hf; lia|]); [reflexivity|].
  cbn [escape_name]. destruct (Byte.eqb b DOT) eqn:E1.
  - apply byte_eqb_eq in E1. subst b. cbn [unescape_fuel]. change (Byte.eqb x5c x5c) with true. cbv iota.
    f_equal. apply IH. cbn [length] in Hf. lia.
  - destruct (Byte.eqb b x5c) eqn:E2.
    + apply byte_eqb_eq in E2. subst b. cbn [unescape_fuel]. change (Byte.eqb x5c x5c) with true. cbv iota.
      f_equal. apply IH. cbn [length] in Hf. lia.
    + cbn [unescape_fuel]. rewrite E2. f_equal. apply IH. cbn [length] in Hf. lia.
Qed.
Lemma escape_length s : (length (escape_name s) <= 2 * length s)%nat.
Proof. induction s as [|b r IH]; cbn [escape_name length]; [lia|]. destruct (Byte.eqb b DOT); [cbn; lia|]. destruct (Byte.eqb b x5c); cbn; lia. Qed.
Theorem unescape_escape s : unescape_name (escape_name s) = s.
Proof.
  unfold unescape_name.
  assert (G : forall fuel, (2 * length s < fuel)%nat -> unescape_fuel fuel (escape_name s) = s) by (intros; apply unescape_escape_fuel; assumption).
  (* the fuel S (length (escape s)) is enough as well: every step consumes at least one byte of the escaped string *)
  clear G. remember (S (length (escape_name s))) as fuel eqn:Hf.
  assert (Hle : (length (escape_name s) < fuel)%nat) by lia. clear Hf. revert fuel Hle.
  induction s as [|b r IH]; intros fuel Hle; (destruct fuel as [|f]; [lia|]); [reflexivity|].
  cbn [escape_name] in *. destruct (Byte.eqb b DOT) eqn:E1.
  - apply byte_eqb_eq in E1. subst b. cbn [unescape_fuel]. change (Byte.eqb x5c x5c) with true. cbv iota.
    f_equal. apply IH. cbn [length] in Hle. lia.
  - destruct (Byte.eqb b x5c) eqn:E2.
    + apply byte_eqb_eq in E2. subst b. cbn [unescape_fuel]. change (Byte.eqb x5c x5c) with true. cbv iota.
      f_equal. apply IH. cbn [length] in Hle. lia.
    + cbn [unescape_fuel]. rewrite E2. f_equal. apply IH. cbn [length] in Hle. lia.
Qed.

(* ---------- attribute maps ---------- *)
Lemma split_first_none : forall k acc, ~ In x3d k -> split_first x3d k acc = (rev acc ++ k, None).
Proof.
  induction k as [|b k IH]; intros acc Hn; cbn [split_first]; [rewrite app_nil_r; reflexivity|].
  assert (Hb : Byte.eqb b x3d = false) by (apply byte_eqb_neq; intros E; apply Hn; left; congruence).
  rewrite Hb, IH by (intros H; apply Hn; right; exact H). cbn [rev]. rewrite <- app_assoc. reflexivity.
Qed.
Lemma split_first_some : forall k v acc, ~ In x3d k -> split_first x3d (k ++ x3d :: v) acc = (rev acc ++ k, Some v).
Proof.
  induction k as [|b k IH]; intros v acc Hn; cbn [app split_first].
  - change (Byte.eqb x3d x3d) with true. cbv iota. rewrite app_nil_r. reflexivity.
  - assert (Hb : Byte.eqb b x3d = false) by (apply byte_eqb_neq; intros E; apply Hn; left; congruence).
    rewrite Hb, IH by (intros H; apply Hn; right; exact H). cbn [rev]. rewrite <- app_assoc. reflexivity.
Qed.

(* what an attribute map may hold so that it survives the TXT encoding: non-empty '='-free keys, everything valid UTF-8 *)
Definition wf_attr (a : attr) : Prop :=
  fst a <> [] /\ ~ In x3d (fst a) /\ valid_utf8 (fst a) = true /\
  match snd a with Some v => valid_utf8 v = true | None => True end.

Lemma attr_lookup_none : forall m k, ~ In k (map fst m) -> attr_lookup m k = None.
Proof.
  induction m as [|[k' v] r IH]; intros k Hn; [reflexivity|]. cbn [attr_lookup].
  destruct (bytes_eqb k' k) eqn:E; [apply bytes_eqb_eq in E; exfalso; apply Hn; left; exact E|].
  apply IH. intros H. apply Hn. right. exact H.
Qed.

Definition attr_step (m : list attr) (s : list byte) : list attr :=
  let '(key, rest) := split_first x3d s [] in
  if negb (valid_utf8 key) then m
  else match key with [] => m | _ =>
    let value := match rest with
                 | Some v => match v with [] => Some [] | _ => if valid_utf8 v then Some v else Some [] end
                 | None => None end in
    attr_insert_first m key value end.
Lemma attributes_fold strs : attributes strs = fold_left attr_step strs [].
Proof. reflexivity. Qed.

Lemma attr_step_entry m a : wf_attr a -> ~ In (fst a) (map fst m) -> attr_step m (txt_entry a) = m ++ [a].
Proof.
  destruct a as [k [v|]]; intros (Hne & Hnd & Hvk & Hvv) Hnin; cbn [fst snd txt_entry] in *; unfold attr_step.
  - rewrite split_first_some by exact Hnd. cbn [rev app]. rewrite Hvk. cbn [negb].
    destruct k as [|k0 kr]; [contradiction|]. unfold attr_insert_first. rewrite attr_lookup_none by exact Hnin.
    destruct v as [|v0 vr]; [reflexivity|]. rewrite Hvv. reflexivity.
  - rewrite split_first_none by exact Hnd. cbn [rev app]. rewrite Hvk. cbn [negb].
    destruct k as [|k0 kr]; [contradiction|]. unfold attr_insert_first. rewrite attr_lookup_none by exact Hnin. reflexivity.
Qed.

(* map -> TXT -> attributes() returns the same map, for EVERY iteration order of the HashMap (order is any list without
   duplicate keys); an absent value stays absent, an empty one stays empty *)
Theorem attrs_roundtrip : forall order, NoDup (map fst order) -> Forall wf_attr order ->
  attributes (map txt_entry order) = order.
Proof.
  intros order Hnd Hwf. rewrite attributes_fold.
  assert (G : forall acc, NoDup (map fst (acc ++ order)) -> fold_left attr_step (map txt_entry order) acc = acc ++ order).
  { clear Hnd. induction order as [|a r IH]; intros acc Hnd; cbn [map fold_left]; [rewrite app_nil_r; reflexivity|].
    rewrite attr_step_entry.
    - rewrite IH; [rewrite <- app_assoc; reflexivity|exact (Forall_inv_tail Hwf)|rewrite <- app_assoc; exact Hnd].
    - exact (Forall_inv Hwf).
    - rewrite map_app in Hnd. cbn [map] in Hnd. apply NoDup_remove_2 in Hnd. intros H. apply Hnd. apply in_or_app. left. exact H. }
  apply (G []). exact Hnd.
Qed.

(* duplicate keys on the wire: the first occurrence wins *)
Lemma attr_insert_first_lookup m k v k' :
  attr_lookup (attr_insert_first m k v) k' = match attr_lookup m k' with Some x => Some x | None => if bytes_eqb k k' then Some v else None end.
Proof.
  unfold attr_insert_first. destruct (attr_lookup m k) eqn:E.
  - destruct (attr_lookup m k') eqn:E'; [reflexivity|]. destruct (bytes_eqb k k') eqn:Ek; [|reflexivity].
    apply bytes_eqb_eq in Ek. subst. congruence.
  - induction m as [|[a b] r IH]; cbn [app attr_lookup].
    + destruct (bytes_eqb k k'); reflexivity.
    + cbn [attr_lookup] in E. destruct (bytes_eqb a k) eqn:Ea; [discriminate|]. destruct (bytes_eqb a k'); [reflexivity|]. apply IH. exact E.
Qed.
Lemma attr_step_keeps m s k x : attr_lookup m k = Some x -> attr_lookup (attr_step m s) k = Some x.
Proof.
  intros H. unfold attr_step. destruct (split_first x3d s []) as [key rest]. destruct (negb (valid_utf8 key)); [exact H|].
  destruct key; [exact H|]. rewrite attr_insert_first_lookup, H. reflexivity.
Qed.
Theorem attributes_first_wins : forall strs acc k x, attr_lookup acc k = Some x -> attr_lookup (fold_left attr_step strs acc) k = Some x.
Proof.
  induction strs as [|s r IH]; intros acc k x H; cbn [fold_left]; [exact H|]. apply IH. apply attr_step_keeps. exact H.
Qed.

(* the ';' / '=' splitters cut exactly at those bytes: joining the pieces with the separator gives the text back and no
   piece contains it (in UTF-8 the bytes 0x3B and 0x3D occur only as the characters ';' and '=') *)
Fixpoint join_with (x : byte) (ps : list (list byte)) : list byte :=
  match ps with [] => [] | [p] => p | p :: r => p ++ x :: join_with x r end.
Lemma split_all_spec : forall x l cur, ~ In x cur ->
  join_with x (split_all x l cur) = rev cur ++ l /\ Forall (fun p => ~ In x p) (split_all x l cur) /\ split_all x l cur <> [].
Proof.
  induction l as [|b r IH]; intros cur Hc; cbn [split_all].
  - split; [cbn; rewrite app_nil_r; reflexivity|]. split; [constructor; [intros H; apply in_rev in H; contradiction|constructor]|discriminate].
  - destruct (Byte.eqb b x) eqn:E.
    + apply byte_eqb_eq in E. subst b. destruct (IH [] (fun H => H)) as (J & F & N). split; [|split; [|discriminate]].
      * destruct (split_all x r []) as [|l0 l1] eqn:Es; [contradiction|].
        change (join_with x (rev cur :: l0 :: l1)) with (rev cur ++ x :: join_with x (l0 :: l1)). rewrite J. reflexivity.
      * constructor; [intros H; apply in_rev in H; contradiction|exact F].
    + apply byte_eqb_neq in E. destruct (IH (b :: cur)) as (J & F & N).
      { intros [H|H]; [congruence|contradiction]. }
      split; [rewrite J; cbn [rev]; rewrite <- app_assoc; reflexivity|]. split; assumption.
Qed.
