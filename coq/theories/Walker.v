(* An envelope reader that knows nothing about record types: header counts, questions, the fixed 10-byte RR header and
   the RDLENGTH skip (RFC 1035 4.1). Names are read with the name decoder, whose agreement with RFC 1035 4.1.4 is C06.
   No proofs here. *)
Require Import SD.Base SD.Name SD.Header.
Open Scope N_scope.

Record qentry := { qe_name : list label; qe_type : N; qe_class : N }.
Record entry := { e_owner : list label; e_type : N; e_class : N; e_ttl : N; e_rdlen : N; e_start : N; e_fixed : N }.
(* e_start: first byte of the entry; e_fixed: offset of its TYPE field; its RDATA occupies [e_fixed + 10, e_fixed + 10 + e_rdlen) *)
Definition e_end (e : entry) : N := e_fixed e + 10 + e_rdlen e.

Definition walk_question (d : list byte) (p : N) : option (qentry * N) :=
  match parse_name d p with
  | Ok (n, p1) =>
    match be_at d p1 2, be_at d (p1 + 2) 2 with
    | Some t, Some c => Some ({| qe_name := n; qe_type := t; qe_class := c |}, p1 + 4)
    | _, _ => None
    end
  | _ => None
  end.

Definition walk_rr (d : list byte) (p : N) : option (entry * N) :=
  match parse_name d p with
  | Ok (n, p1) =>
    match be_at d p1 2, be_at d (p1 + 2) 2, be_at d (p1 + 4) 4, be_at d (p1 + 8) 2 with
    | Some t, Some c, Some ttl, Some rl =>
      if p1 + 10 + rl <=? len d
      then Some ({| e_owner := n; e_type := t; e_class := c; e_ttl := ttl; e_rdlen := rl; e_start := p; e_fixed := p1 |}, p1 + 10 + rl)
      else None
    | _, _, _, _ => None
    end
  | _ => None
  end.

Fixpoint walk_section {A} (W : list byte -> N -> option (A * N)) (count : nat) (d : list byte) (p : N) : option (list A * N) :=
  match count with
  | O => Some ([], p)
  | S k => match W d p with
           | Some (x, p') => match walk_section W k d p' with Some (xs, p'') => Some (x :: xs, p'') | None => None end
           | None => None
           end
  end.

Record envelope := { w_id : N; w_word : N; w_qs : list qentry; w_ans : list entry; w_nss : list entry; w_adds : list entry; w_end : N }.

Definition walk (d : list byte) : option envelope :=
  match be_at d 0 2, be_at d 2 2, be_at d 4 2, be_at d 6 2, be_at d 8 2, be_at d 10 2 with
  | Some id, Some w, Some qd, Some an, Some ns, Some ar =>
    match walk_section walk_question (N.to_nat qd) d 12 with
    | Some (q, p1) =>
      match walk_section walk_rr (N.to_nat an) d p1 with
      | Some (a, p2) =>
        match walk_section walk_rr (N.to_nat ns) d p2 with
        | Some (n, p3) =>
          match walk_section walk_rr (N.to_nat ar) d p3 with
          | Some (x, p4) => Some {| w_id := id; w_word := w; w_qs := q; w_ans := a; w_nss := n; w_adds := x; w_end := p4 |}
          | None => None end
        | None => None end
      | None => None end
    | None => None end
  | _, _, _, _, _, _ => None
  end.
