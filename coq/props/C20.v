(* C20 — Cached discovery records expire on time. Time is an explicit tick count (two ticks per second) in the model;
   the real clock is exercised by the HISTB slice. Proved: the effect of each operation on a record's state, the filter
   semantics, and - over whole histories - that after ANY sequence of register / receive / remove / clear operations the
   state of every record equals a small specification that looks only at the operations touching that record (up to
   record equality: name, class, data), and that an exact-name query shows the record exactly when that state passes the
   filter. PARTIAL: the real clock (Instant, sleeps, scheduling) is outside the model; subdomain queries are characterised
   by C20_query_sound only. Property theorems only. *)
Require Import SD.Base SD.Codes SD.Name SD.RData SD.Packet SD.Store SD.StoreProofs SD.HistoryProofs.

(* a record learned from the network expires TTL seconds after THIS reception (one second with the cache-flush bit),
   so re-reception restarts the interval - unless the record is registered locally, which stays authoritative *)
Theorem C20_receive : forall st r now,
  kind_of (add_cached st r now) r =
  match kind_of st r with Some Auth => Some Auth | _ => Some (Cached (now + 2 * (if rcf r then 1 else rttl r))) end.
Proof. exact kind_after_add_cached. Qed.
Check C20_receive : forall st r now,
  kind_of (add_cached st r now) r =
  match kind_of st r with Some Auth => Some Auth | _ => Some (Cached (now + 2 * (if rcf r then 1 else rttl r))) end.
Print Assumptions C20_receive.
Theorem C20_register : forall st r, kind_of (add_authoritative st r) r = Some Auth.
Proof. exact kind_after_add_auth. Qed.
Print Assumptions C20_register.
Theorem C20_remove : forall st r, kind_of (remove_record st r) r = None.
Proof. exact kind_after_remove. Qed.
Print Assumptions C20_remove.
Theorem C20_clear : forall r, kind_of clear_store r = None.
Proof. exact kind_after_clear. Qed.
Print Assumptions C20_clear.

(* whole histories: the store refines the per-record specification, from any starting store and for any operation sequence *)
Theorem C20_history : forall ops st r, kind_of (fold_left apply_op ops st) r = fold_left (spec_step r) ops (kind_of st r).
Proof. exact history_refines. Qed.
Check C20_history : forall ops st r, kind_of (fold_left apply_op ops st) r = fold_left (spec_step r) ops (kind_of st r).
Print Assumptions C20_history.
(* the specification, spelled out so that it can be read here: only operations on an equal record matter *)
Example C20_spec_is : forall r s o, spec_step r s o =
  match o with
  | OpAddAuth a => if rr_eqb a r then Some Auth else s
  | OpAddCached a now => if rr_eqb a r then match s with Some Auth => Some Auth | _ => Some (Cached (now + 2 * (if rcf a then 1 else rttl a))) end else s
  | OpRemove a => if rr_eqb a r then None else s
  | OpClear => None
  end.
Proof. reflexivity. Qed.
Theorem C20_record_equality : forall a b, rr_eqb a b = true <-> (rname a = rname b /\ rclass a = rclass b /\ rdata_of a = rdata_of b).
Proof. exact rr_eqb_spec. Qed.
Print Assumptions C20_record_equality.
(* what the application sees after any history *)
Theorem C20_history_visibility : forall ops r f now, f_sub f = false ->
  ((exists r', rr_eqb r' r = true /\ In r' (List.concat (query (fold_left apply_op ops []) (rname r) f now)))
   <-> visible f (spec_state ops r) now = true).
Proof. exact history_visibility. Qed.
Print Assumptions C20_history_visibility.

(* authoritative records never expire and are never shown by the cache-only filter; cached ones are shown only while unexpired *)
Theorem C20_filters : forall v now,
  (match_filter (filter_authoritative false) v now = true <-> v = Auth) /\
  (match_filter filter_cached v now = true <-> exists e, v = Cached e /\ now < e) /\
  (match_filter filter_all v now = true <-> v = Auth \/ exists e, v = Cached e /\ now < e).
Proof. exact filter_semantics. Qed.
Print Assumptions C20_filters.
Theorem C20_window : forall t ttl now, match_filter filter_cached (Cached (t + 2 * ttl)) now = true <-> now < t + 2 * ttl.
Proof. exact cached_window. Qed.
Print Assumptions C20_window.
Theorem C20_ttl_zero : forall t now, t <= now -> match_filter filter_cached (Cached (t + 2 * 0)) now = false.
Proof. exact ttl_zero_never_visible. Qed.
Print Assumptions C20_ttl_zero.

(* queries return exactly what the filter admits among the records registered under the name *)
Theorem C20_query_sound : forall st name f now r, In r (List.concat (query st name f now)) ->
  exists k m v, In (k, m) st /\ In (r, v) m /\ match_filter f v now = true /\
                (if f_sub f then is_prefix (get_key name) k = true else k = get_key name).
Proof. exact query_sound. Qed.
Print Assumptions C20_query_sound.
Theorem C20_query_complete : forall st name f now r v m, f_sub f = false -> find_node st (get_key name) = Some m -> In (r, v) m ->
  match_filter f v now = true -> In r (List.concat (query st name f now)).
Proof. exact query_exact_complete. Qed.
Print Assumptions C20_query_complete.

(* the pinned tree replaced an equal authoritative record by a cached one (finding F23); after the repair it stays authoritative *)
Example C20_F23_repaired :
  let r := {| rname := [map bN [97]]; rclass := IN; rttl := 0; rcf := false; rdata_of := RD M_A [V_int 1] |} in
  kind_of (add_cached (add_authoritative [] r) r 5) r = Some Auth.
Proof. vm_compute. reflexivity. Qed.
