(* C16 — Owned copies equal originals; equality and hashing agree.
   into_owned / clone are modelled as field-wise rebuilds (Owned.v); the proof that they are the identity is short by nature
   (a dropped or swapped field in the Rust code is caught by the correspondence slice, not by this theorem).
   The Hash / PartialEq agreement has content: both use the same projection. Property theorems only. *)
Require Import SD.Base SD.Codes SD.Name SD.RData SD.Packet SD.Store SD.Owned SD.OwnedProofs.
From Coq Require Import Permutation.

Theorem C16_record_owned : forall r, rr_into_owned r = r.
Proof. exact rr_into_owned_id. Qed.
Print Assumptions C16_record_owned.
Theorem C16_question_owned : forall q, question_into_owned q = q.
Proof. exact question_into_owned_id. Qed.
Print Assumptions C16_question_owned.
Theorem C16_owned_bytes : forall r, enc_rr (rr_into_owned r) = enc_rr r.
Proof. exact rr_into_owned_bytes. Qed.
Print Assumptions C16_owned_bytes.

(* records that compare equal (name, class, rdata; TTL and cache-flush ignored) feed the hasher the same tokens *)
Theorem C16_record_eq_hash : forall a b, rr_eqb a b = true -> rr_hash_tokens a = rr_hash_tokens b.
Proof. exact rr_eq_hash. Qed.
Check C16_record_eq_hash : forall a b, rr_eqb a b = true -> rr_hash_tokens a = rr_hash_tokens b.
Print Assumptions C16_record_eq_hash.

(* instance information: equal sets, enumerated in ANY two orders, hash equally *)
Theorem C16_instance_hash : forall name ips1 ips2 ports1 ports2,
  Permutation ips1 ips2 -> Permutation ports1 ports2 ->
  instance_hash_tokens name ips1 ports1 = instance_hash_tokens name ips2 ports2.
Proof. exact instance_hash_order_independent. Qed.
Check C16_instance_hash : forall name ips1 ips2 ports1 ports2,
  Permutation ips1 ips2 -> Permutation ports1 ports2 ->
  instance_hash_tokens name ips1 ports1 = instance_hash_tokens name ips2 ports2.
Print Assumptions C16_instance_hash.
Theorem C16_sort_unique : forall a b, Permutation a b -> sortN a = sortN b.
Proof. exact sortN_unique. Qed.
Print Assumptions C16_sort_unique.
