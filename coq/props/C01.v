(* C01 — Parsing untrusted bytes never panics, hangs or over-allocates.
   Every indexing operation of the transliterated parsers is partial in the model (`Panic site`) and every loop runs
   on explicit fuel (`OutOfFuel`): the theorems show both outcomes unreachable for every byte string.
   Property theorems only. *)
Require Import SD.Base SD.Header SD.Name SD.NameProofs SD.RData SD.RDataProofs SD.Packet SD.PacketProofs.

(* Packet::parse on ANY byte string returns a value or an error: no panic site is reachable, no loop exhausts its fuel *)
Theorem C01_parse_total : forall d, (exists p, parse_packet d = Ok p) \/ (exists e, parse_packet d = Err e).
Proof. exact parse_packet_total. Qed.
Check C01_parse_total : forall d, (exists p, parse_packet d = Ok p) \/ (exists e, parse_packet d = Err e).
Print Assumptions C01_parse_total.

(* the eight header peeks on ANY buffer (in particular 0..=12 bytes) return a value or InvalidHeaderData *)
Theorem C01_peeks_total : forall d,
  (forall p, (exists v, peek16 d p = Ok v) \/ peek16 d p = Err InvalidHeaderData) /\
  (forall f, (exists b, peek_has_flags d f = Ok b) \/ peek_has_flags d f = Err InvalidHeaderData) /\
  ((exists r, peek_rcode d = Ok r) \/ peek_rcode d = Err InvalidHeaderData) /\
  ((exists o, peek_opcode d = Ok o) \/ peek_opcode d = Err InvalidHeaderData).
Proof. exact peeks_total. Qed.
Print Assumptions C01_peeks_total.

(* termination of the name loop for every pointer graph: the closed-form fuel |d| + 640 is never exhausted, by the
   measure 2 * (319 - name_size) + read cursor; hence at most |d| + 640 iterations per name *)
Theorem C01_name_terminates : forall d p, parse_name d p <> OutOfFuel.
Proof. exact parse_name_terminates. Qed.
Print Assumptions C01_name_terminates.
Theorem C01_name_steps : forall fuel d s, nsize s <= 318 -> (N.to_nat (meas s) < fuel)%nat -> name_loop fuel d s <> OutOfFuel.
Proof. exact name_loop_fuel. Qed.
Check C01_name_steps : forall fuel d s, nsize s <= 318 -> (N.to_nat (2 * (319 - nsize s) + pp s) < fuel)%nat -> name_loop fuel d s <> OutOfFuel.
Print Assumptions C01_name_steps.

(* header counts cannot drive allocation: the number of entries of an accepted message, and the capacity reserved up
   front for any section of any message, are bounded by the input length *)
Theorem C01_entries_bounded : forall d p, parse_packet d = Ok p ->
  5 * len (qs p) + 11 * (len (ans p) + len (nss p) + len (adds p)) + 12 <= len d + 11.
Proof. exact parse_packet_entries. Qed.
Print Assumptions C01_entries_bounded.
Theorem C01_capacity_bounded : forall d off c, 5 * section_capacity d off c <= len d.
Proof. exact section_capacity_bound. Qed.
Print Assumptions C01_capacity_bounded.

(* every typed RDATA parser, on every RDATA slice: no panic, cursor stays inside the slice *)
Theorem C01_typed_safe : forall m d p, p <= len d -> safe_res d p (parse_typed m d p).
Proof. exact parse_typed_safe. Qed.
Print Assumptions C01_typed_safe.

(* the pinned tree did panic: the model of the unrepaired loop reproduces finding F02 *)
Example C01_F02_on_pinned_loop : name_loop_pinned 100 [bN 3; bN 120; bN 192; bN 0] (init_st 2) = Panic 185.
Proof. exact name4_panics_pinned. Qed.
