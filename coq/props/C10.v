(* C10 — Each record type's RDATA layout and type code follow its RFC.
   Spec side (written from the RFCs, not from the code): Spec.rfc_layout, Codes.iana_type, and the declarative encoder
   `enc_layout` (concatenation of big-endian fields, length-prefixed strings, uncompressed names, trailing opaque data).
   Code side: RData.layout_for / parse_typed (transliteration of rdata/*.rs). Property theorems only. *)
Require Import SD.Base SD.Codes SD.CodesProofs SD.Name SD.RData SD.Spec SD.RDataProofs.

(* every type is read and written in its RFC's layout, under its IANA code *)
Theorem C10_layouts : forall m vs, m <> M_OPT -> map erase_fld (layout_for m vs) = rfc_layout m vs.
Proof. exact layouts_are_rfc. Qed.
Check C10_layouts : forall m vs, m <> M_OPT -> map erase_fld (layout_for m vs) = rfc_layout m vs.
Print Assumptions C10_layouts.
Theorem C10_opt_layout : map erase_fld (layout_of M_OPT) = rfc_layout M_OPT [].
Proof. exact opt_rdata_layout_is_rfc. Qed.
Print Assumptions C10_opt_layout.
Theorem C10_codes : forall m, code_of_mnem m = iana_type m.
Proof. exact type_mnemonics_iana. Qed.
Print Assumptions C10_codes.

(* parsing the canonical RFC encoding of any well-formed field-value tuple yields those values (and stops at its end),
   for every type, every value, wherever the RDATA sits in the buffer *)
Theorem C10_decode : forall m vs pre, wf_typed m vs ->
  parse_typed m (pre ++ enc_layout (layout_for m vs) vs) (len pre) = Ok (vs, len pre + len (enc_layout (layout_for m vs) vs)).
Proof. exact typed_roundtrip. Qed.
Check C10_decode : forall m vs pre, wf_typed m vs ->
  parse_typed m (pre ++ enc_layout (layout_for m vs) vs) (len pre) = Ok (vs, len pre + len (enc_layout (layout_for m vs) vs)).
Print Assumptions C10_decode.
(* serialising is the declarative encoder by definition (enc_rdata (RD m vs) = enc_layout (layout_for m vs) vs); the
   encoder does not look at the compress flag, so it is the RFC encoding of the RFC layout *)
Theorem C10_encode : forall lay vs, enc_layout (map erase_fld lay) vs = enc_layout lay vs.
Proof. exact enc_layout_erase. Qed.
Print Assumptions C10_encode.
(* len() — what is written as RDLENGTH — is the number of bytes emitted *)
Theorem C10_len : forall m vs, wf_typed m vs -> len (enc_layout (layout_for m vs) vs) = len_layout (layout_for m vs) vs.
Proof. exact typed_len. Qed.
Print Assumptions C10_len.

(* structural rules: whatever is accepted satisfies them, so encodings that break them are rejected *)
Theorem C10_accepted_is_wellformed : forall lay d p vs p', parse_layout lay d p = Ok (vs, p') ->
  (no_txt lay = true \/ (lay = [F_items I_cstr] /\ p < len d)) -> wf_vals lay vs.
Proof. exact parse_layout_image. Qed.
Print Assumptions C10_accepted_is_wellformed.
(* SVCB keys / NSEC windows: accepted items are strictly increasing *)
Theorem C10_items_increasing : forall fuel k d p prev its p', parse_items fuel k d p prev = Ok (its, p') ->
  Forall (wf_item k) its /\ (ordered k = true -> increasing prev its) /\ (p < len d -> its <> []).
Proof. exact parse_items_sound. Qed.
Print Assumptions C10_items_increasing.
Theorem C10_loc_version : forall d p v, byte_at d p = Some v -> v <> 0 -> exists e, parse_typed M_LOC d p = Err e.
Proof. exact loc_version_rejected. Qed.
Print Assumptions C10_loc_version.
(* an inner length overrunning the RDATA is an error *)
Theorem C10_item_overrun : forall k d p prev tag l,
  be_at d p (tagw k) = Some tag -> be_at d (p + N.of_nat (tagw k)) (lenw k) = Some l ->
  len d < p + N.of_nat (tagw k) + N.of_nat (lenw k) + l -> exists e, parse_item k d p prev = Err e.
Proof. exact parse_item_overrun. Qed.
Print Assumptions C10_item_overrun.
Theorem C10_string_overrun : forall d p l, byte_at d p = Some l -> len d < p + 1 + l -> exists e, parse_cstr d p = Err e.
Proof. exact parse_cstr_overrun. Qed.
Print Assumptions C10_string_overrun.

(* non-vacuity: an SOA and an SVCB value meet wf_typed and round-trip *)
Example C10_soa_wf :
  wf_typed M_SOA [V_name [map bN [110;115]]; V_name []; V_int 4000000000; V_int 1; V_int 2; V_int 3; V_int 65535].
Proof.
  split; [|exact I]. cbn. repeat split; try (vm_compute; reflexivity); try lia; repeat constructor; vm_compute; try discriminate; reflexivity.
Qed.

(* known findings F25 / F30 (see known_findings.txt): RFC forms the fixed structs cannot hold are rejected.
   They lie outside wf_typed (the tuples above always carry both ISDN strings and all 20 NSAP octets). *)
Example C10_known_isdn_sa_omitted : parse_typed M_ISDN (map bN [3; 49; 50; 51]) 0 = Err InsufficientData.
Proof. vm_compute. reflexivity. Qed.
Example C10_known_nsap_short : parse_typed M_NSAP (map bN [71; 0; 5; 128; 0; 90; 0]) 0 = Err InsufficientData.
Proof. vm_compute. reflexivity. Qed.
