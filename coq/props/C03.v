(* C03 — Name compression is transparent.
   For every well-formed packet (wf_packet, the same hypothesis as C02) both serialisations succeed, Packet::parse returns
   the same packet for both (namely the original), and the compressed form is never longer. No bound on the message size
   enters the statement: names first written beyond offset 16383 are not recorded in the table (Name.MAX_POINTER_OFFSET)
   and so are never the target of a pointer. Property theorems only. *)
Require Import SD.Base SD.Codes SD.Header SD.HeaderProofs SD.Name SD.NameProofs SD.RData SD.RDataProofs SD.Packet SD.RoundTrip
  SD.CompressProofs SD.CompressRoundTrip.
From Coq Require Import ZArith Lia.

Theorem C03_transparent : forall p, wf_packet p ->
  exists b bc, write_packet p = Ok b /\ write_packet_compressed p = Ok bc /\
               parse_packet bc = parse_packet b /\ parse_packet b = Ok p /\ len bc <= len b.
Proof. exact compressed_equals_plain. Qed.
Check C03_transparent : forall p, wf_packet p ->
  exists b bc, write_packet p = Ok b /\ write_packet_compressed p = Ok bc /\
               parse_packet bc = parse_packet b /\ parse_packet b = Ok p /\ len bc <= len b.
Print Assumptions C03_transparent.

Theorem C03_roundtrip_compressed : forall p, wf_packet p ->
  parse_packet (encc_packet p) = Ok p /\ len (encc_packet p) <= len (enc_packet p).
Proof. exact packet_roundtrip_compressed. Qed.
Print Assumptions C03_roundtrip_compressed.

(* the element lemma: any name, written through any sound table at any offset of any message, reads back as itself *)
Theorem C03_name : forall ls out t bs t' more, wf_labels ls -> labels_len ls <= 254 -> TInv out t ->
  wc_name t (len out) ls = (bs, t') -> parse_name (out ++ bs ++ more) (len out) = Ok (ls, len out + len bs).
Proof. exact parse_name_compressed. Qed.
Print Assumptions C03_name.
Theorem C03_name_not_longer : forall ls out t bs t', wf_labels ls -> TInv out t -> wc_name t (len out) ls = (bs, t') ->
  len bs <= len (write_name ls) /\ TInv (out ++ bs) t'.
Proof. intros ls out t bs t' H1 H2 H3. destruct (wc_name_inv ls out t bs t' H1 H2 H3) as (_ & _ & A & B). exact (conj A B). Qed.
Print Assumptions C03_name_not_longer.

(* the pointer bytes carry the recorded offset exactly when it fits 14 bits; on the pinned tree (no MAX_POINTER_OFFSET
   guard, `position as u16 | 0xC000`) an offset of 16384 was recorded and emitted as a pointer to offset 0 *)
Theorem C03_pointer_bytes : forall p, p <= 16383 -> be_enc 2 (N.lor (p mod 65536) 49152) = [bN (192 + p / 256); bN p].
Proof. exact ptr_bytes. Qed.
Print Assumptions C03_pointer_bytes.
Example C03_pinned_overflow : be_enc 2 (N.lor (16384 mod 65536) 49152) = [bN 192; bN 0].
Proof. vm_compute. reflexivity. Qed.

(* non-vacuity: a packet with suffixes shared between the question, owner names and CNAME / NS / MX / SRV data *)
Definition nA : list label := [map bN [97]; map bN [98]].
Definition nCA : list label := map bN [99] :: nA.
Definition C03_sample : packet :=
  {| hdr := new_query 7; popt := None;
     qs := [{| qname := nA; q_type := QT (TY M_CNAME); q_class := QC IN; unicast := false |}];
     ans := [{| rname := nCA; rclass := IN; rttl := 60; rcf := false; rdata_of := RD M_CNAME [V_name nA] |}];
     nss := [{| rname := nA; rclass := IN; rttl := 60; rcf := false; rdata_of := RD M_NS [V_name nCA] |}];
     adds := [{| rname := nCA; rclass := IN; rttl := 60; rcf := false; rdata_of := RD M_MX [V_int 10; V_name (map bN [100] :: nCA)] |};
              {| rname := nCA; rclass := IN; rttl := 60; rcf := false; rdata_of := RD M_SRV [V_int 1; V_int 2; V_int 3; V_name nCA] |}] |}.
Ltac wfl := repeat (first [apply Forall_nil | apply Forall_cons; [cbv; split; discriminate|]]).
Ltac wfn := split; [wfl | cbv; discriminate].
Lemma wfA : wf_name nA. Proof. wfn. Qed.
Lemma wfCA : wf_name nCA. Proof. wfn. Qed.
Lemma wfDCA : wf_name (map bN [100] :: nCA). Proof. wfn. Qed.
Example C03_sample_wf : wf_packet C03_sample.
Proof.
  constructor; cbn [C03_sample hdr popt qs ans nss adds new_query h_id h_opcode h_rcode h_flags].
  - lia.
  - discriminate.
  - discriminate.
  - exists 0. split; [lia|reflexivity].
  - intros _. cbv. reflexivity.
  - intros o H. discriminate.
  - apply Forall_cons; [|apply Forall_nil]. split; [exact wfA|]. intros u. discriminate.
  - apply Forall_cons; [|apply Forall_nil]. split; [exact wfCA|]. split; [cbn; lia|].
    split; [split; [split; [exact wfA|exact I]|exact I]|cbv; discriminate].
  - apply Forall_cons; [|apply Forall_nil]. split; [exact wfA|]. split; [cbn; lia|].
    split; [split; [split; [exact wfCA|exact I]|exact I]|cbv; discriminate].
  - apply Forall_cons; [|apply Forall_cons; [|apply Forall_nil]]; (split; [exact wfCA|]; split; [cbn; lia|]).
    + split; [split; [split; [cbn; lia|split; [exact wfDCA|exact I]]|exact I]|cbv; discriminate].
    + split; [split; [repeat (split; [cbn; lia|]); split; [exact wfCA|exact I]|exact I]|cbv; discriminate].
  - cbv. repeat split; reflexivity.
Qed.
Example C03_sample_shrinks : len (encc_packet C03_sample) = 94 /\ len (enc_packet C03_sample) = 123.
Proof. vm_compute. split; reflexivity. Qed.
