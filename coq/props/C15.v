(* C15 — Advertised service instances are discovered faithfully.
   (a) one announcement end to end: the records InstanceInformation::into_records produces for ANY instance description
       within DNS limits, sent in a compressed packet under any header, are parsed by the discoverer to records all of
       which it keeps, and InstanceInformation::from_records on them returns the advertised instance - same name, the same
       addresses and ports, the same attribute map (absent / empty / non-empty values distinguished; the enumeration
       order of the map is the only thing that changes);
   (b) the ingest filter keeps exactly the records that are not the discoverer's own and are strictly below the watched
       service; own records, records owned by the service name and foreign names are never kept;
   (c) unescape (escape s) = s for every byte string.
   (d) through the record store: a fresh discoverer (its own `service PTR instance` registered, as ServiceDiscovery::new
       does) that ingests the parsed announcement reports, from get_known_services, exactly the advertised instance at
       every instant before the TTL has elapsed and nothing afterwards.
   (e) any number of different peers: after their announcements, in any order and at any times, get_known_services lists
       exactly the peers whose TTL has not elapsed, each as advertised.
   (f) ANY sequence of announcements, repeats included (a peer heard before announcing the same instance again, possibly
       with another TTL): get_known_services equals a simple abstract view, instance name -> (instance as first advertised,
       expiry of the LAST reception).
   (g) ANY sequence of record batches for names directly below the service, re-announcements that CHANGE an instance's data
       included (more addresses, other ports, other text): the store equals an abstract view instance label -> association
       list (record, expiry) in which a record equal to one already held takes the new expiry in place and a new record is
       appended; get_known_services is from_records over the unexpired records of each entry. (The implementation merges the
       text of two DIFFERENT TXT records under one owner in HashMap iteration order, which the list-based model fixes as
       insertion order; the property does not speak about that case.)
   Property theorems only. *)
Require Import SD.Base SD.Codes SD.Header SD.HeaderProofs SD.Name SD.RData SD.Packet SD.RoundTrip SD.TextApi SD.TextApiProofs
  SD.Store SD.DiscoveryProofs SD.DiscoveryStore SD.Reannounce SD.ReannounceGen.

Theorem C15_discovered : forall i service inst me ttl h recs,
  let full := inst :: service in
  instance_ok i full ttl -> full <> me ->
  h_id h < 65536 -> named_opcode (h_opcode h) -> named_rcode (h_rcode h) -> rcode_disc (h_rcode h) < 16 -> (exists k, k < 128 /\ h_flags h = flagset k) ->
  into_records i full ttl = Ok recs ->
  exists b p', write_packet_compressed (announcement h recs) = Ok b /\ parse_packet b = Ok p' /\
    ingest_filter service me p' = ans p' /\
    from_records service (ingest_filter service me p')
    = Some {| i_name := inst; i_ips := i_ips i; i_ports := i_ports i; i_attrs := rev (i_attrs i) |}.
Proof. exact advertised_instance_discovered. Qed.
Print Assumptions C15_discovered.

Theorem C15_end_to_end : forall i service inst me ttl0 ttl h recs now now',
  let full := inst :: service in
  instance_ok i full ttl -> full <> me -> NoDup (i_ips i) -> NoDup (i_ports i) ->
  h_id h < 65536 -> named_opcode (h_opcode h) -> named_rcode (h_rcode h) -> rcode_disc (h_rcode h) < 16 -> (exists k, k < 128 /\ h_flags h = flagset k) ->
  into_records i full ttl = Ok recs ->
  exists b p', write_packet_compressed (announcement h recs) = Ok b /\ parse_packet b = Ok p' /\
    known_services (ingest (fresh_store service me ttl0) service me p' now) service now' =
    if now' <? now + 2 * ttl then [{| i_name := inst; i_ips := i_ips i; i_ports := i_ports i; i_attrs := rev (i_attrs i) |}] else [].
Proof. exact discovery_end_to_end. Qed.
Print Assumptions C15_end_to_end.

Theorem C15_several_peers : forall service me ttl0 peers now',
  NoDup (map p_inst peers) -> Forall peer_ok peers ->
  known_services (receive_all service peers (fresh_store service me ttl0)) service now' =
  List.concat (map (fun p => if now' <? p_now p + 2 * p_ttl p then [peer_instance p] else []) peers).
Proof. exact known_after_announcements. Qed.
Print Assumptions C15_several_peers.

Theorem C15_any_announcements : forall service me ttl0 anns now',
  Forall peer_ok anns -> (forall p q, In p anns -> In q anns -> agrees q p) ->
  known_services (receive_all service anns (fresh_store service me ttl0)) service now' =
  List.concat (map (fun x : entry => if now' <? snd x then [peer_instance (fst x)] else []) (abs_view anns)).
Proof. exact known_after_any_announcements. Qed.
Print Assumptions C15_any_announcements.
(* the abstract view, spelled out: a new name is appended; a name heard before keeps its entry and gets the new expiry *)
Example C15_view_is : forall st p, abs_insert st p =
  match st with
  | [] => [(p, p_now p + 2 * p_ttl p)]
  | (q, e) :: t => if bytes_eqb (p_inst q) (p_inst p) then (q, p_now p + 2 * p_ttl p) :: t else (q, e) :: abs_insert t p
  end.
Proof. intros [|[q e] t] p; reflexivity. Qed.

Theorem C15_any_batches : forall service me ttl0 bs now',
  Forall (batch_ok service) bs ->
  known_services (receive_batches bs (fresh_store service me ttl0)) service now' =
  List.concat (map (fun x : gentry => inst_of_group service (live now' (snd x))) (g_view bs)).
Proof. exact known_after_any_batches. Qed.
Check C15_any_batches : forall service me ttl0 bs now',
  Forall (batch_ok service) bs ->
  known_services (receive_batches bs (fresh_store service me ttl0)) service now' =
  List.concat (map (fun x : gentry => inst_of_group service (live now' (snd x))) (g_view bs)).
Print Assumptions C15_any_batches.
(* the view, spelled out *)
Example C15_batch_view_is : forall st b, g_insert st b =
  match st with
  | [] => [(b_inst b, ins_all (b_now b) (b_recs b) [])]
  | (i, m) :: t => if bytes_eqb i (b_inst b) then (i, ins_all (b_now b) (b_recs b) m) :: t else (i, m) :: g_insert t b
  end.
Proof. intros [|[i m] t] b; reflexivity. Qed.
Example C15_record_insert_is : forall now recs m, ins_all now recs m =
  fold_left (fun m0 r => map_insert m0 r (Cached (now + 2 * (if rcf r then 1 else rttl r)))) recs m.
Proof. reflexivity. Qed.
(* a changed re-announcement on concrete values: a third address and a shorter TTL; the merged instance is reported until the
   NEW expiry (tick 170), although the first announcement alone would have lasted until tick 250 *)
Example C15_changed_reannouncement :
  Forall (batch_ok sample_service) sample_batches /\
  let merged := {| i_name := map bN [112; 49]; i_ips := i_ips sample_instance ++ [(false, 167772162)]; i_ports := [8080];
                   i_attrs := rev (i_attrs sample_instance) |} in
  let st := receive_batches sample_batches (fresh_store sample_service [map bN [109; 101]; map bN [95; 115]] 120) in
  known_services st sample_service 100 = [merged] /\ known_services st sample_service 169 = [merged] /\
  known_services st sample_service 170 = [] /\ known_services st sample_service 249 = [].
Proof. split; [exact sample_batches_ok | exact changed_reannouncement]. Qed.

Theorem C15_ingest_filter : forall service me p r,
  In r (ingest_filter service me p) <->
  In r (ans p ++ adds p) /\ rname r <> me /\ exists pre, pre <> [] /\ rname r = pre ++ service.
Proof. exact ingest_filter_spec. Qed.
Check C15_ingest_filter : forall service me p r,
  In r (ingest_filter service me p) <->
  In r (ans p ++ adds p) /\ rname r <> me /\ exists pre, pre <> [] /\ rname r = pre ++ service.
Print Assumptions C15_ingest_filter.
Theorem C15_never_reported : forall service me p r,
  (rname r = me \/ rname r = service \/ ~ (exists pre, pre <> [] /\ rname r = pre ++ service)) -> ~ In r (ingest_filter service me p).
Proof. exact never_ingested. Qed.
Print Assumptions C15_never_reported.

Theorem C15_records_to_instance : forall i service inst full ttl its,
  full = inst :: service -> inst <> [] ->
  attributes (map (@snd N (list byte)) its) = i_attrs i -> NoDup (map fst (i_attrs i)) ->
  from_records service (instance_records i full ttl its)
  = Some {| i_name := inst; i_ips := i_ips i; i_ports := i_ports i; i_attrs := rev (i_attrs i) |}.
Proof. exact from_instance_records. Qed.
Print Assumptions C15_records_to_instance.

Theorem C15_escape : forall s, unescape_name (escape_name s) = s.
Proof. exact unescape_escape. Qed.
Check C15_escape : forall s, unescape_name (escape_name s) = s.
Print Assumptions C15_escape.

Example C15_hypotheses_satisfiable : instance_ok sample_instance (map bN [112; 49] :: sample_service) 120.
Proof. exact sample_instance_ok. Qed.
