(* C12 — Inspecting parsed data never panics.
   What the model can carry: the decision logic of the observers. After the F13 repair Display / Debug render lossily and have
   no failure branch; the conversions that can fail (TXT -> String, long_attributes, CharacterString -> String) fail exactly on
   invalid UTF-8 and return an error. The rendering itself (String::from_utf8_lossy, the maximal-subpart replacement of
   core::str::lossy) is modelled in Lossy.v: it is a total function, always yields well-formed UTF-8, leaves well-formed
   text untouched and is at most three times as long as its input; the SHOW slice compares it with what Display writes.
   Debug (derive output) is not modelled; detection of a reintroduced panic there comes from the OBSERVE slice.
   Property theorems only. *)
Require Import SD.Base SD.Name SD.NameProofs SD.RData SD.Packet SD.PacketProofs SD.TextApi SD.OwnedProofs SD.Lossy SD.LossyProofs.

(* Display for Label / CharacterString on ANY bytes: a value (no failure branch), and that value is text *)
Theorem C12_display_is_text : forall b, valid_utf8 (display_bytes b) = true.
Proof. exact lossy_valid. Qed.
Check C12_display_is_text : forall b, valid_utf8 (display_bytes b) = true.
Print Assumptions C12_display_is_text.
(* nothing that was text is altered; what was not text is never passed through unchanged *)
Theorem C12_display_faithful : forall b, (valid_utf8 b = true -> display_bytes b = b) /\ (valid_utf8 b = false -> display_bytes b <> b).
Proof. intros b. split; [apply lossy_id | apply lossy_changes_invalid]. Qed.
Check C12_display_faithful : forall b, (valid_utf8 b = true -> display_bytes b = b) /\ (valid_utf8 b = false -> display_bytes b <> b).
Print Assumptions C12_display_faithful.
Theorem C12_display_bounded : forall b, (length (display_bytes b) <= 3 * length b)%nat.
Proof. exact lossy_length. Qed.
Print Assumptions C12_display_bounded.
(* Display for Name on ANY labels *)
Theorem C12_name_display_is_text : forall ls, valid_utf8 (display_name ls) = true.
Proof. exact display_name_valid. Qed.
Check C12_name_display_is_text : forall ls, valid_utf8 (display_name ls) = true.
Print Assumptions C12_name_display_is_text.
Theorem C12_name_display_faithful : forall ls, Forall (fun l => valid_utf8 l = true) ls -> display_name ls = join_dots ls.
Proof. exact display_name_text. Qed.
Print Assumptions C12_name_display_faithful.
(* a lone continuation byte, a truncated three-byte sequence followed by ASCII, an overlong, a surrogate: one U+FFFD per
   maximal ill-formed subpart *)
Example C12_display_samples :
  display_bytes [x80] = REPL /\ display_bytes [xe2; x82; x41] = REPL ++ [x41] /\
  display_bytes [xc0; xaf] = REPL ++ REPL /\ display_bytes [xed; xa0; x80] = REPL ++ REPL ++ REPL /\
  display_bytes [xf0; x9f; x92; x41] = REPL ++ [x41] /\ display_name [[x61; xff]; [x62]] = [x61] ++ REPL ++ [x2e; x62].
Proof. vm_compute. repeat split. Qed.

Theorem C12_txt_to_string : forall strs,
  (exists s, text_of_txt strs = Ok s /\ valid_utf8 s = true) \/ (exists e, text_of_txt strs = Err e /\ valid_utf8 (List.concat strs) = false).
Proof. exact text_of_txt_total. Qed.
Print Assumptions C12_txt_to_string.
Theorem C12_long_attributes : forall strs,
  (exists m, long_attributes strs = Ok m) \/ (exists e, long_attributes strs = Err e /\ valid_utf8 (List.concat strs) = false).
Proof. exact long_attributes_total. Qed.
Print Assumptions C12_long_attributes.
(* whatever the parser hands out has labels of 1..63 bytes and names within 255 bytes, whatever bytes they contain *)
Theorem C12_parsed_names : forall d p ls p', parse_name d p = Ok (ls, p') -> wf_labels ls /\ labels_len ls <= 254.
Proof. intros d p ls p' H. apply parse_name_sound in H. tauto. Qed.
Print Assumptions C12_parsed_names.
(* and parsing itself is total (C01) *)
Theorem C12_parse_total : forall d, (exists p, parse_packet d = Ok p) \/ (exists e, parse_packet d = Err e).
Proof. exact parse_packet_total. Qed.
Print Assumptions C12_parse_total.
