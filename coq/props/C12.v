(* C12 — Inspecting parsed data never panics.
   What the model can carry: the decision logic of the observers. After the F13 repair Display / Debug render lossily and have
   no failure branch; the conversions that can fail (TXT -> String, long_attributes, CharacterString -> String) fail exactly on
   invalid UTF-8 and return an error. The rendering itself (from_utf8_lossy) is not modelled; detection of a reintroduced
   panic comes from the OBSERVE slice. Property theorems only. *)
Require Import SD.Base SD.Name SD.NameProofs SD.RData SD.Packet SD.PacketProofs SD.TextApi SD.OwnedProofs.

Theorem C12_txt_to_string : forall strs,
  (exists s, text_of_txt strs = Ok s /\ valid_utf8 s = true) \/ (exists e, text_of_txt strs = Err e /\ valid_utf8 (List.concat strs) = false).
Proof. exact text_of_txt_total. Qed.
Print Assumptions C12_txt_to_string.
Theorem C12_long_attributes : forall strs,
  (exists m, long_attributes strs = Ok m) \/ (exists e, long_attributes strs = Err e /\ valid_utf8 (List.concat strs) = false).
Proof. exact long_attributes_total. Qed.
Print Assumptions C12_long_attributes.
(* whatever the parser hands out has labels of 1..63 bytes and names within 255 bytes, whatever bytes they contain *)
Theorem C12_parsed_names : forall d p ls p', parse_name d p = Ok (ls, p') -> wf_labels ls /\ labels_len ls <= 254.
Proof. intros d p ls p' H. apply parse_name_sound in H. tauto. Qed.
Print Assumptions C12_parsed_names.
(* and parsing itself is total (C01) *)
Theorem C12_parse_total : forall d, (exists p, parse_packet d = Ok p) \/ (exists e, parse_packet d = Err e).
Proof. exact parse_packet_total. Qed.
Print Assumptions C12_parse_total.
