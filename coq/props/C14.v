(* C14 — No datagram can crash or wedge the mDNS services.
   Pipeline.v gives the loop bodies of the responder, the discovery listener and the one-shot resolver's header peeks as
   functions of (store, datagram, clock); every Rust indexing / unwrap below them is a Panic outcome of the model and
   every loop runs on fuel, so "returns Ok" means: no panic, terminates.
   (a) totality for EVERY datagram (any length, any bytes) and EVERY store (no invariant assumed);
   (b) the listener leaves a store that still satisfies the store invariant;
   (c) a reply that is produced is the compressed serialisation of the reply packet and parses back to it, provided the
       records the application registered are well-formed and the reply has fewer than 65536 answers / additional records.
   PARTIAL: threads, the RwLock and the sockets are outside the model (the D slice drives the same loop bodies through the
   cfg(simple_dns_verif) wrappers; a panic there is what kills the thread or poisons the lock); the tokio twins share
   build_reply, the store and the codec but their own glue is not modelled. Property theorems only. *)
Require Import SD.Base SD.Codes SD.Header SD.Name SD.RData SD.Packet SD.RoundTrip SD.Store SD.StoreProofs SD.HistoryProofs SD.Pipeline SD.PipelineProofs SD.Reachable.

Theorem C14_responder_total : forall st d now, exists h, responder_step st d now = Ok h.
Proof. exact responder_total. Qed.
Check C14_responder_total : forall st d now, exists h, responder_step st d now = Ok h.
Print Assumptions C14_responder_total.

Theorem C14_discovery_total : forall st service me d now,
  exists st' h, discovery_step st service me d now = Ok (st', h) /\ (store_ok st -> store_ok st').
Proof. exact discovery_total. Qed.
Check C14_discovery_total : forall st service me d now,
  exists st' h, discovery_step st service me d now = Ok (st', h) /\ (store_ok st -> store_ok st').
Print Assumptions C14_discovery_total.

Theorem C14_resolver_peeks_total : forall buf,
  let '(a, b, c) := resolver_peeks buf in
  ((exists v, a = Ok v) \/ a = Err InvalidHeaderData) /\ ((exists v, b = Ok v) \/ b = Err InvalidHeaderData) /\
  ((exists v, c = Ok v) \/ c = Err InvalidHeaderData).
Proof. exact resolver_peeks_total. Qed.
Print Assumptions C14_resolver_peeks_total.

Theorem C14_reply_parses : forall st d now b u, store_records_wf st -> responder_step st d now = Ok (H_reply b u) ->
  exists p r, parse_packet d = Ok p /\ build_reply st p now = Some r /\ u = rp_unicast r /\
    (len (rp_answers r) < 65536 -> len (rp_additional r) < 65536 -> parse_packet b = Ok (reply_packet r)).
Proof. exact responder_reply_parses. Qed.
Print Assumptions C14_reply_parses.

Theorem C14_build_cannot_fail : forall st d now e, store_records_wf st -> responder_step st d now = Ok (H_build_failed e) ->
  exists p r, parse_packet d = Ok p /\ build_reply st p now = Some r /\ ~ (len (rp_answers r) < 65536 /\ len (rp_additional r) < 65536).
Proof. exact responder_never_fails_to_build. Qed.
Print Assumptions C14_build_cannot_fail.

(* the hypothesis of the two theorems above is met by every store the application can build from well-formed records, by
   any sequence of register / receive / remove / clear operations *)
Theorem C14_store_hypotheses_reachable : forall ops, (forall o r, In o ops -> op_record o = Some r -> wf_rr r) ->
  store_records_wf (fold_left apply_op ops []) /\ names_short (fold_left apply_op ops []) /\ store_ok (fold_left apply_op ops []).
Proof. exact reachable_store_wf. Qed.
Print Assumptions C14_store_hypotheses_reachable.

(* the pinned tree: the responder's header peek indexed data[2..4] of an empty datagram (finding F01); on the repaired
   model an empty datagram is skipped *)
Example C14_empty_datagram : forall st now, responder_step st [] now = Ok H_skip.
Proof. intros st now. reflexivity. Qed.
