(* C17 — Textual name API: validation, display and suffix algebra. Strings are their UTF-8 bytes.
   Property theorems only. *)
Require Import SD.Base SD.Name SD.TextApi SD.TextApiProofs SD.Lossy SD.LossyProofs.

(* Name::new succeeds exactly when every dot-separated non-empty label meets the grammar (label_ok: 1..63 characters,
   first a letter / digit / underscore, then letters / digits / hyphens / underscores, last a letter or digit) and the
   encoded name is at most 255 bytes; the result is those labels *)
Theorem C17_new : forall s ls, name_new s = Ok ls <-> ls = labels_of_text s /\ Forall label_ok ls /\ name_len ls <= 255.
Proof. exact name_new_spec. Qed.
Check C17_new : forall s ls, name_new s = Ok ls <-> ls = labels_of_text s /\ Forall label_ok ls /\ name_len ls <= 255.
Print Assumptions C17_new.
Theorem C17_label_grammar : forall l, valid_label l = true <-> label_ok l.
Proof. exact valid_label_spec. Qed.
Print Assumptions C17_label_grammar.
(* the labels are the text's non-empty dot-free pieces *)
Theorem C17_pieces : forall l cur, ~ In DOT cur -> Forall piece (split_dots l cur).
Proof. exact split_dots_pieces. Qed.
Print Assumptions C17_pieces.
(* displaying an accepted name gives the text without empty labels; re-creating it gives an equal name *)
Theorem C17_display_recreate : forall s ls, name_new s = Ok ls -> name_new (join_dots ls) = Ok ls.
Proof. exact name_display_recreate. Qed.
Print Assumptions C17_display_recreate.
(* the same through the real Display (lossy rendering of each label, Lossy.v): on a name made from text nothing is replaced *)
Theorem C17_display_is_text : forall s ls, name_new s = Ok ls -> display_name ls = join_dots ls /\ name_new (display_name ls) = Ok ls.
Proof. exact display_of_new. Qed.
Check C17_display_is_text : forall s ls, name_new s = Ok ls -> display_name ls = join_dots ls /\ name_new (display_name ls) = Ok ls.
Print Assumptions C17_display_is_text.

(* subdomain: strictly longer and ending with the other's labels *)
Theorem C17_subdomain : forall a b, is_subdomain_of a b = true <-> exists pre, pre <> [] /\ a = pre ++ b.
Proof. exact is_subdomain_of_spec. Qed.
Check C17_subdomain : forall a b, is_subdomain_of a b = true <-> exists pre, pre <> [] /\ a = pre ++ b.
Print Assumptions C17_subdomain.
(* removing a suffix returns the remaining leading labels exactly in that case *)
Theorem C17_without : forall a b c, without a b = Some c <-> c <> [] /\ a = c ++ b.
Proof. exact without_spec. Qed.
Print Assumptions C17_without.
(* link-local: the last label is "local" in any letter case *)
Theorem C17_link_local : forall n, is_link_local n = true <->
  exists pre l, n = pre ++ [l] /\ map to_lower l = [x6c; x6f; x63; x61; x6c].
Proof. exact is_link_local_spec. Qed.
Print Assumptions C17_link_local.

Example C17_sample : name_new (map bN [95;115;114;118;46;46;108;111;99;97;108;46]) = Ok [map bN [95;115;114;118]; map bN [108;111;99;97;108]].
Proof. vm_compute. reflexivity. Qed.
