(* C06 — Domain names are decoded exactly as RFC 1035 section 4.1.4 prescribes.
   Specification: the inductive relations rfc_bw / rfc_name / inplace of Name.v (independent of the loop).
   Property theorems only. *)
Require Import SD.Base SD.Name SD.NameProofs.

(* a successfully parsed name is exactly an RFC 1035 derivation from that position (pointers strictly backwards),
   every label is 1..63 bytes, the expanded name is at most 255 bytes on the wire (254 + root),
   and the enclosing element resumes right after the in-place bytes (after the first pointer, if any) *)
Theorem C06_sound : forall d p ls p', parse_name d p = Ok (ls, p') ->
  rfc_bw d p ls /\ wf_labels ls /\ labels_len ls <= 254 /\ inplace d p p'.
Proof. exact parse_name_sound. Qed.
Check C06_sound : forall d p ls p', parse_name d p = Ok (ls, p') ->
  rfc_bw d p ls /\ wf_labels ls /\ labels_len ls <= 254 /\ inplace d p p'.
Print Assumptions C06_sound.

(* backward-pointer derivations are RFC derivations *)
Theorem C06_bw_is_rfc : forall d p ls, rfc_bw d p ls -> rfc_name d p ls.
Proof. exact rfc_bw_rfc. Qed.
Print Assumptions C06_bw_is_rfc.

(* completeness: every RFC derivation with backward pointers and within the 255-byte budget is accepted with
   exactly those labels (so the parser is not sound by rejecting everything) *)
Theorem C06_complete : forall d p ls, rfc_bw d p ls -> labels_len ls <= 254 ->
  exists e, parse_name d p = Ok (ls, e) /\ inplace d p e.
Proof. exact parse_name_complete. Qed.
Check C06_complete : forall d p ls, rfc_bw d p ls -> labels_len ls <= 254 ->
  exists e, parse_name d p = Ok (ls, e) /\ inplace d p e.
Print Assumptions C06_complete.

(* the in-place end is unique *)
Theorem C06_inplace_unique : forall d p e1, inplace d p e1 -> forall e2, inplace d p e2 -> e1 = e2.
Proof. exact inplace_det. Qed.
Print Assumptions C06_inplace_unique.

(* errors, not panics or hangs: pointer cycles, forward / out-of-message pointers, label types 01 and 10 and
   over-long names have no derivation within budget, and whatever has none is an `Err` *)
Theorem C06_total : forall d p, (exists r, parse_name d p = Ok r) \/ (exists e, parse_name d p = Err e).
Proof. exact parse_name_total. Qed.
Print Assumptions C06_total.
Theorem C06_errors : forall d p, (forall ls, ~ (rfc_bw d p ls /\ labels_len ls <= 254)) -> exists e, parse_name d p = Err e.
Proof. exact parse_name_errors. Qed.
Check C06_errors : forall d p, (forall ls, ~ (rfc_bw d p ls /\ labels_len ls <= 254)) -> exists e, parse_name d p = Err e.
Print Assumptions C06_errors.
Theorem C06_reserved_label_types : forall d p b ls, byte_at d p = Some b -> 64 <= b < 192 -> ~ rfc_bw d p ls.
Proof. exact reserved_types_no_derivation. Qed.
Print Assumptions C06_reserved_label_types.
Theorem C06_pointer_in_message_and_backwards : forall d p b1 b2 ls,
  byte_at d p = Some b1 -> N.land b1 192 = 192 -> byte_at d (p + 1) = Some b2 -> rfc_bw d p ls ->
  N.land b1 63 * 256 + b2 < p /\ N.land b1 63 * 256 + b2 < len d.
Proof. exact pointer_backwards. Qed.
Print Assumptions C06_pointer_in_message_and_backwards.

(* non-vacuity: the RFC 1035 4.1.4 example (F.ISI.ARPA, FOO.F.ISI.ARPA via pointer) *)
Example C06_rfc_example :
  parse_name (map bN [1;70; 3;73;83;73; 4;65;82;80;65; 0; 3;70;79;79; 192;0]) 12
  = Ok ([map bN [70;79;79]; map bN [70]; map bN [73;83;73]; map bN [65;82;80;65]], 18).
Proof. exact rfc_vector. Qed.
