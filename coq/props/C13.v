(* C13 — mDNS replies contain exactly the matching records.
   Store.v transliterates ResourceRecordManager (with a model of radix_trie 0.2.1 restricted to the calls used) and build_reply.
   Property theorems only. *)
Require Import SD.Base SD.Codes SD.Name SD.RData SD.Packet SD.Header SD.Store SD.StoreProofs SD.HistoryProofs.

(* the heart: with length-prefixed label keys, one key is a byte prefix of another iff the names are in the label-suffix
   relation (false for the pinned concatenated-text key: officeprinter.local vs printer.office.local, finding F17) *)
Theorem C13_key_prefix : forall a b, short_labels a -> short_labels b ->
  (is_prefix (get_key a) (get_key b) = true <-> exists pre, b = pre ++ a).
Proof. exact key_prefix_iff_suffix. Qed.
Check C13_key_prefix : forall a b, short_labels a -> short_labels b ->
  (is_prefix (get_key a) (get_key b) = true <-> exists pre, b = pre ++ a).
Print Assumptions C13_key_prefix.
Theorem C13_key_injective : forall a b, short_labels a -> short_labels b -> get_key a = get_key b -> a = b.
Proof. exact key_injective. Qed.
Print Assumptions C13_key_injective.

(* every store reached by ANY sequence of add-authoritative / add-cached / remove / clear keeps each record under its owner's key *)
Theorem C13_reachable : forall ops, store_ok (fold_left apply_op ops []).
Proof. exact reachable_ok. Qed.
Print Assumptions C13_reachable.

(* names_short, used below, holds in every store reached from records whose labels are shorter than 256 bytes (every
   record built or parsed by simple-dns has labels of at most 63 bytes) *)
Theorem C13_names_short_reachable : forall ops, (forall o r, In o ops -> op_record o = Some r -> short_labels (rname r)) ->
  names_short (fold_left apply_op ops []).
Proof. exact reachable_names_short. Qed.
Print Assumptions C13_names_short_reachable.

(* soundness: each answer is a registered authoritative record whose owner equals the question name or is a label-wise
   subdomain of it and whose type and class match; the reply carries the query's id and the response flag, asks for unicast
   delivery iff some question did, and has at least one answer *)
Theorem C13_sound : forall st p now r, store_ok st -> names_short st -> Forall (fun q => short_labels (qname q)) (qs p) ->
  build_reply st p now = Some r ->
  rp_id r = h_id (hdr p) /\ rp_response r = true /\ rp_unicast r = existsb unicast (qs p) /\ rp_answers r <> [] /\
  (forall a, In a (rp_answers r) -> exists q, In q (qs p) /\ registered st a Auth /\ (exists pre, rname a = pre ++ qname q) /\
                                   match_qtype (type_of_rdata (rdata_of a)) (q_type q) = true /\ match_qclass (rclass a) (q_class q) = true).
Proof. exact reply_sound. Qed.
Print Assumptions C13_sound.

(* completeness: every registered authoritative record whose owner equals a question name and matches its type and class is included *)
Theorem C13_complete : forall st q now a k m, In (k, m) st -> In (a, Auth) m -> k = get_key (rname a) -> rname a = qname q ->
  match_qtype (type_of_rdata (rdata_of a)) (q_type q) = true -> match_qclass (rclass a) (q_class q) = true ->
  In a (answers_for st q now).
Proof. exact answers_complete. Qed.
Print Assumptions C13_complete.

(* below the question name: a matching record owned by a label-wise subdomain is included whenever the trie has a node at
   the question name's key (an inserted key or a branch point; radix_trie's subtrie() returns nothing otherwise - the
   property asks for completeness at the question name only, where such a node always exists) *)
Theorem C13_complete_subdomain : forall st q now a k m pre, In (k, m) st -> In (a, Auth) m -> k = get_key (rname a) ->
  rname a = pre ++ qname q -> short_labels (rname a) -> short_labels (qname q) ->
  node_exists st (get_key (qname q)) = true ->
  match_qtype (type_of_rdata (rdata_of a)) (q_type q) = true -> match_qclass (rclass a) (q_class q) = true ->
  In a (answers_for st q now).
Proof. exact answers_complete_subdomain. Qed.
Print Assumptions C13_complete_subdomain.

(* no reply is produced exactly when nothing matches *)
Theorem C13_none : forall st p now, build_reply st p now = None <-> (forall q, In q (qs p) -> answers_for st q now = []).
Proof. exact reply_none_iff. Qed.
Print Assumptions C13_none.

(* additional records are registered authoritative address records of a matching class, owned by the target of an included SRV answer *)
Theorem C13_additional : forall st p now r x, build_reply st p now = Some r -> In x (rp_additional r) ->
  exists q a t, In q (qs p) /\ In a (rp_answers r) /\ srv_target (rdata_of a) = Some t /\
    registered st x Auth /\ (type_of_rdata (rdata_of x) = TY M_A \/ type_of_rdata (rdata_of x) = TY M_AAAA) /\
    match_qclass (rclass x) (q_class q) = true /\
    (store_ok st -> names_short st -> short_labels t -> rname x = t).
Proof. exact additional_sound. Qed.
Print Assumptions C13_additional.

Example C13_F17_on_pinned_key :
  let office_printer := [map bN [111; 102; 102; 105; 99; 101; 112; 114; 105; 110; 116; 101; 114]; map bN [108; 111; 99; 97; 108]] in
  let printer_office := [map bN [112; 114; 105; 110; 116; 101; 114]; map bN [111; 102; 102; 105; 99; 101]; map bN [108; 111; 99; 97; 108]] in
  is_prefix (pinned_key office_printer) (pinned_key printer_office) = true /\
  is_prefix (get_key office_printer) (get_key printer_office) = false.
Proof. exact pinned_key_collision. Qed.
