(* C02 — Build then parse returns the same packet.
   wf_packet (RoundTrip.v) spells out "assembled through the public constructors and within DNS size limits":
   labels 1..63 bytes and names <= 255, integer fields in range, named opcode / rcode, a response code above 15 only with
   an OPT record, no OPT record in the sections, typed RDATA well-formed per its layout (strings <= 255, TXT with >= 1
   string, SVCB keys / NSEC windows strictly increasing, LOC version 0), unknown-type data non-empty and <= 65535,
   every RDATA <= 65535 bytes, section counts < 65536. Property theorems only. *)
Require Import SD.Base SD.Codes SD.Header SD.HeaderProofs SD.Name SD.RData SD.RDataProofs SD.Packet SD.RoundTrip.

Theorem C02_roundtrip : forall p, wf_packet p -> exists b, write_packet p = Ok b /\ parse_packet b = Ok p.
Proof. exact build_then_parse. Qed.
Check C02_roundtrip : forall p, wf_packet p -> exists b, write_packet p = Ok b /\ parse_packet b = Ok p.
Print Assumptions C02_roundtrip.

(* the element lemmas it rests on, for any surrounding bytes (each holds at every offset of every buffer) *)
Theorem C02_record : forall r pre post, wf_rr r -> parse_rr (pre ++ enc_rr r ++ post) (len pre) = Ok (r, len pre + len (enc_rr r)).
Proof. exact parse_rr_enc. Qed.
Print Assumptions C02_record.
Theorem C02_question : forall q pre post, wf_question q ->
  parse_question (pre ++ enc_question q ++ post) (len pre) = Ok (q, len pre + len (enc_question q)).
Proof. exact parse_question_enc. Qed.
Print Assumptions C02_question.
Theorem C02_opt_record : forall o h pre post, wf_opt o -> named_rcode (h_rcode h) ->
  parse_rr (pre ++ enc_rr (opt_record o h) ++ post) (len pre) = Ok (opt_record o h, len pre + len (enc_rr (opt_record o h))).
Proof. exact parse_opt_record. Qed.
Print Assumptions C02_opt_record.

(* non-vacuity: a response with EDNS (BADVERS needs it), an SOA, a TXT, an unknown-type record and a binary label *)
Definition C02_sample : packet :=
  {| hdr := {| h_id := 4660; h_opcode := Update; h_rcode := BADVERS; h_flags := flagset 65 |};
     popt := Some {| o_udp := 1232; o_version := 0; o_codes := [(10, map bN [1;2;3])] |};
     qs := [{| qname := [map bN [119;119;119]; map bN [0;255]]; q_type := QT_ANY; q_class := QC IN; unicast := true |}];
     ans := [{| rname := [map bN [97]]; rclass := CH; rttl := 4294967295; rcf := true;
                rdata_of := RD M_SOA [V_name [map bN [110;115]]; V_name []; V_int 1; V_int 2; V_int 3; V_int 4; V_int 5] |}];
     nss := [{| rname := []; rclass := IN; rttl := 0; rcf := false; rdata_of := RD M_TXT [V_items [(0, []); (0, map bN [61])]] |}];
     adds := [{| rname := [map bN [120]]; rclass := NONE; rttl := 7; rcf := false; rdata_of := RD_null 4242 (map bN [9]) |};
              {| rname := [map bN [121]]; rclass := IN; rttl := 7; rcf := false; rdata_of := RD_empty (TY M_A) |}] |}.
Example C02_sample_roundtrips : parse_packet (enc_packet C02_sample) = Ok C02_sample.
Proof. vm_compute. reflexivity. Qed.

(* the hypotheses are not padding: dropping a clause gives a counter-example *)
Example C02_txt_without_strings_changes :     (* TXT::new() is written as one empty string *)
  let p := {| hdr := new_query 1; popt := None; qs := []; nss := []; adds := [];
              ans := [{| rname := []; rclass := IN; rttl := 0; rcf := false; rdata_of := RD M_TXT [V_items []] |}] |} in
  parse_packet (enc_packet p) <> Ok p.
Proof. vm_compute. discriminate. Qed.
Example C02_extended_rcode_needs_opt :
  let p := {| hdr := {| h_id := 1; h_opcode := StandardQuery; h_rcode := BADVERS; h_flags := 0 |};
              popt := None; qs := []; ans := []; nss := []; adds := [] |} in
  parse_packet (enc_packet p) <> Ok p.
Proof. vm_compute. discriminate. Qed.
Example C02_empty_unknown_data_changes :
  let p := {| hdr := new_query 1; popt := None; qs := []; nss := []; adds := [];
              ans := [{| rname := []; rclass := IN; rttl := 0; rcf := false; rdata_of := RD_null 4242 [] |}] |} in
  parse_packet (enc_packet p) <> Ok p.
Proof. vm_compute. discriminate. Qed.

(* the hypothesis is decidable: a boolean version, proved sound, is evaluated by the check on every packet it exercises
   (evidence field hypothesis_wf_packetb_true) *)
Require Import SD.WfBool.
Theorem C02_hypothesis_decidable : forall p, wf_packetb p = true -> wf_packet p.
Proof. exact wf_packetb_sound. Qed.
Print Assumptions C02_hypothesis_decidable.
Example C02_sample_wf : wf_packetb C02_sample = true.
Proof. vm_compute. reflexivity. Qed.
