(* C19 — TXT text and attribute conversions are lossless. Strings are their UTF-8 bytes; valid_utf8 models
   core::str::from_utf8. Property theorems only. *)
Require Import SD.Base SD.TextApi SD.TextApiProofs.

(* splitting any string into a TXT record and joining it back returns the same string; each piece fits a character-string *)
Theorem C19_split_join : forall s, valid_utf8 s = true ->
  exists strs, txt_of_text s = Ok strs /\ Forall (fun c => 1 <= len c <= 254) strs /\ text_of_txt strs = Ok s.
Proof. exact txt_split_join. Qed.
Check C19_split_join : forall s, valid_utf8 s = true ->
  exists strs, txt_of_text s = Ok strs /\ Forall (fun c => 1 <= len c <= 254) strs /\ text_of_txt strs = Ok s.
Print Assumptions C19_split_join.

(* attribute map -> TXT -> attributes() is the identity for every iteration order of the map (any duplicate-free list),
   keeping absent values absent and empty values empty *)
Theorem C19_map_roundtrip : forall order, NoDup (map fst order) -> Forall wf_attr order -> attributes (map txt_entry order) = order.
Proof. exact attrs_roundtrip. Qed.
Check C19_map_roundtrip : forall order, NoDup (map fst order) -> Forall wf_attr order -> attributes (map txt_entry order) = order.
Print Assumptions C19_map_roundtrip.
(* duplicate keys on the wire: the first occurrence wins *)
Theorem C19_first_wins : forall strs acc k x, attr_lookup acc k = Some x -> attr_lookup (fold_left attr_step strs acc) k = Some x.
Proof. exact attributes_first_wins. Qed.
Print Assumptions C19_first_wins.

(* the semicolon / equals splitters cut only at those bytes (= those characters, in UTF-8) *)
Theorem C19_split_only_at_separator : forall x l cur, ~ In x cur ->
  join_with x (split_all x l cur) = rev cur ++ l /\ Forall (fun p => ~ In x p) (split_all x l cur) /\ split_all x l cur <> [].
Proof. exact split_all_spec. Qed.
Print Assumptions C19_split_only_at_separator.
Theorem C19_split_first_eq : forall k v acc, ~ In x3d k -> split_first x3d (k ++ x3d :: v) acc = (rev acc ++ k, Some v).
Proof. exact split_first_some. Qed.
Print Assumptions C19_split_first_eq.

(* over-long character-strings are refused at construction *)
Theorem C19_limit : forall d, (cstr_new d = Ok d <-> len d <= 255) /\ (255 < len d -> cstr_new d = Err InvalidCharacterString).
Proof. exact cstr_new_spec. Qed.
Print Assumptions C19_limit.

(* the pinned tree compared `c as u8`, so U+013B (UTF-8 c4 bb) split like ';' (finding F14): in the byte model the
   repaired code does not split it *)
Example C19_U013B_not_a_separator : split_all x3b (map bN [97; 196; 187; 98]) [] = [map bN [97; 196; 187; 98]].
Proof. vm_compute. reflexivity. Qed.
