(* C05 — Parsing honours the record framing of the message.
   The independent envelope reader is Walker.walk (names, fixed 10-byte RR header, RDLENGTH skip; no knowledge of types).
   Property theorems only. *)
Require Import SD.Base SD.Codes SD.Header SD.Name SD.RData SD.Packet SD.Walker SD.Framing SD.HeaderPrefix.

(* when parsing succeeds, the questions and records correspond one-to-one and in order to the entries delimited by the header
   counts and RDLENGTHs: owner, type, class, cache-flush bit and TTL are those of the entry (rr_matches / q_matches), and the
   record's RDATA is what RData::parse yields on the message cut at the end of that entry's RDLENGTH (rr_framed);
   the first OPT of the additional section is the one lifted into the EDNS data *)
Theorem C05_framing : forall d p, parse_packet d = Ok p ->
  exists w xs, walk d = Some w /\ w_end w <= len d /\
    Forall2 q_matches (qs p) (w_qs w) /\ Forall2 (rr_framed d) (ans p) (w_ans w) /\ Forall2 (rr_framed d) (nss p) (w_nss w) /\
    Forall2 (rr_framed d) xs (w_adds w) /\
    ((take_first_opt xs = None /\ adds p = xs /\ popt p = None) \/
     (exists o, take_first_opt xs = Some (o, adds p) /\ popt p = optv_of (rdata_of o) /\ popt p <> None)).
Proof. exact parse_packet_framed. Qed.
Print Assumptions C05_framing.

(* a message whose counts or lengths run past its end is rejected *)
Theorem C05_reject : forall d, walk d = None -> forall p, parse_packet d <> Ok p.
Proof. exact unframed_rejected. Qed.
Check C05_reject : forall d, walk d = None -> forall p, parse_packet d <> Ok p.
Print Assumptions C05_reject.

(* the cursor lemma: a record ends exactly where its RDLENGTH says, whatever its typed content consumed, so the
   following entry is never read from the middle of this one (finding F09 on the pinned tree) *)
Theorem C05_cursor : forall d p rd e, parse_rdata d p = Ok (rd, e) ->
  exists tc rl, be_at d p 2 = Some tc /\ be_at d (p + 8) 2 = Some rl /\ e = p + 10 + rl /\ e <= len d /\
                type_of_rdata rd = type_of_code tc.
Proof. exact parse_rdata_cursor. Qed.
Check C05_cursor : forall d p rd e, parse_rdata d p = Ok (rd, e) ->
  exists tc rl, be_at d p 2 = Some tc /\ be_at d (p + 8) 2 = Some rl /\ e = p + 10 + rl /\ e <= len d /\
                type_of_rdata rd = type_of_code tc.
Print Assumptions C05_cursor.

(* the RDATA is decoded from exactly its RDLENGTH bytes: nothing after the record influences it *)
Theorem C05_local : forall d p rd e, parse_rdata d p = Ok (rd, e) -> parse_rdata (firstn (N.to_nat e) d) p = Ok (rd, e).
Proof. exact parse_rdata_local. Qed.
Print Assumptions C05_local.

Theorem C05_record : forall d p r p', parse_rr d p = Ok (r, p') ->
  exists e, walk_rr d p = Some (e, p') /\ e_start e = p /\ p' = e_end e /\ rr_matches r e /\
            parse_rdata (firstn (N.to_nat p') d) (e_fixed e) = Ok (rdata_of r, p').
Proof. exact parse_rr_framed. Qed.
Print Assumptions C05_record.

(* non-vacuity: an A record whose RDLENGTH is 6 (two surplus bytes) followed by a second record: both are returned,
   the second from its own first byte *)
Example C05_surplus_then_next :
  let d := map bN [0;1;0;0;0;0;0;2;0;0;0;0;  1;97;0; 0;1; 0;1; 0;0;0;5; 0;6; 1;2;3;4;9;9;   1;98;0; 0;1; 0;1; 0;0;0;7; 0;4; 5;6;7;8] in
  match parse_packet d with
  | Ok p => map (fun r => (rname r, rdata_of r)) (ans p) =
            [([map bN [97]], RD M_A [V_int 16909060]); ([map bN [98]], RD M_A [V_int 84281096])]
  | _ => False
  end.
Proof. vm_compute. reflexivity. Qed.

(* the message starts where the buffer starts: id, opcode and flags of a parsed packet are read from bytes 0..3 and from nothing
   else (an ID that happens to equal the message length, or to look like a stream transport's length prefix, is just an ID) *)
Theorem C05_header_is_prefix : forall d p, parse_packet d = Ok p ->
  exists id w, be_at d 0 2 = Some id /\ be_at d 2 2 = Some w /\
    h_id (hdr p) = id /\ h_opcode (hdr p) = h_opcode (header_of_word id w) /\ h_flags (hdr p) = h_flags (header_of_word id w) /\
    (popt p = None -> h_rcode (hdr p) = h_rcode (header_of_word id w)).
Proof. exact parsed_header_is_prefix. Qed.
Print Assumptions C05_header_is_prefix.
