(* C09 — EDNS(0) data is carried per RFC 6891. Spec side: Edns.rfc6891_opt, written from RFC 6891 6.1.2 / 6.1.3.
   Property theorems only. *)
Require Import SD.Base SD.Codes SD.Header SD.HeaderProofs SD.Name SD.RData SD.RDataProofs SD.Packet SD.RoundTrip SD.Edns.

(* the pseudo-record written for EDNS data is byte for byte the RFC 6891 encoding: root owner, TYPE 41, CLASS = UDP payload
   size, TTL = extended RCODE (8) VERSION (8) flags (16, zero), RDLENGTH, option code/length/value triples *)
Theorem C09_opt_record : forall o h, wf_opt o -> named_rcode (h_rcode h) ->
  enc_rr (opt_record o h) = rfc6891_opt (o_udp o) (rcode_disc (h_rcode h) / 16) (o_version o) 0 (o_codes o).
Proof. exact opt_record_is_rfc6891. Qed.
Check C09_opt_record : forall o h, wf_opt o -> named_rcode (h_rcode h) ->
  enc_rr (opt_record o h) = rfc6891_opt (o_udp o) (rcode_disc (h_rcode h) / 16) (o_version o) 0 (o_codes o).
Print Assumptions C09_opt_record.

(* the 12-bit response code is split into the header's low 4 bits and the OPT record's upper 8 bits *)
Theorem C09_rcode_split : forall p o, wf_packet p -> popt p = Some o ->
  N.land (get_flags (hdr p)) 15 = rcode_disc (h_rcode (hdr p)) mod 16 /\
  N.shiftr (N.land (encode_ttl o (hdr p)) OPT_RCODE_MASK) 24 = rcode_disc (h_rcode (hdr p)) / 16.
Proof. exact rcode_split. Qed.
Print Assumptions C09_rcode_split.

(* exactly one OPT record, in the additional section, counted in ARCOUNT, and parsing reverses all of it:
   C02's theorem instantiated - the written message parses back to the same EDNS data, response code and sections *)
Theorem C09_roundtrip : forall p, wf_packet p -> parse_packet (enc_packet p) = Ok p.
Proof. exact packet_roundtrip. Qed.
Print Assumptions C09_roundtrip.
Theorem C09_parse_opt_record : forall o h pre post, wf_opt o -> named_rcode (h_rcode h) ->
  parse_rr (pre ++ enc_rr (opt_record o h) ++ post) (len pre) = Ok (opt_record o h, len pre + len (enc_rr (opt_record o h))).
Proof. exact parse_opt_record. Qed.
Print Assumptions C09_parse_opt_record.
(* recombination: extended part * 16 + header nibble gives back every named response code, for every version *)
Theorem C09_recombine : forall rc v, named_rcode rc -> v < 256 ->
  ttl_of rc v < 4294967296 /\ N.shiftr (N.land (ttl_of rc v) OPT_VERSION_MASK) 16 mod 256 = v /\
  rcode_of_code ((N.lor (N.shiftl (N.shiftr (N.land (ttl_of rc v) OPT_RCODE_MASK) 24) 4) (rcode_disc (low_rcode rc))) mod 65536) = rc /\
  N.shiftr (N.land (ttl_of rc v) OPT_RCODE_MASK) 24 = rcode_disc rc / 16.
Proof. exact ttl_facts. Qed.
Print Assumptions C09_recombine.
(* the OPT record may sit anywhere in the additional section of parsed input *)
Theorem C09_opt_anywhere : forall pre o post,
  Forall (fun r => type_of_rdata (rdata_of r) <> TY M_OPT) pre -> type_of_rdata (rdata_of o) = TY M_OPT ->
  take_first_opt (pre ++ o :: post) = Some (o, pre ++ post).
Proof. exact take_first_opt_anywhere. Qed.
Print Assumptions C09_opt_anywhere.

(* the pinned tree laid the TTL out as 00 00 version ext (finding F11); the repaired model gives ext version 00 00 *)
Example C09_badvers_v3 : be_enc 4 (ttl_of BADVERS 3) = map bN [1; 3; 0; 0].
Proof. vm_compute. reflexivity. Qed.
