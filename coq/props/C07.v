(* C07 — Emitted compression pointers are valid and used where allowed.
   The suffix table is characterised by an invariant TInv out t: every entry (suffix k, offset p) has k non-empty,
   p <= 16383, and the bytes written so far decode (RFC 1035 4.1.4 with strictly backward pointers, Name.rfc_bw) to k at p.
   Offsets are counted from the first byte of the message (`out` is the whole message so far).
   (a) under the invariant the name writer emits a pointer only to such an entry: backwards, <= 16383, expanding to the
       intended labels; and it re-establishes the invariant;
   (b) the invariant holds at every stage of Packet::write_compressed_to for every well-formed packet;
   (c) the types whose specifications forbid compression write their RDATA names in full and do not touch the table;
   (d) a name written at a recordable offset is written as a two-byte pointer when it occurs again in any compressing
       position, and every name field of the RFC 1035 types is a compressing position.
   Writers starting at a non-zero stream offset are tied to this model by the BUILDW correspondence slice and by
   C04_record_writer (the origin adapter makes recorded positions message-relative). Property theorems only. *)
Require Import SD.Driver SD.TableFinal.
Require Import SD.Base SD.Codes SD.Header SD.HeaderProofs SD.Name SD.NameProofs SD.RData SD.Spec SD.RDataProofs SD.Packet SD.RoundTrip
  SD.CompressProofs SD.CompressRoundTrip.
From Coq Require Import ZArith Lia.

Theorem C07_pointer_valid : forall t out l rest p, TInv out t -> lookup t (l :: rest) = Some p ->
  wc_name t (len out) (l :: rest) = ([bN (192 + p / 256); bN p], t) /\ p <= 16383 /\ p < len out /\ rfc_bw out p (l :: rest).
Proof. exact emitted_pointer_valid. Qed.
Check C07_pointer_valid : forall t out l rest p, TInv out t -> lookup t (l :: rest) = Some p ->
  wc_name t (len out) (l :: rest) = ([bN (192 + p / 256); bN p], t) /\ p <= 16383 /\ p < len out /\ rfc_bw out p (l :: rest).
Print Assumptions C07_pointer_valid.

Theorem C07_name_expands : forall ls out t bs t', wf_labels ls -> TInv out t -> wc_name t (len out) ls = (bs, t') ->
  (forall more, rfc_bw (out ++ bs ++ more) (len out) ls) /\
  (forall more, inplace (out ++ bs ++ more) (len out) (len out + len bs)) /\
  len bs <= len (write_name ls) /\ TInv (out ++ bs) t'.
Proof. exact wc_name_inv. Qed.
Print Assumptions C07_name_expands.

Theorem C07_table_sound_throughout : forall p, wf_packet p ->
  let h := enc_packet_header p in
  let bo := match opt_rr p with Some r => enc_rr r | None => [] end in
  forall bq t1 ba t2 bn t3 bx t4,
  wc_list wc_question (qs p) [] 12 = (bq, t1) ->
  wc_list wc_rr (ans p) t1 (12 + len bq) = (ba, t2) ->
  wc_list wc_rr (nss p) t2 (12 + len bq + len ba) = (bn, t3) ->
  wc_list wc_rr (adds p) t3 (12 + len bq + len ba + len bn + len bo) = (bx, t4) ->
  encc_packet p = h ++ bq ++ ba ++ bn ++ bo ++ bx /\
  TInv (h ++ bq) t1 /\ TInv (h ++ bq ++ ba) t2 /\ TInv (h ++ bq ++ ba ++ bn) t3 /\ TInv (h ++ bq ++ ba ++ bn ++ bo ++ bx) t4.
Proof. exact compressed_tables_sound. Qed.
Print Assumptions C07_table_sound_throughout.
(* in particular the table the writer ends with - the one the TABLE cases print and compare with the implementation's, and on
   which the direct oracle checks this very sentence: every entry names labels that begin at that offset (<= 16383) of the message *)
Theorem C07_final_table : forall p, wf_packet p -> TInv (encc_packet p) (encc_table p).
Proof. exact final_table_sound. Qed.
Check C07_final_table : forall p, wf_packet p -> TInv (encc_packet p) (encc_table p).
Print Assumptions C07_final_table.

Theorem C07_forbidden_written_in_full : forall m vs t off, forbids_compression m = true ->
  wc_rdata (RD m vs) t off = (enc_rdata (RD m vs), t).
Proof. exact forbidden_rdata_plain. Qed.
Check C07_forbidden_written_in_full : forall m vs t off, forbids_compression m = true ->
  wc_rdata (RD m vs) t off = (enc_rdata (RD m vs), t).
Print Assumptions C07_forbidden_written_in_full.
Example C07_forbidden_list :
  map forbids_compression [M_SRV; M_NAPTR; M_KX; M_RRSIG; M_NSEC; M_IPSECKEY; M_SVCB; M_HTTPS] = repeat true 8.
Proof. reflexivity. Qed.

Theorem C07_repeat_is_pointer : forall l rest t off bs t', wc_name t off (l :: rest) = (bs, t') -> off <= 16383 ->
  exists q, lookup t' (l :: rest) = Some q /\
  forall t'' off2, (forall k p, lookup t' k = Some p -> lookup t'' k = Some p) ->
    wc_name t'' off2 (l :: rest) = (be_enc 2 (N.lor (q mod 65536) 49152), t'').
Proof. exact repeated_name_is_pointer. Qed.
Print Assumptions C07_repeat_is_pointer.
(* "whatever was written in between": every writer only adds entries *)
Theorem C07_table_only_grows : forall xs t off b t' k p, wc_list wc_rr xs t off = (b, t') -> lookup t k = Some p -> lookup t' k = Some p.
Proof. exact (wc_list_table_grows wc_rr wc_rr_table_grows). Qed.
Print Assumptions C07_table_only_grows.
Theorem C07_rfc1035_names_compress : forall m vs, rfc1035_compressed m = true -> all_names_compress (layout_for m vs) = true.
Proof. exact rfc1035_names_compress. Qed.
Print Assumptions C07_rfc1035_names_compress.
