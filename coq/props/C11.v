(* C11 — Received packets survive re-serialisation.
   For EVERY byte string d that Packet::parse accepts, the parsed packet lies in a class of well-formed packets (the image
   theorem; the class allows OPT-typed records left in any section) for which both serialisations succeed and parse back
   to the same packet, the compressed one being no longer - under two side conditions that the statement spells out:
     - the opcode and response code have a named variant (otherwise: known finding F21, witnessed below for RCODE;
       a reserved OPCODE is shown to give the same packet although the bytes differ);
     - every typed RDATA re-encodes within 65535 bytes (names that were compressed in the input are written in full, so
       an RDATA of almost 64 KiB holding compressed names can outgrow RDLENGTH; `as u16` then truncates - not reachable
       for messages shorter than 65535 - 253 * (names per record) bytes).
   Property theorems only. *)
Require Import SD.Base SD.Codes SD.Header SD.HeaderProofs SD.Name SD.RData SD.RDataProofs SD.Packet SD.RoundTrip SD.Reserialise
  SD.StrayOpt SD.ReserialiseGen.

Theorem C11_reserialise : forall d p, parse_packet d = Ok p ->
  named_opcode (h_opcode (hdr p)) -> named_rcode (h_rcode (hdr p)) -> rdata_fit p ->
  exists b bc, write_packet p = Ok b /\ write_packet_compressed p = Ok bc /\ parse_packet b = Ok p /\ parse_packet bc = Ok p /\ len bc <= len b.
Proof. exact reserialise_gen. Qed.
Check C11_reserialise : forall d p, parse_packet d = Ok p ->
  named_opcode (h_opcode (hdr p)) -> named_rcode (h_rcode (hdr p)) -> rdata_fit p ->
  exists b bc, write_packet p = Ok b /\ write_packet_compressed p = Ok bc /\ parse_packet b = Ok p /\ parse_packet bc = Ok p /\ len bc <= len b.
Print Assumptions C11_reserialise.

(* the image of the parser *)
Theorem C11_image : forall d p, parse_packet d = Ok p ->
  named_opcode (h_opcode (hdr p)) -> named_rcode (h_rcode (hdr p)) -> rdata_fit p -> wf_packet_gen p.
Proof. exact parse_packet_image_gen. Qed.
Print Assumptions C11_image.
(* without OPT-typed records left in the sections it is the C02 predicate itself *)
Theorem C11_image_plain : forall d p, parse_packet d = Ok p ->
  named_opcode (h_opcode (hdr p)) -> named_rcode (h_rcode (hdr p)) -> no_stray_opt p -> rdata_fit p -> wf_packet p.
Proof. exact parse_packet_image. Qed.
Print Assumptions C11_image_plain.
(* the round trip on the whole class *)
Theorem C11_roundtrip_gen : forall p, wf_packet_gen p ->
  parse_packet (enc_packet p) = Ok p /\ parse_packet (encc_packet p) = Ok p /\ len (encc_packet p) <= len (enc_packet p).
Proof. intros p H. split; [apply packet_roundtrip_gen; exact H|apply packet_roundtrip_compressed_gen; exact H]. Qed.
Print Assumptions C11_roundtrip_gen.

(* element level: what each accepted record / question is *)
Theorem C11_record_image : forall d p r e, parse_rr d p = Ok (r, e) -> rdata_fits (rdata_of r) -> rr_ok r.
Proof. exact parse_rr_ok. Qed.
Print Assumptions C11_record_image.
Theorem C11_question_image : forall d p q e, parse_question d p = Ok (q, e) -> wf_question q.
Proof. exact parse_question_image. Qed.
Print Assumptions C11_question_image.

(* known finding F21: the excluded class is not empty, and the exclusion is needed *)
Theorem C11_reserved_rcode_refuted :
  exists p, parse_packet f21_message_rc = Ok p /\ h_rcode (hdr p) = RcReserved /\ parse_packet (enc_packet p) <> Ok p.
Proof. exact reserved_rcode_rewritten. Qed.
Print Assumptions C11_reserved_rcode_refuted.
Example C11_reserved_opcode_harmless :
  exists p, parse_packet f21_message = Ok p /\ h_opcode (hdr p) = OpReserved /\ parse_packet (enc_packet p) = Ok p /\ enc_packet p <> f21_message.
Proof. exact reserved_opcode_same_packet. Qed.
(* non-vacuity: the side conditions hold for the serialisation of every C02-well-formed packet, and a message with two OPT
   records (outside the C02 class) is accepted and survives *)
Theorem C11_side_conditions_satisfiable : forall p, wf_packet p ->
  parse_packet (enc_packet p) = Ok p /\ named_opcode (h_opcode (hdr p)) /\ named_rcode (h_rcode (hdr p)) /\ no_stray_opt p /\ rdata_fit p.
Proof. exact side_conditions_satisfiable. Qed.
Print Assumptions C11_side_conditions_satisfiable.
Example C11_two_opt_records :
  exists p, parse_packet two_opt_message = Ok p /\ popt p <> None /\ ~ no_stray_opt p /\
            parse_packet (enc_packet p) = Ok p /\ parse_packet (encc_packet p) = Ok p.
Proof. exact two_opt_survives. Qed.
