(* C18 — Type/class codes map one-to-one and query matching is exact.
   Property theorems only: each is closed by `exact`, pinned by `Check`, and audited by `Print Assumptions`. *)
Require Import SD.Base SD.Codes SD.CodesProofs SD.RData SD.Packet SD.Framing.

(* all 65 536 codes: TYPE::from then u16::from is the identity *)
Theorem C18_type_code_roundtrip : forall c, c < 65536 -> code_of_type (type_of_code c) = c.
Proof. exact type_code_roundtrip. Qed.
Check C18_type_code_roundtrip : forall c, c < 65536 -> code_of_type (type_of_code c) = c.
Print Assumptions C18_type_code_roundtrip.

(* every TYPE value the library can hold survives u16::from then TYPE::from, so the map is one-to-one *)
Theorem C18_code_type_roundtrip : forall t, wf_ty t = true -> type_of_code (code_of_type t) = t.
Proof. exact code_type_roundtrip. Qed.
Check C18_code_type_roundtrip : forall t, wf_ty t = true -> type_of_code (code_of_type t) = t.
Print Assumptions C18_code_type_roundtrip.
Example C18_wf_ty_inhabited : wf_ty (TY M_SRV) = true /\ wf_ty (TUnknown 4242) = true /\ wf_ty (TUnknown 10) = false.
Proof. vm_compute. repeat split. Qed.

(* every supported mnemonic maps to its IANA number *)
Theorem C18_type_iana : forall m, code_of_mnem m = iana_type m.
Proof. exact type_mnemonics_iana. Qed.
Check C18_type_iana : forall m, code_of_mnem m = iana_type m.
Print Assumptions C18_type_iana.
Theorem C18_class_iana : forall k, code_of_class k = iana_class k.
Proof. exact class_mnemonics_iana. Qed.
Check C18_class_iana : forall k, code_of_class k = iana_class k.
Print Assumptions C18_class_iana.

(* CLASS / QCLASS / QTYPE: accepted codes round-trip, everything else is the specific Invalid* error, never an alias *)
Theorem C18_class_codes : forall c, c < 65536 ->
  match class_of_code c with
  | Ok k => code_of_class k = c
  | Err e => e = InvalidClass c /\ ~ In c [1;2;3;4;254]
  | _ => False
  end.
Proof. exact class_code_roundtrip. Qed.
Print Assumptions C18_class_codes.
Theorem C18_class_back : forall k, class_of_code (code_of_class k) = Ok k.
Proof. exact code_class_roundtrip. Qed.
Print Assumptions C18_class_back.

Theorem C18_qclass_codes : forall c, c < 65536 ->
  match qclass_of_code c with
  | Ok q => code_of_qclass q = c
  | Err e => e = InvalidClass c /\ ~ In c [1;2;3;4;254;255]
  | _ => False
  end.
Proof. exact qclass_code_roundtrip. Qed.
Print Assumptions C18_qclass_codes.
Theorem C18_qclass_back : forall q, qclass_of_code (code_of_qclass q) = Ok q.
Proof. exact code_qclass_roundtrip. Qed.
Print Assumptions C18_qclass_back.

Theorem C18_qtype_codes : forall c, c < 65536 ->
  match qtype_of_code c with
  | Ok q => code_of_qtype q = c /\ (forall u, q <> QT (TUnknown u))
  | Err e => e = InvalidQType c /\ mnem_of_code c = None /\ ~ In c [251;252;253;254;255]
  | _ => False
  end.
Proof. exact qtype_code_roundtrip. Qed.
Print Assumptions C18_qtype_codes.
Theorem C18_qtype_back : forall q, (forall u, q <> QT (TUnknown u)) -> qtype_of_code (code_of_qtype q) = Ok q.
Proof. exact code_qtype_roundtrip. Qed.
Print Assumptions C18_qtype_back.

(* matching: over the question types the property quantifies over (TYPE(t), ANY, MAILB) a record matches
   exactly when the question is ANY, its own type, or MAILB with the record in the mailbox group *)
Theorem C18_match_qtype : forall rt q,
  (q = QT_ANY \/ q = QT_MAILB \/ exists t, q = QT t) ->
  (match_qtype rt q = true <-> (q = QT_ANY \/ q = QT rt \/ (q = QT_MAILB /\ mailbox_group rt))).
Proof. exact match_qtype_spec. Qed.
Check C18_match_qtype : forall rt q,
  (q = QT_ANY \/ q = QT_MAILB \/ exists t, q = QT t) ->
  (match_qtype rt q = true <-> (q = QT_ANY \/ q = QT rt \/ (q = QT_MAILB /\ mailbox_group rt))).
Print Assumptions C18_match_qtype.

(* the three question types outside that quantifier, as the code has them *)
Theorem C18_match_qtype_other : forall rt,
  match_qtype rt QT_IXFR = false /\ match_qtype rt QT_AXFR = true /\ (match_qtype rt QT_MAILA = true <-> rt = TY M_MX).
Proof. exact match_qtype_other. Qed.
Print Assumptions C18_match_qtype_other.

Theorem C18_match_qclass : forall rc q, match_qclass rc q = true <-> (q = QC_ANY \/ q = QC rc).
Proof. exact match_qclass_spec. Qed.
Check C18_match_qclass : forall rc q, match_qclass rc q = true <-> (q = QC_ANY \/ q = QC rc).
Print Assumptions C18_match_qclass.

(* the type reported for a parsed record is the one its TYPE field denotes, including NULL (10) and unknown codes *)
Theorem C18_parsed_type : forall d p rd e, parse_rdata d p = Ok (rd, e) ->
  exists tc, be_at d p 2 = Some tc /\ type_of_rdata rd = type_of_code tc.
Proof.
  intros d p rd e H. destruct (parse_rdata_cursor d p rd e H) as (tc & rl & Ht & _ & _ & _ & Hty). exists tc. split; assumption.
Qed.
Print Assumptions C18_parsed_type.
(* ... and for a record built as RData::NULL(code, data) *)
Theorem C18_null_type : forall c bs, type_of_rdata (RD_null c bs) = type_of_code c.
Proof. reflexivity. Qed.
Print Assumptions C18_null_type.
