(* C08 — Header bits are read and written per RFC 1035 section 4.1.1.
   RFC positions (rfc_qr ... rfc_rcode, rfc_word) are defined in Header.v by bit position, independently of the
   masks and shifts of the transliterated code. Property theorems only. *)
Require Import SD.Base SD.Codes SD.Header SD.HeaderProofs.

(* all 65536 flag words: the fields the code extracts are exactly the RFC bit fields *)
Theorem C08_word_fields : forall id w, w < 65536 ->
  h_id (header_of_word id w) = id /\ word_fields w (header_of_word id w) /\
  (negb (N.land w RESERVED_MASK =? 0)) = rfc_z w.
Proof. exact header_of_word_rfc. Qed.
Check C08_word_fields : forall id w, w < 65536 ->
  h_id (header_of_word id w) = id /\ word_fields w (header_of_word id w) /\
  (negb (N.land w RESERVED_MASK =? 0)) = rfc_z w.
Print Assumptions C08_word_fields.

(* Header::parse on any id, flags word and counts, followed by any bytes: Z set => rejected, else exactly those fields *)
Theorem C08_parse : forall id w qd an ns ar rest, id < 65536 -> w < 65536 ->
  parse_header (hdr_bytes id w qd an ns ar ++ rest) = if rfc_z w then Err InvalidHeaderData else Ok (header_of_word id w).
Proof. exact parse_header_bytes. Qed.
Check C08_parse : forall id w qd an ns ar rest, id < 65536 -> w < 65536 ->
  parse_header (hdr_bytes id w qd an ns ar ++ rest) = if rfc_z w then Err InvalidHeaderData else Ok (header_of_word id w).
Print Assumptions C08_parse.
(* ... and every buffer of at least 12 bytes is of that form, shorter ones are errors, none panics *)
Theorem C08_parse_total : forall d, 12 <= len d ->
  exists id w, id < 65536 /\ w < 65536 /\ be_at d 0 2 = Some id /\ be_at d 2 2 = Some w /\
  parse_header d = if rfc_z w then Err InvalidHeaderData else Ok (header_of_word id w).
Proof. exact parse_header_total. Qed.
Print Assumptions C08_parse_total.
Theorem C08_parse_short : forall d, len d < 12 -> parse_header d = Err InsufficientData.
Proof. exact parse_header_short. Qed.
Print Assumptions C08_parse_short.

(* the eight header_buffer peeks report id, counts, opcode, rcode (low 4 bits) and each flag at the RFC positions *)
Theorem C08_peeks : forall id w qd an ns ar rest,
  id < 65536 -> w < 65536 -> qd < 65536 -> an < 65536 -> ns < 65536 -> ar < 65536 ->
  let d := hdr_bytes id w qd an ns ar ++ rest in
  peek_id d = Ok id /\ peek_questions d = Ok qd /\ peek_answers d = Ok an /\
  peek_name_servers d = Ok ns /\ peek_additional_records d = Ok ar /\
  peek_opcode d = Ok (opcode_of_code (rfc_opcode w)) /\ peek_rcode d = Ok (rcode_of_code (rfc_rcode w)) /\
  peek_has_flags d F_RESPONSE = Ok (rfc_qr w) /\ peek_has_flags d F_AUTHORITATIVE_ANSWER = Ok (rfc_aa w) /\
  peek_has_flags d F_TRUNCATION = Ok (rfc_tc w) /\ peek_has_flags d F_RECURSION_DESIRED = Ok (rfc_rd w) /\
  peek_has_flags d F_RECURSION_AVAILABLE = Ok (rfc_ra w) /\ peek_has_flags d F_AUTHENTIC_DATA = Ok (rfc_ad w) /\
  peek_has_flags d F_CHECKING_DISABLED = Ok (rfc_cd w).
Proof. exact peeks_bytes. Qed.
Print Assumptions C08_peeks.
Theorem C08_peek_short : forall d p, len d < p + 2 -> peek16 d p = Err InvalidHeaderData.
Proof. exact peek16_short. Qed.
Print Assumptions C08_peek_short.

(* set / remove / has over all 128 x 128 pairs of flag sets change and read only the named bits *)
Theorem C08_flag_algebra : forall i j, i < 128 -> j < 128 ->
  let a := flagset i in let b := flagset j in
  (forall f, In f all_flags ->
     has (set_w a b) f = (has a f || has b f) /\ has (remove_w a b) f = (has a f && negb (has b f))) /\
  N.land (set_w a b) (N.lxor FLAGS_ALL 65535) = 0 /\ N.land (remove_w a b) (N.lxor FLAGS_ALL 65535) = 0 /\
  has a b = forallb (fun f => implb (has b f) (has a f)) all_flags.
Proof. exact flag_algebra. Qed.
Print Assumptions C08_flag_algebra.
Theorem C08_flagsets_cover : forall w, w < 65536 -> exists i, i < 128 /\ from_bits_truncate w = flagset i.
Proof. exact flagsets_cover. Qed.
Print Assumptions C08_flagsets_cover.

(* build side: every named opcode and rcode and every flag subset land on the RFC positions ... *)
Theorem C08_get_flags : forall h i, named_opcode (h_opcode h) -> named_rcode (h_rcode h) -> i < 128 -> h_flags h = flagset i ->
  let fl := h_flags h in
  get_flags h = rfc_word (has fl F_RESPONSE) (opcode_disc (h_opcode h)) (has fl F_AUTHORITATIVE_ANSWER) (has fl F_TRUNCATION)
                 (has fl F_RECURSION_DESIRED) (has fl F_RECURSION_AVAILABLE) (has fl F_AUTHENTIC_DATA)
                 (has fl F_CHECKING_DISABLED) (rcode_disc (h_rcode h) mod 16).
Proof. exact get_flags_rfc. Qed.
Print Assumptions C08_get_flags.
(* ... and parse back to the same header (response codes that fit the 4 header bits) *)
Theorem C08_write_parse : forall h i qd an ns ar rest,
  h_id h < 65536 -> named_opcode (h_opcode h) -> named_rcode (h_rcode h) -> rcode_disc (h_rcode h) < 16 ->
  i < 128 -> h_flags h = flagset i ->
  parse_header (write_header h qd an ns ar ++ rest) = Ok h.
Proof. exact write_parse_header. Qed.
Check C08_write_parse : forall h i qd an ns ar rest,
  h_id h < 65536 -> named_opcode (h_opcode h) -> named_rcode (h_rcode h) -> rcode_disc (h_rcode h) < 16 ->
  i < 128 -> h_flags h = flagset i ->
  parse_header (write_header h qd an ns ar ++ rest) = Ok h.
Print Assumptions C08_write_parse.
Example C08_write_parse_nonvacuous :
  let h := {| h_id := 4660; h_opcode := Update; h_rcode := NOTZONE; h_flags := flagset 83 |} in
  h_id h < 65536 /\ named_opcode (h_opcode h) /\ named_rcode (h_rcode h) /\ rcode_disc (h_rcode h) < 16 /\ 83 < 128.
Proof. cbn. repeat split; try discriminate; reflexivity. Qed.
