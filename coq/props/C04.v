(* C04 — Serialised messages are well-framed and all writers agree.
   (a) framing of the plain output for every well-formed packet, against the independent envelope reader Walker.walk;
   (b) len() of every RDATA equals the bytes write_to emits (the two are separate code);
   (c) the imperative compressed record writer (placeholder, seek back, patch, seek forward) refines the functional one on
       a growable seekable writer at any position over any pre-existing content.
   (d) the COMPRESSED output is accepted by the same envelope reader, which finds the packet's questions and records in
       order, each record's RDATA being what the RDATA parser yields on the message cut at the end of its RDLENGTH.
   (e) over a fixed-capacity writer the record writer either does exactly what it does over a growable one or fails with
       FailedToWrite - it never leaves a truncated record and reports success.
   PARTIAL: third-party Write/Seek implementations, and the plumbing from Packet::write_* down to the record writer over
   concrete std writers, are covered by the BUILDW slice only. Property theorems only. *)
Require Import SD.Base SD.Codes SD.Header SD.HeaderProofs SD.Name SD.RData SD.RDataProofs SD.Packet SD.Walker SD.Framing SD.RoundTrip
  SD.Writer SD.WriterProofs SD.CompressFraming.

Theorem C04_framed : forall p, wf_packet p ->
  exists w xs, walk (enc_packet p) = Some w /\ w_end w = len (enc_packet p) /\
    xs = (match popt p with Some o => opt_record o (hdr p) :: adds p | None => adds p end) /\
    length (w_qs w) = length (qs p) /\ length (w_ans w) = length (ans p) /\ length (w_nss w) = length (nss p) /\
    length (w_adds w) = length xs /\
    Forall2 q_matches (qs p) (w_qs w) /\ Forall2 rr_matches (ans p) (w_ans w) /\ Forall2 rr_matches (nss p) (w_nss w) /\
    Forall2 rr_matches xs (w_adds w).
Proof. exact written_message_framed. Qed.
Print Assumptions C04_framed.

Theorem C04_framed_compressed : forall p, wf_packet p ->
  exists w xs, walk (encc_packet p) = Some w /\ w_end w <= len (encc_packet p) /\
    Forall2 q_matches (qs p) (w_qs w) /\ Forall2 (rr_framed (encc_packet p)) (ans p) (w_ans w) /\
    Forall2 (rr_framed (encc_packet p)) (nss p) (w_nss w) /\ Forall2 (rr_framed (encc_packet p)) xs (w_adds w) /\
    ((take_first_opt xs = None /\ adds p = xs /\ popt p = None) \/
     (exists o, take_first_opt xs = Some (o, adds p) /\ popt p = optv_of (rdata_of o) /\ popt p <> None)).
Proof. exact compressed_message_framed. Qed.
Print Assumptions C04_framed_compressed.

Theorem C04_rdlength : forall r, wf_rdata r -> len_rdata r = len (enc_rdata r).
Proof. exact rdlength_is_written_length. Qed.
Check C04_rdlength : forall r, wf_rdata r -> len_rdata r = len (enc_rdata r).
Print Assumptions C04_rdlength.

Theorem C04_record_writer : forall c nameb commonb rdatab, cpos c <= len (cbuf c) -> len rdatab < 65536 ->
  rr_write_imp c nameb commonb rdatab = cwrite c (nameb ++ commonb ++ be_enc 2 (len rdatab) ++ rdatab).
Proof. exact rr_write_refines. Qed.
Check C04_record_writer : forall c nameb commonb rdatab, cpos c <= len (cbuf c) -> len rdatab < 65536 ->
  rr_write_imp c nameb commonb rdatab = cwrite c (nameb ++ commonb ++ be_enc 2 (len rdatab) ++ rdatab).
Print Assumptions C04_record_writer.
(* consecutive writes compose, so a sequence of records lands as the concatenation of their bytes *)
Theorem C04_writes_compose : forall c a b, cpos c <= len (cbuf c) -> cwrite (cwrite c a) b = cwrite c (a ++ b).
Proof. exact cwrite_cwrite. Qed.
Print Assumptions C04_writes_compose.

Theorem C04_fixed_capacity : forall cap c nameb commonb rdatab,
  rr_write_imp_cap cap c nameb commonb rdatab =
  if cpos c + len nameb + len commonb + 2 + len rdatab <=? cap then Ok (rr_write_imp c nameb commonb rdatab) else Err FailedToWrite.
Proof. exact rr_write_cap_refines. Qed.
Print Assumptions C04_fixed_capacity.

(* finding F20a on the pinned writer: over pre-filled storage it does not refine the functional writer; the repaired one does *)
Example C04_F20a :
  let c := {| cbuf := [x55; x55; x55; x55; x55; x55; x55; x55; x55; x55]; cpos := 0 |} in
  rr_write_imp_pinned c [x00] [x01] [x02] <> cwrite c ([x00] ++ [x01] ++ be_enc 2 1 ++ [x02]) /\
  rr_write_imp c [x00] [x01] [x02] = cwrite c ([x00] ++ [x01] ++ be_enc 2 1 ++ [x02]).
Proof. exact pinned_record_writer_refuted. Qed.
