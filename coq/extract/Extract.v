(* Extraction of the executable model. Only the directives of ExtrOcamlBasic are used
   (Extract Inductive bool, option, unit, list, prod, sumbool, sumor; Extract Inlined Constant andb, orb);
   N, positive, byte, string stay the extracted inductive types. *)
Require Import SD.Driver.
Require Extraction.
Require Import ExtrOcamlBasic.
Extraction Language OCaml.
Extraction "model.ml" Driver.run_line.
