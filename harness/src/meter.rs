//! counting global allocator: peak of live heap bytes above the level at the last reset (per thread of the driver: single-threaded)
use std::alloc::{GlobalAlloc, Layout, System};
use std::sync::atomic::{AtomicUsize, Ordering};

pub struct Meter;
static LIVE: AtomicUsize = AtomicUsize::new(0);
static BASE: AtomicUsize = AtomicUsize::new(0);
static PEAK: AtomicUsize = AtomicUsize::new(0);

unsafe impl GlobalAlloc for Meter {
    unsafe fn alloc(&self, l: Layout) -> *mut u8 {
        let p = System.alloc(l);
        if !p.is_null() {
            let live = LIVE.fetch_add(l.size(), Ordering::Relaxed) + l.size();
            PEAK.fetch_max(live, Ordering::Relaxed);
        }
        p
    }
    unsafe fn dealloc(&self, p: *mut u8, l: Layout) {
        LIVE.fetch_sub(l.size(), Ordering::Relaxed);
        System.dealloc(p, l)
    }
    unsafe fn realloc(&self, p: *mut u8, l: Layout, new_size: usize) -> *mut u8 {
        let q = System.realloc(p, l, new_size);
        if !q.is_null() {
            if new_size >= l.size() {
                let live = LIVE.fetch_add(new_size - l.size(), Ordering::Relaxed) + (new_size - l.size());
                PEAK.fetch_max(live, Ordering::Relaxed);
            } else {
                LIVE.fetch_sub(l.size() - new_size, Ordering::Relaxed);
            }
        }
        q
    }
}

pub fn reset() {
    let live = LIVE.load(Ordering::Relaxed);
    BASE.store(live, Ordering::Relaxed);
    PEAK.store(live, Ordering::Relaxed);
}

pub fn peak() -> usize {
    PEAK.load(Ordering::Relaxed).saturating_sub(BASE.load(Ordering::Relaxed))
}
