//! HDR / PEEK / FLAGS / BUILDHDR cases (C08)
use crate::text::*;
use simple_dns::{header_buffer, Packet, PacketFlag, OPCODE, RCODE};

pub const ALL_FLAGS: [PacketFlag; 7] = [
    PacketFlag::RESPONSE,
    PacketFlag::AUTHORITATIVE_ANSWER,
    PacketFlag::TRUNCATION,
    PacketFlag::RECURSION_DESIRED,
    PacketFlag::RECURSION_AVAILABLE,
    PacketFlag::AUTHENTIC_DATA,
    PacketFlag::CHECKING_DISABLED,
];

pub fn flags7(p: &Packet) -> String {
    ALL_FLAGS.iter().map(|f| b01(p.has_flags(*f))).collect()
}

pub fn hdr_tok(p: &Packet) -> String {
    format!("{:x} {:x} {:x} {}", p.id(), p.opcode() as u16, p.rcode() as u16, flags7(p))
}

fn res<T, F: Fn(T) -> String>(r: simple_dns::Result<T>, f: F) -> String {
    match r {
        Ok(v) => f(v),
        Err(_) => "E".into(),
    }
}

pub fn peeks(d: &[u8]) -> String {
    let hf: String = ALL_FLAGS
        .iter()
        .map(|f| res(header_buffer::has_flags(d, *f), |b| b01(b).to_string()))
        .collect();
    format!(
        "{} {} {} {} {} {} {} {}",
        res(header_buffer::id(d), hx),
        res(header_buffer::questions(d), hx),
        res(header_buffer::answers(d), hx),
        res(header_buffer::name_servers(d), hx),
        res(header_buffer::additional_records(d), hx),
        hf,
        res(header_buffer::rcode(d), |r| hx(r as u16)),
        res(header_buffer::opcode(d), |o| hx(o as u16)),
    )
}

fn nums(args: &[&str], n: usize) -> Option<Vec<u16>> {
    if args.len() != n {
        return None;
    }
    let mut v = Vec::new();
    for a in args {
        let x = hex_to_u128(a)?;
        if x >= 65536 {
            return None;
        }
        v.push(x as u16);
    }
    Some(v)
}

pub fn run_hdr(args: &[&str]) -> String {
    let v = match nums(args, 6) {
        Some(v) => v,
        None => return "BADCASE".into(),
    };
    let mut d0 = Vec::new();
    let mut d = Vec::new();
    for (i, x) in v.iter().enumerate() {
        d.extend_from_slice(&x.to_be_bytes());
        d0.extend_from_slice(&(if i < 2 { *x } else { 0 }).to_be_bytes());
    }
    let p = match Packet::parse(&d0) {
        Ok(p) => match p.build_bytes_vec() {
            Ok(b) => format!("OK {} {}", hdr_tok(&p), bytes_to_hex(&b)),
            Err(e) => format!("OK {} WRITE-{}", hdr_tok(&p), err_line(&e)),
        },
        Err(e) => err_line(&e),
    };
    format!("{} | {}", p, peeks(&d))
}

/// PEEKF hex mask: header_buffer::has_flags with a set of flags
pub fn run_peekf(args: &[&str]) -> String {
    if args.len() != 2 {
        return "BADCASE".into();
    }
    match (hex_to_bytes(args[0]), hex_to_u128(args[1])) {
        (Some(d), Some(m)) if m < 65536 => res(header_buffer::has_flags(&d, PacketFlag::from_bits_truncate(m as u16)), |b| b01(b).to_string()),
        _ => "BADCASE".into(),
    }
}

pub fn run_peek(args: &[&str]) -> String {
    if args.len() != 1 {
        return "BADCASE".into();
    }
    match hex_to_bytes(args[0]) {
        Some(d) => peeks(&d),
        None => "BADCASE".into(),
    }
}

pub fn run_flags(args: &[&str]) -> String {
    let v = match nums(args, 2) {
        Some(v) => v,
        None => return "BADCASE".into(),
    };
    let fa = PacketFlag::from_bits_truncate(v[0]);
    let fb = PacketFlag::from_bits_truncate(v[1]);
    let mut h = Packet::new_query(0);
    h.set_flags(fa);
    let mut hs = h.clone();
    hs.set_flags(fb);
    let mut hr = h.clone();
    hr.remove_flags(fb);
    let word = |p: &Packet| {
        let b = p.build_bytes_vec().unwrap();
        hx(u16::from_be_bytes([b[2], b[3]]))
    };
    format!(
        "{} {} {} {} {} {}",
        flags7(&h),
        flags7(&hs),
        flags7(&hr),
        b01(h.has_flags(fb)),
        word(&hs),
        word(&hr)
    )
}

/// HDRMOD word op rc: parse a header with this flags word, replace opcode and response code through the accessors, serialise
pub fn run_hdrmod(args: &[&str]) -> String {
    let v = match nums(args, 3) {
        Some(v) => v,
        None => return "BADCASE".into(),
    };
    let mut d = vec![0x12u8, 0x34];
    d.extend_from_slice(&v[0].to_be_bytes());
    d.extend_from_slice(&[0u8; 8]);
    let mut p = match Packet::parse(&d) {
        Ok(p) => p,
        Err(e) => return err_line(&e),
    };
    *p.opcode_mut() = OPCODE::from(v[1]);
    *p.rcode_mut() = RCODE::from(v[2]);
    match p.build_bytes_vec() {
        Ok(b) => format!("OK {}", bytes_to_hex(&b)),
        Err(e) => err_line(&e),
    }
}

pub fn run_buildhdr(args: &[&str]) -> String {
    let v = match nums(args, 4) {
        Some(v) => v,
        None => return "BADCASE".into(),
    };
    let mut p = Packet::new_query(v[0]);
    *p.opcode_mut() = OPCODE::from(v[1]);
    *p.rcode_mut() = RCODE::from(v[2]);
    p.set_flags(PacketFlag::from_bits_truncate(v[3]));
    let d = match p.build_bytes_vec() {
        Ok(d) => d,
        Err(e) => return err_line(&e),
    };
    let back = match Packet::parse(&d) {
        Ok(q) => format!("OK {}", hdr_tok(&q)),
        Err(e) => err_line(&e),
    };
    format!("{} {}", bytes_to_hex(&d), back)
}

/// COUNTS q a n x opt: a packet with that many minimal entries per section, written plain and compressed: header bytes + length
pub fn run_counts(args: &[&str]) -> String {
    use simple_dns::rdata::{RData, A, OPT};
    use simple_dns::{Name, Question, ResourceRecord, CLASS, QCLASS, QTYPE, TYPE};
    let v: Option<Vec<usize>> = args.iter().map(|t| hex_to_u128(t).map(|x| x as usize)).collect();
    let v = match v {
        Some(v) if v.len() == 5 => v,
        _ => return "BADCASE".into(),
    };
    let root = || Name::new_with_labels(&[]);
    let mut p = Packet::new_query(1);
    for _ in 0..v[0] {
        p.questions.push(Question::new(root(), QTYPE::TYPE(TYPE::A), QCLASS::CLASS(CLASS::IN), false));
    }
    let rr = || ResourceRecord::new(root(), CLASS::IN, 0, RData::A(A { address: 0 }));
    for _ in 0..v[1] {
        p.answers.push(rr());
    }
    for _ in 0..v[2] {
        p.name_servers.push(rr());
    }
    for _ in 0..v[3] {
        p.additional_records.push(rr());
    }
    if v[4] != 0 {
        *p.opt_mut() = Some(OPT { udp_packet_size: 512, version: 0, opt_codes: Vec::new() });
    }
    let show = |r: simple_dns::Result<Vec<u8>>| match r {
        Ok(b) => format!("OK {} {:x}", bytes_to_hex(&b[..12.min(b.len())]), b.len()),
        Err(e) => err_line(&e),
    };
    format!("{} | {}", show(p.build_bytes_vec()), show(p.build_bytes_vec_compressed()))
}
