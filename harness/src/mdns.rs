//! STORE / HISTB cases: simple-mdns record store, build_reply, discovery ingest (C13 C14 C15 C20)
use crate::pkt::*;
use crate::text::*;
use simple_dns::{Packet, ResourceRecord};
use simple_mdns::verif_hooks::Store;
use simple_mdns::InstanceInformation;
use std::time::{Duration, Instant};

const TICK_MS: u64 = 500;

fn rrs_tok(l: &[ResourceRecord]) -> String {
    let mut v: Vec<String> = l.iter().map(rr_toks).collect();
    v.sort_by(|a, b| a.as_bytes().cmp(b.as_bytes()));
    let mut s = format!("{:x}", v.len());
    for x in v {
        s.push(' ');
        s.push_str(&x);
    }
    s
}

fn groups_tok(g: &[Vec<ResourceRecord>]) -> String {
    let mut v: Vec<String> = g.iter().map(|x| rrs_tok(x)).collect();
    v.sort_by(|a, b| a.as_bytes().cmp(b.as_bytes()));
    let mut s = format!("{:x}", v.len());
    for x in v {
        s.push(' ');
        s.push_str(&x);
    }
    s
}

fn attrs_tok(m: &std::collections::HashMap<String, Option<String>>) -> String {
    let mut v: Vec<(&String, &Option<String>)> = m.iter().collect();
    v.sort_by(|a, b| a.0.as_bytes().cmp(b.0.as_bytes()));
    let mut s = format!("{:x}", v.len());
    for (k, val) in v {
        match val {
            Some(x) => s.push_str(&format!(" {} V {}", bytes_to_hex(k.as_bytes()), bytes_to_hex(x.as_bytes()))),
            None => s.push_str(&format!(" {} N", bytes_to_hex(k.as_bytes()))),
        }
    }
    s
}

pub fn instance_tok(i: &InstanceInformation) -> String {
    let mut ips: Vec<String> = i
        .ip_addresses
        .iter()
        .map(|a| match a {
            std::net::IpAddr::V4(x) => format!("4:{:x}", u32::from(*x)),
            std::net::IpAddr::V6(x) => format!("6:{:x}", u128::from(*x)),
        })
        .collect();
    ips.sort_by(|a, b| a.as_bytes().cmp(b.as_bytes()));
    let mut ports: Vec<String> = i.ports.iter().map(|p| format!("{:x}", p)).collect();
    ports.sort_by(|a, b| a.as_bytes().cmp(b.as_bytes()));
    let mut s = bytes_to_hex(i.verif_instance_name().as_bytes());
    s.push_str(&format!(" {:x}", ips.len()));
    for x in ips {
        s.push(' ');
        s.push_str(&x);
    }
    s.push_str(&format!(" {:x}", ports.len()));
    for x in ports {
        s.push(' ');
        s.push_str(&x);
    }
    s.push(' ');
    s.push_str(&attrs_tok(&i.attributes));
    s
}

fn instances_tok(l: &[InstanceInformation]) -> String {
    let mut v: Vec<String> = l.iter().map(instance_tok).collect();
    v.sort_by(|a, b| a.as_bytes().cmp(b.as_bytes()));
    v.dedup();
    let mut s = format!("{:x}", v.len());
    for x in v {
        s.push(' ');
        s.push_str(&x);
    }
    s
}

thread_local! {
    // 0 = sync listener, 1 = tokio listener, 2 / 3 = the same with a discovery channel whose receiver is gone
    static INGEST_MODE: std::cell::Cell<u8> = std::cell::Cell::new(0);
}

/// add_response_to_resources of the sync listener or of the tokio listener (a separate copy of the same logic), with a
/// live discovery channel or with one whose receiver was dropped
fn ingest(store: &mut Store, p: Packet, svc: &simple_dns::Name, full: &simple_dns::Name) -> Vec<InstanceInformation> {
    let rt = || tokio::runtime::Builder::new_current_thread().build().expect("tokio runtime");
    match INGEST_MODE.with(|c| c.get()) {
        0 => store.add_response(p, svc, full, true),
        1 => rt().block_on(store.add_response_async(p, svc, full, true)),
        2 => {
            store.add_response_closed_channel(p, svc, full);
            Vec::new()
        }
        _ => {
            rt().block_on(store.add_response_closed_channel_async(p, svc, full));
            Vec::new()
        }
    }
}

/// what the store holds afterwards (the segments that do not report channel notifications)
fn state_segments(out: &str) -> Vec<&str> {
    out.split(" | ").filter(|s| s.starts_with("K ") || s.starts_with("Q ") || s.starts_with("R ")).collect()
}

/// runs `f` with the sync listener's ingest and again with the tokio twin's: the outputs must be identical; and with a
/// closed discovery channel: what ends up in the store must not depend on whether anybody still listens
fn with_twin(f: impl Fn() -> String) -> String {
    let run = |m: u8| {
        INGEST_MODE.with(|c| c.set(m));
        let r = f();
        INGEST_MODE.with(|c| c.set(0));
        r
    };
    let a = run(0);
    let b = run(1);
    if a != b {
        return format!("TWIN-MISMATCH sync=[{}] tokio=[{}]", a, b);
    }
    for m in [2u8, 3] {
        let c = run(m);
        if state_segments(&a) != state_segments(&c) {
            return format!("CHANNEL-MISMATCH mode={} live=[{}] closed=[{}]", m, a, c);
        }
    }
    a
}

pub fn run_store_toks(args: &[&str]) -> String {
    let mut t = Toks { t: args, p: 0 };
    let mut store = Store::new();
    let mut out = String::from("OK");
    let start = Instant::now();
    let mut tick: u64 = 0;
    while !t.done() {
        let op = match t.next() {
            Some(o) => o,
            None => return "BADCASE".into(),
        };
        match op {
            "AA" => match read_rr(&mut t) {
                Some(r) => store.add_authoritative(r),
                None => return "BADCASE".into(),
            },
            "AC" => match read_rr(&mut t) {
                Some(r) => store.add_cached(r),
                None => return "BADCASE".into(),
            },
            "RM" => match read_rr(&mut t) {
                Some(r) => store.remove(&r),
                None => return "BADCASE".into(),
            },
            "CL" => store.clear(),
            "T" => match t.num() {
                Some(n) => {
                    tick += n as u64;
                    // absolute schedule: tick k happens at start + k * 500 ms (+ 250 ms so that mutations and
                    // queries, which sit on different ticks, are never closer than ~250 ms to an expiry instant)
                    let target = start + Duration::from_millis(tick * TICK_MS);
                    let now = Instant::now();
                    if target > now {
                        std::thread::sleep(target - now);
                    }
                }
                None => return "BADCASE".into(),
            },
            "Q" => {
                let name = match t.name() {
                    Some(n) => make_name(&n),
                    None => return "BADCASE".into(),
                };
                let f = match t.num() {
                    Some(f) => f as u8,
                    None => return "BADCASE".into(),
                };
                out.push_str(" | Q ");
                out.push_str(&groups_tok(&store.query(&name, f)));
            }
            "R" => {
                let p = match read_packet(&mut t) {
                    Some(p) => p,
                    None => return "BADCASE".into(),
                };
                out.push_str(" | R ");
                match store.build_reply(p) {
                    None => out.push_str("NONE"),
                    Some((id, resp, ans, adds, uni, bytes)) => {
                        let back = match bytes {
                            Ok(b) => match Packet::parse(&b) {
                                Ok(q) => format!("P {} {}", rrs_tok(&q.answers), rrs_tok(&q.additional_records)),
                                Err(_) => "PARSEFAIL".into(),
                            },
                            Err(_) => "WRITEFAIL".into(),
                        };
                        out.push_str(&format!("{:x} {} {} {} {} {}", id, b01(resp), b01(uni), rrs_tok(&ans), rrs_tok(&adds), back));
                    }
                }
            }
            "I" => {
                let (svc, full) = match (t.name(), t.name()) {
                    (Some(a), Some(b)) => (make_name(&a), make_name(&b)),
                    _ => return "BADCASE".into(),
                };
                let p = match read_packet(&mut t) {
                    Some(p) => p,
                    None => return "BADCASE".into(),
                };
                let sent = ingest(&mut store, p, &svc, &full);
                out.push_str(" | I ");
                out.push_str(&instances_tok(&sent));
            }
            "D" => {
                let (svc, me) = match (t.name(), t.name()) {
                    (Some(a), Some(b)) => (make_name(&a), make_name(&b)),
                    _ => return "BADCASE".into(),
                };
                let d = match t.bytes() {
                    Some(d) => d,
                    None => return "BADCASE".into(),
                };
                use simple_dns::{header_buffer, PacketFlag};
                let reply_tok = |store: &Store, p: Packet| -> String {
                    match store.build_reply(p) {
                        None => "NONE".into(),
                        Some((_, _, _, _, _, bytes)) => match bytes {
                            Ok(b) => match Packet::parse(&b) {
                                Ok(q) => format!("REPLY {} {}", rrs_tok(&q.answers), rrs_tok(&q.additional_records)),
                                Err(_) => "PARSEFAIL".into(),
                            },
                            Err(_) => "WRITEFAIL".into(),
                        },
                    }
                };
                // SimpleMdnsResponder::responder_loop
                let responder = if header_buffer::has_flags(&d, PacketFlag::RESPONSE).unwrap_or(true) {
                    "SKIP".to_string()
                } else {
                    match Packet::parse(&d) {
                        Ok(p) => reply_tok(&store, p),
                        Err(_) => "ERR".into(),
                    }
                };
                // OneShotMdnsResolver::get_next_response: peeks on the whole 4096-byte receive buffer
                let mut buf = vec![0u8; 4096.max(d.len())];
                buf[..d.len()].copy_from_slice(&d);
                let r = |x: simple_dns::Result<String>| x.unwrap_or_else(|_| "E".into());
                let oneshot = format!(
                    "{} {} {}",
                    r(header_buffer::has_flags(&buf, PacketFlag::RESPONSE).map(|b| b01(b).to_string())),
                    r(header_buffer::id(&buf).map(hx)),
                    r(header_buffer::answers(&buf).map(hx))
                );
                // ServiceDiscovery::receive_packets_loop
                let disc = match Packet::parse(&d) {
                    Ok(p) => {
                        if p.has_flags(PacketFlag::RESPONSE) {
                            let sent = ingest(&mut store, p, &svc, &me);
                            format!("ING {}", instances_tok(&sent))
                        } else {
                            reply_tok(&store, p)
                        }
                    }
                    Err(_) => "ERR".into(),
                };
                out.push_str(&format!(" | D {} / {} / {}", responder, oneshot, disc));
            }
            "K" => {
                let svc = match t.name() {
                    Some(a) => make_name(&a),
                    None => return "BADCASE".into(),
                };
                out.push_str(" | K ");
                out.push_str(&instances_tok(&store.known_services(&svc)));
            }
            _ => return "BADCASE".into(),
        }
    }
    out
}

pub fn run_store(args: &[&str]) -> String {
    // cases that ingest responses are run through both listeners (untimed cases only: T sleeps)
    if args.iter().any(|a| *a == "I" || *a == "D") && !args.iter().any(|a| *a == "T") {
        with_twin(|| run_store_toks(args))
    } else {
        run_store_toks(args)
    }
}

/// HISTB h1 ;; h2 ;; ... : independent histories run concurrently (they are sleep-bound); outputs joined by " ;; "
pub fn run_histb(args: &[&str]) -> String {
    let mut hists: Vec<Vec<String>> = vec![Vec::new()];
    for a in args {
        if *a == ";;" {
            hists.push(Vec::new());
        } else {
            hists.last_mut().unwrap().push(a.to_string());
        }
    }
    let handles: Vec<_> = hists
        .into_iter()
        .map(|h| {
            std::thread::spawn(move || {
                let refs: Vec<&str> = h.iter().map(|s| s.as_str()).collect();
                let r = std::panic::catch_unwind(|| run_store_toks(&refs));
                r.unwrap_or_else(|_| "PANIC".to_string())
            })
        })
        .collect();
    let outs: Vec<String> = handles.into_iter().map(|h| h.join().unwrap_or_else(|_| "PANIC".to_string())).collect();
    outs.join(" ;; ")
}

/// DISC svc me ttl n peer...: see coq/theories/Driver.v
pub fn run_disc(args: &[&str]) -> String {
    with_twin(|| run_disc_once(args))
}

fn run_disc_once(args: &[&str]) -> String {
    use simple_dns::rdata::RData;
    use simple_dns::Name;
    let mut t = Toks { t: args, p: 0 };
    let text = |b: Option<Vec<u8>>| b.and_then(|x| String::from_utf8(x).ok());
    let (svc_t, me_t) = match (text(t.bytes()), text(t.bytes())) {
        (Some(a), Some(b)) => (a, b),
        _ => return "BADCASE".into(),
    };
    let ttl = match t.num() {
        Some(x) => x as u32,
        None => return "BADCASE".into(),
    };
    let n = match t.count() {
        Some(n) => n,
        None => return "BADCASE".into(),
    };
    struct Peer {
        svc: String,
        info: InstanceInformation,
    }
    let mut peers = Vec::new();
    for _ in 0..n {
        let (svc, inst) = match (text(t.bytes()), text(t.bytes())) {
            (Some(a), Some(b)) => (a, b),
            _ => return "BADCASE".into(),
        };
        let mut info = InstanceInformation::new(inst);
        let nips = match t.count() {
            Some(x) => x,
            None => return "BADCASE".into(),
        };
        for _ in 0..nips {
            let k = t.next();
            let a = match t.num() {
                Some(a) => a,
                None => return "BADCASE".into(),
            };
            info = match k {
                Some("4") => info.with_ip_address(std::net::IpAddr::V4(std::net::Ipv4Addr::from(a as u32))),
                Some("6") => info.with_ip_address(std::net::IpAddr::V6(std::net::Ipv6Addr::from(a))),
                _ => return "BADCASE".into(),
            };
        }
        let nports = match t.count() {
            Some(x) => x,
            None => return "BADCASE".into(),
        };
        for _ in 0..nports {
            match t.num() {
                Some(p) => info = info.with_port(p as u16),
                None => return "BADCASE".into(),
            }
        }
        let nattrs = match t.count() {
            Some(x) => x,
            None => return "BADCASE".into(),
        };
        for _ in 0..nattrs {
            let k = match text(t.bytes()) {
                Some(k) => k,
                None => return "BADCASE".into(),
            };
            let v = match t.next() {
                Some("N") => None,
                Some("V") => match text(t.bytes()) {
                    Some(v) => Some(v),
                    None => return "BADCASE".into(),
                },
                _ => return "BADCASE".into(),
            };
            info = info.with_attribute(k, v);
        }
        peers.push(Peer { svc, info });
    }
    if !t.done() {
        return "BADCASE".into();
    }
    let svc = match Name::new(&svc_t) {
        Ok(n) => n.into_owned(),
        Err(_) => return "ERR".into(),
    };
    let me_full_text = format!("{}.{}", InstanceInformation::new(me_t).escaped_instance_name(), svc_t);
    let me = match Name::new(&me_full_text) {
        Ok(n) => n.into_owned(),
        Err(_) => return "ERR".into(),
    };
    let mut store = Store::new();
    store.add_authoritative(ResourceRecord::new(svc.clone(), simple_dns::CLASS::IN, ttl, RData::PTR(me.clone().into())));
    let mut out = String::from("OK");
    for p in peers {
        let full_text = format!("{}.{}", p.info.escaped_instance_name(), p.svc);
        let full = match Name::new(&full_text) {
            Ok(n) => n.into_owned(),
            Err(_) => {
                out.push_str(" | E");
                continue;
            }
        };
        let recs = match p.info.into_records(&full, ttl) {
            Ok(r) => r,
            Err(_) => {
                out.push_str(" | E");
                continue;
            }
        };
        let mut pkt = Packet::new_reply(1);
        for r in recs {
            pkt.answers.push(r);
        }
        let bytes = match pkt.build_bytes_vec_compressed() {
            Ok(b) => b,
            Err(_) => {
                out.push_str(" | E");
                continue;
            }
        };
        match Packet::parse(&bytes) {
            Ok(q) => {
                let sent = ingest(&mut store, q, &svc, &me);
                out.push_str(" | I ");
                out.push_str(&instances_tok(&sent));
            }
            Err(_) => out.push_str(" | PARSEFAIL"),
        }
    }
    out.push_str(" | K ");
    out.push_str(&instances_tok(&store.known_services(&svc)));
    out
}

/// SOCK hex...: the real thing. A SimpleMdnsResponder (its own thread, real sockets, the 9000-byte receive buffer) is started
/// for a name unique to this case, the datagrams are sent to the mDNS multicast group, and the responder must still answer a
/// one-shot query for its name afterwards. NOSOCKET when this environment cannot do multicast at all.
pub fn run_sock(args: &[&str]) -> String {
    use simple_mdns::conversion_utils::socket_addr_to_srv_and_address;
    use simple_mdns::sync_discovery::{OneShotMdnsResolver, SimpleMdnsResponder};
    use std::net::{IpAddr, Ipv4Addr, SocketAddr, UdpSocket};
    use std::sync::atomic::{AtomicUsize, Ordering};
    static SEQ: AtomicUsize = AtomicUsize::new(0);
    // an optional first token R<n> (hexadecimal n): the responder additionally serves n address records one label below its name,
    // and is first asked for everything at and below that name - a reply of 14 + 22 n bytes or so, larger than a datagram for big n
    let (extra, args) = match args.first() {
        Some(t) if t.starts_with('R') => (hex_to_u128(&t[1..]).unwrap_or(0) as u32, &args[1..]),
        _ => (0, args),
    };
    let dgrams: Option<Vec<Vec<u8>>> = args.iter().map(|t| hex_to_bytes(t)).collect();
    let dgrams = match dgrams {
        Some(d) => d,
        None => return "BADCASE".into(),
    };
    let seq = SEQ.fetch_add(1, Ordering::SeqCst);
    // `text` is the name the liveness probe asks for; the bulk records live at and below the separate name `bulk`
    let text = format!("_v{}x{}._udp.local", std::process::id(), seq);
    let bulk = format!("_b{}x{}._udp.local", std::process::id(), seq);
    let name = simple_dns::Name::new_unchecked(&text).into_owned();
    let bulk_name = simple_dns::Name::new_unchecked(&bulk).into_owned();
    let mut responder = SimpleMdnsResponder::new(10);
    let (r1, r2) = socket_addr_to_srv_and_address(&name, SocketAddr::new(IpAddr::V4(Ipv4Addr::new(127, 0, 0, 1)), 8080), 0);
    responder.add_resource(r1);
    responder.add_resource(r2);
    if extra > 0 {
        responder.add_resource(ResourceRecord::new(
            bulk_name.clone(),
            simple_dns::CLASS::IN,
            10,
            simple_dns::rdata::RData::A(simple_dns::rdata::A { address: 0x7f00_0002 }),
        ));
    }
    for i in 0..extra {
        let leaf = format!("h{:05}.{}", i, bulk);
        responder.add_resource(ResourceRecord::new(
            simple_dns::Name::new_unchecked(&leaf).into_owned(),
            simple_dns::CLASS::IN,
            10,
            simple_dns::rdata::RData::A(simple_dns::rdata::A { address: 0x0a00_0000 + i }),
        ));
    }
    std::thread::sleep(Duration::from_millis(300));
    let probe = |text: &str| -> bool {
        for _ in 0..3 {
            if let Ok(mut resolver) = OneShotMdnsResolver::new() {
                resolver.set_query_timeout(Duration::from_millis(600));
                resolver.set_unicast_response(false);
                if let Ok(Some(a)) = resolver.query_service_address(text) {
                    return a == Ipv4Addr::new(127, 0, 0, 1);
                }
            }
        }
        false
    };
    if !probe(&text) {
        std::mem::forget(responder);
        return "NOSOCKET".into();
    }
    let sock = match UdpSocket::bind("0.0.0.0:0") {
        Ok(s) => s,
        Err(_) => return "NOSOCKET".into(),
    };
    let mut sent = 0usize;
    if extra > 0 {
        let mut q = Packet::new_query(77);
        q.questions.push(simple_dns::Question::new(
            bulk_name.clone(),
            simple_dns::QTYPE::ANY,
            simple_dns::QCLASS::CLASS(simple_dns::CLASS::IN),
            false,
        ));
        if let Ok(b) = q.build_bytes_vec() {
            let _ = sock.send_to(&b, "224.0.0.251:5353");
            std::thread::sleep(Duration::from_millis(400));
        }
    }
    for d in &dgrams {
        if sock.send_to(d, "224.0.0.251:5353").is_ok() {
            sent += 1;
        }
        if sent % 16 == 0 {
            std::thread::sleep(Duration::from_millis(5));
        }
    }
    std::thread::sleep(Duration::from_millis(150));
    // a dead responder stays dead; a slow or lossy moment does not: before reporting DEAD ask again after a pause
    let mut alive = probe(&text);
    if !alive {
        std::thread::sleep(Duration::from_millis(1500));
        alive = probe(&text) || probe(&text);
    }
    std::mem::forget(responder);
    if alive {
        format!("ALIVE {:x}", sent)
    } else {
        format!("DEAD {:x}", sent)
    }
}

/// SOCKR name-hex response-hex...: the one-shot resolver on real sockets. For each response datagram a sender thread multicasts it
/// a few times while the resolver is waiting for answers to its SRV query and then to its A query for `name`; what the resolver
/// returns depends on timing and is not compared - it must return (a panic is caught by the case runner).
pub fn run_sockr(args: &[&str]) -> String {
    use simple_mdns::sync_discovery::OneShotMdnsResolver;
    use std::net::UdpSocket;
    if args.is_empty() {
        return "BADCASE".into();
    }
    let name = match hex_to_bytes(args[0]).and_then(|b| String::from_utf8(b).ok()) {
        Some(n) => n,
        None => return "BADCASE".into(),
    };
    let dgrams: Option<Vec<Vec<u8>>> = args[1..].iter().map(|t| hex_to_bytes(t)).collect();
    let dgrams = match dgrams {
        Some(d) => d,
        None => return "BADCASE".into(),
    };
    let mut resolver = match OneShotMdnsResolver::new() {
        Ok(r) => r,
        Err(_) => return "NOSOCKET".into(),
    };
    resolver.set_query_timeout(Duration::from_millis(220));
    resolver.set_unicast_response(false);
    let mut answered = 0usize;
    for d in &dgrams {
        for which in 0..2 {
            let d2 = d.clone();
            let sender = std::thread::spawn(move || {
                if let Ok(sock) = UdpSocket::bind("0.0.0.0:0") {
                    for _ in 0..3 {
                        std::thread::sleep(Duration::from_millis(35));
                        let _ = sock.send_to(&d2, "224.0.0.251:5353");
                    }
                }
            });
            let got = if which == 0 {
                resolver.query_service_address_and_port(&name).map(|x| x.is_some())
            } else {
                resolver.query_service_address(&name).map(|x| x.is_some())
            };
            if let Ok(true) = got {
                answered += 1;
            }
            let _ = sender.join();
        }
    }
    format!("DONE {:x} {:x}", dgrams.len(), answered)
}
