//! Canonical text form of packets: dump of parsed values and construction through the public API.
//! Same grammar as coq/theories/PktText.v.
use crate::header::flags7;
use crate::text::*;
use simple_dns::rdata::*;
use simple_dns::*;
use std::borrow::Cow;
use std::convert::TryFrom;

#[derive(Debug, Clone)]
pub enum FVal {
    I(u128),
    N(Vec<Vec<u8>>),
    B(Vec<u8>),
    L(Vec<(u128, Vec<u8>)>),
}

pub fn name_labels(n: &Name) -> Vec<Vec<u8>> {
    n.get_labels().iter().map(|l| l.as_bytes().to_vec()).collect()
}

pub fn name_toks(n: &[Vec<u8>]) -> String {
    let mut s = format!("{:x}", n.len());
    for l in n {
        s.push(' ');
        s.push_str(&bytes_to_hex(l));
    }
    s
}

/// The same name reached along different public paths, chosen by its content: from labels, as what `without` leaves of a longer
/// name, through owned copies and clones, and borrowed back out of a parsed message.
pub fn make_name(labels: &[Vec<u8>]) -> Name<'static> {
    let ls: Vec<Label<'static>> = labels.iter().map(|l| Label::new_unchecked(l.clone())).collect();
    let direct = Name::new_with_labels(&ls).into_owned();
    let total: usize = labels.iter().map(|l| l.len() + 1).sum();
    match total % 4 {
        1 if !labels.is_empty() && total + 12 <= 255 => {
            // x.<suffix> without <suffix> is x
            let suffix = [Label::new_unchecked(b"zz-suffix".to_vec()), Label::new_unchecked(b"q".to_vec())];
            let mut long = ls.clone();
            long.extend_from_slice(&suffix);
            let long = Name::new_with_labels(&long).into_owned();
            let dom = Name::new_with_labels(&suffix).into_owned();
            match long.without(&dom) {
                Some(n) => n.into_owned(),
                None => direct,
            }
        }
        2 => direct.clone().into_owned().clone(),
        3 => {
            // through the wire: a question carrying the name, parsed, the name taken out and made owned
            let mut q = Packet::new_query(0);
            q.questions.push(simple_dns::Question::new(direct.clone(), simple_dns::QTYPE::ANY, simple_dns::QCLASS::ANY, false));
            match q.build_bytes_vec().ok().and_then(|b| Packet::parse(&b).ok().map(|p| p.questions[0].qname.clone().into_owned())) {
                Some(n) => n,
                None => direct,
            }
        }
        _ => direct,
    }
}

fn fval_toks(v: &FVal) -> String {
    match v {
        FVal::I(x) => format!("I {:x}", x),
        FVal::N(n) => format!("N {}", name_toks(n)),
        FVal::B(b) => format!("B {}", bytes_to_hex(b)),
        FVal::L(its) => {
            let mut s = format!("L {:x}", its.len());
            for (t, b) in its {
                s.push_str(&format!(" {:x} {}", t, bytes_to_hex(b)));
            }
            s
        }
    }
}

fn i<T: Into<u128>>(x: T) -> FVal {
    FVal::I(x.into())
}
fn n(x: &Name) -> FVal {
    FVal::N(name_labels(x))
}
fn b(x: &[u8]) -> FVal {
    FVal::B(x.to_vec())
}
fn cs(x: &CharacterString) -> FVal {
    FVal::B(x.verif_bytes().to_vec())
}
fn be(bytes: &[u8]) -> FVal {
    let mut v: u128 = 0;
    for x in bytes {
        v = (v << 8) | (*x as u128);
    }
    FVal::I(v)
}

/// the fields of a typed RDATA value in layout order
pub fn rdata_fields(r: &RData) -> Option<(u16, Vec<FVal>)> {
    let code: u16 = r.type_code().into();
    let f = match r {
        RData::A(x) => vec![i(x.address)],
        RData::AAAA(x) => vec![i(x.address)],
        RData::NS(x) => vec![n(&x.0)],
        RData::MD(x) => vec![n(&x.0)],
        RData::MF(x) => vec![n(&x.0)],
        RData::CNAME(x) => vec![n(&x.0)],
        RData::MB(x) => vec![n(&x.0)],
        RData::MG(x) => vec![n(&x.0)],
        RData::MR(x) => vec![n(&x.0)],
        RData::PTR(x) => vec![n(&x.0)],
        RData::NSAP_PTR(x) => vec![n(&x.0)],
        RData::HINFO(x) => vec![cs(&x.cpu), cs(&x.os)],
        RData::MINFO(x) => vec![n(&x.rmailbox), n(&x.emailbox)],
        RData::MX(x) => vec![i(x.preference), n(&x.exchange)],
        RData::TXT(x) => vec![FVal::L(x.verif_strings().iter().map(|s| (0u128, s.to_vec())).collect())],
        RData::SOA(x) => vec![
            n(&x.mname),
            n(&x.rname),
            i(x.serial),
            i(x.refresh as u32),
            i(x.retry as u32),
            i(x.expire as u32),
            i(x.minimum),
        ],
        RData::WKS(x) => vec![i(x.address), i(x.protocol), b(&x.bit_map)],
        RData::SRV(x) => vec![i(x.priority), i(x.weight), i(x.port), n(&x.target)],
        RData::RP(x) => vec![n(&x.mbox), n(&x.txt)],
        RData::AFSDB(x) => vec![i(x.subtype), n(&x.hostname)],
        RData::ISDN(x) => vec![cs(&x.address), cs(&x.sa)],
        RData::RouteThrough(x) => vec![i(x.preference), n(&x.intermediate_host)],
        RData::NAPTR(x) => vec![
            i(x.order),
            i(x.preference),
            cs(&x.flags),
            cs(&x.services),
            cs(&x.regexp),
            n(&x.replacement),
        ],
        RData::NSAP(x) => vec![
            i(x.afi),
            i(x.idi),
            i(x.dfi),
            i(x.aa),
            i(x.rsvd),
            i(x.rd),
            i(x.area),
            i(x.id),
            i(x.sel),
        ],
        RData::LOC(x) => vec![
            i(x.version),
            i(x.size),
            i(x.horizontal_precision),
            i(x.vertical_precision),
            i(x.latitude as u32),
            i(x.longitude as u32),
            i(x.altitude as u32),
        ],
        RData::OPT(x) => vec![
            i(x.udp_packet_size),
            i(x.version),
            FVal::L(x.opt_codes.iter().map(|c| (c.code as u128, c.data.to_vec())).collect()),
        ],
        RData::CAA(x) => vec![i(x.flag), cs(&x.tag), b(&x.value)],
        RData::SVCB(x) => svcb_fields(x),
        RData::HTTPS(x) => svcb_fields(&x.0),
        RData::EUI48(x) => vec![be(&x.address)],
        RData::EUI64(x) => vec![be(&x.address)],
        RData::CERT(x) => vec![i(x.type_code), i(x.key_tag), i(x.algorithm), b(&x.certificate)],
        RData::ZONEMD(x) => vec![i(x.serial), i(x.scheme), i(x.algorithm), b(&x.digest)],
        RData::KX(x) => vec![i(x.preference), n(&x.exchanger)],
        RData::IPSECKEY(x) => {
            let mut v = vec![i(x.precedence)];
            match &x.gateway {
                VerifGateway::None => {
                    v.push(i(0u8));
                    v.push(i(x.algorithm));
                }
                VerifGateway::IPv4(a) => {
                    v.push(i(1u8));
                    v.push(i(x.algorithm));
                    v.push(i(u32::from(*a)));
                }
                VerifGateway::IPv6(a) => {
                    v.push(i(2u8));
                    v.push(i(x.algorithm));
                    v.push(i(u128::from(*a)));
                }
                VerifGateway::Domain(d) => {
                    v.push(i(3u8));
                    v.push(i(x.algorithm));
                    v.push(n(d));
                }
            }
            v.push(b(&x.public_key));
            v
        }
        RData::DNSKEY(x) => vec![i(x.flags), i(x.protocol), i(x.algorithm), b(&x.public_key)],
        RData::RRSIG(x) => vec![
            i(x.type_covered),
            i(x.algorithm),
            i(x.labels),
            i(x.original_ttl),
            i(x.signature_expiration),
            i(x.signature_inception),
            i(x.key_tag),
            n(&x.signer_name),
            b(&x.signature),
        ],
        RData::DS(x) => vec![i(x.key_tag), i(x.algorithm), i(x.digest_type), b(&x.digest)],
        RData::NSEC(x) => vec![
            n(&x.next_name),
            FVal::L(x.type_bit_maps.iter().map(|m| (m.window_block as u128, m.bitmap.to_vec())).collect()),
        ],
        RData::DHCID(x) => vec![i(x.identifier), i(x.digest_type), b(&x.digest)],
        RData::NULL(..) | RData::Empty(..) => return None,
    };
    Some((code, f))
}

fn svcb_fields(x: &SVCB) -> Vec<FVal> {
    vec![
        i(x.priority),
        n(&x.target),
        FVal::L(x.iter_params().map(|(k, v)| (k as u128, v.to_vec())).collect()),
    ]
}

pub fn rdata_toks(r: &RData) -> String {
    match r {
        RData::NULL(c, d) => format!("U {:x} {}", c, bytes_to_hex(d.get_data())),
        RData::Empty(t) => format!("E {:x}", u16::from(*t)),
        _ => {
            let (code, f) = rdata_fields(r).unwrap();
            let mut s = format!("T {:x} {:x}", code, f.len());
            for v in &f {
                s.push(' ');
                s.push_str(&fval_toks(v));
            }
            s
        }
    }
}

pub fn rr_toks(r: &ResourceRecord) -> String {
    format!(
        "{} {:x} {:x} {} {}",
        name_toks(&name_labels(&r.name)),
        r.class as u16,
        r.ttl,
        b01(r.cache_flush),
        rdata_toks(&r.rdata)
    )
}

pub fn question_toks(q: &Question) -> String {
    format!(
        "{} {:x} {:x} {}",
        name_toks(&name_labels(&q.qname)),
        u16::from(q.qtype),
        u16::from(q.qclass),
        b01(q.unicast_response)
    )
}

pub fn packet_toks(p: &Packet) -> String {
    let mut s = format!("PKT {:x} {:x} {:x} {}", p.id(), p.opcode() as u16, p.rcode() as u16, flags7(p));
    match p.opt() {
        None => s.push_str(" O0"),
        Some(o) => {
            s.push_str(&format!(" O1 {:x} {:x} {:x}", o.udp_packet_size, o.version, o.opt_codes.len()));
            for c in &o.opt_codes {
                s.push_str(&format!(" {:x} {}", c.code, bytes_to_hex(&c.data)));
            }
        }
    }
    s.push_str(&format!(" {:x}", p.questions.len()));
    for q in &p.questions {
        s.push(' ');
        s.push_str(&question_toks(q));
    }
    for sec in [&p.answers, &p.name_servers, &p.additional_records] {
        s.push_str(&format!(" {:x}", sec.len()));
        for r in sec {
            s.push(' ');
            s.push_str(&rr_toks(r));
        }
    }
    s
}

// ---------------------------------------------------------------- reader

pub struct Toks<'a> {
    pub t: &'a [&'a str],
    pub p: usize,
}

impl<'a> Toks<'a> {
    pub fn next(&mut self) -> Option<&'a str> {
        let x = self.t.get(self.p).copied();
        self.p += 1;
        x
    }
    pub fn num(&mut self) -> Option<u128> {
        hex_to_u128(self.next()?)
    }
    pub fn bytes(&mut self) -> Option<Vec<u8>> {
        hex_to_bytes(self.next()?)
    }
    pub fn boolean(&mut self) -> Option<bool> {
        match self.next()? {
            "1" => Some(true),
            "0" => Some(false),
            _ => None,
        }
    }
    pub fn count(&mut self) -> Option<usize> {
        let n = self.num()?;
        if n < 100000 {
            Some(n as usize)
        } else {
            None
        }
    }
    pub fn name(&mut self) -> Option<Vec<Vec<u8>>> {
        let n = self.count()?;
        let mut v = Vec::new();
        for _ in 0..n {
            v.push(self.bytes()?);
        }
        Some(v)
    }
    pub fn items(&mut self) -> Option<Vec<(u128, Vec<u8>)>> {
        let n = self.count()?;
        let mut v = Vec::new();
        for _ in 0..n {
            let t = self.num()?;
            v.push((t, self.bytes()?));
        }
        Some(v)
    }
    pub fn fval(&mut self) -> Option<FVal> {
        match self.next()? {
            "I" => Some(FVal::I(self.num()?)),
            "N" => Some(FVal::N(self.name()?)),
            "B" => Some(FVal::B(self.bytes()?)),
            "L" => Some(FVal::L(self.items()?)),
            _ => None,
        }
    }
    pub fn done(&self) -> bool {
        self.p == self.t.len()
    }
}

fn gi(f: &[FVal], k: usize) -> Option<u128> {
    match f.get(k)? {
        FVal::I(x) => Some(*x),
        _ => None,
    }
}
fn gn(f: &[FVal], k: usize) -> Option<Name<'static>> {
    match f.get(k)? {
        FVal::N(x) => Some(make_name(x)),
        _ => None,
    }
}
fn gb(f: &[FVal], k: usize) -> Option<Cow<'static, [u8]>> {
    match f.get(k)? {
        FVal::B(x) => Some(Cow::Owned(x.clone())),
        _ => None,
    }
}
fn gl(f: &[FVal], k: usize) -> Option<Vec<(u128, Vec<u8>)>> {
    match f.get(k)? {
        FVal::L(x) => Some(x.clone()),
        _ => None,
    }
}
/// CharacterString through the public constructor: over-long strings are refused there (BADVALUE)
fn gc(f: &[FVal], k: usize) -> Option<CharacterString<'static>> {
    match f.get(k)? {
        FVal::B(x) => CharacterString::new(x).ok().map(|c| c.into_owned()),
        _ => None,
    }
}
fn be_bytes<const N: usize>(v: u128) -> [u8; N] {
    let mut o = [0u8; N];
    for k in 0..N {
        o[N - 1 - k] = (v >> (8 * k)) as u8;
    }
    o
}

/// builds a typed RDATA value from its fields through the public struct fields / constructors;
/// integers wider than the field are a malformed case (None), not a truncation
pub fn build_rdata(code: u16, f: &[FVal]) -> Option<RData<'static>> {
    macro_rules! int {
        ($k:expr, $t:ty) => {{
            let v = gi(f, $k)?;
            <$t>::try_from(v).ok()?
        }};
    }
    macro_rules! i32bits {
        ($k:expr) => {{
            let v = gi(f, $k)?;
            u32::try_from(v).ok()? as i32
        }};
    }
    let r = match TYPE::from(code) {
        TYPE::A => RData::A(A { address: int!(0, u32) }),
        TYPE::AAAA => RData::AAAA(AAAA { address: gi(f, 0)? }),
        TYPE::NS => RData::NS(NS(gn(f, 0)?)),
        TYPE::MD => RData::MD(MD(gn(f, 0)?)),
        TYPE::MF => RData::MF(MF(gn(f, 0)?)),
        TYPE::CNAME => RData::CNAME(CNAME(gn(f, 0)?)),
        TYPE::MB => RData::MB(MB(gn(f, 0)?)),
        TYPE::MG => RData::MG(MG(gn(f, 0)?)),
        TYPE::MR => RData::MR(MR(gn(f, 0)?)),
        TYPE::PTR => RData::PTR(PTR(gn(f, 0)?)),
        TYPE::NSAP_PTR => RData::NSAP_PTR(NSAP_PTR(gn(f, 0)?)),
        TYPE::HINFO => RData::HINFO(HINFO { cpu: gc(f, 0)?, os: gc(f, 1)? }),
        TYPE::MINFO => RData::MINFO(MINFO { rmailbox: gn(f, 0)?, emailbox: gn(f, 1)? }),
        TYPE::MX => RData::MX(MX { preference: int!(0, u16), exchange: gn(f, 1)? }),
        TYPE::TXT => {
            // the same value reached along different public construction paths, chosen by the content: in-place adds, the
            // builder methods, and owned copies / clones taken before, between and after the adds
            let strings = gl(f, 0)?;
            let path = strings.iter().map(|(_, s)| s.len()).sum::<usize>() % 5;
            let mut t = TXT::new();
            if path == 1 {
                t = t.into_owned();
            }
            // every other value also sees calls that are refused (a text longer than a character-string can hold) and whose
            // error the caller ignores: a refused call must leave the value as it was
            let refuse = strings.len() % 2 == 1;
            let too_long: &'static str = "xxxxxxxxxxxxxxxxxxxxxxxxxxxxxxxxxxxxxxxxxxxxxxxxxxxxxxxxxxxxxxxxxxxxxxxxxxxxxxxxxxxxxxxxxxxxxxxxxxxxxxxxxxxxxxxxxxxxxxxxxxxxxxxxxxxxxxxxxxxxxxxxxxxxxxxxxxxxxxxxxxxxxxxxxxxxxxxxxxxxxxxxxxxxxxxxxxxxxxxxxxxxxxxxxxxxxxxxxxxxxxxxxxxxxxxxxxxxxxxxxxxxxxxxxxxxxxxxxxxxxxxxxxxxxxxxxxxxxxxxxxxxxxxxxxxxxxxxxxxx";
            if refuse {
                let _ = t.add_string(too_long);
            }
            for (k, (_, s)) in strings.into_iter().enumerate() {
                if refuse && k == 1 {
                    let _ = t.add_string(too_long);
                    let _ = t.clone().with_string(too_long);
                }
                let cs = CharacterString::new(&s).ok()?.into_owned();
                if path == 2 {
                    t = t.with_char_string(cs);
                } else {
                    t.add_char_string(cs);
                }
                if path == 3 {
                    t = t.into_owned();
                }
                if path == 4 {
                    t = t.clone();
                }
            }
            RData::TXT(t)
        }
        TYPE::SOA => RData::SOA(SOA {
            mname: gn(f, 0)?,
            rname: gn(f, 1)?,
            serial: int!(2, u32),
            refresh: i32bits!(3),
            retry: i32bits!(4),
            expire: i32bits!(5),
            minimum: int!(6, u32),
        }),
        TYPE::WKS => RData::WKS(WKS { address: int!(0, u32), protocol: int!(1, u8), bit_map: gb(f, 2)? }),
        TYPE::SRV => RData::SRV(SRV {
            priority: int!(0, u16),
            weight: int!(1, u16),
            port: int!(2, u16),
            target: gn(f, 3)?,
        }),
        TYPE::RP => RData::RP(RP { mbox: gn(f, 0)?, txt: gn(f, 1)? }),
        TYPE::AFSDB => RData::AFSDB(AFSDB { subtype: int!(0, u16), hostname: gn(f, 1)? }),
        TYPE::ISDN => RData::ISDN(ISDN { address: gc(f, 0)?, sa: gc(f, 1)? }),
        TYPE::RouteThrough => RData::RouteThrough(RouteThrough {
            preference: int!(0, u16),
            intermediate_host: gn(f, 1)?,
        }),
        TYPE::NAPTR => RData::NAPTR(NAPTR {
            order: int!(0, u16),
            preference: int!(1, u16),
            flags: gc(f, 2)?,
            services: gc(f, 3)?,
            regexp: gc(f, 4)?,
            replacement: gn(f, 5)?,
        }),
        TYPE::NSAP => RData::NSAP(NSAP {
            afi: int!(0, u8),
            idi: int!(1, u16),
            dfi: int!(2, u8),
            aa: int!(3, u32),
            rsvd: int!(4, u16),
            rd: int!(5, u16),
            area: int!(6, u16),
            id: int!(7, u64),
            sel: int!(8, u8),
        }),
        TYPE::LOC => RData::LOC(LOC {
            version: int!(0, u8),
            size: int!(1, u8),
            horizontal_precision: int!(2, u8),
            vertical_precision: int!(3, u8),
            latitude: i32bits!(4),
            longitude: i32bits!(5),
            altitude: i32bits!(6),
        }),
        TYPE::OPT => RData::OPT(OPT {
            udp_packet_size: int!(0, u16),
            version: int!(1, u8),
            opt_codes: gl(f, 2)?
                .into_iter()
                .map(|(c, d)| Some(OPTCode { code: u16::try_from(c).ok()?, data: Cow::Owned(d) }))
                .collect::<Option<Vec<_>>>()?,
        }),
        TYPE::CAA => RData::CAA(CAA { flag: int!(0, u8), tag: gc(f, 1)?, value: gb(f, 2)? }),
        TYPE::SVCB => RData::SVCB(build_svcb(f)?),
        TYPE::HTTPS => RData::HTTPS(HTTPS(build_svcb(f)?)),
        TYPE::EUI48 => {
            let v = gi(f, 0)?;
            if v >> 48 != 0 {
                return None;
            }
            RData::EUI48(EUI48 { address: be_bytes::<6>(v) })
        }
        TYPE::EUI64 => {
            let v = gi(f, 0)?;
            if v >> 64 != 0 {
                return None;
            }
            RData::EUI64(EUI64 { address: be_bytes::<8>(v) })
        }
        TYPE::CERT => RData::CERT(CERT {
            type_code: int!(0, u16),
            key_tag: int!(1, u16),
            algorithm: int!(2, u8),
            certificate: gb(f, 3)?,
        }),
        TYPE::ZONEMD => RData::ZONEMD(ZONEMD {
            serial: int!(0, u32),
            scheme: int!(1, u8),
            algorithm: int!(2, u8),
            digest: gb(f, 3)?,
        }),
        TYPE::KX => RData::KX(KX { preference: int!(0, u16), exchanger: gn(f, 1)? }),
        TYPE::IPSECKEY => {
            let gw = gi(f, 1)?;
            let (gateway, keyidx) = match gw {
                0 => (VerifGateway::None, 3),
                1 => (VerifGateway::IPv4(std::net::Ipv4Addr::from(int!(3, u32))), 4),
                2 => (VerifGateway::IPv6(std::net::Ipv6Addr::from(gi(f, 3)?)), 4),
                3 => (VerifGateway::Domain(gn(f, 3)?), 4),
                _ => return None,
            };
            if f.len() != keyidx + 1 {
                return None;
            }
            RData::IPSECKEY(IPSECKEY {
                precedence: int!(0, u8),
                algorithm: int!(2, u8),
                gateway,
                public_key: gb(f, keyidx)?,
            })
        }
        TYPE::DNSKEY => RData::DNSKEY(DNSKEY {
            flags: int!(0, u16),
            protocol: int!(1, u8),
            algorithm: int!(2, u8),
            public_key: gb(f, 3)?,
        }),
        TYPE::RRSIG => RData::RRSIG(RRSIG {
            type_covered: int!(0, u16),
            algorithm: int!(1, u8),
            labels: int!(2, u8),
            original_ttl: int!(3, u32),
            signature_expiration: int!(4, u32),
            signature_inception: int!(5, u32),
            key_tag: int!(6, u16),
            signer_name: gn(f, 7)?,
            signature: gb(f, 8)?,
        }),
        TYPE::DS => RData::DS(DS {
            key_tag: int!(0, u16),
            algorithm: int!(1, u8),
            digest_type: int!(2, u8),
            digest: gb(f, 3)?,
        }),
        TYPE::NSEC => RData::NSEC(NSEC {
            next_name: gn(f, 0)?,
            type_bit_maps: gl(f, 1)?
                .into_iter()
                .map(|(w, m)| Some(VerifTypeBitMap { window_block: u8::try_from(w).ok()?, bitmap: Cow::Owned(m) }))
                .collect::<Option<Vec<_>>>()?,
        }),
        TYPE::DHCID => RData::DHCID(DHCID { identifier: int!(0, u16), digest_type: int!(1, u8), digest: gb(f, 2)? }),
        _ => return None,
    };
    // every field consumed: the arity must be the layout's
    let (_, back) = rdata_fields(&r)?;
    if back.len() != f.len() {
        return None;
    }
    Some(r)
}

fn build_svcb(f: &[FVal]) -> Option<SVCB<'static>> {
    let pr = u16::try_from(gi(f, 0)?).ok()?;
    // `priority` and `target` are public fields: every other value is first built around other ones and then assigned
    let mut s = if pr % 2 == 1 {
        let mut s = SVCB::new(pr ^ 1, make_name(&[b"some-other-target".to_vec(), b"example".to_vec()]));
        s.priority = pr;
        s.target = gn(f, 1)?;
        s
    } else {
        SVCB::new(pr, gn(f, 1)?)
    };
    for (i, (k, v)) in gl(f, 2)?.into_iter().enumerate() {
        let key = u16::try_from(k).ok()?;
        if i % 2 == 0 {
            // "the previous entry will be replaced": every other key is first set to something else
            s.set_param(key, vec![0x55u8; (v.len() + 3) % 7]).ok()?;
        }
        s.set_param(key, v).ok()?;
        if pr % 3 == 1 {
            s = s.into_owned();
        }
        if pr % 3 == 2 {
            s = s.clone();
        }
    }
    Some(s)
}

pub fn read_rdata(t: &mut Toks) -> Option<RData<'static>> {
    match t.next()? {
        "T" => {
            let code = u16::try_from(t.num()?).ok()?;
            let n = t.count()?;
            let mut f = Vec::new();
            for _ in 0..n {
                f.push(t.fval()?);
            }
            build_rdata(code, &f)
        }
        "U" => {
            let code = u16::try_from(t.num()?).ok()?;
            let d = t.bytes()?;
            Some(RData::NULL(code, NULL::new(&d).ok()?.into_owned()))
        }
        "E" => Some(RData::Empty(TYPE::from(u16::try_from(t.num()?).ok()?))),
        _ => None,
    }
}

pub fn read_rr(t: &mut Toks) -> Option<ResourceRecord<'static>> {
    let name = make_name(&t.name()?);
    let class = CLASS::try_from(u16::try_from(t.num()?).ok()?).ok()?;
    let ttl = u32::try_from(t.num()?).ok()?;
    let cf = t.boolean()?;
    let rd = read_rdata(t)?;
    Some(ResourceRecord::new(name, class, ttl, rd).with_cache_flush(cf))
}

pub fn read_question(t: &mut Toks) -> Option<Question<'static>> {
    let name = make_name(&t.name()?);
    let qt = u16::try_from(t.num()?).ok()?;
    let qc = u16::try_from(t.num()?).ok()?;
    let uni = t.boolean()?;
    let qtype = QTYPE::try_from(qt).unwrap_or(QTYPE::TYPE(TYPE::from(qt)));
    let qclass = QCLASS::try_from(qc).ok()?;
    Some(Question::new(name, qtype, qclass, uni))
}

pub fn read_packet(t: &mut Toks) -> Option<Packet<'static>> {
    if t.next()? != "PKT" {
        return None;
    }
    let id = u16::try_from(t.num()?).ok()?;
    let op = u16::try_from(t.num()?).ok()?;
    let rc = u16::try_from(t.num()?).ok()?;
    let fl = t.next()?;
    let mut p = Packet::new_query(id);
    *p.opcode_mut() = OPCODE::from(op);
    *p.rcode_mut() = RCODE::from(rc);
    if fl.len() != 7 {
        return None;
    }
    for (k, c) in fl.chars().enumerate() {
        if c == '1' {
            p.set_flags(crate::header::ALL_FLAGS[k]);
        }
    }
    match t.next()? {
        "O0" => {}
        "O1" => {
            let udp = u16::try_from(t.num()?).ok()?;
            let ver = u8::try_from(t.num()?).ok()?;
            let codes = t
                .items()?
                .into_iter()
                .map(|(c, d)| Some(OPTCode { code: u16::try_from(c).ok()?, data: Cow::Owned(d) }))
                .collect::<Option<Vec<_>>>()?;
            *p.opt_mut() = Some(OPT { opt_codes: codes, udp_packet_size: udp, version: ver });
        }
        _ => return None,
    }
    let nq = t.count()?;
    for _ in 0..nq {
        p.questions.push(read_question(t)?);
    }
    let na = t.count()?;
    for _ in 0..na {
        p.answers.push(read_rr(t)?);
    }
    let nn = t.count()?;
    for _ in 0..nn {
        p.name_servers.push(read_rr(t)?);
    }
    let nx = t.count()?;
    for _ in 0..nx {
        p.additional_records.push(read_rr(t)?);
    }
    Some(p)
}

// ---------------------------------------------------------------- cases

pub fn run_parse(args: &[&str]) -> String {
    if args.len() != 1 {
        return "BADCASE".into();
    }
    let d = match hex_to_bytes(args[0]) {
        Some(d) => d,
        None => return "BADCASE".into(),
    };
    match Packet::parse(&d) {
        Ok(p) => format!("OK {}", packet_toks(&p)),
        Err(e) => err_line(&e),
    }
}

pub fn run_name(args: &[&str]) -> String {
    if args.len() != 2 {
        return "BADCASE".into();
    }
    let (d, pos) = match (hex_to_bytes(args[0]), hex_to_u128(args[1])) {
        (Some(d), Some(p)) => (d, p as usize),
        _ => return "BADCASE".into(),
    };
    match simple_dns::verif_hooks::parse_name_at(&d, pos) {
        Ok((n, e)) => format!("OK {} {:x}", name_toks(&name_labels(&n)), e),
        Err(e) => err_line(&e),
    }
}

pub fn run_rr(args: &[&str]) -> String {
    if args.len() != 2 {
        return "BADCASE".into();
    }
    let (d, pos) = match (hex_to_bytes(args[0]), hex_to_u128(args[1])) {
        (Some(d), Some(p)) => (d, p as usize),
        _ => return "BADCASE".into(),
    };
    match simple_dns::verif_hooks::parse_rr_at(&d, pos) {
        Ok((r, e)) => format!("OK {} {:x}", rr_toks(&r), e),
        Err(e) => err_line(&e),
    }
}

pub fn run_build(args: &[&str]) -> String {
    if args.is_empty() {
        return "BADCASE".into();
    }
    let mut t = Toks { t: &args[1..], p: 0 };
    let p = match read_packet(&mut t) {
        Some(p) if t.done() => p,
        _ => return "BADCASE".into(),
    };
    #[cfg(not(simple_dns_verif_table))]
    if args[0] == "T" {
        return "NOTABLE".into();
    }
    #[cfg(simple_dns_verif_table)]
    if args[0] == "T" {
        // (also reachable as the TABLE command) the compression table the compressed write ends with (cfg(simple_dns_verif) hook): suffix labels -> offset, sorted
        let _ = simple_dns::verif_hooks::take_compression_table();
        return match p.build_bytes_vec_compressed() {
            Ok(msg) => {
                let mut rows: Vec<String> = simple_dns::verif_hooks::take_compression_table()
                    .into_iter()
                    .map(|(ls, pos)| format!("{}@{:x}", name_toks(&ls).replace(' ', ","), pos))
                    .collect();
                rows.sort();
                rows.insert(0, format!("OK {:x}", rows.len()));
                rows.push("|".to_string());
                rows.push(bytes_to_hex(&msg));
                rows.join(" ")
            }
            Err(e) => err_line(&e),
        };
    }
    let r = match args[0] {
        "P" => p.build_bytes_vec(),
        "C" => p.build_bytes_vec_compressed(),
        _ => return "BADCASE".into(),
    };
    match r {
        Ok(b) => format!("OK {}", bytes_to_hex(&b)),
        Err(e) => err_line(&e),
    }
}

pub fn run_rt(args: &[&str]) -> String {
    if args.is_empty() {
        return "BADCASE".into();
    }
    let mut t = Toks { t: &args[1..], p: 0 };
    let p = match read_packet(&mut t) {
        Some(p) if t.done() => p,
        _ => return "BADCASE".into(),
    };
    let r = match args[0] {
        "C" => p.build_bytes_vec_compressed(),
        _ => p.build_bytes_vec(),
    };
    match r {
        Ok(b) => {
            let back = match Packet::parse(&b) {
                Ok(q) => format!("OK {}", packet_toks(&q)),
                Err(e) => err_line(&e),
            };
            format!("OK {} | {}", bytes_to_hex(&b), back)
        }
        Err(e) => err_line(&e),
    }
}

pub fn run_reparse(args: &[&str]) -> String {
    if args.len() != 1 {
        return "BADCASE".into();
    }
    let d = match hex_to_bytes(args[0]) {
        Some(d) => d,
        None => return "BADCASE".into(),
    };
    let p = match Packet::parse(&d) {
        Ok(p) => p,
        Err(e) => return err_line(&e),
    };
    let leg = |r: simple_dns::Result<Vec<u8>>| match r {
        Ok(b) => match Packet::parse(&b) {
            Ok(q) => format!("OK {}", packet_toks(&q)),
            Err(e) => err_line(&e),
        },
        Err(e) => format!("W{}", err_line(&e)),
    };
    format!(
        "OK {} | {} | {}",
        packet_toks(&p),
        leg(p.build_bytes_vec()),
        leg(p.build_bytes_vec_compressed())
    )
}

pub fn run_buildw(args: &[&str]) -> String {
    if args.len() < 5 {
        return "BADCASE".into();
    }
    let (mode, kind) = (args[0], args[1]);
    let (start, storage) = match (hex_to_u128(args[2]), hex_to_bytes(args[3])) {
        (Some(s), Some(b)) => (s as usize, b),
        _ => return "BADCASE".into(),
    };
    let mut t = Toks { t: &args[4..], p: 0 };
    let p = match read_packet(&mut t) {
        Some(p) if t.done() => p,
        _ => return "BADCASE".into(),
    };
    use std::io::Cursor;
    let compressed = mode == "C";
    match kind {
        "V" => {
            if compressed {
                return "BADCASE".into();
            }
            let mut v = storage.clone();
            match p.write_to(&mut v) {
                Ok(()) => format!("OK {} {:x}", bytes_to_hex(&v), v.len()),
                Err(e) => err_line(&e),
            }
        }
        "G" => {
            let mut c = Cursor::new(storage.clone());
            c.set_position(start as u64);
            let r = if compressed { p.write_compressed_to(&mut c) } else { p.write_to(&mut c) };
            match r {
                Ok(()) => {
                    let pos = c.position();
                    format!("OK {} {:x}", bytes_to_hex(&c.into_inner()), pos)
                }
                Err(e) => err_line(&e),
            }
        }
        "Q" => {
            // a growable seekable writer whose write() legally accepts only part of the buffer (1..=5 bytes per call)
            struct Chunky {
                inner: Cursor<Vec<u8>>,
                calls: usize,
            }
            impl std::io::Write for Chunky {
                fn write(&mut self, buf: &[u8]) -> std::io::Result<usize> {
                    self.calls += 1;
                    let n = buf.len().min(1 + self.calls % 5);
                    self.inner.write(&buf[..n])
                }
                fn flush(&mut self) -> std::io::Result<()> {
                    Ok(())
                }
            }
            impl std::io::Seek for Chunky {
                fn seek(&mut self, pos: std::io::SeekFrom) -> std::io::Result<u64> {
                    self.inner.seek(pos)
                }
            }
            let mut c = Chunky { inner: Cursor::new(storage.clone()), calls: 0 };
            c.inner.set_position(start as u64);
            let r = if compressed { p.write_compressed_to(&mut c) } else { p.write_to(&mut c) };
            match r {
                Ok(()) => {
                    let pos = c.inner.position();
                    format!("OK {} {:x}", bytes_to_hex(&c.inner.into_inner()), pos)
                }
                Err(e) => err_line(&e),
            }
        }
        "B" | "H" => {
            // a buffering writer (std::io::BufWriter) over a growable cursor (B) or a fixed slice (H): what counts is what has
            // reached the storage when the call returns - bytes still sitting in the buffer would be lost, and their write
            // errors swallowed, if the caller drops the writer as it may after Ok
            let mut fixed = storage.clone();
            let cap = 7 + storage.len() % 23;
            let (r, seen, pos) = if kind == "B" {
                let mut c = Cursor::new(storage.clone());
                c.set_position(start as u64);
                let mut w = std::io::BufWriter::with_capacity(cap, c);
                let r = if compressed { p.write_compressed_to(&mut w) } else { p.write_to(&mut w) };
                let seen = w.get_ref().get_ref().clone();
                let pos = w.get_ref().position();
                (r, seen, pos)
            } else {
                let mut c = Cursor::new(&mut fixed[..]);
                c.set_position(start as u64);
                let mut w = std::io::BufWriter::with_capacity(cap, c);
                let r = if compressed { p.write_compressed_to(&mut w) } else { p.write_to(&mut w) };
                let seen = w.get_ref().get_ref().to_vec();
                let pos = w.get_ref().position();
                std::mem::forget(w.into_parts());
                (r, seen, pos)
            };
            match r {
                Ok(()) => format!("OK {} {:x}", bytes_to_hex(&seen), pos),
                Err(e) => err_line(&e),
            }
        }
        "F" => {
            let mut buf = storage.clone();
            let mut c = Cursor::new(&mut buf[..]);
            c.set_position(start as u64);
            let r = if compressed { p.write_compressed_to(&mut c) } else { p.write_to(&mut c) };
            match r {
                Ok(()) => {
                    let pos = c.position();
                    format!("OK {} {:x}", bytes_to_hex(&buf), pos)
                }
                Err(e) => err_line(&e),
            }
        }
        "S" => {
            if compressed || start > storage.len() {
                return "BADCASE".into();
            }
            let mut buf = storage.clone();
            let total = buf.len();
            let mut sl: &mut [u8] = &mut buf[start..];
            let r = p.write_to(&mut sl);
            let remaining = sl.len();
            match r {
                Ok(()) => format!("OK {} {:x}", bytes_to_hex(&buf), total - remaining),
                Err(e) => err_line(&e),
            }
        }
        _ => "BADCASE".into(),
    }
}

/// PARSEM hex: Packet::parse under the allocation meter: outcome class and peak extra heap in bytes
pub fn run_parsem(args: &[&str]) -> String {
    if args.len() != 1 {
        return "BADCASE".into();
    }
    let d = match hex_to_bytes(args[0]) {
        Some(d) => d,
        None => return "BADCASE".into(),
    };
    crate::meter::reset();
    let r = Packet::parse(&d);
    let peak = crate::meter::peak();
    let cls = match &r {
        Ok(_) => "OK".to_string(),
        Err(e) => err_line(e),
    };
    drop(r);
    format!("{} peak={:x}", cls, peak)
}
