//! OBSERVE / OWN / HASHI cases (C12, C16)
use crate::pkt::*;
use crate::text::*;
use simple_dns::rdata::RData;
use simple_dns::{CharacterString, Packet, Question, ResourceRecord};
use std::convert::TryFrom;
use std::hash::{Hash, Hasher};

/// a Hasher that records the exact byte stream fed to it
#[derive(Default)]
pub struct Recorder(pub Vec<u8>);
impl Hasher for Recorder {
    fn finish(&self) -> u64 {
        0
    }
    fn write(&mut self, bytes: &[u8]) {
        self.0.extend_from_slice(bytes);
    }
}
pub fn stream<T: Hash>(x: &T) -> Vec<u8> {
    let mut r = Recorder::default();
    x.hash(&mut r);
    r.0
}

/// Display and Debug under the formatter options a caller may use (width, alignment, fill, precision, sign, zero padding, the
/// alternate forms): none of them may make formatting fail
fn fmt_specs<T: std::fmt::Display + std::fmt::Debug>(x: &T) {
    let _ = format!("{} {:?} {:#?}", x, x, x);
    let _ = format!("{:<24} {:>24} {:^10} {:*^7} {:.6} {:.0} {:1.1} {:+} {:08} {:#}", x, x, x, x, x, x, x, x, x, x);
    let _ = format!("{:<40?} {:.3?} {:>2?} {:08?}", x, x, x, x);
    let (w, p) = (30usize, 2usize);
    let _ = format!("{:w$.p$} {:>1$}", x, 3, w = w, p = p);
}

fn cstr_errs(cs: &[&CharacterString]) -> u32 {
    for c in cs {
        fmt_specs(*c);
    }
    cs.iter()
        .filter(|c| match String::try_from((**c).clone()) {
            Ok(_) => false,
            Err(e) => {
                // an error that is returned is going to be logged: it must format
                fmt_specs(&e);
                true
            }
        })
        .count() as u32
}

fn observe_rr(rr: &ResourceRecord, qs: &[Question], errs: &mut u32) {
    let _ = format!("{:?}", rr);
    let _ = rr.name.to_string();
    let _ = format!("{}", rr.name);
    fmt_specs(&rr.name);
    for l in rr.name.get_labels() {
        let _ = format!("{:?} {}", l, l);
        fmt_specs(l);
    }
    let c = rr.clone();
    let o = rr.clone().into_owned();
    let _ = c == *rr && o == *rr;
    let _ = (stream(rr), stream(&rr.name), stream(&rr.rdata), stream(&rr.class));
    let _ = rr.to_cache_flush_record();
    for q in qs {
        let _ = rr.match_qtype(q.qtype) && rr.match_qclass(q.qclass);
    }
    let _ = rr.rdata.type_code();
    match &rr.rdata {
        RData::TXT(t) => {
            let _ = t.attributes();
            if let Err(e) = t.clone().long_attributes() {
                fmt_specs(&e);
                *errs += 1;
            }
            if let Err(e) = String::try_from(t.clone()) {
                fmt_specs(&e);
                *errs += 1;
            }
        }
        RData::HINFO(x) => *errs += cstr_errs(&[&x.cpu, &x.os]),
        RData::ISDN(x) => *errs += cstr_errs(&[&x.address, &x.sa]),
        RData::NAPTR(x) => *errs += cstr_errs(&[&x.flags, &x.services, &x.regexp]),
        RData::CAA(x) => *errs += cstr_errs(&[&x.tag]),
        RData::SVCB(x) => {
            let _ = x.get_param(1);
        }
        _ => {}
    }
    let _ = format!("{:?}", rr.rdata.clone().into_owned());
}

pub fn run_observe(args: &[&str]) -> String {
    if args.len() != 1 {
        return "BADCASE".into();
    }
    let d = match hex_to_bytes(args[0]) {
        Some(d) => d,
        None => return "BADCASE".into(),
    };
    let p = match Packet::parse(&d) {
        Ok(p) => p,
        Err(_) => return "ERR".into(),
    };
    let mut errs = 0u32;
    let _ = format!("{:?}", p);
    let _ = format!("{:?} {:?} {:?} {:?}", p.opt(), p.rcode(), p.opcode(), p.id());
    let _ = p.clone();
    for q in &p.questions {
        let _ = format!("{:?} {}", q, q.qname);
        fmt_specs(&q.qname);
        let _ = q.clone().into_owned();
        let _ = stream(&q.qname);
    }
    for rr in p.answers.iter().chain(p.name_servers.iter()).chain(p.additional_records.iter()) {
        observe_rr(rr, &p.questions, &mut errs);
    }
    // the suffix algebra on every pair of names of the packet
    let mut names: Vec<&simple_dns::Name> = p.questions.iter().map(|q| &q.qname).collect();
    for rr in p.answers.iter().chain(p.name_servers.iter()).chain(p.additional_records.iter()) {
        names.push(&rr.name);
    }
    for a in &names {
        let _ = a.is_link_local();
        let _ = a.get_labels().len();
        for b in &names {
            let _ = a.is_subdomain_of(b);
            let _ = a.without(b).map(|n| n.to_string());
            let _ = *a == *b;
        }
    }
    format!("OK {:x}", errs)
}

pub fn run_own(args: &[&str]) -> String {
    if args.len() != 1 {
        return "BADCASE".into();
    }
    let d = match hex_to_bytes(args[0]) {
        Some(d) => d,
        None => return "BADCASE".into(),
    };
    let p = match Packet::parse(&d) {
        Ok(p) => p,
        Err(_) => return "ERR".into(),
    };
    let mut diff: Vec<String> = Vec::new();
    // a packet reassembled from owned copies of every part
    let mut o = Packet::new_query(p.id());
    *o.opcode_mut() = p.opcode();
    *o.rcode_mut() = p.rcode();
    for f in crate::header::ALL_FLAGS {
        if p.has_flags(f) {
            o.set_flags(f);
        }
    }
    *o.opt_mut() = p.opt().cloned().map(|x| x.into_owned());
    for q in &p.questions {
        let c = q.clone();
        let w = q.clone().into_owned();
        if question_toks(&c) != question_toks(q) || question_toks(&w) != question_toks(q) {
            diff.push("question".into());
        }
        if stream(&w.qname) != stream(&q.qname) || w.qname != q.qname {
            diff.push("question-name-eq/hash".into());
        }
        o.questions.push(w);
    }
    let secs: [(&Vec<ResourceRecord>, u8); 3] = [(&p.answers, 0), (&p.name_servers, 1), (&p.additional_records, 2)];
    let mut n = 0;
    for (sec, k) in secs {
        for rr in sec {
            n += 1;
            let c = rr.clone();
            let w = rr.clone().into_owned();
            if rr_toks(&c) != rr_toks(rr) || rr_toks(&w) != rr_toks(rr) {
                diff.push(format!("record {}", rr_toks(rr)));
            }
            if !(c == *rr && w == *rr) {
                diff.push("record-eq".into());
            }
            if stream(&w) != stream(rr) || stream(&w.rdata) != stream(&rr.rdata) || stream(&w.name) != stream(&rr.name) {
                diff.push("record-hash".into());
            }
            let rd = rr.rdata.clone().into_owned();
            if rd != rr.rdata || rdata_toks(&rd) != rdata_toks(&rr.rdata) {
                diff.push("rdata".into());
            }
            match k {
                0 => o.answers.push(w),
                1 => o.name_servers.push(w),
                _ => o.additional_records.push(w),
            }
        }
    }
    match (p.build_bytes_vec(), o.build_bytes_vec(), p.clone().build_bytes_vec()) {
        (Ok(a), Ok(b), Ok(c)) => {
            if a != b || a != c {
                diff.push("bytes".into());
            }
        }
        (Err(_), Err(_), Err(_)) => {}
        _ => diff.push("bytes-result".into()),
    }
    match (p.build_bytes_vec_compressed(), o.build_bytes_vec_compressed()) {
        (Ok(a), Ok(b)) => {
            if a != b {
                diff.push("compressed-bytes".into());
            }
        }
        (Err(_), Err(_)) => {}
        _ => diff.push("compressed-result".into()),
    }
    if diff.is_empty() {
        format!("OK {:x} {:x} same", p.questions.len(), n)
    } else {
        format!("OK {:x} {:x} DIFF {}", p.questions.len(), n, diff.join(","))
    }
}

/// HASHI n member...: InstanceInformation built twice with the same members inserted in two different orders:
/// equal values must feed the hasher the same stream. member := 4 addr | 6 addr | P port
pub fn run_hashi(args: &[&str]) -> String {
    use simple_mdns::InstanceInformation;
    let mut t = Toks { t: args, p: 0 };
    let name = match t.bytes().and_then(|b| String::from_utf8(b).ok()) {
        Some(n) => n,
        None => return "BADCASE".into(),
    };
    let n = match t.count() {
        Some(n) => n,
        None => return "BADCASE".into(),
    };
    let mut members: Vec<(String, u128)> = Vec::new();
    let mut attrs: Vec<(String, Option<String>)> = Vec::new();
    for _ in 0..n {
        let k = match t.next() {
            Some(k) => k.to_string(),
            None => return "BADCASE".into(),
        };
        if k == "A" {
            let key = match t.bytes().and_then(|b| String::from_utf8(b).ok()) {
                Some(x) => x,
                None => return "BADCASE".into(),
            };
            let val = match t.next() {
                Some("N") => None,
                Some("V") => match t.bytes().and_then(|b| String::from_utf8(b).ok()) {
                    Some(v) => Some(v),
                    None => return "BADCASE".into(),
                },
                _ => return "BADCASE".into(),
            };
            attrs.push((key, val));
            continue;
        }
        match t.num() {
            Some(v) => members.push((k, v)),
            None => return "BADCASE".into(),
        }
    }
    let build = |ms: &[(String, u128)]| {
        let mut i = InstanceInformation::new(name.clone());
        // every copy gets its own attribute map (own RandomState), filled in a different order
        let mut at = attrs.clone();
        if ms.len() % 2 == 1 {
            at.reverse();
        }
        for (k, v) in at {
            i = i.with_attribute(k, v);
        }
        for (k, v) in ms {
            i = match k.as_str() {
                "4" => i.with_ip_address(std::net::IpAddr::V4(std::net::Ipv4Addr::from(*v as u32))),
                "6" => i.with_ip_address(std::net::IpAddr::V6(std::net::Ipv6Addr::from(*v))),
                _ => i.with_port(*v as u16),
            };
        }
        i
    };
    let a = build(&members);
    let mut rev = members.clone();
    rev.reverse();
    let b = build(&rev);
    // sets with different insertion histories: grow and shrink capacity differently
    let extras: Vec<u16> = (0..65535u16)
        .filter(|x| !members.iter().any(|(k, v)| k == "P" && *v == *x as u128))
        .take(40)
        .collect();
    let mut extra = members.clone();
    for x in &extras {
        extra.insert(0, ("P".to_string(), *x as u128));
    }
    let mut c = build(&extra);
    for x in &extras {
        c.ports.remove(x);
    }
    let eq = a == b && a == c;
    let same = stream(&a) == stream(&b) && stream(&a) == stream(&c);
    format!("{} {}", b01(eq), b01(same))
}

/// EQHASH N nameA nameB | EQHASH R rrA rrB: two values built independently: do they compare equal, and if so do they feed
/// the hasher the same stream
pub fn run_eqhash(args: &[&str]) -> String {
    if args.is_empty() {
        return "BADCASE".into();
    }
    let mut t = Toks { t: &args[1..], p: 0 };
    match args[0] {
        "N" => {
            let (la, lb) = match (t.name(), t.name()) {
                (Some(a), Some(b)) if t.done() => (a, b),
                _ => return "BADCASE".into(),
            };
            let (a, b) = (make_name(&la), make_name(&lb));
            // the same two names once more, assembled from labels that BORROW from one buffer; where the two names have the same
            // bytes at the same label index they borrow the very same slice (as labels cloned out of one parsed name do)
            let mut arena: Vec<u8> = Vec::new();
            let mut spans: Vec<(usize, usize)> = Vec::new();
            for l in la.iter().chain(lb.iter()) {
                spans.push((arena.len(), l.len()));
                arena.extend_from_slice(l);
            }
            let slice = |k: usize| &arena[spans[k].0..spans[k].0 + spans[k].1];
            let xa: Vec<simple_dns::Label> = (0..la.len()).map(|i| simple_dns::Label::new_unchecked(slice(i))).collect();
            let xb: Vec<simple_dns::Label> = (0..lb.len())
                .map(|i| if i < la.len() && la[i] == lb[i] { simple_dns::Label::new_unchecked(slice(i)) } else { simple_dns::Label::new_unchecked(slice(la.len() + i)) })
                .collect();
            let (ba, bb) = (simple_dns::Name::new_with_labels(&xa), simple_dns::Name::new_with_labels(&xb));
            let (e1, h1) = (a == b, stream(&a) == stream(&b));
            let (e2, h2) = (ba == bb, stream(&ba) == stream(&bb));
            if e1 != e2 || h1 != h2 || (ba == a) != true || (bb == b) != true {
                return format!("DIFF owned {} {} borrowed {} {}", b01(e1), b01(h1), b01(e2), b01(h2));
            }
            format!("{} {}", b01(e1), b01(h1))
        }
        "R" => {
            let (a, b) = match (read_rr(&mut t), read_rr(&mut t)) {
                (Some(a), Some(b)) if t.done() => (a, b),
                _ => return "BADCASE".into(),
            };
            format!(
                "{} {} {} {}",
                b01(a == b),
                b01(stream(&a) == stream(&b)),
                b01(a.rdata == b.rdata),
                b01(stream(&a.rdata) == stream(&b.rdata))
            )
        }
        _ => "BADCASE".into(),
    }
}

/// SHOW L hex | SHOW C hex | SHOW N hex... | SHOW P hex: the text `Display` writes, as hexadecimal
pub fn run_show(args: &[&str]) -> String {
    use simple_dns::{CharacterString, Label, Name};
    fn shown<T: std::fmt::Display>(v: &T) -> String {
        use std::fmt::Write;
        let a = v.to_string();
        let mut b = String::new();
        if write!(b, "{}", v).is_err() || a != b || format!("{:>0}", v).is_empty() != a.is_empty() {
            return "DIFF".into();
        }
        bytes_to_hex(a.as_bytes())
    }
    if args.is_empty() {
        return "BADCASE".into();
    }
    let rest: Option<Vec<Vec<u8>>> = args[1..].iter().map(|t| hex_to_bytes(t)).collect();
    let rest = match rest {
        Some(r) => r,
        None => return "BADCASE".into(),
    };
    match (args[0], rest.len()) {
        ("L", 1) => shown(&Label::new_unchecked(rest[0].as_slice())),
        ("C", 1) => match CharacterString::new(&rest[0]) {
            Ok(c) => shown(&c),
            Err(_) => "ERR".into(),
        },
        ("N", _) => {
            let labels: Vec<Label> = rest.iter().map(|l| Label::new_unchecked(l.as_slice())).collect();
            shown(&Name::new_with_labels(&labels))
        }
        ("P", 1) => match Packet::parse(&rest[0]) {
            Ok(p) => {
                let mut out = vec!["OK".to_string()];
                for q in &p.questions {
                    out.push(shown(&q.qname));
                }
                for rr in p.answers.iter().chain(p.name_servers.iter()).chain(p.additional_records.iter()) {
                    out.push(shown(&rr.name));
                }
                out.join(" ")
            }
            Err(_) => "ERR".into(),
        },
        _ => "BADCASE".into(),
    }
}
