//! CODE and MATCH cases (C18)
use crate::text::*;
use simple_dns::rdata::RData;
use simple_dns::{Name, ResourceRecord, CLASS, QCLASS, QTYPE, TYPE};
use std::convert::TryFrom;

pub fn ty_tok(t: TYPE) -> String {
    match t {
        TYPE::Unknown(c) => format!("Unknown({:x})", c),
        t => format!("{:?}", t),
    }
}

pub fn qtype_tok(q: QTYPE) -> String {
    match q {
        QTYPE::TYPE(t) => ty_tok(t),
        q => format!("{:?}", q),
    }
}

pub fn qclass_tok(q: QCLASS) -> String {
    match q {
        QCLASS::CLASS(c) => format!("{:?}", c),
        QCLASS::ANY => "ANY".into(),
    }
}

pub fn run_code(args: &[&str]) -> String {
    if args.len() != 2 {
        return "BADCASE".into();
    }
    let c = match hex_to_u128(args[1]) {
        Some(c) if c < 65536 => c as u16,
        _ => return "BADCASE".into(),
    };
    match args[0] {
        "TYPE" => {
            let t = TYPE::from(c);
            format!("{} {:x} {:x}", ty_tok(t), u16::from(t), u16::from(QTYPE::from(t)))
        }
        "CLASS" => match CLASS::try_from(c) {
            Ok(k) => format!("OK {:?} {:x}", k, k as u16),
            Err(e) => err_line(&e),
        },
        "QCLASS" => match QCLASS::try_from(c) {
            Ok(q) => format!("OK {} {:x}", qclass_tok(q), u16::from(q)),
            Err(e) => err_line(&e),
        },
        "QTYPE" => match QTYPE::try_from(c) {
            Ok(q) => format!("OK {} {:x}", qtype_tok(q), u16::from(q)),
            Err(e) => err_line(&e),
        },
        "OPCODE" => format!("{:x}", simple_dns::OPCODE::from(c) as u16),
        "RCODE" => format!("{:x}", simple_dns::RCODE::from(c) as u16),
        _ => "BADCASE".into(),
    }
}

pub fn run_match(args: &[&str]) -> String {
    let v: Vec<Option<u128>> = args.iter().map(|a| hex_to_u128(a)).collect();
    if v.len() != 4 || v.iter().any(|x| x.map_or(true, |x| x >= 65536)) {
        return "BADCASE".into();
    }
    let (rt, rc, qt, qc) = (
        v[0].unwrap() as u16,
        v[1].unwrap() as u16,
        v[2].unwrap() as u16,
        v[3].unwrap() as u16,
    );
    let (class, qclass) = match (CLASS::try_from(rc), QCLASS::try_from(qc)) {
        (Ok(a), Ok(b)) => (a, b),
        _ => return "BADCASE".into(),
    };
    let qtype = QTYPE::try_from(qt).unwrap_or(QTYPE::TYPE(TYPE::from(qt)));
    let rr = ResourceRecord::new(Name::new_unchecked("a"), class, 0, RData::Empty(TYPE::from(rt)));
    format!(
        "{} {} {}",
        ty_tok(rr.rdata.type_code()),
        b01(rr.match_qtype(qtype)),
        b01(rr.match_qclass(qclass))
    )
}

/// MATCHU rt rc qt qc: like MATCH with the question type built directly as QTYPE::TYPE(TYPE::from(qt)), whatever qt is (this is what
/// `TYPE::from(code).into()` gives a caller, also for the codes that QTYPE::try_from would read as ANY / AXFR / MAILB ...)
pub fn run_matchu(args: &[&str]) -> String {
    let v: Vec<Option<u128>> = args.iter().map(|a| hex_to_u128(a)).collect();
    if v.len() != 4 || v.iter().any(|x| x.map_or(true, |x| x >= 65536)) {
        return "BADCASE".into();
    }
    let (rt, rc, qt, qc) = (v[0].unwrap() as u16, v[1].unwrap() as u16, v[2].unwrap() as u16, v[3].unwrap() as u16);
    let (class, qclass) = match (CLASS::try_from(rc), QCLASS::try_from(qc)) {
        (Ok(a), Ok(b)) => (a, b),
        _ => return "BADCASE".into(),
    };
    let qtype: QTYPE = TYPE::from(qt).into();
    let rr = ResourceRecord::new(Name::new_unchecked("a"), class, 0, RData::Empty(TYPE::from(rt)));
    format!("{} {} {}", ty_tok(rr.rdata.type_code()), b01(rr.match_qtype(qtype)), b01(rr.match_qclass(qclass)))
}

pub fn run_matchn(args: &[&str]) -> String {
    let v: Vec<Option<u128>> = args.iter().map(|a| hex_to_u128(a)).collect();
    if v.len() != 4 || v.iter().any(|x| x.map_or(true, |x| x >= 65536)) {
        return "BADCASE".into();
    }
    let (rt, rc, qt, qc) = (v[0].unwrap() as u16, v[1].unwrap() as u16, v[2].unwrap() as u16, v[3].unwrap() as u16);
    let (class, qclass) = match (CLASS::try_from(rc), QCLASS::try_from(qc)) {
        (Ok(a), Ok(b)) => (a, b),
        _ => return "BADCASE".into(),
    };
    let qtype = QTYPE::try_from(qt).unwrap_or(QTYPE::TYPE(TYPE::from(qt)));
    let null = simple_dns::rdata::NULL::new(&[1u8]).unwrap();
    let rr = ResourceRecord::new(Name::new_unchecked("a"), class, 0, RData::NULL(rt, null));
    let shown = |rr: &ResourceRecord| format!("{} {} {}", ty_tok(rr.rdata.type_code()), b01(rr.match_qtype(qtype)), b01(rr.match_qclass(qclass)));
    // the same record with no data at all, and owned copies / clones of both: the type code decides, not the payload or the ownership
    let empty = ResourceRecord::new(Name::new_unchecked("a"), class, 0, RData::NULL(rt, simple_dns::rdata::NULL::new(&[]).unwrap()));
    let base = shown(&rr);
    for v in [rr.clone(), rr.clone().into_owned(), empty.clone(), empty.clone().into_owned(), empty.clone().into_owned().clone()] {
        if shown(&v) != base {
            return format!("DIFF {} / {}", base, shown(&v));
        }
    }
    base
}

pub fn run_rrmatch(args: &[&str]) -> String {
    if args.len() != 3 {
        return "BADCASE".into();
    }
    let (d, qt, qc) = match (hex_to_bytes(args[0]), hex_to_u128(args[1]), hex_to_u128(args[2])) {
        (Some(d), Some(a), Some(b)) if a < 65536 && b < 65536 => (d, a as u16, b as u16),
        _ => return "BADCASE".into(),
    };
    let qclass = match QCLASS::try_from(qc) {
        Ok(q) => q,
        Err(_) => return "BADCASE".into(),
    };
    let qtype = QTYPE::try_from(qt).unwrap_or(QTYPE::TYPE(TYPE::from(qt)));
    match simple_dns::verif_hooks::parse_rr_at(&d, 0) {
        Ok((rr, _)) => format!(
            "OK {} {} {}",
            ty_tok(rr.rdata.type_code()),
            b01(rr.match_qtype(qtype)),
            b01(rr.match_qclass(qclass))
        ),
        Err(e) => err_line(&e),
    }
}
