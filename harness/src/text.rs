//! token / hex helpers shared by all case kinds (integers are hexadecimal, byte strings hexadecimal, "-" = empty)

pub fn hex_to_u128(t: &str) -> Option<u128> {
    if t.is_empty() {
        return None;
    }
    u128::from_str_radix(t, 16).ok()
}

pub fn hex_to_bytes(t: &str) -> Option<Vec<u8>> {
    if t == "-" {
        return Some(Vec::new());
    }
    if t.len() % 2 != 0 {
        return None;
    }
    let b = t.as_bytes();
    let mut out = Vec::with_capacity(b.len() / 2);
    for i in (0..b.len()).step_by(2) {
        let s = std::str::from_utf8(&b[i..i + 2]).ok()?;
        out.push(u8::from_str_radix(s, 16).ok()?);
    }
    Some(out)
}

pub fn bytes_to_hex(b: &[u8]) -> String {
    if b.is_empty() {
        return "-".to_string();
    }
    let mut s = String::with_capacity(b.len() * 2);
    for x in b {
        s.push_str(&format!("{:02x}", x));
    }
    s
}

pub fn hx<T: std::fmt::LowerHex>(v: T) -> String {
    format!("{:x}", v)
}

pub fn b01(b: bool) -> &'static str {
    if b {
        "1"
    } else {
        "0"
    }
}

pub fn err_line(e: &simple_dns::SimpleDnsError) -> String {
    use simple_dns::SimpleDnsError::*;
    match e {
        InvalidClass(c) => format!("ERR InvalidClass {:x}", c),
        InvalidQClass(c) => format!("ERR InvalidQClass {:x}", c),
        InvalidQType(c) => format!("ERR InvalidQType {:x}", c),
        InvalidServiceName => "ERR InvalidServiceName".into(),
        InvalidServiceLabel => "ERR InvalidServiceLabel".into(),
        InvalidCharacterString => "ERR InvalidCharacterString".into(),
        InvalidHeaderData => "ERR InvalidHeaderData".into(),
        InvalidDnsPacket => "ERR InvalidDnsPacket".into(),
        AttemptedInvalidOperation => "ERR AttemptedInvalidOperation".into(),
        InsufficientData => "ERR InsufficientData".into(),
        FailedToWrite => "ERR FailedToWrite".into(),
        InvalidUtf8String(_) => "ERR InvalidUtf8String".into(),
        _ => "ERR Other".into(),
    }
}
