//! impldrv: runs the implementation (/repo, hooks on) on case lines read from stdin and prints one
//! canonical line per case; the extracted Coq model (`modeldrv`) implements the same protocol.
mod codes;
mod header;
mod meter;
mod pkt;
mod text;

use std::io::{BufRead, Write};

#[global_allocator]
static GLOBAL: meter::Meter = meter::Meter;

fn run_line(line: &str) -> String {
    let toks: Vec<&str> = line.split_ascii_whitespace().collect();
    if toks.is_empty() {
        return String::new();
    }
    let args = &toks[1..];
    match toks[0] {
        "CODE" => codes::run_code(args),
        "MATCH" => codes::run_match(args),
        "HDR" => header::run_hdr(args),
        "PARSE" => pkt::run_parse(args),
        "NAME" => pkt::run_name(args),
        "RR" => pkt::run_rr(args),
        "BUILD" => pkt::run_build(args),
        "RT" => pkt::run_rt(args),
        "REPARSE" => pkt::run_reparse(args),
        "BUILDW" => pkt::run_buildw(args),
        "PARSEM" => pkt::run_parsem(args),
        "PEEK" => header::run_peek(args),
        "FLAGS" => header::run_flags(args),
        "BUILDHDR" => header::run_buildhdr(args),
        _ => "BADCASE".into(),
    }
}

fn main() {
    std::panic::set_hook(Box::new(|_| {}));
    let stdin = std::io::stdin();
    let stdout = std::io::stdout();
    let mut out = std::io::BufWriter::new(stdout.lock());
    for line in stdin.lock().lines() {
        let line = match line {
            Ok(l) => l,
            Err(_) => break,
        };
        let res = std::panic::catch_unwind(|| run_line(&line));
        match res {
            Ok(s) => writeln!(out, "{}", s).unwrap(),
            Err(_) => writeln!(out, "PANIC").unwrap(),
        }
        out.flush().unwrap();
    }
    out.flush().unwrap();
}
