//! impldrv: runs the implementation (/repo, hooks on) on case lines read from stdin and prints one
//! canonical line per case; the extracted Coq model (`modeldrv`) implements the same protocol.
mod codes;
mod header;
mod mdns;
mod observe;
mod meter;
mod pkt;
mod text;
mod textapi;

use std::io::{BufRead, Write};

#[global_allocator]
static GLOBAL: meter::Meter = meter::Meter;

fn run_line(line: &str) -> String {
    let toks: Vec<&str> = line.split_ascii_whitespace().collect();
    if toks.is_empty() {
        return String::new();
    }
    let args = &toks[1..];
    match toks[0] {
        "CODE" => codes::run_code(args),
        "MATCH" => codes::run_match(args),
        "MATCHN" => codes::run_matchn(args),
        "MATCHU" => codes::run_matchu(args),
        "RRMATCH" => codes::run_rrmatch(args),
        "HDR" => header::run_hdr(args),
        "PARSE" => pkt::run_parse(args),
        "NAME" => pkt::run_name(args),
        "RR" => pkt::run_rr(args),
        "BUILD" => pkt::run_build(args),
        "TABLE" => {
            let mut a = vec!["T"];
            a.extend_from_slice(args);
            pkt::run_build(&a)
        }
        "RT" => pkt::run_rt(args),
        "NAMENEW" => textapi::run_namenew(args),
        "STORE" => mdns::run_store(args),
        "OBSERVE" => observe::run_observe(args),
        "OWN" => observe::run_own(args),
        "HASHI" => observe::run_hashi(args),
        "EQHASH" => observe::run_eqhash(args),
        "DISC" => mdns::run_disc(args),
        "HISTB" => mdns::run_histb(args),
        "SUFFIX" => textapi::run_suffix(args),
        "CSTRNEW" => textapi::run_cstrnew(args),
        "TXTTEXT" => textapi::run_txttext(args),
        "HDRMOD" => header::run_hdrmod(args),
        "PEEKF" => header::run_peekf(args),
        "SHOW" => observe::run_show(args),
        "COUNTS" => header::run_counts(args),
        "SOCK" => mdns::run_sock(args),
        "SOCKR" => mdns::run_sockr(args),
        "TXTATTR" => textapi::run_txtattr(args),
        "ATTRMAP" => textapi::run_attrmap(args),
        "ESCAPE" => textapi::run_escape(args),
        "REPARSE" => pkt::run_reparse(args),
        "BUILDW" => pkt::run_buildw(args),
        "PARSEM" => pkt::run_parsem(args),
        "PEEK" => header::run_peek(args),
        "FLAGS" => header::run_flags(args),
        "BUILDHDR" => header::run_buildhdr(args),
        _ => "BADCASE".into(),
    }
}

/// A logger that admits every level and renders every record: the arguments of the library's `log` macros are evaluated (and
/// their Display / Debug code runs) as they would in an application that runs with verbose logging switched on.
struct RenderingLogger;
impl log::Log for RenderingLogger {
    fn enabled(&self, _: &log::Metadata) -> bool {
        true
    }
    fn log(&self, record: &log::Record) {
        let text = format!("{} {} {}", record.level(), record.target(), record.args());
        std::hint::black_box(text.len());
    }
    fn flush(&self) {}
}
static LOGGER: RenderingLogger = RenderingLogger;

fn main() {
    std::panic::set_hook(Box::new(|_| {}));
    if log::set_logger(&LOGGER).is_ok() {
        log::set_max_level(log::LevelFilter::Trace);
    }
    // per-case watchdog: a case that does not finish within the deadline is reported as HANG and the process exits
    // (the orchestrator restarts the driver on the next case)
    let deadline = std::env::var("IMPLDRV_CASE_SECS").ok().and_then(|v| v.parse::<u64>().ok()).unwrap_or(20);
    let stdin = std::io::stdin();
    let stdout = std::io::stdout();
    let mut out = std::io::BufWriter::new(stdout.lock());
    let (tx_line, rx_line) = std::sync::mpsc::channel::<String>();
    let (tx_res, rx_res) = std::sync::mpsc::channel::<String>();
    std::thread::Builder::new()
        // the stack an ordinary `std::thread::spawn` (and a tokio worker) gets: a library call that needs more than this
        // overflows in a real caller too, and is reported as CRASH by the orchestrator
        // (IMPLDRV_STACK_KB lowers it for the slices whose subject is resource use: the code under test needs a constant
        // amount of stack there, so recursion as deep as the input is long shows up as an overflow whatever the frame size)
        .stack_size(std::env::var("IMPLDRV_STACK_KB").ok().and_then(|v| v.parse::<usize>().ok()).unwrap_or(2048) * 1024)
        .spawn(move || {
            for line in rx_line {
                let res = std::panic::catch_unwind(|| run_line(&line));
                let s = match res {
                    Ok(s) => s,
                    Err(_) => "PANIC".to_string(),
                };
                if tx_res.send(s).is_err() {
                    break;
                }
            }
        })
        .unwrap();
    for line in stdin.lock().lines() {
        let line = match line {
            Ok(l) => l,
            Err(_) => break,
        };
        tx_line.send(line).unwrap();
        match rx_res.recv_timeout(std::time::Duration::from_secs(deadline)) {
            Ok(s) => writeln!(out, "{}", s).unwrap(),
            Err(std::sync::mpsc::RecvTimeoutError::Timeout) => {
                writeln!(out, "HANG").unwrap();
                out.flush().unwrap();
                std::process::exit(3);
            }
            Err(_) => {
                writeln!(out, "CRASH").unwrap();
                out.flush().unwrap();
                std::process::exit(4);
            }
        }
        out.flush().unwrap();
    }
    out.flush().unwrap();
}
