//! NAMENEW / SUFFIX / CSTRNEW / TXTTEXT / TXTATTR / ATTRMAP / ESCAPE cases (C17, C19, C15)
use crate::pkt::{make_name, name_labels, name_toks, Toks};
use crate::text::*;
use simple_dns::rdata::TXT;
use simple_dns::{CharacterString, Name};
use std::collections::HashMap;
use std::convert::TryFrom;

fn attrs_tok(m: &HashMap<String, Option<String>>) -> String {
    let mut v: Vec<(&String, &Option<String>)> = m.iter().collect();
    v.sort_by(|a, b| a.0.as_bytes().cmp(b.0.as_bytes()));
    let mut s = format!("{:x}", v.len());
    for (k, val) in v {
        match val {
            Some(x) => s.push_str(&format!(" {} V {}", bytes_to_hex(k.as_bytes()), bytes_to_hex(x.as_bytes()))),
            None => s.push_str(&format!(" {} N", bytes_to_hex(k.as_bytes()))),
        }
    }
    s
}

pub fn run_namenew(args: &[&str]) -> String {
    if args.len() != 1 {
        return "BADCASE".into();
    }
    let b = match hex_to_bytes(args[0]) {
        Some(b) => b,
        None => return "BADCASE".into(),
    };
    let s = match std::str::from_utf8(&b) {
        Ok(s) => s,
        Err(_) => return "BADCASE".into(),
    };
    let unchecked = name_toks(&name_labels(&Name::new_unchecked(s)));
    match Name::new(s) {
        Ok(n) => {
            let shown = n.to_string();
            let again = match Name::new(&shown) {
                Ok(m) => format!("OK {}", name_toks(&name_labels(&m))),
                Err(e) => err_line(&e),
            };
            format!(
                "OK {} | {} | {} | {}",
                name_toks(&name_labels(&n)),
                bytes_to_hex(shown.as_bytes()),
                again,
                unchecked
            )
        }
        Err(e) => format!("{} | {}", err_line(&e), unchecked),
    }
}

pub fn run_suffix(args: &[&str]) -> String {
    let mut t = Toks { t: args, p: 0 };
    let (a, b) = match (t.name(), t.name()) {
        (Some(a), Some(b)) if t.done() => (make_name(&a), make_name(&b)),
        _ => return "BADCASE".into(),
    };
    let w = match a.without(&b) {
        Some(c) => format!("S {}", name_toks(&name_labels(&c))),
        None => "NONE".into(),
    };
    format!("{} {} {}", b01(a.is_subdomain_of(&b)), w, b01(a.is_link_local()))
}

pub fn run_cstrnew(args: &[&str]) -> String {
    if args.len() != 1 {
        return "BADCASE".into();
    }
    let b = match hex_to_bytes(args[0]) {
        Some(b) => b,
        None => return "BADCASE".into(),
    };
    match CharacterString::new(&b) {
        Ok(c) => format!("OK {}", bytes_to_hex(c.verif_bytes())),
        Err(e) => err_line(&e),
    }
}

fn txt_from(strs: &[Vec<u8>]) -> Option<TXT<'static>> {
    let mut t = TXT::new();
    for s in strs {
        // reading between the additions must not change what is read afterwards
        let _ = t.attributes();
        t.add_char_string(CharacterString::new(s).ok()?.into_owned());
    }
    Some(t)
}

pub fn run_txttext(args: &[&str]) -> String {
    if args.len() != 1 {
        return "BADCASE".into();
    }
    let b = match hex_to_bytes(args[0]) {
        Some(b) => b,
        None => return "BADCASE".into(),
    };
    let s = match std::str::from_utf8(&b) {
        Ok(s) => s,
        Err(_) => return "BADCASE".into(),
    };
    match TXT::try_from(s) {
        Ok(t) => {
            let strs = t.verif_strings();
            let mut out = format!("{:x}", strs.len());
            for x in &strs {
                out.push(' ');
                out.push_str(&bytes_to_hex(x));
            }
            let back = match String::try_from(t.clone()) {
                Ok(x) => format!("OK {}", bytes_to_hex(x.as_bytes())),
                Err(_) => "ERR InvalidUtf8String".into(),
            };
            let mut p = simple_dns::Packet::new_query(1);
            p.answers.push(simple_dns::ResourceRecord::new(
                Name::new_unchecked("t"),
                simple_dns::CLASS::IN,
                60,
                simple_dns::rdata::RData::TXT(t.clone()),
            ));
            let plain = match p.build_bytes_vec() {
                Ok(b) => format!("OK {}", bytes_to_hex(&b)),
                Err(e) => err_line(&e),
            };
            let comp = match p.build_bytes_vec_compressed() {
                Ok(b) => format!("OK {}", bytes_to_hex(&b)),
                Err(e) => err_line(&e),
            };
            format!("{} | {} | {} | {}", out, back, plain, comp)
        }
        Err(_) => "ERR".into(),
    }
}

pub fn run_txtattr(args: &[&str]) -> String {
    let mut t = Toks { t: args, p: 0 };
    let n = match t.count() {
        Some(n) => n,
        None => return "BADCASE".into(),
    };
    let mut strs = Vec::new();
    for _ in 0..n {
        match t.bytes() {
            Some(b) => strs.push(b),
            None => return "BADCASE".into(),
        }
    }
    if !t.done() {
        return "BADCASE".into();
    }
    let txt = match txt_from(&strs) {
        Some(t) => t,
        None => return "BADCASE".into(),
    };
    let a = attrs_tok(&txt.attributes());
    let l = match txt.clone().long_attributes() {
        Ok(m) => format!("OK {}", attrs_tok(&m)),
        Err(e) => err_line(&e),
    };
    let s = match String::try_from(txt) {
        Ok(x) => format!("OK {}", bytes_to_hex(x.as_bytes())),
        Err(_) => "ERR InvalidUtf8String".into(),
    };
    format!("{} | {} | {}", a, l, s)
}

pub fn run_attrmap(args: &[&str]) -> String {
    let mut t = Toks { t: args, p: 0 };
    let n = match t.count() {
        Some(n) => n,
        None => return "BADCASE".into(),
    };
    let mut m: HashMap<String, Option<String>> = HashMap::new();
    for _ in 0..n {
        let k = match t.bytes().and_then(|b| String::from_utf8(b).ok()) {
            Some(k) => k,
            None => return "BADCASE".into(),
        };
        let v = match t.next() {
            Some("N") => None,
            Some("V") => match t.bytes().and_then(|b| String::from_utf8(b).ok()) {
                Some(v) => Some(v),
                None => return "BADCASE".into(),
            },
            _ => return "BADCASE".into(),
        };
        if m.insert(k, v).is_some() {
            return "BADCASE".into();
        }
    }
    if !t.done() {
        return "BADCASE".into();
    }
    match TXT::try_from(m) {
        Ok(txt) => {
            // the same TXT inside a packet, plain and compressed (the string order follows the map's iteration order, so these
            // two legs are checked by the orchestrator's walker and not compared with the model)
            let mut p = simple_dns::Packet::new_query(1);
            p.answers.push(simple_dns::ResourceRecord::new(
                Name::new_unchecked("t"),
                simple_dns::CLASS::IN,
                60,
                simple_dns::rdata::RData::TXT(txt.clone()),
            ));
            let plain = match p.build_bytes_vec() {
                Ok(b) => format!("OK {}", bytes_to_hex(&b)),
                Err(e) => err_line(&e),
            };
            let comp = match p.build_bytes_vec_compressed() {
                Ok(b) => format!("OK {}", bytes_to_hex(&b)),
                Err(e) => err_line(&e),
            };
            format!("OK {} | {} | {}", attrs_tok(&txt.attributes()), plain, comp)
        }
        Err(_) => "ERR".into(),
    }
}

pub fn run_escape(args: &[&str]) -> String {
    if args.len() != 1 {
        return "BADCASE".into();
    }
    let s = match hex_to_bytes(args[0]).and_then(|b| String::from_utf8(b).ok()) {
        Some(s) => s,
        None => return "BADCASE".into(),
    };
    let i = simple_mdns::InstanceInformation::new(s.clone());
    let esc = i.escaped_instance_name();
    let back = simple_mdns::InstanceInformation::new(esc.clone()).unescaped_instance_name();
    let un = i.unescaped_instance_name();
    format!("{} {} {}", bytes_to_hex(esc.as_bytes()), bytes_to_hex(back.as_bytes()), bytes_to_hex(un.as_bytes()))
}
