#!/bin/sh
# Builds the whole framework offline from files on disk: Coq development (full .vo), extracted model driver, Rust harness.
set -e
cd "$(dirname "$0")"
export CARGO_NET_OFFLINE=true
mkdir -p .build .work evidence
( cd coq && coq_makefile -f _CoqProject -o Makefile >/dev/null 2>&1 && timeout 3000 make -j16 )
( cd modeldrv && ./build.sh )
[ -f harness/Cargo.lock ] || cp /repo/Cargo.lock harness/Cargo.lock
( cd harness && cargo build --offline )
echo "setup done"
