#!/usr/bin/env python3
"""Writes the seeded-change catch table (DESIGN.md section 0.7) from seeded/*/meta.json and seeded/RESULTS.tsv."""
import json, os, re
V = os.path.dirname(os.path.dirname(os.path.abspath(__file__)))
res = {}
for line in open(os.path.join(V, "seeded", "RESULTS.tsv"), errors="replace"):
    f = line.rstrip("\n").split("\t")
    if len(f) >= 5:
        res[f[0]] = f
rows = []
for d in sorted(os.listdir(os.path.join(V, "seeded"))):
    mp = os.path.join(V, "seeded", d, "meta.json")
    if not os.path.exists(mp):
        continue
    m = json.load(open(mp))
    what = re.sub(r"\s+", " ", m.get("what_it_breaks", "")).strip()
    what = (what[:230] + "…") if len(what) > 230 else what
    files = ", ".join(os.path.basename(x) for x in m.get("files_changed", []))[:60]
    r = res.get(d)
    if r:
        ok = r[2] == "exit=1" and r[3] != "violations=0"
        noinput = r[4] != "without_input=0"
        verdict = ("caught by %s" % r[1]) + (" with a failing input" if ok and r[4] == "without_input=0" else "")
        if ok and noinput:
            nv = int(r[3].split("=")[1]); ni = int(r[4].split("=")[1])
            verdict = "caught by %s (%d with a failing input, %d correspondence-only)" % (r[1], nv - ni, ni)
        if not ok:
            verdict = "**MISSED** by %s" % r[1]
        why = (r[5] if len(r) > 5 else "")[:140].replace("|", "/")
    else:
        verdict, why = "not run", ""
    rows.append("| %s | %s | %s | %s | %s |" % (d, files, what.replace("|", "/"), verdict, why))
out = ["| seed | file(s) | what the change breaks | result of `./check <target> --tier quick` with the change applied | first reported failure |",
       "|------|---------|------------------------|------------------------|------------------------|"] + rows
text = "\n".join(out)
p = os.path.join(V, "DESIGN.md")
s = open(p).read()
a, b = "<!-- CATCH-TABLE-BEGIN -->", "<!-- CATCH-TABLE-END -->"
if a in s:
    s = s[:s.index(a) + len(a)] + "\n" + text + "\n" + s[s.index(b):]
    open(p, "w").write(s)
else:
    print(text)
