"""C06: names decoded exactly as RFC 1035 4.1.4. Bounded-exhaustive buffers + structured messages, oracle = python RFC decoder."""
import itertools
import dns

SLICE = "NAME (Name::parse at an offset through the parse_name_at hook); PARSE (messages whose RDATA names are written with pointers)"
ALPHA = [0, 1, 2, 3, 63, 64, 0x80, 0xBF, 0xC0, 0xC1, 0xFF, ord('a')]
RULE = ("bounded-exhaustive: every buffer of length <= L (L=4 quick, 5 thorough) over the alphabet "
        "{0,1,2,3,63,64,0x80,0xBF,0xC0,0xC1,0xFF,'a'} at every start offset; plus seeded structured buffers: pointer chains of up to 8189 jumps (every pointer offset that exists), label runs at the "
        "63-byte and 254/255-byte limits, pointer chains, pointers to self / forward / past the end / into the middle of labels, "
        "names ending exactly at the end of the buffer, every value of the length octet with that many / one fewer / more bytes behind it, names of 125..128 labels and 253..256 bytes continued through a pointer after any "
        "number of labels. non-trivial = the name decodes; distinct = distinct outputs")
CASE_TIMEOUT = 600
STACK_KB = 256   # name decoding needs a constant amount of stack (see pC01)


def structured(rng, n):
    out = []
    for _ in range(n):
        buf = bytearray()
        starts = []
        k = rng.choice([1, 2, 3, 5, 8])
        for _ in range(k):
            starts.append(len(buf))
            r = rng.below(10)
            nl = rng.choice([0, 1, 2, 3, 4])
            total = 0
            for _ in range(nl):
                ll = rng.choice([1, 2, 5, 62, 63, 63, 64]) if r < 8 else rng.choice([1, 3])
                buf.append(ll)
                buf += bytes([97 + rng.below(3)]) * min(ll, 63 if ll <= 63 else 5)
                total += 1 + ll
            t = rng.below(10)
            if t < 4:
                buf.append(0)
            elif t < 8 and starts:
                tgt = rng.choice(starts + [len(buf), len(buf) + 1, 0, max(0, len(buf) - 1), 0x3FFF])
                if rng.chance(1, 4) and len(buf) > 2:
                    tgt = rng.below(len(buf))
                buf += bytes([0xC0 | ((tgt >> 8) & 0x3F), tgt & 0xFF])
            elif t == 8:
                buf.append(0xC0)  # truncated pointer
            # else: no terminator
        # long names around the 255 limit
        if rng.chance(1, 5):
            starts.append(len(buf))
            want = rng.choice([252, 253, 254, 255, 256])
            tot = 0
            while tot + 64 <= want - 1:
                buf.append(63)
                buf += b"x" * 63
                tot += 64
            rem = want - 1 - tot
            if rem >= 2:
                buf.append(rem - 1)
                buf += b"y" * (rem - 1)
            buf.append(0)
        for s in starts + [rng.below(len(buf) + 2)]:
            out.append("NAME %s %x" % (bytes(buf).hex() or "-", s))
    return out


def cases(rng, tier):
    L = 4 if tier == "quick" else 5
    out = []
    for n in range(0, L + 1):
        for tup in itertools.product(ALPHA, repeat=n):
            h = bytes(tup).hex() or "-"
            for off in range(0, n + 1):
                out.append("NAME %s %x" % (h, off))
    out += structured(rng, 3000 if tier == "quick" else 30000)
    # valid deep chains: pure pointer chains and label+pointer nesting (what a compressor emits for nested names)
    for depth in (1, 2, 9, 10, 11, 12, 20, 64, 126, 127, 128, 253, 254, 255, 256, 257, 300, 512, 1000, 1023, 1024, 1025, 2047, 2048, 2049, 4095, 4096, 4097, 8000, 8189):
        buf = bytearray(b"\x00")
        last = 0
        for _ in range(depth):
            here = len(buf)
            buf += bytes([0xC0 | (last >> 8), last & 0xFF])
            last = here
        out.append("NAME %s %x" % (bytes(buf).hex(), last))
        if 4 * depth + 3 > 16383:
            continue
        buf = bytearray(b"\x01z\x00")
        last = 0
        for i in range(depth):
            here = len(buf)
            buf += b"\x01" + bytes([97 + i % 26]) + bytes([0xC0 | (last >> 8), last & 0xFF])
            last = here
        out.append("NAME %s %x" % (bytes(buf).hex(), last))
    # every value of the length octet, with exactly that many bytes behind it, one fewer, and plenty; in place and reached
    # through a pointer: the two high bits decide (00 label, 11 pointer, 01 and 10 reserved) whatever follows
    for L in range(256):
        for avail in (L, L - 1, L + 40):
            if avail < 0:
                continue
            body = bytes([L]) + bytes([97 + (i % 26) for i in range(avail)])
            buf = b"\x00\x00" + body + b"\x00"
            out.append("NAME %s 2" % buf.hex())
            here = len(buf)
            out.append("NAME %s %x" % ((buf + b"\x01p\xc0\x02").hex(), here))
    # names at the limits (127 labels / 255 bytes, and one past them) whose tail, down to the bare root byte, is reached through
    # a pointer placed after any number of their labels
    shapes = [[1] * n for n in (125, 126, 127, 128)] + [[63, 63, 63, k] for k in (59, 60, 61, 62)] + [[63, 63, 63, 30, 30], [2] * 84 + [1], [2] * 85]
    for sizes in shapes:
        labels = [bytes([97 + i % 26]) * l for i, l in enumerate(sizes)]
        n = len(labels)
        for j in sorted(set([0, 1, 2, n // 2, n - 2, n - 1, n])):
            buf = bytearray(b"\x07padding")
            tail_at = len(buf)
            for l in labels[j:]:
                buf += bytes([len(l)]) + l
            buf += b"\x00"
            here = len(buf)
            for l in labels[:j]:
                buf += bytes([len(l)]) + l
            buf += bytes([0xC0 | (tail_at >> 8), tail_at & 0xFF]) + b"\x01\x02"
            out.append("NAME %s %x" % (bytes(buf).hex(), here))
    # names INSIDE RDATA written with pointers (a foreign encoder may compress any of them): after such a name the parser resumes
    # right behind the pointer, whatever the expanded name's length - every name-bearing type, the name followed by further fields
    import pktgen
    nameful = [t for t in dns.TYPED if t == "IPSECKEY" or any(isinstance(k, tuple) and k[0] == "name" for k in (dns.SCHEMA[t][1] or []))]
    for k in range(40 if tier == "quick" else 400):
        for t in nameful:
            shared = [[b"example", b"com"], [b"gw", b"example", b"com"]]
            vals = dns.gen_typed_vals(rng, t, shared)
            if t == "IPSECKEY":
                sch = dns.ipseckey_schema(3)
                vals = [dns.gen_field(rng, f, shared) for f in sch]
                vals[1] = ("I", 3)
                vals[-1] = ("B", rng.bytes(rng.choice([0, 1, 2, 5, 20])))
            vals = [("N", rng.choice([[b"gw", b"example", b"com"], [b"x", b"example", b"com"], [b"example", b"com"], [b"com"]])) if v[0] == "N" else v for v in vals]
            p = {"id": k, "opcode": 0, "rcode": 0, "flags": 0x8400, "opt": None,
                 "qs": [{"name": [b"gw", b"example", b"com"], "qtype": 255, "qclass": 1, "uni": False}],
                 "ans": [{"name": [b"o", b"example", b"com"], "class": 1, "ttl": 9, "cf": False, "rdata": ("T", t, vals)},
                         {"name": [b"after", b"com"], "class": 1, "ttl": 9, "cf": False, "rdata": ("T", "A", [("I", 0x01020304)])}], "nss": [], "adds": []}
            b, _ = dns.encode_marked(p, rng, 4)
            out.append("PARSE " + b.hex())
            PKTS[out[-1]] = p
    # pointers with a non-zero high part (targets >= 256) and at the 14-bit limit
    for tgt in (255, 256, 257, 0x123, 0x3FF, 0x400, 0x7FF, 0x800, 0xFFF, 0x1000, 0x1234, 0x1FFF, 0x2000, 0x2001, 0x2ABC, 0x3000, 0x3FF0, 0x3FFA):
        buf = bytearray(rng.bytes(tgt))
        for i in range(len(buf)):
            buf[i] = buf[i] | 0x40 if buf[i] < 0x40 else buf[i]   # no accidental valid names before the target
        # every single offset bit matters: a name-shaped decoy sits where the pointer would land with any one bit dropped
        for bit in range(14):
            alt = tgt & ~(1 << bit)
            if alt != tgt and alt + 7 <= tgt:
                buf[alt:alt + 7] = b"\x05decoy\x00"
        buf += b"\x03bar\x00"
        here = len(buf)
        buf += b"\x03foo" + bytes([0xC0 | (tgt >> 8), tgt & 0xFF])
        out.append("NAME %s %x" % (bytes(buf).hex(), here))
    return out


def normalize(case, out):
    return "ERR" if out.startswith("ERR") else out


def classify(case, out):
    return out.split(" ")[0] + (":" + out.split(" ")[1] if out.startswith("ERR") and " " in out else "")


def nontrivial(case, out):
    return out.startswith("OK")


PKTS = {}


def oracle(case, out):
    if case.startswith("PARSE"):
        if out.startswith("PANIC") or out in ("HANG", "CRASH"):
            return "%s on a message whose RDATA names are written with pointers: %s" % (out, case[6:300])
        p = PKTS.get(case)
        if p is not None:
            want = "OK " + dns.pkt_text(p)
            if out != want:
                return "a message whose RDATA names are written with pointers parsed to %r, expected %r (%s)" % (out[:300], want[:300], case[6:200])
        return None
    t = case.split()
    d = bytes.fromhex(t[1]) if t[1] != "-" else b""
    pos = int(t[2], 16)
    exp = dns.rfc_decode_name(d, pos)
    if out.startswith("PANIC") or out in ("HANG", "CRASH"):
        return "Name::parse %s on buffer %s at offset %d" % (out, t[1], pos)
    if exp is None:
        if not out.startswith("ERR"):
            return "RFC 1035 decoder rejects the name at offset %d of %s but Name::parse returned %r" % (pos, t[1], out)
        return None
    labels, end = exp
    want = "OK " + " ".join(dns.name_toks(labels) + ["%x" % end])
    if out != want:
        return "name at offset %d of %s: RFC decoder gives %r, Name::parse gives %r" % (pos, t[1], want, out)
    return None


def neighbours(case):
    return []


def matches_known(key, case, out, failure):
    return False
