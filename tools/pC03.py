"""C03: compression is transparent: parse(writec p) = parse(write p), |writec p| <= |write p|, incl. messages crossing 16383."""
import dns
import pktgen

SLICE = "RT C and RT P (compressed / plain serialisation then Packet::parse), exact bytes compared with the model"
USES_TABLE = True
RULE = ("seeded packets with heavy suffix sharing between owner, question and RDATA names (names extending a pool of shared "
        "suffixes, names differing only in a leading label) + messages padded to straddle offset 16384 where a name first "
        "appears beyond 16383 and is reused; a boundary catalogue placing a multi-label name at every offset 16384-k (k=0..25) "
        "with later names sharing only its tail; pointer chains of depth 3..90. Each description runs compressed and plain. non-trivial = both parse; "
        "distinct = distinct canonical outputs")
CASE_TIMEOUT = 600
DESCS = {}
PLAIN = {}


def cases(rng, tier):
    n = 2500 if tier == "quick" else 25000
    out = []
    ps = pktgen.packets(rng, n) + pktgen.big_packets(rng, 6 if tier == "quick" else 40)
    ps += pktgen.straddle_packets(rng, range(0, 26) if tier == "quick" else range(0, 80))
    ps += pktgen.chain_packets(rng)
    ps += pktgen.huge_packets(rng, (0, 40, 16384))
    if tier == "thorough":
        ps += pktgen.big_packets(rng, 6, target=60000)
    # one record of every type under the root name with minimal field values (empty strings, a root or one-label name, no items):
    # nothing is compressible, so the two serialisations have the same length - a per-type slip in one of the two writers shows
    seen = set()
    for tname, vals in dns.field_sweeps("quick"):
        vals = [("I", 0) if v[0] == "I" and not (tname == "IPSECKEY" and j == 1) else v for j, v in enumerate(vals)]
        key = (tname, repr(vals))
        if key in seen:
            continue
        seen.add(key)
        for nm in ([], [b"n"]):
            vv = [("N", nm) if v[0] == "N" else v for v in vals]
            ps.append({"id": 1, "opcode": 0, "rcode": 0, "flags": 0x8400, "opt": None, "qs": [], "nss": [], "adds": [],
                       "ans": [{"name": [], "class": 1, "ttl": 0, "cf": False, "rdata": ("T", tname, vv)}]})
    for t0, vv in (("HINFO", [("B", b""), ("B", b"")]), ("ISDN", [("B", b""), ("B", b"")]), ("ISDN", [("B", b"150862028003217"), ("B", b"")]),
                   ("ISDN", [("B", b""), ("B", b"004")]), ("TXT", [("L", [(0, b"")])]), ("TXT", [("L", [(0, b""), (0, b"")])])):
        ps.append({"id": 1, "opcode": 0, "rcode": 0, "flags": 0x8400, "opt": None, "qs": [], "nss": [], "adds": [],
                   "ans": [{"name": [], "class": 1, "ttl": 0, "cf": False, "rdata": ("T", t0, vv)}]})
    for k, p in enumerate(ps):
        t = dns.pkt_text(p)
        for m in ("C", "P"):
            c = "RT %s %s" % (m, t)
            DESCS[c] = p
            out.append(c)
        if k % 8 == 0 and len(t) < 40000:
            # the table behind the compression (cfg hook): the model's table, entry for entry, and true of the message
            out.append("TABLE " + t)
    return out


def normalize(case, out):
    return out


def classify(case, out):
    if case.startswith("TABLE"):
        return "TABLE:" + out.split(" ")[0]
    return case[3] + ":" + out.split(" ")[0] + ("/" + out.split(" | ")[1].split(" ")[0] if " | " in out else "")


def nontrivial(case, out):
    return " | OK" in out or (case.startswith("TABLE") and out.startswith("OK"))


def oracle(case, out):
    if case.startswith("TABLE"):
        if out.startswith("PANIC") or out in ("HANG", "CRASH"):
            return "%s on %s" % (out, case[:200])
        import pC07
        return pC07.oracle_table(case, out)
    p = DESCS.get(case) or dns.parse_pkt_text(case[5:])
    if not out.startswith("OK "):
        return "serialisation failed on a well-formed packet: %r" % out[:200]
    hx, back = out[3:].split(" | ", 1)
    want = "OK " + dns.pkt_text(p)
    if back != want:
        return "parse(%s(p)) differs from p: got %r, expected %r" % (
            "build_bytes_vec_compressed" if case[3] == "C" else "build_bytes_vec", back[:400], want[:400])
    if case[3] == "C":
        ref = dns.enc_packet_ref(p)
        if len(hx) // 2 > len(ref):
            return "compressed output (%d bytes) longer than the plain one (%d bytes)" % (len(hx) // 2, len(ref))
    return None


def matches_known(key, case, out, failure):
    return False


def extra_coverage():
    """How many of the packets this run exercised satisfy the (computable, proved sound) hypothesis wf_packetb of the
    round-trip theorems: evaluated in the model only."""
    import lib
    cs = ["BUILD W " + dns.pkt_text(p) for p in list(DESCS.values())[:4000]]
    if not cs:
        return {}
    res = lib.run_driver(lib.MODELDRV, cs, timeout=600)
    n1 = sum(1 for r in res if r == "1")
    bad = [c[8:208] for c, r in zip(cs, res) if r != "1"][:3]
    return {"hypothesis_wf_packetb_true": n1, "hypothesis_evaluated": len(cs), "hypothesis_false_samples": bad}


def followups(case, out):
    """the plain serialisation of the same packet, for the length clause of the property"""
    if case.startswith("RT C ") and out.startswith("OK "):
        return ["BUILD P " + case[5:]]
    return []


def oracle2(case, out, fu, fu_out):
    if not fu_out or not fu_out[0].startswith("OK "):
        return None
    comp = out[3:].split(" | ", 1)[0]
    plain = fu_out[0][3:]
    if len(comp) > len(plain):
        return ("the compressed serialisation (%d bytes) is longer than the uncompressed one (%d bytes): %s"
                % (len(comp) // 2, len(plain) // 2, case[5:300]))
    return None
