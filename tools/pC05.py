"""C05: parsing honours the record framing (header counts, RDLENGTH)."""
import dns
import pktgen

SLICE = "PARSE (Packet::parse) compared with an independent envelope walker; RR follow-ups on RDLENGTH-delimited prefixes"
RULE = ("reference-encoded messages (plain and arbitrarily compressed) over all types in which one record's RDLENGTH is made "
        "larger or smaller than the natural size of its typed content (surplus bytes inserted / RDLENGTH shortened), followed "
        "by further records; counts or lengths running past the end; all truncations of a few messages. Oracle: when the parse "
        "succeeds the walker succeeds and entries match one-to-one in order (owner, type, class, cache-flush, TTL), and each "
        "record equals ResourceRecord::parse run on the message cut at the end of its RDLENGTH. non-trivial = input accepted")


VALID = set()      # reference encodings of well-formed packets: these must be accepted


def cases(rng, tier):
    out = []
    n = 1500 if tier == "quick" else 15000
    for k, p in enumerate(pktgen.packets(rng, n, maxrr=3)):
        p["opt"] = None if k % 3 else p["opt"]
        b, marks = dns.encode_marked(p, rng, rng.choice([0, 0, 3]))
        out.append("PARSE " + b.hex())
        VALID.add(out[-1])
        if k % 3 == 0 and len(b) >= 12:
            # header words that coincide with quantities derived from the message itself (its length, the length of what
            # follows the ID, as a stream transport's two-byte length prefix would be) are still just an ID
            for d in (2, 0, 1, 12):
                out.append("PARSE " + ((len(b) - d) & 0xFFFF).to_bytes(2, "big").hex() + b[2:].hex())
                VALID.add(out[-1])
            out.append("PARSE " + len(b).to_bytes(2, "big").hex() + b.hex())
        rdl = [m for m in marks if m[2] == "rdlen"]
        if rdl:
            pos = rng.choice(rdl)[0]
            v = int.from_bytes(b[pos:pos + 2], "big")
            # surplus: RDLENGTH larger than the typed content, extra bytes really present
            extra = rng.choice([1, 2, 7])
            nb = b[:pos] + (v + extra).to_bytes(2, "big") + b[pos + 2:pos + 2 + v] + rng.bytes(extra) + b[pos + 2 + v:]
            out.append("PARSE " + nb.hex())
            # the same with surplus that looks like padding (all zero, all ones), 1..4 octets of it
            for extra in (1, 2, 3, 4):
                fill = rng.choice([b"\x00", b"\x00", b"\xff"]) * extra
                nb = b[:pos] + (v + extra).to_bytes(2, "big") + b[pos + 2:pos + 2 + v] + fill + b[pos + 2 + v:]
                out.append("PARSE " + nb.hex())
            # RDLENGTH smaller than the content (content then runs into the next record)
            if v > 0:
                out.append("PARSE " + (b[:pos] + (v - 1).to_bytes(2, "big") + b[pos + 2:]).hex())
            out.append("PARSE " + (b[:pos] + (v + 1).to_bytes(2, "big") + b[pos + 2:]).hex())
        cnt = [m for m in marks if m[2] == "count"]
        m = rng.choice(cnt)
        v = int.from_bytes(b[m[0]:m[0] + 2], "big")
        out.append("PARSE " + (b[:m[0]] + (v + 1).to_bytes(2, "big") + b[m[0] + 2:]).hex())
        if k % 25 == 0:
            for c in range(len(b)):
                out.append("PARSE " + (b[:c].hex() or "-"))
    # several OPT records: each counted entry must come back (the first OPT of the additional section in the header data,
    # every other one in its section, in order)
    def opt_rr(udp, ext, ver, flags, opts=b""):
        return b"\x00\x00\x29" + udp.to_bytes(2, "big") + bytes([ext, ver]) + flags.to_bytes(2, "big") + len(opts).to_bytes(2, "big") + opts
    a_rr = b"\x01a\x00\x00\x01\x00\x01\x00\x00\x00\x78\x00\x04\x0a\x00\x00\x01"
    for (o1, o2) in (((1232, 0, 0, 0), (512, 1, 0, 0x8000)), ((4096, 1, 0, 0), (1232, 0, 0, 0)), ((512, 0, 3, 0), (512, 0, 3, 0))):
        r1, r2 = opt_rr(*o1), opt_rr(*o2, opts=b"\x00\x0a\x00\x02\xab\xcd")
        for adds in ([r1, r2], [a_rr, r1, r2], [r1, a_rr, r2], [r1, r2, a_rr], [a_rr, r1, a_rr, r2, a_rr], [r1, r2, r1]):
            hdr = b"\x00\x07\x81\x80\x00\x00\x00\x00\x00\x00" + len(adds).to_bytes(2, "big")
            out.append("PARSE " + (hdr + b"".join(adds)).hex())
        out.append("PARSE " + (b"\x00\x07\x81\x80\x00\x00\x00\x01\x00\x01\x00\x02" + r2 + r1 + a_rr + r1).hex())
    # an OPT record (anywhere) whose RDATA is complete options followed by 1..3 octets that are not an option, then more entries
    for optbody in (b"\x00\x0a\x00\x02\xab\xcd", b"\x00\x0c\x00\x00", b"\x00\x08\x00\x04\x00\x01\x00\x00" + b"\x00\x0a\x00\x01\x07"):
        for pad in (b"\x00", b"\x00\x00", b"\x00\x00\x00", b"\xff", b"\x00\x01\x00"):
            rd = optbody + pad
            optrr = b"\x00\x00\x29\x04\xd0\x00\x00\x00\x00" + len(rd).to_bytes(2, "big") + rd
            for (pre, post) in (([], [a_rr]), ([a_rr], [a_rr, a_rr]), ([], [])):
                adds = pre + [optrr] + post
                hdr = b"\x00\x07\x81\x80\x00\x00\x00\x00\x00\x00" + len(adds).to_bytes(2, "big")
                out.append("PARSE " + (hdr + b"".join(adds)).hex())
                hdr = b"\x00\x07\x81\x80\x00\x00" + len(adds).to_bytes(2, "big") + b"\x00\x00\x00\x00"
                out.append("PARSE " + (hdr + b"".join(adds)).hex())
    return out


def normalize(case, out):
    return "ERR" if out.startswith("ERR") else out


def classify(case, out):
    return out.split(" ")[0]


def nontrivial(case, out):
    return out.startswith("OK")


def _entries(case, out):
    d = bytes.fromhex(case.split()[1]) if case.split()[1] != "-" else b""
    p = dns.parse_pkt_text(out[3:])
    return d, p, dns.walk(d)


def oracle(case, out):
    if out.startswith("PANIC") or out in ("HANG", "CRASH"):
        return "%s on input %s" % (out, case[:300])
    if not out.startswith("OK "):
        if case in VALID and out.startswith("ERR"):
            return "the reference encoding of a well-formed packet is rejected (%s): %s" % (out, case.split()[1][:300])
        return None
    d, p, w = _entries(case, out)
    if p["id"] != int.from_bytes(d[:2], "big"):
        return "the ID reported (%d) is not the first two bytes of the message: %s" % (p["id"], case.split()[1][:300])
    if w is None:
        return "accepted a message whose counts or lengths run past its end: %s" % case.split()[1][:300]
    if len(p["qs"]) != len(w["qs"]):
        return "question count %d differs from the header's %d" % (len(p["qs"]), len(w["qs"]))
    for a, b in zip(p["qs"], w["qs"]):
        if a["name"] != b["name"] or a["qtype"] != b["qtype"] or (a["qclass"] | (0x8000 if a["uni"] else 0)) != b["qclass"]:
            return "question %r does not match the walked entry %r" % (a, b)
    wall = [r for sec in w["secs"] for r in sec]
    # the first OPT of the additional section is lifted into the header
    adds_w = list(w["secs"][2])
    if p["opt"] is not None:
        idx = next((i for i, r in enumerate(adds_w) if r["type"] == 41), None)
        if idx is None:
            return "EDNS data reported but the additional section holds no OPT record"
        adds_w.pop(idx)
    for secname, ws in (("ans", w["secs"][0]), ("nss", w["secs"][1]), ("adds", adds_w)):
        if len(p[secname]) != len(ws):
            return "section %s has %d records, the envelope has %d" % (secname, len(p[secname]), len(ws))
        for a, b in zip(p[secname], ws):
            t = dns.rdata_type_code(a["rdata"])
            if a["name"] != b["name"] or t != b["type"] or a["ttl"] != b["ttl"]:
                return "record %r does not match the walked entry (owner %r type %d ttl %d)" % (a, b["name"], b["type"], b["ttl"])
            if t != 41 and (a["class"] | (0x8000 if a["cf"] else 0)) != b["class"]:
                return "record class/cache-flush %x/%s does not match the walked class word %x" % (a["class"], a["cf"], b["class"])
    return None


def followups(case, out):
    if not out.startswith("OK "):
        return []
    d, p, w = _entries(case, out)
    if w is None:
        return []
    fu = []
    for sec in w["secs"]:
        for r in sec:
            end = r["rdata_at"] + r["rdlen"]
            fu.append("RR %s %x" % (d[:end].hex(), r["start"]))
    return fu


def oracle2(case, out, fu, fu_out):
    d, p, w = _entries(case, out)
    recs = list(p["ans"]) + list(p["nss"])
    adds_w = list(w["secs"][2])
    wall = list(w["secs"][0]) + list(w["secs"][1]) + adds_w
    parsed = list(p["ans"]) + list(p["nss"])
    # re-insert the lifted OPT for the comparison
    adds = list(p["adds"])
    if p["opt"] is not None:
        idx = next(i for i, r in enumerate(adds_w) if r["type"] == 41)
        adds.insert(idx, None)
    parsed += adds
    for a, b, q, o in zip(parsed, wall, fu, fu_out):
        if a is None:
            continue
        end = b["rdata_at"] + b["rdlen"]
        # the owner name may be a pointer to an earlier position whose labels run FORWARD past this record's end (legal
        # per RFC 1035 4.1.4, which only asks the pointer to go backwards): then the name is not decodable from the message
        # cut at the record's end, and the property (RDATA from exactly RDLENGTH bytes) does not speak about it
        if dns.rfc_decode_name(d[:end], b["start"]) is None and dns.rfc_decode_name(d, b["start"]) is not None:
            continue
        want = "OK " + " ".join(dns.rr_toks(a) + ["%x" % end])
        if o != want:
            return ("record at offset %d: the packet shows %r but parsing exactly its RDLENGTH-delimited bytes gives %r"
                    % (b["start"], want[:300], o[:300]))
    return None


def matches_known(key, case, out, failure):
    return False
