"""C04: serialised messages are well-framed and all writers agree."""
import dns
import pktgen

SLICE = "TXTTEXT / ATTRMAP (a TXT built by TXT::try_from(&str) / TXT::try_from(HashMap) inside a packet, plain and compressed), BUILDW (write_to / write_compressed_to into Vec, growable cursor, fixed cursor, fixed slice, std::io::BufWriter over a growable and over a fixed cursor, observed without an extra flush) with BUILD follow-ups (the vector-returning entry points)"
RULE = ("seeded packets x {plain, compressed} x writer configurations: Vec with and without existing content; growable cursor at "
        "offset 0 / 2 / k over empty, shorter and longer pre-filled storage; a growable writer whose write() accepts only 1..5 bytes per call; fixed cursor and fixed slice of EVERY capacity from 0 "
        "to len+2 for small packets (sampled for larger ones), at offset 0 and 2. Oracle: the bytes between start and end equal the "
        "vector-returning entry point's, everything else is untouched, a writer that is too small yields an error (never a panic or "
        "a short Ok), and an independent envelope walker finds exactly the counted entries with matching RDLENGTHs and no other bytes. "
        "non-trivial = the write succeeds; distinct = distinct outputs")
CANNOT_EXHIBIT = ["user-supplied Write / Seek implementations other than Vec<u8>, Cursor<Vec<u8>>, Cursor<&mut [u8]> and &mut [u8]"]
DESCS = {}
CFG = {}


def cases(rng, tier):
    out = []
    n = 400 if tier == "quick" else 4000
    for k, p in enumerate(pktgen.packets(rng, n, maxrr=2)):
        t = dns.pkt_text(p)
        ref = dns.enc_packet_ref(p)
        L = len(ref)
        pre = rng.bytes(rng.choice([0, 1, 5, 40]))
        cfgs = [("P", "V", 0, b""), ("P", "V", 0, pre)]
        for m in ("P", "C"):
            cfgs.append((m, "G", 0, b""))
            cfgs.append((m, "G", 2, b"\xaa\xbb"))
            cfgs.append((m, "G", 3, bytes([0x55]) * (L + 20)))          # longer pre-filled storage
            cfgs.append((m, "Q", 0, b""))                                 # a writer that takes 1..5 bytes per write() call
            cfgs.append((m, "Q", 4, bytes([0x44]) * (L // 2)))
            cfgs.append((m, "B", 0, b""))                                 # std::io::BufWriter over a growable cursor
            cfgs.append((m, "B", 3, bytes([0x33]) * rng.below(L + 1)))
            for cap in sorted({0, 12, L - 1, L, L + 1, rng.below(L + 1)}):
                if cap >= 0:
                    cfgs.append((m, "H", 0, bytes([0x22]) * cap))         # BufWriter over a fixed slice of every interesting capacity
            cfgs.append((m, "H", 2, bytes([0x22]) * (L + 1)))
            cfgs.append((m, "G", rng.below(8), bytes([0x66]) * rng.below(L + 1)))  # shorter pre-filled storage
            caps = range(0, L + 3) if L <= 60 else sorted({0, 1, 11, 12, 13, L - 2, L - 1, L, L + 1, L + 2, rng.below(L)})
            for cap in caps:
                cfgs.append((m, "F", 0, bytes([0x77]) * cap))
            cfgs.append((m, "F", 2, bytes([0x77]) * (L + 2)))
            cfgs.append((m, "F", 2, bytes([0x77]) * (L + 1)))
            cfgs.append((m, "F", 5, bytes([0x99]) * (L + 9)))
        for cap in (0, 5, 12, L - 1, L, L + 1, L + 7):
            if cap >= 0:
                cfgs.append(("P", "S", 0, bytes([0x88]) * cap))
        cfgs.append(("P", "S", 3, bytes([0x88]) * (L + 3)))
        if k % 4:
            rng.shuffle(cfgs)
            cfgs = cfgs[:10]
        for (m, kind, start, sto) in cfgs:
            c = "BUILDW %s %s %x %s %s" % (m, kind, start, sto.hex() or "-", t)
            DESCS[c] = p
            CFG[c] = (m, kind, start, sto, t)
            out.append(c)
    # values the parser would reject but the public fields allow (reachable by editing a parsed value): NSEC windows that are
    # repeated or out of order, SVCB in AliasMode carrying parameters; framing must hold for whatever write_to emits
    odd = []
    for its in ([(0, b"\x40"), (0, b"\x00\x08")], [(1, b"\x01"), (0, b"\x40"), (1, b"\x02")], [(2, b"\xff"), (2, b"\xff"), (2, b"\xff")]):
        odd.append(("T", "NSEC", [("N", [b"n", b"example"]), ("L", its)]))
    for tn in ("SVCB", "HTTPS"):
        odd.append(("T", tn, [("I", 0), ("N", [b"t", b"example"]), ("L", [(1, b"\x02h2"), (3, b"\x01\xbb")])]))
        odd.append(("T", tn, [("I", 0), ("N", []), ("L", [(65535, b"")])]))
    for rd in odd:
        for tail in ([], [{"name": [b"a", b"example"], "class": 1, "ttl": 1, "cf": False, "rdata": ("T", "A", [("I", 0x01020304)])}]):
            pk = {"id": 5, "opcode": 0, "rcode": 0, "flags": 0x8000, "opt": None, "qs": [], "nss": [], "adds": [],
                  "ans": [{"name": [b"o", b"example"], "class": 1, "ttl": 60, "cf": False, "rdata": rd}] + tail}
            t = dns.pkt_text(pk)
            for (m, kind, start, sto) in (("P", "V", 0, b""), ("C", "G", 0, b""), ("P", "G", 2, b"\xaa\xbb"), ("C", "Q", 0, b"")):
                c = "BUILDW %s %s %x %s %s" % (m, kind, start, sto.hex() or "-", t)
                DESCS[c] = pk
                CFG[c] = (m, kind, start, sto, t)
                out.append(c)
    # TXT built from text (TXT::try_from(&str) keeps its own running size for len()): lengths around the chunk size, inside a packet
    lens = sorted(set([0, 1, 2, 100, 1000, 1100, 1270, 2032] + [k * m + d for k in (1, 2, 3, 4) for m in (253, 254, 255, 256) for d in (-1, 0, 1)]))
    for L in lens:
        for ch in ("a", "é"):
            s = (ch * L).encode()[:L] if ch == "a" else ("é" * (L // 2) + ("a" if L % 2 else "")).encode()
            out.append("TXTTEXT " + (s.hex() or "-"))
    # TXT built from an attribute map (TXT::try_from(HashMap)), also with the keyless entries RFC 6763 6.4 tells readers to ignore
    import attrgen
    import pC19
    for _ in range(600 if tier == "quick" else 6000):
        m = attrgen.gen_map(rng, pC19.gen_text, keyless=True)
        c = attrgen.case_of(m)
        MAPS[c] = m
        out.append(c)
    return out


MAPS = {}


def normalize(case, out):
    if case.startswith("ATTRMAP"):
        out = out.split(" | ")[0]
    return "ERR" if out.startswith("ERR") else out


def classify(case, out):
    if case.startswith("TXTTEXT"):
        return "TXTTEXT"
    if case.startswith("ATTRMAP"):
        return "ATTRMAP"
    t = case.split()
    return t[1] + t[2] + ":" + out.split(" ")[0]


def nontrivial(case, out):
    return out.startswith("OK") or case.startswith("TXTTEXT") or case.startswith("ATTRMAP")


def oracle(case, out):
    if out.startswith("PANIC") or out in ("HANG", "CRASH"):
        return "%s for writer configuration %s" % (out, case[:120])
    if case.startswith("ATTRMAP"):
        import attrgen
        return attrgen.packet_oracle(MAPS[case], out) if case in MAPS else None
    if case.startswith("TXTTEXT"):
        parts = out.split(" | ")
        if len(parts) != 4:
            return None
        msgs = []
        for leg, name in ((parts[2], "build_bytes_vec"), (parts[3], "build_bytes_vec_compressed")):
            if not leg.startswith("OK "):
                return "%s failed for a TXT built from %d bytes of text: %r" % (name, len(case.split()[1]) // 2, leg[:80])
            msg = bytes.fromhex(leg[3:])
            w = dns.walk(msg)
            if w is None:
                return "%s of a packet holding TXT::try_from(<%d bytes of text>) is not a well-framed message: %s" % (name, len(case.split()[1]) // 2, leg[3:120])
            if w["end"] != len(msg) or w["counts"] != (0, 1, 0, 0):
                return "%s: %d bytes follow the last counted entry / counts %r" % (name, len(msg) - w["end"], w["counts"])
            msgs.append(msg)
        if msgs[0] != msgs[1]:
            return "plain and compressed output differ although nothing is compressible (TXT from %d bytes of text)" % (len(case.split()[1]) // 2)
    return None


def followups(case, out):
    if case.startswith("TXTTEXT") or case.startswith("ATTRMAP"):
        return []
    m, kind, start, sto, t = CFG[case]
    return ["BUILD %s %s" % (m, t)]


def check_frame(p, msg):
    w = dns.walk(msg)
    if w is None:
        return "the output is not a well-framed DNS message"
    if w["end"] != len(msg):
        return "%d bytes follow the last counted entry" % (len(msg) - w["end"])
    exp = (len(p["qs"]), len(p["ans"]), len(p["nss"]), len(p["adds"]) + (1 if p["opt"] is not None else 0))
    if w["counts"] != exp:
        return "header counts %r, entries written %r" % (w["counts"], exp)
    secs = [p["ans"], p["nss"], ([None] if p["opt"] is not None else []) + p["adds"]]
    for ws, ps in zip(w["secs"], secs):
        for a, b in zip(ws, ps):
            want = 41 if b is None else dns.rdata_type_code(b["rdata"])
            if a["type"] != want:
                return "entry of type %d where type %d was written" % (a["type"], want)
    return None


def oracle2(case, out, fu, fu_out):
    m, kind, start, sto, t = CFG[case]
    p = DESCS[case]
    vec = fu_out[0]
    if not vec.startswith("OK "):
        return None if out.startswith("ERR") else "writer succeeded where the vector-returning entry point failed: %r" % vec[:100]
    msg = bytes.fromhex(vec[3:])
    f = check_frame(p, msg)
    if f:
        return "%s (%s): %s" % ("build_bytes_vec_compressed" if m == "C" else "build_bytes_vec", vec[3:203], f)
    n = len(msg)
    fixed = kind in ("F", "S", "H")
    if fixed and start + n > len(sto):
        if not out.startswith("ERR"):
            return "a %d-byte message was written into %d bytes of fixed storage at offset %d without an error: %r" % (n, len(sto), start, out[:200])
        return None
    if not out.startswith("OK "):
        return "writer kind %s (capacity %d, offset %d) failed for a %d-byte message: %r" % (kind, len(sto), start, n, out)
    hx, end = out[3:].split()
    res = bytes.fromhex(hx) if hx != "-" else b""
    if kind == "V":
        exp, exp_end = sto + msg, len(sto) + n
    else:
        pad = b"\x00" * max(0, start - len(sto))
        exp = sto[:start] + pad + msg + sto[start + n:]
        exp_end = start + n
    if res != exp:
        return ("writer kind %s at offset %d over %d bytes of storage: result %s differs from the vector entry point's bytes placed "
                "at that offset %s" % (kind, start, len(sto), res.hex()[:300], exp.hex()[:300]))
    if int(end, 16) != exp_end:
        return "writer position after the write is %s, expected %x" % (end, exp_end)
    return None


def matches_known(key, case, out, failure):
    return False
