#!/bin/bash
# seedall_par.sh [-j N] [seed ...]: like seedall.sh, but on N (default 3) scratch copies of /repo and /verif under /tmp/par
# (paths rewritten, copies removed afterwards), so that /repo itself is never touched and the seeds run in parallel.
# Replaces the lines of the seeds it ran in seeded/RESULTS.tsv (all of them when no seed is given).
N=3
[ "$1" = "-j" ] && { N=$2; shift 2; }
cd /verif
SEEDS=${@:-$(ls seeded | grep -E '^C[0-9]+_[0-9]+$')}
rm -rf /tmp/par; mkdir -p /tmp/par
for k in $(seq 0 $((N-1))); do
  mkdir /tmp/par/$k
  git clone -q /repo /tmp/par/$k/repo
  rsync -a --exclude .git /verif/ /tmp/par/$k/verif/
  ( cd /tmp/par/$k/verif
    sed -i "s#^REPO = \"/repo\"#REPO = \"/tmp/par/$k/repo\"#" tools/lib.py
    sed -i "s#/repo/simple-dns/samples#/tmp/par/$k/repo/simple-dns/samples#" tools/pC10.py
    sed -i "s#/repo/#/tmp/par/$k/repo/#g" harness/Cargo.toml
    sed -i "s#/verif/.build/cargo-target#/tmp/par/$k/verif/.build/cargo-target#" harness/.cargo/config.toml
    sed -i "s#cd /verif#cd /tmp/par/$k/verif#; s#git -C /repo#git -C /tmp/par/$k/repo#g; s#/verif/seeded#/tmp/par/$k/verif/seeded#g" tools/seedall.sh
    : > seeded/RESULTS.tsv )
  : > /tmp/par/list$k
done
i=0; for s in $SEEDS; do echo $s >> /tmp/par/list$((i % N)); i=$((i+1)); done
for k in $(seq 0 $((N-1))); do
  ( cd /tmp/par/$k/verif && tools/seedall.sh $(tr '\n' ' ' < /tmp/par/list$k) > /tmp/par/log$k 2>&1 ) &
done
wait
cat /tmp/par/*/verif/seeded/RESULTS.tsv | sed 's#/tmp/par/[0-9]*/verif#/verif#g' | sort > /tmp/par/new.tsv
python3 - <<'PY'
new = {l.split("\t")[0]: l for l in open("/tmp/par/new.tsv", errors="replace") if l.strip()}
old = [l for l in open("/verif/seeded/RESULTS.tsv", errors="replace") if l.strip() and l.split("\t")[0] not in new]
open("/verif/seeded/RESULTS.tsv", "w").write("".join(sorted(old + list(new.values()))))
missed = [k for k, l in new.items() if "violations=0" in l or "exit=0" in l or "does-not-apply" in l]
print("ran %d seeds; not caught: %s" % (len(new), " ".join(sorted(missed)) or "none"))
PY
rm -rf /tmp/par
