"""Packets whose names and character-strings contain arbitrary bytes (shared by C12, C14, C16)."""
import dns

HOSTILE = [b"\xff", b"\xc0\xaf", b"\x00", b"a.b", b"\\", b"\\.", b"\xed\xa0\x80", b"\xf4\x90\x80\x80", b"caf\xc3\xa9", b"\xe2\x82",
           b"x" * 63, b"=", b";", b"k=\xff", b"\xc4\xbb", b" ", b"\x7f", b"\xf0\x9f\x98\x80",
           b'q="', b'k=""', b'"', b'="', b'k="v"', b"k='", b"a\\;b=c", b"p=C:\\;m=rw", b"k=\\", b"\\=", b"k=%", b"k=\x00"]


def split_char_txts():
    """lists of TXT character-strings whose concatenation is (mostly) well-formed text although single strings are not: one
    multi-byte character spread over two, three or four strings, with or without an empty string in between, behind a first
    string of any length up to the 255 octets a character-string can hold; and the same with the character never completed"""
    out = []
    for ch in ("é", "€", "😀"):
        b = ch.encode()
        n = len(b)
        cuts = []
        for mask in range(1, 1 << (n - 1)):
            pieces, cur = [], bytearray([b[0]])
            for i in range(1, n):
                if mask >> (i - 1) & 1:
                    pieces.append(bytes(cur))
                    cur = bytearray()
                cur.append(b[i])
            pieces.append(bytes(cur))
            cuts.append(pieces)
        for pieces in cuts:
            for L in (len(pieces[0]), 7, 254, 255):
                first = b"a" * (L - len(pieces[0])) + pieces[0]
                tail = pieces[1:-1] + [pieces[-1] + b";k=v"]
                out.append([first] + tail)
                out.append([first, b""] + tail)
                out.append([first] + tail[:-1] + [b"", tail[-1]])
                out.append([first] + pieces[1:-1])                      # never completed
                out.append([first] + pieces[1:-1] + [b""])
    return out


SPLITS = split_char_txts()


def hostile_packet(rng, n_rr=4):
    def label():
        return rng.choice(HOSTILE + [rng.bytes(1 + rng.below(5))])[:63] or b"z"

    def name():
        r = rng.below(12)
        if r == 0:
            # maximal names: 254 / 255 wire bytes, few long labels or many one-byte labels
            total = rng.choice([254, 255])
            if rng.chance(1, 2):
                return [b"m"] * ((total - 1) // 2) if total % 2 == 1 else [b"m"] * ((total - 3) // 2) + [b"mm"]
            ls, left = [], total - 1
            while left > 0:
                l = min(63, left - 1)
                if left - 1 - l == 1:
                    l -= 1
                ls.append(bytes([97 + len(ls)]) * l)
                left -= l + 1
            return ls
        if r == 1:
            return [b"living-room-speaker1", b"local"] if rng.chance(1, 3) else list(rng.choice(dns.WELL_KNOWN_NAMES))
        if r == 2:
            return [b"_srv", b"_tcp", b"local"]
        if r in (3, 4):
            # one family of names that are equal, or in the suffix relation, only when letter case is ignored
            return rng.choice([[b"_srv", b"_tcp", b"LOCAL"], [b"Printer", b"_srv", b"_tcp", b"local"], [b"printer", b"_SRV", b"_tcp", b"Local"],
                               [b"_SRV", b"_TCP", b"local"], [b"local"], [b"LOCAL"], [b"x", b"Printer", b"_srv", b"_tcp", b"local"]])
        return [label() for _ in range(rng.below(4))]

    def cstr():
        r = rng.below(6)
        return rng.choice(HOSTILE) if r < 3 else (b"" if r == 3 else (rng.bytes(rng.below(12)) if r == 4 else rng.bytes(255)))
    p = {"id": rng.below(65536), "opcode": 0, "rcode": 0, "flags": rng.choice([0, 0x8000, 0x8400]), "opt": None, "qs": [], "ans": [], "nss": [], "adds": []}
    for _ in range(rng.below(3)):
        p["qs"].append({"name": name(), "qtype": rng.choice([1, 16, 255, 12, 33, 253]), "qclass": rng.choice([1, 255]), "uni": rng.chance(1, 3)})
    for _ in range(1 + rng.below(n_rr)):
        t = rng.choice(["TXT", "TXT", "HINFO", "ISDN", "NAPTR", "CAA", "PTR", "SRV", "A", "MX", "SOA", "NSEC", "SVCB", "U", "E", "AAAA", "CNAME"])
        if t == "TXT" and rng.chance(1, 4):
            whole = rng.choice(["café=1;flag", "k=€uro", "😀=x", "a" * 253 + "é"]).encode()
            cut = rng.choice([i for i in range(1, len(whole)) if whole[i] & 0xC0 == 0x80])
            rd = ("T", "TXT", [("L", [(0, whole[:cut][-255:]), (0, whole[cut:])])])
        elif t == "TXT" and rng.chance(1, 5):
            rd = ("T", "TXT", [("L", [(0, x) for x in rng.choice(SPLITS)])])
        elif t == "TXT":
            rd = ("T", "TXT", [("L", [(0, cstr()) for _ in range(1 + rng.below(4))])])
        elif t == "HINFO":
            rd = ("T", "HINFO", [("B", cstr()), ("B", cstr())])
        elif t == "ISDN":
            rd = ("T", "ISDN", [("B", cstr()), ("B", cstr())])
        elif t == "NAPTR":
            rd = ("T", "NAPTR", [("I", 1), ("I", 2), ("B", cstr()), ("B", cstr()), ("B", cstr()), ("N", name())])
        elif t == "CAA":
            rd = ("T", "CAA", [("I", 0), ("B", cstr()), ("B", cstr())])
        elif t == "U":
            rd = ("U", 4242, rng.bytes(1 + rng.below(9)))
        elif t == "E":
            rd = ("E", rng.choice([1, 16, 33, 4242]))
        else:
            rd = ("T", t, [(("N", name()) if v[0] == "N" else v) for v in dns.gen_typed_vals(rng, t, None)])
        sec = rng.choice(["ans", "ans", "nss", "adds"])
        p[sec].append({"name": name(), "class": rng.choice([1, 1, 3]), "ttl": rng.choice([0, 1, 120]), "cf": rng.chance(1, 4), "rdata": rd})
    return p
