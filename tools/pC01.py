"""C01: parsing untrusted bytes never panics, hangs or over-allocates."""
import itertools
import dns
import pktgen

# the parser needs a constant amount of stack; on a 256 KiB stack a recursion as deep as a pointer chain is long overflows (CRASH)
STACK_KB = 256
SLICE = "PARSE / PARSEM (Packet::parse, with allocation meter), PEEK (header_buffer on short buffers), NAME (pointer graphs)"
RULE = ("for a valid reference encoding of every one of the 40 typed variants (plain and with arbitrary compression): every "
        "truncation point and +-1 on every length-like field (label, string, RDLENGTH, item length, section count); all buffers "
        "of 0..=12 bytes over a small alphabet for the peeks; bounded-exhaustive pointer graphs; headers with maximal counts; "
        "seeded random bytes; every one- and two-byte integer field of every type swept with and without trailing data. non-trivial = the input is accepted or rejected after at least the header was read; "
        "distinct = distinct canonical outputs")
CASE_TIMEOUT = 600
RELEASE_TOO = True
CANNOT_EXHIBIT = ["wall-clock time: only a per-case watchdog (HANG) is applied; the linear-time sentence is covered by the proved "
                  "step bound of Name::parse and the known finding F22 (quadratic pointer chains across names)",
                  "allocator internals: peak live heap is metered by a counting global allocator, not RSS"]


def cases(rng, tier):
    out = []
    per = 4 if tier == "quick" else 12
    # every typed variant: one record per message, systematic malformation
    for tname in dns.TYPED + ["U", "E"]:
        for k in range(per):
            shared = [[b"example", b"com"]]
            if tname in ("U", "E"):
                rd = ("U", 4242, rng.bytes(5)) if tname == "U" else ("E", 1)
                rr = {"name": [b"x", b"example", b"com"], "class": 1, "ttl": 5, "cf": False, "rdata": rd}
            else:
                rr = dns.gen_rr(rng, shared, tname)
                if tname == "IPSECKEY":
                    gw = k % 4
                    vals = [dns.gen_field(rng, f, shared) for f in dns.ipseckey_schema(gw)]
                    vals[1] = ("I", gw)
                    rr["rdata"] = ("T", "IPSECKEY", vals)
            p = {"id": 7, "opcode": 0, "rcode": 0, "flags": 0x8000, "opt": None,
                 "qs": [{"name": [b"q", b"example", b"com"], "qtype": 255, "qclass": 1, "uni": False}],
                 "ans": [rr], "nss": [], "adds": [dns.gen_rr(rng, shared, "A")]}
            if k % 2 == 1:
                p["opt"] = {"udp": 1232, "version": 0, "codes": [(10, b"\x01\x02")]}
            for comp in (0, 3):
                b, marks = dns.encode_marked(p, rng, comp)
                out.append("PARSEM " + b.hex())
                for m in dns.malformations(b, marks, rng, budget=None if tier == "thorough" else 300):
                    out.append("PARSEM " + (m.hex() or "-"))
    # every one- and two-byte integer field of every type swept, with and without data behind it (dns.field_sweeps): a message
    # holding just that record
    for n, (tname, vals) in enumerate(dns.field_sweeps(tier)):
        rd = dns.enc_rdata_ref(tname, vals)
        msg = b"\x00\x09\x84\x00\x00\x00\x00\x01\x00\x00\x00\x00" + b"\x01o\x00" + dns.SCHEMA[tname][0].to_bytes(2, "big") \
            + b"\x00\x01\x00\x00\x00\x3c" + len(rd).to_bytes(2, "big") + rd
        out.append("PARSE " + msg.hex())
    # headers with hostile counts
    for cnt in ([0xFFFF] * 4, [1, 0, 0, 0], [0, 0xFFFF, 0, 0], [0, 0, 0, 0xFFFF], [0x100, 0x100, 0x100, 0x100]):
        hdr = b"\x00\x01\x00\x00" + b"".join(c.to_bytes(2, "big") for c in cnt)
        out.append("PARSEM " + hdr.hex())
        out.append("PARSEM " + (hdr + b"\x00" * 200).hex())
        out.append("PARSEM " + (hdr + b"\x00\x00\x01\x00\x01" * 300).hex())
    # peeks: all short buffers over a small alphabet
    for n in range(0, 13):
        for fill in (b"\x00", b"\xff", b"\x80\x01", b"\x7b\xb0\x40"):
            out.append("PEEK " + ((fill * 13)[:n].hex() or "-"))
        for _ in range(3):
            out.append("PEEK " + (rng.bytes(n).hex() or "-"))
    # pointer graphs: bounded-exhaustive small buffers behind a header-sized prefix
    alpha = [0, 1, 2, 0xC0, 0xC1, 0xC2, 0xFF, 0x40, ord('a')]
    L = 4 if tier == "quick" else 5
    for n in range(1, L + 1):
        for tup in itertools.product(alpha, repeat=n):
            for off in range(n):
                out.append("NAME %s %x" % (bytes(tup).hex(), off))
    # long pointer chains and label runs
    for n in (10, 100, 1000, 5000):
        chain = bytearray(b"\x00")
        for i in range(n):
            tgt = len(chain) - (1 if i == 0 else 2)
            chain += bytes([0xC0 | (tgt >> 8) & 0x3F, tgt & 0xFF])
        out.append("NAME %s %x" % (bytes(chain).hex(), len(chain) - 2))
    # questions each pointing at the previous one (many names, each a chain)
    for n in (50, 400) if tier == "quick" else (50, 400, 800):
        msg = bytearray(b"\x00\x02\x00\x00" + n.to_bytes(2, "big") + b"\x00" * 6)
        prev = None
        for i in range(n):
            here = len(msg)
            if prev is None:
                msg += b"\x01a\x00"
            else:
                msg += bytes([0xC0 | (prev >> 8) & 0x3F, prev & 0xFF])
            msg += b"\x00\x01\x00\x01"
            prev = here
        out.append("PARSEM " + bytes(msg).hex())
    # names inside RDATA that end in a pointer into their own labels (or into earlier RDATA), followed by 0..4 bytes: the
    # expanded name is longer than the bytes it occupies, which a parser that advances by the expanded length overruns
    rd_prefix = {45: [b"\x00\x03\x00"], 33: [b"\x00\x01\x00\x02\x00\x50"], 36: [b"\x00\x0a"], 15: [b"\x00\x0a"], 2: [b""], 5: [b""], 12: [b""],
                 35: [b"\x00\x01\x00\x02\x01a\x01b\x01c"], 46: [b"\x00\x01\x05\x02\x00\x00\x0e\x10" + b"\x00" * 8 + b"\x00\x01"],
                 47: [b""], 64: [b"\x00\x01"], 65: [b"\x00\x01"], 6: [b""], 17: [b""], 18: [b"\x00\x01"], 21: [b"\x00\x01"], 14: [b""]}
    for ty, prefixes in rd_prefix.items():
        for pre in prefixes:
            name_at = 12 + 1 + 10 + len(pre)
            inner = name_at + 1
            for name in (bytes([5, 3]) + b"abc\x00" + bytes([0xC0 | (inner >> 8), inner & 0xFF]),
                         bytes([7, 1]) + b"a\x03bcd\x00" + bytes([0xC0 | (inner >> 8), inner & 0xFF]),
                         bytes([0xC0 | (name_at >> 8), name_at & 0xFF]),
                         bytes([2, 1, 0, 0xC0 | (inner >> 8), inner & 0xFF]),
                         # the same shapes with offsets that only make sense relative to the RDATA / the name itself
                         bytes([5, 3]) + b"abc\x00\xc0\x01", bytes([7, 1]) + b"a\x03bcd\x00\xc0\x01", bytes([2, 1, 0, 0xC0, 1]),
                         bytes([5, 3]) + b"abc\x00" + bytes([0xC0, len(pre) + 1]), bytes([2, 1, 0, 0xC0, len(pre) + 1])):
                for tail in range(0, 5):
                    rd = pre + name + b"\x07" * tail
                    msg = b"\x00\x01\x00\x00\x00\x00\x00\x01\x00\x00\x00\x00" + b"\x00" + ty.to_bytes(2, "big") + b"\x00\x01\x00\x00\x00\x3c" + len(rd).to_bytes(2, "big") + rd
                    out.append("PARSEM " + msg.hex())
                    out.append("PARSEM " + (msg + b"\x00\x00\x01\x00\x01\x00\x00\x00\x3c\x00\x04\x01\x02\x03\x04").hex())
    # EDNS options with well-known codes and small structured payloads (client subnet with every family / prefix / address
    # length combination up to 64 bytes - shorter and longer than any address -, cookies, padding, ...): options are opaque to a parser, whatever their code
    payloads = [b"", b"\x00", b"\x00\x01", b"\x00\x01\x00", b"\xff" * 8, b"\x00" * 16]
    for fam in (0, 1, 2, 3):
        for src in (0, 1, 8, 24, 32, 128, 255):
            for alen in (0, 1, 2, 3, 4, 5, 8, 15, 16, 17, 18, 20, 32, 33, 64):
                payloads.append(bytes([0, fam, src, 0]) + b"\xc0" * alen)
                if alen in (4, 16):
                    payloads.append(bytes([0, fam, src, 0]) + b"\xc0" * (alen - 1) + b"\x01")
    for code in list(range(0, 21)) + [65001, 65535]:
        for pl in payloads:
            opt = b"\x00\x00\x29\x04\xd0\x00\x00\x00\x00" + (4 + len(pl)).to_bytes(2, "big") + code.to_bytes(2, "big") + len(pl).to_bytes(2, "big") + pl
            out.append("PARSEM " + (b"\x00\x01\x00\x00\x00\x00\x00\x00\x00\x00\x00\x01" + opt).hex())
    # random bytes
    for _ in range(1500 if tier == "quick" else 30000):
        n = rng.choice([0, 1, 5, 11, 12, 13, 20, 40, 100])
        b = bytearray(rng.bytes(n))
        if len(b) >= 12 and rng.chance(3, 4):
            b[2] &= 0x7F
            b[3] &= 0xBF
            b[4:12] = bytes([0, rng.below(3), 0, rng.below(3), 0, rng.below(2), 0, rng.below(2)])
        out.append("PARSEM " + (bytes(b).hex() or "-"))
    return out


def normalize(case, out):
    # the allocation figure is implementation-only; errors are one class
    o = out.split(" peak=")[0]
    return "ERR" if o.startswith("ERR") else o.split(" ")[0] if case.startswith("PARSEM") else ("ERR" if o.startswith("ERR") else o)


def classify(case, out):
    return case.split(" ")[0] + ":" + out.split(" ")[0]


def nontrivial(case, out):
    return True


def oracle(case, out):
    if out.startswith("PANIC") or out in ("HANG", "CRASH"):
        return "%s on input %s" % (out, case[:300])
    if case.startswith("PARSEM") and " peak=" in out:
        n = 0 if case.split()[1] == "-" else len(case.split()[1]) // 2
        peak = int(out.split(" peak=")[1], 16)
        # modest linear bound: an entry needs >= 5 input bytes; a 2-byte pointer can expand to a 127-label name (~3 KB of labels), so ~600 bytes per input byte is reachable by honest compression
        bound = 4096 + 1024 * n
        if peak > bound:
            return "peak heap %d bytes for a %d-byte input exceeds the linear bound %d" % (peak, n, bound)
    return None


def matches_known(key, case, out, failure):
    return False
