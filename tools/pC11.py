"""C11: received packets survive re-serialisation (plain and compressed)."""
import dns
import pktgen

SLICE = "REPARSE (Packet::parse, then build_bytes_vec / build_bytes_vec_compressed of the parsed value, then Packet::parse of each)"
RULE = ("parser-accepted inputs: reference-encoded messages over all types with arbitrary non-canonical compression, unknown "
        "types, empty RDATA, OPT at any additional position, two and three OPT records (also outside the additional section), every header word family (all opcodes x rcodes), plus the accepted "
        "outputs of the malformation generator; one RDATA of 257..65535 bytes (around every power of two) of every type with a "
        "variable-length part. non-trivial = input accepted; distinct = distinct canonical outputs")
KNOWN_KEYS = {"reserved-rcode-or-opcode": "Reserved opcode/rcode re-serialised as 6 / (17 & 0xF)"}


def cases(rng, tier):
    out = []
    n = 2500 if tier == "quick" else 25000
    for k, p in enumerate(pktgen.packets(rng, n)):
        if p["opt"] is not None:
            p["opt_pos"] = rng.below(4)
        b, marks = dns.encode_marked(p, rng, rng.choice([0, 2, 4]))
        out.append("REPARSE " + b.hex())
        if k % 25 == 0:
            for m in dns.malformations(b, marks, rng, budget=40):
                out.append("REPARSE " + (m.hex() or "-"))
    # messages beyond 16 KiB whose late names repeat (re-serialisation must not emit unusable pointers)
    for p in pktgen.big_packets(rng, 3 if tier == "quick" else 12) + pktgen.straddle_packets(rng, (1, 5, 6, 11)) + pktgen.huge_packets(rng, (0, 40, 16000, 16384)):
        b, _ = dns.encode_marked(p, rng, 0)
        out.append("REPARSE " + b.hex())
    # NSEC bitmaps with every ordered pair (and a few triples) of window numbers from both ends of the range, SVCB parameters
    # likewise: accepted or not, what is accepted must come back unchanged
    ends = (0, 1, 2, 254, 255)
    seqs = [(a, b) for a in ends for b in ends] + [(0, 255, 3), (255, 0, 1), (1, 255, 255), (254, 255, 0)]
    for ws in seqs:
        rd = b"\x04next\x00" + b"".join(bytes([w, 1, 0x40]) for w in ws)
        rec = b"\x01n\x00\x00\x2f\x00\x01\x00\x00\x00\x3c" + len(rd).to_bytes(2, "big") + rd
        out.append("REPARSE " + (b"\x00\x09\x84\x00\x00\x00\x00\x01\x00\x00\x00\x00" + rec).hex())
    kends = (0, 1, 2, 65534, 65535)
    kseqs = [(a, b) for a in kends for b in kends] + [(0, 65535, 3), (65535, 0), (1, 65535, 65535)]
    for ks in kseqs:
        rd = b"\x00\x01\x01t\x00" + b"".join(k.to_bytes(2, "big") + b"\x00\x01\x07" for k in ks)
        for tcode in (64, 65):
            rec = b"\x01s\x00" + tcode.to_bytes(2, "big") + b"\x00\x01\x00\x00\x00\x3c" + len(rd).to_bytes(2, "big") + rd
            out.append("REPARSE " + (b"\x00\x09\x84\x00\x00\x00\x00\x01\x00\x00\x00\x00" + rec).hex())
    # one large RDATA of every variable-length type, up to what an RDLENGTH can announce
    for p in pktgen.blob_packets(tier):
        out.append("REPARSE " + dns.enc_packet_ref(p).hex())
    # two (or three) OPT records in one message: the first of the additional section is lifted into the header data,
    # the others stay where they are - in the additional section or, illegally but accepted, in another section
    def opt_rr(udp, ext, ver, flags, opts=b""):
        return b"\x00\x00\x29" + udp.to_bytes(2, "big") + bytes([ext, ver]) + flags.to_bytes(2, "big") + len(opts).to_bytes(2, "big") + opts
    a_rr = b"\x01a\x00\x00\x01\x00\x01\x00\x00\x00\x78\x00\x04\x0a\x00\x00\x01"
    for (o1, o2) in (((1232, 0, 0, 0), (512, 1, 0, 0x8000)), ((4096, 1, 0, 0), (1232, 0, 0, 0)), ((512, 0, 3, 0), (512, 0, 3, 0)),
                     ((65535, 0, 0, 0x8000), (0, 255, 255, 0xffff))):
        r1, r2 = opt_rr(*o1), opt_rr(*o2, opts=b"\x00\x0a\x00\x02\xab\xcd")
        for adds in ([r1, r2], [a_rr, r1, r2], [r1, a_rr, r2], [r1, r2, a_rr], [a_rr, r1, a_rr, r2, a_rr], [r1, r2, r1]):
            hdr = b"\x00\x07\x81\x80\x00\x00\x00\x00\x00\x00" + len(adds).to_bytes(2, "big")
            out.append("REPARSE " + (hdr + b"".join(adds)).hex())
        # an OPT record in the answer / authority section as well as one in the additional section
        hdr = b"\x00\x07\x81\x80\x00\x00\x00\x01\x00\x01\x00\x02"
        out.append("REPARSE " + (hdr + r2 + r1 + a_rr + r1).hex())
    # every opcode x rcode nibble, with and without OPT (extended rcode)
    for op in range(16):
        for rc in range(16):
            w = (op << 11) | rc
            hdr = b"\x12\x34" + w.to_bytes(2, "big") + b"\x00" * 8
            out.append("REPARSE " + hdr.hex())
            for ext in (0, 1, 2, 0xFF):
                opt = b"\x00\x00\x29\x04\xd0" + bytes([ext, 0, 0, 0]) + b"\x00\x00"
                out.append("REPARSE " + (hdr[:10] + b"\x00\x01" + opt).hex())
    return out


def normalize(case, out):
    return "ERR" if out.startswith("ERR") else out


def classify(case, out):
    return out.split(" ")[0]


def nontrivial(case, out):
    return out.startswith("OK")


def oracle(case, out):
    if out.startswith("PANIC") or out in ("HANG", "CRASH"):
        return "%s on input %s" % (out, case[:300])
    if not out.startswith("OK "):
        return None
    first, plain, comp = out.split(" | ")
    for leg, name in ((plain, "uncompressed"), (comp, "compressed")):
        if leg != first:
            return "re-serialising (%s) the packet parsed from %s and parsing again gives %r, the library first showed %r" % (
                name, case.split()[1][:200], leg[:300], first[3:][:300])
    return None


def _mask(leg):
    t = leg.split()
    if len(t) > 5 and t[0] == "OK" and t[1] == "PKT":
        t[3] = t[4] = "*"
    return " ".join(t)


def matches_known(key, case, out, failure):
    """F21: a Reserved opcode (header value 3, 6..15) is written back as 6 and a Reserved response code (11..15, or an
    extended code without a name) as 17 & 0xF = 1. Known only when nothing but those two fields changed."""
    if key == "reserved-rcode-or-opcode" and out.startswith("OK PKT ") and out.count(" | ") == 2:
        first, plain, comp = out.split(" | ")
        t = first.split()
        if t[3] == "6" or t[4] == "11":
            return _mask(first) == _mask(plain) == _mask(comp)
    return False
