"""C17: textual name API: validation, display, suffix algebra."""
import itertools
import dns
import re

SLICE = "NAMENEW (Name::new, Display, re-creation, new_unchecked), SUFFIX (is_subdomain_of, without, is_link_local)"
RULE = ("bounded-exhaustive: every string of length <= 5 (6 in thorough) over {a, A, 1, -, _, ., \\, e-acute}; every character U+0000..U+00FF in first / interior / last position; label lengths 0..70 with every kind of first and last character "
        "and names with wire length 250..260; all pairs of names with <= 4 labels over a 2-letter alphabet (plus 'local' in several "
        "letter cases) for the suffix relations. Oracle: an independent python grammar / list-suffix reference. "
        "non-trivial = name accepted or relation true")
ALPHA = ["a", "A", "1", "-", "_", ".", "\\", "é"]
LABEL_RE = re.compile(rb"\A([A-Za-z0-9]|[A-Za-z0-9_][A-Za-z0-9_-]*[A-Za-z0-9])\Z")   # \Z, not $: "$" also matches before a final newline


def cases(rng, tier):
    out = []
    L = 5 if tier == "quick" else 6
    for n in range(0, L + 1):
        for tup in itertools.product(ALPHA, repeat=n):
            out.append("NAMENEW " + ("".join(tup).encode().hex() or "-"))
    for ll in range(0, 71):
        out.append("NAMENEW " + ((b"x" * ll + b".local").hex()))
        out.append("NAMENEW " + ((b"a." + b"y" * ll).hex()))
        # every length with every kind of first and last character (the length limit and the grammar are checked together)
        if ll >= 2:
            for first in (b"a", b"1", b"_", b"-", b"A"):
                for last in (b"a", b"1", b"_", b"-"):
                    out.append("NAMENEW " + (first + b"m" * (ll - 2) + last + b".local").hex())
                    if ll in (62, 63, 64, 65):
                        out.append("NAMENEW " + (b"x." + first + b"-" * (ll - 2) + last).hex())
    # every character U+0000..U+00FF in first, interior and last position of an otherwise valid label, alone, and in a second label
    for cp in range(256):
        ch = chr(cp).encode()
        for text in (ch + b"mz", b"a" + ch + b"z", b"am" + ch, ch, b"x." + b"a" + ch + b"z", b"ab" + ch + b"cd.local"):
            out.append("NAMENEW " + text.hex())
    for total in range(248, 262):
        # name of `total` wire bytes: labels of 63 then a remainder
        labels, left = [], total - 1
        while left > 0:
            l = min(63, left - 1)
            if l <= 0:
                break
            labels.append(b"z" * l)
            left -= l + 1
        out.append("NAMENEW " + b".".join(labels).hex())
        # the same name written with a trailing dot, a leading dot and doubled dots: empty pieces are dropped, so the text is
        # longer than the name (a 255-byte name from 254 or more characters of text)
        out.append("NAMENEW " + (b".".join(labels) + b".").hex())
        out.append("NAMENEW " + (b"." + b".".join(labels)).hex())
        out.append("NAMENEW " + b"..".join(labels).hex())
    for reps in range(120, 131):
        out.append("NAMENEW " + (b"a." * reps).hex())           # many one-byte labels, trailing dot
        out.append("NAMENEW " + (b"a." * reps)[:-1].hex())
    out.append("NAMENEW " + (b"example" + b"." * 300 + b"com").hex())
    pool = [[]]
    for n in range(1, 5):
        for tup in itertools.product([b"a", b"b"], repeat=n):
            pool.append(list(tup))
    extra = [[b"living-room-speaker1", b"local"], [b"_srv", b"_tcp", b"local"], [b"a" * 63], [b"b", b"a" * 63], [b"x", b"local"], [b"LOCAL"], [b"LoCaL"], [b"local", b"x"], [b"locale"], [b"loca"], [b"\xff", b"local"], [b"a", b"Local"]]
    # special-use and reverse-mapping names, each also with a label in front and with its last label removed
    wk = []
    for nm in dns.WELL_KNOWN_NAMES:
        wk += [nm, [b"x"] + nm] + ([nm[:-1]] if len(nm) > 1 else [])
    for a in wk:
        for b in wk[::7] + [[b"local"], [b"arpa"]]:
            out.append("SUFFIX %s %s" % (" ".join(["%x" % len(a)] + [x.hex() for x in a]), " ".join(["%x" % len(b)] + [x.hex() for x in b])))
    for t in dns.WELL_KNOWN_TEXTS:
        out.append("NAMENEW " + t.encode().hex())
        out.append("NAMENEW " + ("x." + t + ".").encode().hex())
    pool2 = pool + extra
    for a in pool2:
        for b in pool2:
            out.append("SUFFIX %s %s" % (" ".join(["%x" % len(a)] + [x.hex() for x in a]), " ".join(["%x" % len(b)] + [x.hex() for x in b])))
    return out


def normalize(case, out):
    return out


def classify(case, out):
    return case.split(" ")[0] + ":" + out.split(" ")[0]


def nontrivial(case, out):
    return out.startswith("OK") or out.startswith("1")


def split_labels(s):
    return [x for x in s.split(b".") if x]


def oracle(case, out):
    t = case.split()
    if out.startswith("PANIC") or out in ("HANG", "CRASH"):
        return "%s on %s" % (out, case[:200])
    if t[0] == "NAMENEW":
        s = bytes.fromhex(t[1]) if t[1] != "-" else b""
        labels = split_labels(s)
        ok = all(len(l) <= 63 and LABEL_RE.match(l) for l in labels) and (sum(len(l) + 1 for l in labels) + 1 <= 255)
        toks = " ".join(["%x" % len(labels)] + [l.hex() for l in labels])
        if ok:
            shown = b".".join(labels)
            want = "OK %s | %s | OK %s | %s" % (toks, shown.hex() or "-", toks, toks)
            if out != want:
                return "Name::new(%r): got %r, expected %r" % (s, out, want)
        else:
            if not out.startswith("ERR") or out.split(" | ")[1] != toks:
                return "Name::new(%r) should be rejected (labels %r): got %r" % (s, labels, out)
        return None
    if t[0] == "SUFFIX":
        def rd(i):
            n = int(t[i], 16)
            return [bytes.fromhex(x) for x in t[i + 1:i + 1 + n]], i + 1 + n
        a, i = rd(1)
        b, _ = rd(i)
        sub = len(a) > len(b) and a[len(a) - len(b):] == b
        ll = bool(a) and a[-1].lower() == b"local" if a and all(c < 128 for c in a[-1]) else (bool(a) and a[-1].lower() == b"local")
        w = "S " + " ".join(["%x" % (len(a) - len(b))] + [x.hex() for x in a[:len(a) - len(b)]]) if sub else "NONE"
        want = "%d %s %d" % (sub, w, ll)
        if out != want:
            return "suffix algebra a=%r b=%r: got %r, expected %r" % (a, b, out, want)
    return None


def matches_known(key, case, out, failure):
    return False
