"""C07: emitted compression pointers are valid and used where allowed."""
import dns
import pktgen

SLICE = "TABLE (the compression table a compressed write ends with, through a cfg hook, against the model's table and against the message); BUILD C (build_bytes_vec_compressed) and BUILDW C G / Q (write_compressed_to starting at a non-zero offset; Q = a writer whose write() accepts 1..5 bytes per call)"
USES_TABLE = True
RULE = ("seeded packets with heavy suffix sharing + messages crossing 16 KiB + the 14-bit boundary catalogue + deep chains; every "
        "name occurrence of the output is located by a schema-aware walker driven by the description: it must decode (RFC 1035) to the "
        "intended name; every pointer must point strictly backwards, to an offset <= 16383 measured from the first byte of the "
        "message, at the remaining labels; RDATA of SRV NAPTR KX RRSIG NSEC IPSECKEY SVCB HTTPS must hold no pointer; a question, "
        "owner or RFC 1035 RDATA name already written at a recordable offset must be a 2-byte pointer. non-trivial = output produced")
CASE_TIMEOUT = 600
DESCS = {}
START = {}
FORBIDDEN = {"SRV", "NAPTR", "KX", "RRSIG", "NSEC", "IPSECKEY", "SVCB", "HTTPS"}
RFC1035 = {"NS", "MD", "MF", "CNAME", "SOA", "MB", "MG", "MR", "PTR", "MINFO", "MX"}


def cases(rng, tier):
    out = []
    n = 1500 if tier == "quick" else 15000
    ps = pktgen.packets(rng, n) + pktgen.big_packets(rng, 3 if tier == "quick" else 20)
    ps += pktgen.straddle_packets(rng, range(0, 26, 2) if tier == "quick" else range(0, 60)) + pktgen.chain_packets(rng)
    ps += pktgen.huge_packets(rng)
    for k, p in enumerate(ps):
        t = dns.pkt_text(p)
        c = "BUILD C " + t
        DESCS[c] = p
        START[c] = None
        out.append(c)
        if k % 3 == 0 and len(t) < 40000:
            # the compression table itself (cfg hook): every entry names labels that really begin at that offset, at most 16383
            c = "TABLE " + t
            DESCS[c] = p
            START[c] = None
            out.append(c)
        if k % 5 == 0 and len(t) < 20000:
            start = rng.choice([1, 2, 7, 300])
            c = "BUILDW C %s %x %s %s" % (rng.choice(["G", "G", "Q"]), start, (bytes([0xEE]) * rng.choice([0, start, start + 5])).hex() or "-", t)
            DESCS[c] = p
            START[c] = start
            out.append(c)
    return out


def normalize(case, out):
    return "ERR" if out.startswith("ERR") else out


def classify(case, out):
    return case.split(" ")[0] + ":" + out.split(" ")[0]


def nontrivial(case, out):
    return out.startswith("OK")


class Walk:
    def __init__(self, msg):
        self.m = msg
        self.p = 12
        self.seen = {}       # tuple(labels suffix) -> offset, for suffixes written as labels at compressible positions
        self.err = None

    def name(self, labels, where, may_compress, must_if_known):
        """reads the in-place form of `labels` at self.p"""
        m, start = self.m, self.p
        i = 0
        labels = list(labels)
        whole_known = tuple(labels) in self.seen and len(labels) > 0
        while True:
            if self.p >= len(m):
                self.err = "%s: name runs past the end of the message" % where
                return
            b = m[self.p]
            if b == 0:
                self.p += 1
                if i != len(labels):
                    self.err = "%s: name ends after %d of %d labels" % (where, i, len(labels))
                break
            if b & 0xC0 == 0xC0:
                tgt = ((b & 0x3F) << 8) | m[self.p + 1]
                at = self.p
                self.p += 2
                if not may_compress:
                    self.err = "%s: a compression pointer (at offset %d) where compression is forbidden" % (where, at)
                    return
                if tgt >= at:
                    self.err = "%s: pointer at offset %d points to %d, not strictly backwards" % (where, at, tgt)
                    return
                dec = dns.rfc_decode_name(m, tgt)
                if dec is None or dec[0] != labels[i:]:
                    self.err = "%s: pointer at offset %d to %d expands to %r, intended %r" % (where, at, tgt, dec and dec[0], labels[i:])
                    return
                break
            if b & 0xC0 or i >= len(labels) or m[self.p + 1:self.p + 1 + b] != labels[i]:
                self.err = "%s: label %d at offset %d is not the intended one" % (where, i, self.p)
                return
            if may_compress and self.p <= 0x3FFF:
                self.seen.setdefault(tuple(labels[i:]), self.p)
            self.p += 1 + b
            i += 1
        if must_if_known and whole_known and self.p - start != 2:
            self.err = ("%s: the name %r was already written at offset %d but is repeated in full (%d bytes) instead of a pointer"
                        % (where, labels, self.seen[tuple(labels)], self.p - start))

    def rr(self, r, idx):
        where = "record %d" % idx
        self.name(r["name"], where + " owner", True, True)
        if self.err:
            return
        rdlen = int.from_bytes(self.m[self.p + 8:self.p + 10], "big")
        self.p += 10
        end = self.p + rdlen
        rd = r["rdata"]
        if rd[0] == "T" and rd[1] != "OPT":
            t = rd[1]
            for kind, v in zip(dns.schema_for(t, rd[2]), rd[2]):
                if isinstance(kind, tuple) and kind[0] == "name":
                    self.name(v[1], "%s %s RDATA" % (where, t), t not in FORBIDDEN, t in RFC1035)
                    if self.err:
                        return
                elif kind == "cstr":
                    self.p += 1 + self.m[self.p]
                elif kind == "ver0":
                    self.p += 1
                elif isinstance(kind, tuple) and kind[0] == "be":
                    self.p += kind[1]
                else:
                    self.p = end
        if self.p != end and self.err is None:
            if rd[0] == "T" and rd[1] != "OPT":
                self.err = "%s: RDATA walk ended at %d, RDLENGTH says %d" % (where, self.p, end)
            self.p = end


def check(p, msg):
    w = Walk(msg)
    for i, q in enumerate(p["qs"]):
        w.name(q["name"], "question %d" % i, True, True)
        if w.err:
            return w.err
        w.p += 4
    idx = 0
    for sec in ("ans", "nss"):
        for r in p[sec]:
            w.rr(r, idx)
            idx += 1
            if w.err:
                return w.err
    if p["opt"] is not None:
        w.name([], "OPT owner", False, False)
        rdlen = int.from_bytes(msg[w.p + 8:w.p + 10], "big")
        w.p += 10 + rdlen
    for r in p["adds"]:
        w.rr(r, idx)
        idx += 1
        if w.err:
            return w.err
    if w.p != len(msg):
        return "walk ended at %d of %d bytes" % (w.p, len(msg))
    return None


def oracle_table(case, out):
    if not out.startswith("OK "):
        return "compressed serialisation failed: %r" % out[:200]
    rows, hx = out[3:].split(" | ")
    msg = bytes.fromhex(hx)
    toks = rows.split()
    for row in toks[1:]:
        nm, pos = row.rsplit("@", 1)
        pos = int(pos, 16)
        nt = nm.split(",")
        labels = [bytes.fromhex(x) if x != "-" else b"" for x in nt[1:]]
        if pos > 0x3FFF:
            return "the compression table holds offset %d (> 16383) for %r" % (pos, labels)
        got = dns.rfc_decode_name(msg, pos)
        if got is None or got[0] != labels:
            return "the compression table says %r begins at offset %d, the message has %r there" % (labels, pos, got and got[0])
    return None


def oracle(case, out):
    p = DESCS[case]
    if out.startswith("PANIC") or out in ("HANG", "CRASH"):
        return "%s on %s" % (out, case[:200])
    if case.startswith("TABLE"):
        return oracle_table(case, out)
    if not out.startswith("OK "):
        return "compressed serialisation failed: %r" % out[:200]
    if START[case] is None:
        msg = bytes.fromhex(out[3:])
    else:
        hx, end = out[3:].split()
        msg = bytes.fromhex(hx)[START[case]:int(end, 16)]
    f = check(p, msg)
    if f:
        return f + (" (writer started at offset %d)" % START[case] if START[case] else "") + " [" + msg.hex()[:240] + "]"
    return None


def matches_known(key, case, out, failure):
    return False
