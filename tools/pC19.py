"""C19: TXT text and attribute conversions are lossless."""
import dns

SLICE = "TXTTEXT (TXT::try_from(&str), String::try_from(TXT)), TXTATTR (attributes, long_attributes), ATTRMAP (TXT from a map and back), CSTRNEW"
RULE = ("seeded Unicode strings with multi-byte characters placed across the 254/255 chunk boundaries, code points congruent to ';' and "
        "'=' modulo 256 (U+013B, U+013D, U+023B ...), lengths around multiples of 254/255; attribute maps within limits with absent / "
        "empty / non-empty values and duplicate keys on the wire; all byte-string lengths 0..300 for CharacterString::new. Oracle: "
        "independent python reference. non-trivial = conversion succeeds")
INFO = {}
SPECIAL = ["Ļ", "Ľ", "Ȼ", "Ƚ", ";", "=", "é", "€", "\U0001f600", "a", "b", " ", "k"]


def gen_text(rng, n):
    return "".join(rng.choice(SPECIAL) for _ in range(n))


def cases(rng, tier):
    out = []
    # split / join
    for target in (0, 1, 253, 254, 255, 256, 507, 508, 509, 510, 762, 1016):
        for rep in range(6 if tier == "quick" else 40):
            s = ""
            while len(s.encode()) < target:
                s += rng.choice(SPECIAL)
            b = s.encode()
            out.append("TXTTEXT " + (b.hex() or "-"))
    for _ in range(300 if tier == "quick" else 3000):
        out.append("TXTTEXT " + (gen_text(rng, rng.below(40)).encode().hex() or "-"))
    # attributes on the wire
    for _ in range(1500 if tier == "quick" else 15000):
        n = rng.below(5)
        strs = []
        for _ in range(n):
            r = rng.below(10)
            if r < 6:
                k = gen_text(rng, rng.below(4)).replace("=", "").encode()
                v = gen_text(rng, rng.below(5)).encode()
                s = k + (b"=" + v if rng.chance(2, 3) else b"")
            elif r < 8:
                s = rng.bytes(rng.below(6))
            else:
                s = rng.choice([b"", b"=", b"=x", b"a", b"a=", b"a=b=c", b"\xff=1", b"k=\xff", b"a;b=c", b"A=1", b"A", b"Path=/x", b"path=/y", b"PATH",
                                b"path=C:\\;mode=rw", b"a\\;b=c", b"k=\\", b"\\;", b"k=\\;", b'q="', b'k=""', b'k="v;w"', b"k=a\\=b;c"])
            strs.append(s[:255])
        out.append("TXTATTR " + " ".join(["%x" % len(strs)] + [(x.hex() or "-") for x in strs]))
    # one multi-byte character spread over several character-strings (also around an empty one, also never completed), behind a
    # first string of up to 255 octets: the join is defined on the concatenation
    import hostile
    for strs in hostile.SPLITS:
        out.append("TXTATTR " + " ".join(["%x" % len(strs)] + [(x.hex() or "-") for x in strs]))
    # maps
    for _ in range(1500 if tier == "quick" else 15000):
        m = {}
        for _ in range(rng.below(5)):
            k = gen_text(rng, 1 + rng.below(4)).replace("=", "")
            if not k:
                continue
            v = rng.choice([None, "", gen_text(rng, 1 + rng.below(6)), "x" * rng.choice([1, 200, 250, 253, 254, 255])])
            m[k] = v
        if rng.chance(1, 4):
            # keys differing only in letter case are distinct keys
            for kk in rng.choice([["Path", "path"], ["tls", "TLS"], ["Model", "model", "MODEL"], ["é", "É"]]):
                m[kk] = rng.choice([None, "", "v", kk])
        toks = ["%x" % len(m)]
        for k, v in m.items():
            toks += [k.encode().hex()] + (["N"] if v is None else ["V", v.encode().hex() or "-"])
        c = "ATTRMAP " + " ".join(toks)
        INFO[c] = m
        out.append(c)
    # every printable ASCII character (but '=' in keys) at the start, in the middle and at the end of a key, and in a value:
    # an attribute reader or writer that gives ONE more character a meaning (an escape, a quote, a comment sign) loses entries here
    for cp in range(0x20, 0x7F):
        ch = chr(cp)
        ms = [{"k": ch}, {"k": "v" + ch}, {"k": ch + ch}]
        if ch != "=":
            ms += [{"k" + ch: "1"}, {ch + "k": ""}, {"a" + ch + "b": None}, {"k" + ch: None}, {ch: "x"}, {"k" + ch: "a=b"}, {ch + ch: ch}]
        for m in ms:
            toks = ["%x" % len(m)]
            for k, v in m.items():
                toks += [k.encode().hex()] + (["N"] if v is None else ["V", v.encode().hex() or "-"])
            c = "ATTRMAP " + " ".join(toks)
            INFO[c] = m
            out.append(c)
        for st in ("a" + ch + "=b=c", ch + "=", "k=" + ch + "=", "a=b" + ch + "=c", "k" + ch):
            b = st.encode()
            out.append("TXTATTR 1 " + b.hex())
    # character sequences that SOME syntax reads as an escape or a reference (master-file \DDD and \X, URL %XX, C and unicode
    # escapes, entities, shell and template syntax): in keys and in values they are ordinary characters
    snippets = ["\\065", "\\192.168.0.10\\public", "\\000", "\\255", "\\256", "\\0651", "C:\\2024\\065", "%41", "%00", "%zz", "&amp;", "&#65;", "\\x41", "\\u0041",
                "\\n", "\\t", "^A", "$(x)", "${x}", "{{x}}", "%s", "\\\\", "\\\"", "0x41", "+", "a+b", "\\ ", "\\;", "\\=", "''", "`x`"]
    for sn in snippets:
        for m in ({"k": sn}, {"k": "a" + sn + "b"}, {sn.replace("=", ""): "v"}, {"a" + sn.replace("=", "") + "b": None}, {"k": sn + sn}):
            if "" in m:
                continue
            toks = ["%x" % len(m)]
            for k, v in m.items():
                toks += [k.encode().hex()] + (["N"] if v is None else ["V", v.encode().hex() or "-"])
            c = "ATTRMAP " + " ".join(toks)
            INFO[c] = m
            out.append(c)
        out.append("TXTTEXT " + (sn * 3).encode().hex())
        out.append("TXTATTR 1 " + ("k=" + sn).encode().hex())
    # keys that DNS-SD gives a meaning to (txtvers, ...) with absent, empty and non-empty values
    import attrgen
    for _ in range(800 if tier == "quick" else 8000):
        m = attrgen.gen_map(rng, gen_text)
        c = attrgen.case_of(m)
        INFO[c] = m
        out.append(c)
    for n in range(0, 301):
        out.append("CSTRNEW " + ((bytes([n & 0xFF]) * n).hex() or "-"))
    return out


def normalize(case, out):
    import re
    if case.startswith("ATTRMAP"):
        out = out.split(" | ")[0]
    return re.sub(r"ERR \w+", "ERR", out)


def classify(case, out):
    return case.split(" ")[0] + ":" + out.split(" ")[0]


def nontrivial(case, out):
    return not out.startswith("ERR")


def attrs_tok(m):
    items = sorted(m.items(), key=lambda kv: kv[0])
    toks = ["%x" % len(items)]
    for k, v in items:
        toks += [k.hex()] + (["N"] if v is None else ["V", v.hex() or "-"])
    return " ".join(toks)


def valid(b):
    try:
        b.decode("utf-8")
        return True
    except UnicodeDecodeError:
        return False


def oracle(case, out):
    t = case.split()
    if out.startswith("PANIC") or out in ("HANG", "CRASH"):
        return "%s on %s" % (out, case[:200])
    if t[0] == "TXTTEXT":
        b = bytes.fromhex(t[1]) if t[1] != "-" else b""
        if " | " not in out:
            return "TXT::try_from(&str) failed on a %d-byte string" % len(b)
        parts = out.split(" | ")
        pieces, back = parts[0], parts[1]
        ps = pieces.split()
        strs = [bytes.fromhex(x) if x != "-" else b"" for x in ps[1:]]
        if any(len(x) > 255 for x in strs):
            return "a piece longer than 255 bytes"
        if back != "OK " + (b.hex() or "-"):
            return "split then join of %r gives %r" % (b[:60], back[:120])
        if b"".join(strs) != b:
            return "pieces do not concatenate to the input"
        return None
    if t[0] == "CSTRNEW":
        b = bytes.fromhex(t[1]) if t[1] != "-" else b""
        want = ("OK " + (b.hex() or "-")) if len(b) <= 255 else "ERR InvalidCharacterString"
        return None if out == want else "CharacterString::new on %d bytes: got %r" % (len(b), out[:80])
    if t[0] == "TXTATTR":
        n = int(t[1], 16)
        strs = [bytes.fromhex(x) if x != "-" else b"" for x in t[2:2 + n]]
        m = {}
        for s in strs:
            k, sep, v = s.partition(b"=")
            if not valid(k) or k == b"":
                continue
            val = None if not sep else (v if (v and valid(v)) else b"")
            m.setdefault(k, val)
        full = b"".join(strs)
        if valid(full):
            lm = {}
            for part in full.split(b";"):
                k, sep, v = part.partition(b"=")
                if k:
                    lm.setdefault(k, v if sep else None)
            lwant = "OK " + attrs_tok(lm)
            swant = "OK " + (full.hex() or "-")
        else:
            lwant = swant = None
        a, l, s = out.split(" | ")
        if a != attrs_tok(m):
            return "attributes() of %r: got %r, expected %r" % (strs, a, attrs_tok(m))
        if lwant is None:
            if not l.startswith("ERR") or not s.startswith("ERR"):
                return "non-UTF-8 TXT text must be an error: %r / %r" % (l, s)
        elif l != lwant or s != swant:
            return "long_attributes / String::try_from of %r: got %r / %r, expected %r / %r" % (strs, l, s, lwant, swant)
        return None
    if t[0] == "ATTRMAP":
        m = INFO.get(case)
        if m is None:
            return None
        fits = all(len(k.encode()) + (0 if v is None else 1 + len(v.encode())) <= 255 for k, v in m.items())
        if not fits:
            return None if out.startswith("ERR") else "an attribute longer than 255 bytes was accepted: %r" % out[:100]
        want = "OK " + attrs_tok({k.encode(): (None if v is None else v.encode()) for k, v in m.items()})
        if out.split(" | ")[0] != want:
            return "map -> TXT -> attributes: got %r, expected %r" % (out[:300], want[:300])
        import attrgen
        return attrgen.packet_oracle(m, out)
    return None


def matches_known(key, case, out, failure):
    return False
