#!/bin/bash
# seedall.sh [seed ...]: runs every stored seeded change (or the listed ones) against the check of the property it targets.
# Applies the patch to /repo, runs ./check <id> --tier quick, undoes the patch straight afterwards. Writes seeded/RESULTS.tsv.
cd /verif
OUT=seeded/RESULTS.tsv
[ $# -eq 0 ] && : > $OUT
SEEDS=${@:-$(ls seeded | grep -E '^C[0-9]+_[0-9]+$')}
for s in $SEEDS; do
  p=${s%%_*}
  git -C /repo status --short | grep -q . && { echo "repo not clean"; exit 2; }
  git -C /repo apply /verif/seeded/$s/patch.diff || { echo -e "$s\t$p\tpatch-does-not-apply" >> $OUT; continue; }
  out=$(timeout 1800 ./check $p --tier quick 2>&1); code=$?
  git -C /repo checkout -- .
  nv=$(echo "$out" | grep -c '^VIOLATION')
  nni=$(echo "$out" | grep '^VIOLATION' | grep -c 'no-failing-input-found')
  f=$(echo "$out" | grep '^VIOLATION' | head -1 | sed 's/.*replay=\([^ ]*\).*/\1/')
  why=""
  [ -n "$f" ] && [ -f "$f" ] && why=$(python3 -c "
import json
j=json.load(open('$f')); print(((j.get('failure') or j.get('what') or '')[:160]).replace('\t',' ').replace('\n',' '))")
  echo -e "$s\t$p\texit=$code\tviolations=$nv\twithout_input=$nni\t$why" >> $OUT
  echo "$s exit=$code violations=$nv without_input=$nni"
done
