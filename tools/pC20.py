"""C20: cached discovery records expire on time."""
import dns

SLICE = "HISTB (histories of store operations and queries executed with real sleeps on a half-second grid, batched concurrently)"
RULE = ("seeded histories over a small set of records (including siblings: same owner, type and class) and TTLs {0, 1, 2, large}, plus directed sibling / cache-flush histories and owner names crowded with 30..130 records: add-authoritative, add-cached(ttl, cache-flush), "
        "re-add, remove, clear, time advances; mutations happen on even half-second ticks and queries on odd ticks, so no comparison "
        "sits within ~500 ms of an expiry instant; every query uses the authoritative-only (with / without subdomains), cached-only and "
        "combined filters. Oracle: an independent python history spec (last operation on the record decides; cached records are "
        "visible strictly before receive time + TTL, 1 s with cache-flush). non-trivial = some query returns a record")
CASE_SECS = 60
CASE_TIMEOUT = 900
PER_SHARD = 1
CANNOT_EXHIBIT = ["clock jumps and scheduling delays beyond ~400 ms (the half-second grid keeps every comparison at least that far "
                  "from an expiry instant; the abstract-clock model has no notion of jitter)",
                  "Instant overflow for huge TTLs"]
SVC = [b"_srv", b"local"]
RECS = [
    {"name": SVC, "class": 1, "ttl": 0, "cf": False, "rdata": ("T", "PTR", [("N", [b"a"] + SVC)])},
    {"name": [b"a"] + SVC, "class": 1, "ttl": 0, "cf": False, "rdata": ("T", "A", [("I", 0x0A000001)])},
    {"name": [b"a"] + SVC, "class": 1, "ttl": 0, "cf": False, "rdata": ("T", "SRV", [("I", 0), ("I", 0), ("I", 80), ("N", [b"a"] + SVC)])},
    {"name": [b"b"] + SVC, "class": 1, "ttl": 0, "cf": False, "rdata": ("T", "A", [("I", 0x0A000002)])},
    # a sibling of the second record: same owner, type and class, other data
    {"name": [b"a"] + SVC, "class": 1, "ttl": 0, "cf": False, "rdata": ("T", "A", [("I", 0x0A000003)])},
    {"name": [b"a"] + SVC, "class": 1, "ttl": 0, "cf": False, "rdata": ("T", "NSEC", [("N", [b"a"] + SVC), ("L", [(0, b"\x40")])])},
    {"name": [b"b"] + SVC, "class": 1, "ttl": 0, "cf": False, "rdata": ("U", 65280, b"\x01\x02")},
    {"name": [b"b"] + SVC, "class": 1, "ttl": 0, "cf": False, "rdata": ("T", "TXT", [("L", [(0, b"k=v")])])},
]
INFO = {}


def rr_key(r):
    return (tuple(r["name"]), r["class"], repr(r["rdata"]))


def gen_history(rng):
    """list of steps; tick advances by 1 after the mutations of a step and by 1 after its queries"""
    steps = []
    for _ in range(rng.choice([2, 3, 4])):
        muts = []
        for _ in range(rng.choice([0, 1, 1, 2])):
            rec = rng.choice(RECS)
            r = rng.below(10)
            if r < 3:
                muts.append(("AA", rec))
            elif r < 8:
                muts.append(("AC", dict(rec, ttl=rng.choice([0, 1, 2, 1000, 1000, 0x7FFFFFFF, 0x80000000, 0x80000001, 0xFFFFFFFF]), cf=rng.chance(1, 4))))
            elif r < 9:
                muts.append(("RM", rec))
            else:
                muts.append(("CL",))
        steps.append(muts)
    return steps


def history_toks(steps):
    toks = []
    for muts in steps:
        for m in muts:
            if m[0] == "CL":
                toks.append("CL")
            else:
                toks += [m[0]] + dns.rr_toks(m[1])
        toks += ["T", "1"]
        for (name, f) in QUERIES:
            toks += ["Q"] + dns.name_toks(name) + ["%x" % f]
        toks += ["T", "1"]
    return toks


QUERIES = [(SVC, 0), (SVC, 1), (SVC, 2), (SVC, 3), ([b"a"] + SVC, 0), ([b"a"] + SVC, 2)]


def directed_histories():
    """sibling records (same owner / type / class) received at different times, one of them with the cache-flush bit"""
    a1, a3, srv = RECS[1], RECS[4], RECS[2]
    hs = []
    for first_ttl in (2, 1000):
        for gap in (0, 1, 2):
            for flush_ttl in (0, 1, 1000):
                for other in (a3, srv):
                    steps = [[("AC", dict(a1, ttl=first_ttl, cf=False))]] + [[] for _ in range(gap)]
                    steps += [[("AC", dict(other, ttl=flush_ttl, cf=True))], [], []]
                    hs.append(steps)
    return hs


def crowded_histories():
    """one owner name holding dozens of records (authoritative ones among many cached siblings), past 32, 64 and 128 entries,
    then further cached traffic for that name: what is registered locally stays, what was cached stays until it expires"""
    a1, srv = RECS[1], RECS[2]
    owner = a1["name"]
    hs = []
    for n in (30, 31, 32, 33, 63, 64, 65, 130):
        crowd = [("AC", {"name": owner, "class": 1, "ttl": 1000, "cf": False, "rdata": ("T", "A", [("I", 0x0B000000 + j)])}) for j in range(n)]
        for auth_first in (True, False):
            auth = [("AA", a1), ("AA", srv)]
            first = auth + crowd if auth_first else crowd + auth
            steps = [first, [("AC", dict(RECS[4], ttl=2, cf=False))], [("AC", dict(crowd[0][1], ttl=1, cf=True))], []]
            hs.append(steps)
    return hs


def cases(rng, tier):
    out = []
    nlines = 12 if tier == "quick" else 48
    per = 40
    dh = directed_histories() + crowded_histories()
    for k in range(0, len(dh), per):
        hs = dh[k:k + per]
        line = "HISTB " + " ;; ".join(" ".join(history_toks(h)) for h in hs)
        INFO[line] = hs
        out.append(line)
    for _ in range(nlines):
        hs = [gen_history(rng) for _ in range(per)]
        line = "HISTB " + " ;; ".join(" ".join(history_toks(h)) for h in hs)
        INFO[line] = hs
        out.append(line)
    return out


def normalize(case, out):
    return out


def classify(case, out):
    return "batch"


def nontrivial(case, out):
    return " 1 " in out or " 2 " in out


def expected_groups(state, keysever, name, f, now):
    """records visible to filter f at `now`, grouped by owner; subdomain filters cover owners under `name`"""
    sub = f in (1, 2, 3)
    groups = {}
    for k, (rec, kind, exp) in state.items():
        n = rec["name"]
        if sub:
            if not (len(n) >= len(name) and n[len(n) - len(name):] == name):
                continue
        elif n != name:
            continue
        vis = (kind == "auth" and f in (0, 1, 3)) or (kind == "cached" and f in (2, 3) and now < exp)
        if vis:
            groups.setdefault(tuple(n), []).append(rec)
    # a subdomain query finds nothing when the queried name was never stored and is not a branch point: only names that
    # were stored at some point are queried with subdomains here
    return groups


def oracle(case, out):
    hs = INFO.get(case)
    if hs is None:
        return None
    outs = out.split(" ;; ")
    if len(outs) != len(hs):
        return "batch output has %d histories, expected %d: %r" % (len(outs), len(hs), out[:200])
    for steps, o in zip(hs, outs):
        if not o.startswith("OK"):
            return "history failed: %r" % o[:200]
        groups = o.split(" | ")[1:]
        gi = 0
        state = {}
        now = 0
        stored_names = set()
        for muts in steps:
            for m in muts:
                if m[0] == "CL":
                    state.clear()
                    stored_names.clear()
                    continue
                k = rr_key(m[1])
                if m[0] == "AA":
                    first = state[k][0] if k in state else m[1]
                    state[k] = (first, "auth", None)
                    stored_names.add(tuple(m[1]["name"]))
                elif m[0] == "AC":
                    stored_names.add(tuple(m[1]["name"]))
                    if k in state and state[k][1] == "auth":
                        continue
                    first = state[k][0] if k in state else m[1]
                    ttl = 1 if m[1]["cf"] else m[1]["ttl"]
                    state[k] = (first, "cached", now + 2 * ttl)
                elif m[0] == "RM":
                    state.pop(k, None)
            now += 1
            for (name, f) in QUERIES:
                g = groups[gi]
                gi += 1
                tr = dns.TokReader(g.split()[1:])
                ng = tr.num()
                got = {}
                for _ in range(ng):
                    n = tr.num()
                    for _ in range(n):
                        r = tr.rr()
                        got.setdefault(tuple(r["name"]), []).append(rr_key(r))
                if f in (1, 2, 3) and tuple(name) not in stored_names:
                    continue  # trie node may not exist: not judged
                exp = expected_groups(state, None, name, f, now)
                expk = {n: sorted(rr_key(r) for r in rs) for n, rs in exp.items()}
                gotk = {n: sorted(v) for n, v in got.items()}
                if expk != gotk:
                    return ("history %r: at tick %d query %r filter %d returned %r, the history spec says %r"
                            % (" ".join(history_toks(steps))[:300], now, name, f, gotk, expk))
            now += 1
    return None


def matches_known(key, case, out, failure):
    return False
