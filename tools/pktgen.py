"""Packet case generation shared by the packet properties (C01-C05, C07, C09-C11)."""
import dns


def packets(rng, n, maxrr=4):
    """n packet descriptions; every typed variant, U/E, all classes and the special QTYPEs appear every run."""
    out = []
    types = list(dns.TYPED)
    k = 0
    while len(out) < n:
        p = dns.gen_packet(rng, maxrr=maxrr)
        # force coverage: one record of the k-th type in a rotating section
        t = types[k % len(types)]
        sec = ("ans", "nss", "adds")[k % 3]
        p[sec].append(dns.gen_rr(rng, [[b"example", b"com"]], t))
        if k % 7 == 0:
            p["qs"].append({"name": dns.gen_name(rng, None), "qtype": dns.QTYPES[k % len(dns.QTYPES)],
                            "qclass": (dns.CLASSES + [255])[k % 6], "uni": bool(k & 1)})
        if k % 40 == 5:
            # names at the 63 / 255 limits, in question, owner and RDATA positions
            for total in (253, 254, 255):
                nm = []
                left = total - 1
                while left > 0:
                    l = min(63, left - 1)
                    if left - 1 - l == 1:      # avoid a zero-length remainder label
                        l -= 1
                    nm.append(bytes([97 + len(nm)]) * l)
                    left -= l + 1
                assert sum(len(x) + 1 for x in nm) + 1 == total, (total, [len(x) for x in nm])
                p["qs"].append({"name": nm, "qtype": 1, "qclass": 1, "uni": False})
                p["ans"].append({"name": nm, "class": 1, "ttl": 1, "cf": False, "rdata": ("T", "MX", [("I", 1), ("N", nm)])})
                p["adds"].append({"name": nm[1:], "class": 1, "ttl": 1, "cf": False, "rdata": ("T", "SRV", [("I", 1), ("I", 2), ("I", 3), ("N", nm)])})
        if k % 5 == 2:
            # the same record more than once in a section (exactly, or with another TTL / cache-flush bit), next to each other
            # or apart, and the same record in two sections: each is an entry of its own
            for sec in ("ans", "nss", "adds"):
                if p[sec] and rng.chance(1, 2):
                    r = dict(rng.choice(p[sec]))
                    if rng.chance(1, 2):
                        r["ttl"] = dns.gen_int(rng, 4)
                        r["cf"] = not r["cf"]
                    p[sec].insert(rng.below(len(p[sec]) + 1), r)
                    if rng.chance(1, 3):
                        p[rng.choice(["ans", "nss", "adds"])].append(dict(r))
        out.append(p)
        k += 1
    return out


def big_packets(rng, n, target=17000):
    """messages that straddle offset 16383: padding records, then names first seen late and reused later"""
    out = []
    for j in range(n):
        p = {"id": j, "opcode": 0, "rcode": 0, "flags": 0x8000, "opt": None, "qs": [], "ans": [], "nss": [], "adds": []}
        p["qs"].append({"name": [b"early", b"example", b"com"], "qtype": 1, "qclass": 1, "uni": False})
        size = 12 + 30
        want = target + rng.below(600) - 300
        i = 0
        while size < want:
            blob = bytes([i & 0xFF]) * min(250, max(1, want - size - 20))
            p["ans"].append({"name": [b"pad%d" % (i % 7), b"example", b"com"] if i % 3 else [b"pad", b"q"], "class": 1, "ttl": i, "cf": False,
                             "rdata": ("U", 4242, blob)})
            size += len(blob) + 12 + 6
            i += 1
        late = [b"late%d" % j, b"zone%d" % (j % 3), b"test"]
        for sec in ("ans", "nss", "adds"):
            p[sec].append({"name": late, "class": 1, "ttl": 1, "cf": False, "rdata": ("T", "NS", [("N", [b"ns"] + late)])})
            p[sec].append({"name": [b"www"] + late, "class": 1, "ttl": 2, "cf": False,
                           "rdata": ("T", "MX", [("I", 10), ("N", [b"mail"] + late)])})
            p[sec].append({"name": [b"early", b"example", b"com"], "class": 1, "ttl": 3, "cf": False,
                           "rdata": ("T", "CNAME", [("N", [b"www"] + late)])})
        out.append(p)
    return out


def straddle_packets(rng, ks=range(0, 26)):
    """boundary catalogue for the 14-bit pointer limit: a multi-label name placed so that it begins at 16384 - k
    (k = 0..25: every label boundary of the name on either side of 16383/16384), followed by names sharing only its tail.
    Padding records have the root owner name, so offsets are the same in plain and compressed output."""
    out = []
    for k in ks:
        p = {"id": k, "opcode": 0, "rcode": 0, "flags": 0x8000, "opt": None, "qs": [], "ans": [], "nss": [], "adds": []}
        target = 16384 - k          # offset of the first byte of the owner name of the straddling record
        size = 12
        while target - size > 11 + 255:
            p["ans"].append({"name": [], "class": 1, "ttl": 0, "cf": False, "rdata": ("U", 4242, bytes([k]) * 255)})
            size += 11 + 255
        rest = target - size
        if rest >= 12:
            p["ans"].append({"name": [], "class": 1, "ttl": 0, "cf": False, "rdata": ("U", 4242, b"z" * (rest - 11))})
            size += rest
        elif rest > 0:
            # too small for a record: shrink the previous blob and add a second one
            prev = p["ans"].pop()
            size -= 11 + 255
            a = (target - size - 22) // 2
            b = target - size - 22 - a
            for n in (a, b):
                p["ans"].append({"name": [], "class": 1, "ttl": 0, "cf": False, "rdata": ("U", 4242, b"y" * n)})
            size = target
        assert size == target, (size, target)
        straddler = [b"head", b"tail%d" % (k % 3), b"example"]
        p["ans"].append({"name": straddler, "class": 1, "ttl": 1, "cf": False, "rdata": ("T", "A", [("I", 1)])})
        p["ans"].append({"name": [b"other"] + straddler[1:], "class": 1, "ttl": 2, "cf": False,
                         "rdata": ("T", "CNAME", [("N", [b"x"] + straddler[2:])])})
        p["adds"].append({"name": straddler, "class": 1, "ttl": 3, "cf": False, "rdata": ("T", "NS", [("N", straddler[1:])])})
        out.append(p)
        # the same layout with the straddling name inside RDATA that is never compressed (an SRV target): nothing may point into it
        # beyond the limit either
        import copy
        q = copy.deepcopy(p)
        q["ans"] = q["ans"][:-2]
        pad = q["ans"].pop()
        fixed = 1 + 10 + 6                       # root owner, fixed part, priority / weight / port
        blob = pad["rdata"][2]
        if len(blob) > fixed + 1:
            q["ans"].append(dict(pad, rdata=("U", 4242, blob[:len(blob) - fixed])))
            q["ans"].append({"name": [], "class": 1, "ttl": 1, "cf": False,
                             "rdata": ("T", "SRV", [("I", 0), ("I", 0), ("I", 80), ("N", [b"gw", b"inner%d" % (k % 3), b"lan"])])})
            q["ans"].append({"name": [b"peer", b"inner%d" % (k % 3), b"lan"], "class": 1, "ttl": 2, "cf": False, "rdata": ("T", "A", [("I", 2)])})
            q["adds"] = [{"name": [b"lan"], "class": 1, "ttl": 3, "cf": False, "rdata": ("T", "NS", [("N", [b"inner%d" % (k % 3), b"lan"])])}]
            out.append(q)
    return out


def chain_packets(rng, depths=(3, 11, 12, 13, 25, 40, 90)):
    """names each extending the previous one by a leading label: the compressor emits pointer chains of that depth"""
    out = []
    for dpt in depths:
        p = {"id": dpt, "opcode": 0, "rcode": 0, "flags": 0, "opt": None, "qs": [], "ans": [], "nss": [], "adds": []}
        name = [b"zone"]
        for i in range(dpt):
            p["ans"].append({"name": list(name), "class": 1, "ttl": i, "cf": False, "rdata": ("T", "A", [("I", i)])})
            name = [b"n%d" % i] + name
            if sum(len(l) + 1 for l in name) + 1 > 250:
                break
        out.append(p)
    return out


def blob_packets(tier="quick"):
    """one record whose RDATA is large - 257 bytes up to the 65535 an RDLENGTH can announce, around every power of two on the way -
    for every type with a variable-length part (trailing blob, list of strings / windows / parameters), followed by a small A
    record that must survive: size limits that exist on one side only (a writer refusing what the parser accepted, or the
    reverse) show up here"""
    sizes = [257, 4095, 4096, 8191, 8192, 8193, 16384, 32767, 32768, 65535] if tier == "quick" else \
        [256, 257, 1024, 4095, 4096, 4097, 8191, 8192, 8193, 16383, 16384, 16385, 32767, 32768, 32769, 65000, 65534, 65535]
    out = []
    for tname in dns.TYPED:
        sch = dns.SCHEMA[tname][1] if tname != "IPSECKEY" else dns.ipseckey_schema(0)
        var = [k for k in sch if k == "rest" or (isinstance(k, tuple) and k[0] == "items")]
        if not var:
            continue
        for S in sizes:
            vals = []
            for k in sch:
                if k == "ver0" or (isinstance(k, tuple) and k[0] == "be"):
                    vals.append(("I", 0))
                elif k == "cstr":
                    vals.append(("B", b"t"))
                elif k == "rest":
                    vals.append(("B", b""))
                elif k[0] == "name":
                    vals.append(("N", [b"n"]))
                else:
                    vals.append(("L", []))
            fixed = len(dns.enc_rdata_ref(tname, vals))
            room = S - fixed
            if room <= 0:
                continue
            i = [j for j, k in enumerate(sch) if k in var][-1]
            k = sch[i]
            if k == "rest":
                vals[i] = ("B", bytes((7 * j + 1) & 0xFF for j in range(room)))
            elif k[1] == "cstr":
                its = []
                while room > 0:
                    l = min(255, room - 1)
                    its.append((0, b"s" * l))
                    room -= l + 1
                vals[i] = ("L", its)
            elif k[1] == "win":
                its, w = [], 0
                while room >= 3 and w < 256:
                    l = min(32, room - 2)
                    its.append((w, b"\x01" * (l - 1) + b"\x80"))
                    room -= l + 2
                    w += 1
                vals[i] = ("L", its)
            else:   # param
                its, key = [], 1
                while room >= 4:
                    l = min(room - 4, 2000)
                    its.append((key, b"v" * l))
                    room -= l + 4
                    key += 1
                vals[i] = ("L", its)
            if len(dns.enc_rdata_ref(tname, vals)) > 65535:
                continue
            out.append({"id": S & 0xFFFF, "opcode": 0, "rcode": 0, "flags": 0x8400, "opt": None, "qs": [], "nss": [], "adds": [],
                        "ans": [{"name": [b"big"], "class": 1, "ttl": 60, "cf": False, "rdata": ("T", tname, vals)},
                                {"name": [b"big"], "class": 1, "ttl": 60, "cf": False, "rdata": ("T", "A", [("I", 0x0a000001)])}]})
    return out


def huge_packets(rng, offsets=(0, 1, 40, 16000, 16380, 16384, 20000)):
    """messages longer than 64 KiB (nothing in the API forbids them): two large opaque records put the next names at offset
    65536 + k for each k (inside and just outside the first 16 KiB after the 64 KiB mark), names first seen there are then
    repeated as owner names and as CNAME / NS / MX RDATA: a position kept in 16 bits, or tested only against the two marker
    bits, sends their pointers into the first 16 KiB"""
    out = []
    for k in offsets:
        p = {"id": 7, "opcode": 0, "rcode": 0, "flags": 0x8400, "opt": None, "nss": [], "adds": [],
             "qs": [{"name": [b"early", b"example"], "qtype": 255, "qclass": 1, "uni": False}], "ans": []}
        # header 12 + question (15 + 4) = 31; each opaque record: 2 (pointer owner) + 10 + len
        fill = 65536 + k - 31 - 2 * 12
        a = min(65000, fill - 200)
        p["ans"].append({"name": [b"early", b"example"], "class": 1, "ttl": 1, "cf": False, "rdata": ("U", 65280, bytes((i * 7) & 0xFF for i in range(a)))})
        p["ans"].append({"name": [b"early", b"example"], "class": 1, "ttl": 1, "cf": False, "rdata": ("U", 65281, bytes((i * 5) & 0xFF for i in range(fill - a)))})
        late = [b"late", b"host", b"zone"]
        alias = [b"alias", b"elsewhere", b"test"]
        p["ans"].append({"name": late, "class": 1, "ttl": 60, "cf": False, "rdata": ("T", "A", [("I", 0x0a000001)])})
        p["ans"].append({"name": late, "class": 1, "ttl": 60, "cf": False, "rdata": ("T", "AAAA", [("I", 1)])})
        p["ans"].append({"name": [b"www"] + late[1:], "class": 1, "ttl": 60, "cf": False, "rdata": ("T", "CNAME", [("N", alias)])})
        p["nss"].append({"name": late[1:], "class": 1, "ttl": 60, "cf": False, "rdata": ("T", "NS", [("N", alias)])})
        p["adds"].append({"name": alias, "class": 1, "ttl": 60, "cf": False, "rdata": ("T", "MX", [("I", 5), ("N", [b"mx"] + alias)])})
        out.append(p)
    return out
