"""C13: mDNS replies contain exactly the matching records."""
import itertools
import dns

SLICE = "STORE (ResourceRecordManager operations through the hook wrappers, then build_reply on query packets)"
RULE = ("stores reached by sequences of add-authoritative / add-cached / remove / clear over names drawn from an alphabet chosen to "
        "collide under concatenation and under byte prefixes (foo.bar vs foobar, _my vs _mysrv, officeprinter vs printer.office, "
        "labels whose length byte equals a letter, a label containing a dot vs the same text split into labels); bounded-exhaustive for small stores (every subset of <= 3 of the record pool) x "
        "every question over the name pool x QTYPE/QCLASS incl. ANY / MAILB, seeded random beyond; SRV records whose targets own "
        "A/AAAA records. Oracle: a label-wise python matcher. non-trivial = a reply is produced")
NAMES = [[b"local"], [b"foo", b"local"], [b"bar", b"foo", b"local"], [b"foobar", b"local"], [b"foo", b"bar", b"local"],
         [b"_my", b"local"], [b"_mysrv", b"local"], [b"officeprinter", b"local"], [b"printer", b"office", b"local"],
         [b"office", b"local"], [b"\x03foo", b"local"], [b"a", b"_my", b"local"], [b"\xff\xfe", b"local"], [b"FOO", b"local"],
         # a label holding a dot (DNS-SD instance names do) against the name with the dot as a label separator
         [b"printer.office", b"local"], [b"office", b"printer", b"local"], [b"printer", b"local"],
         [b"host", b"local"], [b"a", b"host", b"local"], [b"abcdefghijklmnopq", b"host", b"local"], [b"_x", b"local"],
         [b"_services", b"_dns-sd", b"_udp", b"local"], [b"_services", b"_dns-sd", b"_udp"], [b"inst", b"_ipp", b"_tcp", b"local"], []]
INFO = {}


def rr(name, rd, cls=1, ttl=120, cf=False):
    return {"name": name, "class": cls, "ttl": ttl, "cf": cf, "rdata": rd}


def pool(rng):
    out = []
    for n in NAMES:
        out.append(rr(n, ("T", "A", [("I", 0x0A000000 + len(out))])))
    out.append(rr(NAMES[1], ("T", "AAAA", [("I", 1)])))
    out.append(rr(NAMES[1], ("T", "TXT", [("L", [(0, b"k=v")])])))
    out.append(rr(NAMES[5], ("T", "SRV", [("I", 0), ("I", 0), ("I", 8080), ("N", NAMES[1])])))
    out.append(rr(NAMES[6], ("T", "SRV", [("I", 0), ("I", 0), ("I", 8081), ("N", NAMES[3])])))
    out.append(rr(NAMES[2], ("T", "MB", [("N", NAMES[1])])))
    out.append(rr(NAMES[3], ("T", "A", [("I", 7)]), cls=3))
    out.append(rr(NAMES[3], ("T", "PTR", [("N", NAMES[2])])))
    # an SRV whose target (host.local) owns no record, while two names below it do
    out.append(rr([b"_x", b"local"], ("T", "SRV", [("I", 0), ("I", 0), ("I", 9), ("N", [b"host", b"local"])])))
    out[:] = [r for r in out if r["name"] != [b"host", b"local"]]
    # an instance three labels below the domain and an SRV owned by the root name
    out.append(rr([b"inst", b"_ipp", b"_tcp", b"local"], ("T", "SRV", [("I", 0), ("I", 0), ("I", 631), ("N", NAMES[1])])))
    out.append(rr([], ("T", "SRV", [("I", 0), ("I", 0), ("I", 1), ("N", NAMES[1])])))
    # SRV records whose target is the root name ("the service is decidedly not available", RFC 2782), a single label, and the
    # owner itself; an MX and a PTR pointing at the root
    out.append(rr(NAMES[4], ("T", "SRV", [("I", 0), ("I", 0), ("I", 0), ("N", [])])))
    out.append(rr(NAMES[7], ("T", "SRV", [("I", 1), ("I", 2), ("I", 3), ("N", NAMES[7])])))
    out.append(rr(NAMES[8], ("T", "SRV", [("I", 0), ("I", 0), ("I", 53), ("N", [b"local"])])))
    out.append(rr(NAMES[4], ("T", "MX", [("I", 0), ("N", [])])))
    # SVCB / HTTPS records in ServiceMode whose target (or, for the root target, whose owner) also owns address records: only an SRV
    # answer brings additional records along
    out.append(rr(NAMES[5], ("T", "SVCB", [("I", 1), ("N", NAMES[1]), ("L", [])])))
    out.append(rr(NAMES[1], ("T", "HTTPS", [("I", 2), ("N", []), ("L", [(3, b"\x01\xbb")])])))
    out.append(rr(NAMES[6], ("T", "HTTPS", [("I", 0), ("N", NAMES[3]), ("L", [])])))
    # record types above 255 next to a single address family
    out.append(rr(NAMES[0], ("T", "CAA", [("I", 0), ("B", b"issue"), ("B", b"ca.example")])))
    out.append(rr(NAMES[9], ("U", 65280, b"\x01")))
    return out


def ops_text(ops):
    toks = []
    for op in ops:
        if op[0] in ("AA", "AC", "RM"):
            toks += [op[0]] + dns.rr_toks(op[1])
        elif op[0] == "CL":
            toks.append("CL")
        elif op[0] == "R":
            toks += ["R"] + dns.pkt_toks(op[1])
        elif op[0] == "Q":
            toks += ["Q"] + dns.name_toks(op[1]) + ["%x" % op[2]]
    return " ".join(toks)


def query_pkt(idv, qs):
    # "every query": the rest of the header varies with the id (any named opcode and response code, any flags but QR, EDNS data)
    opcode = dns.NAMED_OPCODES[(idv // 4) % len(dns.NAMED_OPCODES)] if idv % 4 == 1 else 0
    rcode = (idv // 5) % 11 if idv % 5 == 2 else 0
    flags = sum(1 << b for i, b in enumerate(x for x in dns.FLAGBITS if x != 15) if (idv >> i) & 1) if idv % 3 == 0 else 0
    opt = {"udp": 1232, "version": 0, "codes": []} if idv % 7 == 3 else None
    return {"id": idv, "opcode": opcode, "rcode": rcode, "flags": flags, "opt": opt, "qs": qs, "ans": [], "nss": [], "adds": []}


def cases(rng, tier):
    out = []
    P = pool(rng)
    qtypes = [1, 28, 16, 33, 255, 253, 7, 12]
    # bounded-exhaustive small stores
    subsets = list(itertools.combinations(range(len(P)), 1)) + list(itertools.combinations(range(len(P)), 2))
    if tier == "thorough":
        subsets += list(itertools.combinations(range(len(P)), 3))
    else:
        tri = list(itertools.combinations(range(len(P)), 3))
        rng.shuffle(tri)
        subsets += tri[:400]
    k = 0
    for sub in subsets:
        ops = [("AA", P[i]) for i in sub]
        qs = []
        for n in NAMES:
            qs.append({"name": n, "qtype": qtypes[k % len(qtypes)], "qclass": [1, 255, 3][k % 3], "uni": bool(k % 5 == 0)})
            k += 1
        for q in qs:
            ops.append(("R", query_pkt(k & 0xFFFF, [q])))
        c = "STORE " + ops_text(ops)
        INFO[c] = ops
        out.append(c)
    # directed: an SRV answer whose target owns no record while several names below the target do (the exact-name lookup for
    # the additional section must not fall through to them), with every registration order
    fam = [r for r in P if r["name"][-2:] == [b"host", b"local"] or r["name"] == [b"_x", b"local"]]
    for perm in itertools.permutations(fam):
        ops = [("AA", r) for r in perm]
        for qt in (33, 255, 1):
            ops.append(("R", query_pkt(9, [{"name": [b"_x", b"local"], "qtype": qt, "qclass": 1, "uni": False}])))
        c = "STORE " + ops_text(ops)
        INFO[c] = ops
        out.append(c)
    # directed: DNS-SD service-type enumeration questions against SRV records at several depths (nothing is registered
    # under those names, so nothing may be answered)
    srvs = [r for r in P if r["rdata"][0] == "T" and r["rdata"][1] == "SRV"]
    ops = [("AA", r) for r in srvs]
    for qn in ([b"_services", b"_dns-sd", b"_udp", b"local"], [b"_services", b"_dns-sd", b"_udp"], [b"_SERVICES", b"_DNS-SD", b"_UDP", b"local"]):
        for qt in (12, 255, 33, 252):
            ops.append(("R", query_pkt(9, [{"name": qn, "qtype": qt, "qclass": 1, "uni": False}])))
    c = "STORE " + ops_text(ops)
    INFO[c] = ops
    out.append(c)
    # directed: replies of many kilobytes - one large record, many middling records under one name, very many small records
    # below one name, an SRV answer dragging a large set of addresses along: everything that matches is in the reply whatever
    # its size (the property has no size clause)
    big = [b"big", b"local"]
    stores = []
    stores.append([{"name": big, "class": 1, "ttl": 120, "cf": False, "rdata": ("T", "TXT", [("L", [(0, bytes([65 + j % 26]) * 255) for j in range(n)])])}
                   for n in (40,)])
    stores.append([{"name": big, "class": 1, "ttl": 120, "cf": False, "rdata": ("T", "TXT", [("L", [(0, b"%03d" % j + b"y" * 197)])])} for j in range(50)])
    stores.append([{"name": [b"h%03d" % j] + big, "class": 1, "ttl": 120, "cf": False, "rdata": ("T", "A", [("I", 0x0a000000 + j)])} for j in range(450)]
                  + [{"name": big, "class": 1, "ttl": 120, "cf": False, "rdata": ("T", "TXT", [("L", [(0, b"x")])])}])
    stores.append([{"name": big, "class": 1, "ttl": 120, "cf": False, "rdata": ("T", "SRV", [("I", 0), ("I", 0), ("I", 80), ("N", [b"host"] + big)])}]
                  + [{"name": [b"host"] + big, "class": 1, "ttl": 120, "cf": False, "rdata": ("T", "AAAA", [("I", (0xfe80 << 112) + j)])} for j in range(400)])
    for recs in stores:
        ops = [("AA", r) for r in recs]
        for qt in (255, 16, 1, 33):
            ops.append(("R", query_pkt(8, [{"name": big, "qtype": qt, "qclass": 1, "uni": False}])))
        c = "STORE " + ops_text(ops)
        INFO[c] = ops
        out.append(c)
    # queries that carry records of their own - a probe's proposed records in the authority section (RFC 6762 8.1), known answers,
    # additional records - equal to registered ones (any TTL, either cache-flush bit) or not: the reply is decided by the questions
    for i, rec in enumerate(P):
        for sec in ("ans", "nss", "adds"):
            ops = [("AA", r) for r in (rec, P[(i + 3) % len(P)])]
            for qt in (255, dns.rdata_type_code(rec["rdata"])):
                q = query_pkt(4 + 12 * i, [{"name": rec["name"], "qtype": qt, "qclass": 255 if i % 2 else rec["class"], "uni": bool(i % 3 == 0)}])
                q[sec] = [dict(rec, ttl=[0, 120, 4500][i % 3], cf=bool(i % 2)), dict(P[(i + 5) % len(P)])]
                ops.append(("R", q))
            c = "STORE " + ops_text(ops)
            INFO[c] = ops
            out.append(c)
    # random op sequences with removes, clears, cached records and two-question queries
    for _ in range(800 if tier == "quick" else 8000):
        ops = []
        for _ in range(1 + rng.below(7)):
            r = rng.below(10)
            rec = rng.choice(P)
            if r < 5:
                ops.append(("AA", rec))
            elif r < 7:
                ops.append(("AC", dict(rec, ttl=rng.choice([100, 4500]), cf=False)))
            elif r < 9:
                ops.append(("RM", rec))
            else:
                ops.append(("CL",))
            if rng.chance(1, 2):
                qs = [{"name": rng.choice(NAMES), "qtype": rng.choice(qtypes), "qclass": rng.choice([1, 255, 3]), "uni": rng.chance(1, 4)}
                      for _ in range(1 + rng.below(2))]
                ops.append(("R", query_pkt(rng.below(65536), qs)))
        qs = [{"name": rng.choice(NAMES), "qtype": 255, "qclass": 255, "uni": False}]
        ops.append(("R", query_pkt(7, qs)))
        c = "STORE " + ops_text(ops)
        INFO[c] = ops
        out.append(c)
    return out


def normalize(case, out):
    return out


def classify(case, out):
    return "reply" if " | R " in out and "| R NONE" not in out.replace(" | R NONE", "", 0) else "noreply"


def nontrivial(case, out):
    return any(not g.startswith("R NONE") for g in out.split(" | ")[1:])


def rr_key(r):
    return (tuple(r["name"]), r["class"], repr(r["rdata"]))


def match_type(r, qt):
    t = dns.rdata_type_code(r["rdata"])
    if qt == 255:
        return True
    if qt == 253:
        return t in (7, 8, 9)
    if qt == 252:
        return True
    if qt == 254:
        return t == 15
    if qt == 251:
        return False
    return t == qt


def match_class(r, qc):
    return qc == 255 or qc == r["class"]


def parse_rrs(r):
    n = r.num()
    return [r.rr() for _ in range(n)]


def oracle(case, out):
    ops = INFO.get(case)
    if ops is None:
        return None
    if out.startswith("PANIC") or out in ("HANG", "CRASH"):
        return "%s on %s" % (out, case[:200])
    groups = out.split(" | ")[1:]
    gi = 0
    auth = {}   # key -> record (authoritative, as first stored)
    cached = {}
    for op in ops:
        if op[0] == "AA":
            k = rr_key(op[1])
            cached.pop(k, None)
            auth.setdefault(k, op[1])
        elif op[0] == "AC":
            k = rr_key(op[1])
            if k not in auth:
                cached.setdefault(k, op[1])
        elif op[0] == "RM":
            auth.pop(rr_key(op[1]), None)
            cached.pop(rr_key(op[1]), None)
        elif op[0] == "CL":
            auth.clear()
            cached.clear()
        elif op[0] == "R":
            g = groups[gi]
            gi += 1
            pkt = op[1]
            must = []
            for q in pkt["qs"]:
                for r in auth.values():
                    if r["name"] == q["name"] and match_type(r, q["qtype"]) and match_class(r, q["qclass"]):
                        must.append(r)
            if g == "R NONE":
                if must:
                    return "no reply although %r is registered and matches the question" % (must[0],)
                continue
            tr = dns.TokReader(g.split()[1:])
            idv = tr.num()
            resp = tr.next() == "1"
            uni = tr.next() == "1"
            answers = parse_rrs(tr)
            additional = parse_rrs(tr)
            if idv != pkt["id"] or not resp:
                return "reply id %x / response flag %s for query id %x" % (idv, resp, pkt["id"])
            if uni != any(q["uni"] for q in pkt["qs"]):
                return "unicast delivery %s but the questions asked %s" % (uni, [q["uni"] for q in pkt["qs"]])
            if not answers:
                return "a reply without answers was produced"
            akeys = [rr_key(a) for a in answers]
            for a in answers:
                ka = rr_key(a)
                if ka not in auth:
                    return "answer %r is not a registered authoritative record" % (a,)
                ok = False
                for q in pkt["qs"]:
                    n, qn = a["name"], q["name"]
                    under = len(n) >= len(qn) and n[len(n) - len(qn):] == qn
                    if under and match_type(a, q["qtype"]) and match_class(a, q["qclass"]):
                        ok = True
                if not ok:
                    return "answer %r does not fall under any question %r" % (a, pkt["qs"])
            for m in must:
                if rr_key(m) not in akeys:
                    return "registered record %r matches a question but is missing from the reply" % (m,)
            targets = [a["rdata"][2][3][1] for a in answers if a["rdata"][0] == "T" and a["rdata"][1] == "SRV"]
            for x in additional:
                if rr_key(x) not in auth or dns.rdata_type_code(x["rdata"]) not in (1, 28) or x["name"] not in targets:
                    return "additional record %r is not a registered address record of an included SRV target" % (x,)
            # the compressed reply parses to the same sections
            tail = tr.next()
            if tail != "P":
                return "the reply could not be serialised and parsed back: %s" % tail
            a2 = parse_rrs(tr)
            x2 = parse_rrs(tr)
            if sorted(map(rr_key, a2)) != sorted(akeys) or sorted(map(rr_key, x2)) != sorted(map(rr_key, additional)):
                return "the serialised reply parses to different records"
    return None


def matches_known(key, case, out, failure):
    return False
