"""C02: build (plain) then parse returns the same packet. Oracle: field-wise equality with the description + RFC reference bytes."""
import dns
import pktgen

SLICE = ("RT P (build_bytes_vec then Packet::parse) over packets assembled through the public constructors; TXTTEXT (a TXT made "
         "by TXT::try_from(&str), which keeps its own length bookkeeping, inside a packet)")
RULE = ("seeded packet descriptions over every typed RDATA variant (rotating so each appears every run), unknown-type and empty "
        "RDATA, all 5 classes, the 6 QTYPE/QCLASS specials, binary labels (1..63 bytes, names <= 255), boundary integers, "
        "0..n entries per section, with/without OPT, every named opcode/rcode. non-trivial = build and parse both succeed; "
        "distinct = distinct canonical outputs")
DESCS = {}


def cases(rng, tier):
    n = 4000 if tier == "quick" else 40000
    out = []
    for p in pktgen.packets(rng, n):
        c = "RT P " + dns.pkt_text(p)
        DESCS[c] = p
        out.append(c)
    # values made by the other public constructor of TXT (from text, 254-byte chunks): lengths around every chunk boundary
    lens = sorted(set([0, 1, 2, 100, 1000, 1270, 2032] + [k * m + d for k in (1, 2, 3, 4, 5) for m in (253, 254, 255, 256) for d in (-1, 0, 1)]))
    for L in lens:
        out.append("TXTTEXT " + (("a" * L).encode().hex() or "-"))
        out.append("TXTTEXT " + (("é" * (L // 2) + ("a" if L % 2 else "")).encode().hex() or "-"))
    return out


def normalize(case, out):
    return out


def classify(case, out):
    return out.split(" ")[0] + ("/" + out.split(" | ")[1].split(" ")[0] if " | " in out else "")


def nontrivial(case, out):
    return " | OK" in out


def oracle_txt(case, out):
    text = bytes.fromhex(case.split()[1]) if case.split()[1] != "-" else b""
    parts = out.split(" | ")
    if out.startswith("PANIC") or out in ("HANG", "CRASH"):
        return "%s building a TXT from %d bytes of text" % (out, len(text))
    if len(parts) != 4:
        return None
    if not parts[2].startswith("OK "):
        return "build_bytes_vec failed for a packet holding TXT::try_from(<%d bytes of text>): %r" % (len(text), parts[2][:80])
    msg = bytes.fromhex(parts[2][3:])
    w = dns.walk(msg)
    if w is None or w["end"] != len(msg) or w["counts"] != (0, 1, 0, 0):
        return "the packet built around TXT::try_from(<%d bytes of text>) does not parse back as one answer: %s" % (len(text), parts[2][3:100])
    if text:
        # RFC 1035 3.3.14: the character-strings one after the other; the text is cut every 254 bytes
        rd = b"".join(bytes([len(text[i:i + 254])]) + text[i:i + 254] for i in range(0, len(text), 254))
        if not msg.endswith(len(rd).to_bytes(2, "big") + rd):
            return "the TXT record written for %d bytes of text is not RDLENGTH + its character-strings" % len(text)
    return None


def oracle(case, out):
    if case.startswith("TXTTEXT"):
        return oracle_txt(case, out)
    p = DESCS.get(case) or dns.parse_pkt_text(case[5:])
    if not out.startswith("OK "):
        return "build_bytes_vec failed on a well-formed packet: %r" % out[:200]
    hx, back = out[3:].split(" | ", 1)
    want = "OK " + dns.pkt_text(p)
    if back != want:
        return "parse(build(p)) differs from p: got %r, expected %r" % (back[:400], want[:400])
    ref = dns.enc_packet_ref(p)
    if bytes.fromhex(hx) != ref:
        return "serialisation differs from the RFC reference encoding: got %s, expected %s" % (hx[:400], ref.hex()[:400])
    return None


def matches_known(key, case, out, failure):
    return False


def extra_coverage():
    """How many of the packets this run exercised satisfy the (computable, proved sound) hypothesis wf_packetb of the
    round-trip theorems: evaluated in the model only."""
    import lib
    cs = ["BUILD W " + dns.pkt_text(p) for p in list(DESCS.values())[:4000]]
    if not cs:
        return {}
    res = lib.run_driver(lib.MODELDRV, cs, timeout=600)
    n1 = sum(1 for r in res if r == "1")
    bad = [c[8:208] for c, r in zip(cs, res) if r != "1"][:3]
    return {"hypothesis_wf_packetb_true": n1, "hypothesis_evaluated": len(cs), "hypothesis_false_samples": bad}
