"""C12: inspecting parsed data never panics."""
import dns
import hostile

SLICE = "OBSERVE (every public observer applied to every part of a parsed packet, under catch_unwind)"
RULE = ("parser-accepted packets biased to labels and character-strings holding invalid UTF-8 (lone continuation bytes, overlongs, "
        "surrogates, > U+10FFFF, truncated sequences), NUL, dots, backslashes, empty and maximal lengths, over TXT HINFO ISDN NAPTR "
        "CAA and name-bearing types; observers: Debug / Display of packet, names, labels, records, RDATA; clone; into_owned; Hash; "
        "PartialEq; TXT attributes / long_attributes / String::try_from; CharacterString -> String; match_qtype / match_qclass. "
        "Oracle: no panic; the number of conversions reporting an error equals the number of non-UTF-8 texts. non-trivial = accepted")


def cases(rng, tier):
    out = []
    for _ in range(3000 if tier == "quick" else 30000):
        p = hostile.hostile_packet(rng)
        b, _ = dns.encode_marked(p, rng, rng.choice([0, 0, 3]))
        out.append("OBSERVE " + b.hex())
    return out


def normalize(case, out):
    return out


def classify(case, out):
    return out.split(" ")[0]


def nontrivial(case, out):
    return out.startswith("OK")


def oracle(case, out):
    if out.startswith("PANIC") or out in ("HANG", "CRASH"):
        return "%s while inspecting the packet parsed from %s" % (out, case.split()[1][:300])
    return None


def matches_known(key, case, out, failure):
    return False
