"""C12: inspecting parsed data never panics."""
import dns
import hostile

SLICE = ("OBSERVE (every public observer applied to every part of a parsed packet, under catch_unwind); SHOW (the text Display writes "
         "for labels, character-strings, names and the names of parsed packets, against the model's lossy renderer)")
RULE = ("parser-accepted packets biased to labels and character-strings holding invalid UTF-8 (lone continuation bytes, overlongs, "
        "surrogates, > U+10FFFF, truncated sequences), NUL, dots, backslashes, empty and maximal lengths, over TXT HINFO ISDN NAPTR "
        "CAA and name-bearing types; observers: Debug / Display of packet, names, labels, records, RDATA; clone; into_owned; Hash; "
        "PartialEq; TXT attributes / long_attributes / String::try_from; CharacterString -> String; match_qtype / match_qclass. "
        "Oracle: no panic; the number of conversions reporting an error equals the number of non-UTF-8 texts; what Display writes is "
        "well-formed UTF-8 and equals an independent maximal-subpart U+FFFD rendering of the bytes (labels joined by dots for names); "
        "TXT records holding every string over the attribute meta-characters k = \" \\ (to length 6; 7 thorough) and k = \" ; \\ ' space NUL "
        "(to length 4; 5 thorough); SHOW inputs: every single byte, byte strings over a 27-letter alphabet of UTF-8 class boundaries (exhaustive to length 3 in the "
        "thorough tier), well-formed text with one byte damaged. non-trivial = accepted")


# one representative of every UTF-8 byte class and of both ends of every second-byte range (Unicode table 3-7)
ALPHA = [0x00, 0x2e, 0x41, 0x7f, 0x80, 0x8f, 0x90, 0x9f, 0xa0, 0xbf, 0xc0, 0xc1, 0xc2, 0xdf, 0xe0, 0xe1, 0xec, 0xed, 0xee, 0xef,
         0xf0, 0xf1, 0xf3, 0xf4, 0xf5, 0xf8, 0xff]
TEXTS = ["café", "€uro", "😀!", "日本語", "\u0800\uffff\U00010000\U0010ffff", "a\u07ffb", "\ud7ff\ue000"]


def hx(b):
    return b.hex() or "-"


def weird(rng):
    r = rng.below(4)
    if r == 0:
        return bytes(rng.choice(ALPHA) for _ in range(1 + rng.below(6)))
    if r == 1:
        # well-formed text with one byte damaged, dropped or inserted
        t = bytearray(rng.choice(TEXTS).encode())
        i = rng.below(len(t))
        k = rng.below(3)
        if k == 0:
            t[i] = rng.choice(ALPHA)
        elif k == 1:
            del t[i]
        else:
            t.insert(i, rng.choice(ALPHA))
        return bytes(t)
    if r == 2:
        return rng.choice(TEXTS).encode()
    return rng.bytes(1 + rng.below(8))


def show_cases(rng, tier):
    out = ["SHOW L %02x" % b for b in range(256)] + ["SHOW C -", "SHOW N", "SHOW L -", "SHOW C " + "c3" * 128, "SHOW C " + "e2" * 255]
    if tier != "quick":
        import itertools
        for n in (2, 3):
            for t in itertools.product(ALPHA, repeat=n):
                out.append("SHOW C " + bytes(t).hex())
    for _ in range(1500 if tier == "quick" else 20000):
        k = rng.below(4)
        if k == 0:
            out.append("SHOW L " + hx(weird(rng)[:63]))
        elif k == 1:
            out.append("SHOW C " + hx((weird(rng) * rng.choice([1, 1, 2, 30]))[:255]))
        else:
            out.append("SHOW N " + " ".join(hx(rng.choice([weird(rng)[:63], b"local", b"_tcp", b"a.b", b""])) for _ in range(rng.below(5))))
    for _ in range(500 if tier == "quick" else 5000):
        pk = hostile.hostile_packet(rng)
        b, _ = dns.encode_marked(pk, rng, rng.choice([0, 0, 3]))
        out.append("SHOW P " + b.hex())
    return out


def grammar_cases(tier):
    """TXT records holding every string over the attribute meta-characters up to a length: whatever shape an attribute parser
    gives a special reading (quotes, escapes, separators, empty key or value) is in here"""
    import itertools
    strings = []
    for alpha, top in ((b'k="\\', 6 if tier == "quick" else 7), (b'k=";\\\' \x00', 4 if tier == "quick" else 5)):
        for n in range(0, top + 1):
            for t in itertools.product(alpha, repeat=n):
                strings.append(bytes(t))
    strings = sorted(set(strings))
    out = []
    per = 60
    for i in range(0, len(strings), per):
        pk = {"id": 7, "opcode": 0, "rcode": 0, "flags": 0x8400, "opt": None, "qs": [], "nss": [], "adds": [],
              "ans": [{"name": [b"x", b"local"], "class": 1, "ttl": 120, "cf": False,
                       "rdata": ("T", "TXT", [("L", [(0, x) for x in strings[i:i + per]])])}]}
        out.append("OBSERVE " + dns.enc_packet_ref(pk).hex())
    return out


def split_cases():
    out = []
    for strs in hostile.SPLITS:
        pk = {"id": 7, "opcode": 0, "rcode": 0, "flags": 0x8400, "opt": None, "qs": [], "nss": [], "adds": [],
              "ans": [{"name": [b"x", b"local"], "class": 1, "ttl": 120, "cf": False, "rdata": ("T", "TXT", [("L", [(0, x) for x in strs])])}]}
        out.append("OBSERVE " + dns.enc_packet_ref(pk).hex())
    return out


def cases(rng, tier):
    out = show_cases(rng, tier) + grammar_cases(tier) + split_cases()
    for _ in range(3000 if tier == "quick" else 30000):
        p = hostile.hostile_packet(rng)
        b, _ = dns.encode_marked(p, rng, rng.choice([0, 0, 3]))
        out.append("OBSERVE " + b.hex())
    return out


def normalize(case, out):
    return out


def classify(case, out):
    t = case.split()
    if t[0] == "SHOW":
        if t[1] == "P" or out in ("ERR", "BADCASE", "DIFF", "HANG", "CRASH") or out.startswith("PANIC"):
            return "SHOW-" + t[1] + "-" + out.split(" ")[0][:5]
        changed = (out if out != "-" else "") != "".join(x if x != "-" else "" for x in ["2e".join(t[2:])]) if t[1] != "N" else None
        if t[1] == "N":
            changed = b".".join(_bytes(x) for x in t[2:]) != _bytes(out)
        return "SHOW-" + t[1] + ("-replaced" if changed else "-verbatim")
    return out.split(" ")[0]


def nontrivial(case, out):
    return out.startswith("OK") or (case.startswith("SHOW") and out not in ("ERR", "BADCASE"))


def _bytes(t):
    return b"" if t == "-" else bytes.fromhex(t)


def oracle(case, out):
    if out.startswith("PANIC") or out in ("HANG", "CRASH"):
        return "%s while inspecting %s" % (out, case[:300])
    t = case.split()
    if t[0] == "SHOW" and t[1] in ("L", "C", "N") and out not in ("ERR", "BADCASE"):
        if out == "DIFF":
            return "to_string() and write!() disagree for " + case[:200]
        try:
            got = _bytes(out)
            got.decode("utf-8")
        except ValueError:
            return "Display wrote something that is not UTF-8 text: %s for %s" % (out[:120], case[:200])
        parts = [_bytes(x) for x in t[2:]]
        want = ".".join(x.decode("utf-8", "replace") for x in parts).encode()
        if got != want:
            return "Display wrote %s where the lossy rendering of the bytes is %s (%s)" % (out[:120], want.hex()[:120], case[:200])
    if t[0] == "SHOW" and t[1] == "P" and out.startswith("OK"):
        for x in out.split()[1:]:
            try:
                _bytes(x).decode("utf-8")
            except ValueError:
                return "Display of a parsed name is not UTF-8 text: %s (%s)" % (x[:120], case[:200])
    return None


def matches_known(key, case, out, failure):
    return False
