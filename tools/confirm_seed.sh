#!/bin/bash
# confirm_seed.sh <worktree> <outdir k> <crate: simple-dns|simple-mdns> : confirms a seeded change in a scratch worktree:
#   demo passes on the clean tree; with the patch: workspace compiles, 130 tests pass, demo fails.
set -u
WT=$1; OUT=$2; CRATE=${3:-simple-dns}
cd "$WT" || exit 2
git checkout -q -- . ; git clean -qfd -e out
NAME=seed_demo_$$
cp "$OUT/demo.rs" "$CRATE/tests/$NAME.rs"
FEAT=""; [ "$CRATE" = simple-mdns ] && FEAT="--features sync"
timeout 600 cargo test -q -p $CRATE $FEAT --offline --test $NAME >/tmp/confirm_clean.log 2>&1; CLEAN=$?
git apply "$OUT/patch.diff" || { echo "PATCH-DOES-NOT-APPLY"; exit 3; }
mv "$CRATE/tests/$NAME.rs" /tmp/$NAME.rs
timeout 900 cargo nextest run --workspace --no-fail-fast --offline >/tmp/confirm_suite.log 2>&1; SUITE=$?
PASSED=$(grep -o "[0-9]* passed" /tmp/confirm_suite.log | tail -1)
mv /tmp/$NAME.rs "$CRATE/tests/$NAME.rs"
timeout 600 cargo test -q -p $CRATE $FEAT --offline --test $NAME >/tmp/confirm_mut.log 2>&1; MUT=$?
rm -f "$CRATE/tests/$NAME.rs"
git checkout -q -- . ; git clean -qfd -e out
echo "demo_on_clean_exit=$CLEAN suite_exit=$SUITE ($PASSED) demo_on_mutant_exit=$MUT"
[ $CLEAN -eq 0 ] && [ $SUITE -eq 0 ] && [ $MUT -ne 0 ]
