#!/bin/bash
# confirm_seed.sh <worktree> <outdir> [crate]: confirms a seeded change in a scratch worktree:
#   demo passes on the clean tree; with the patch: workspace compiles, the 130 tests pass, the demo fails.
# The demo is demo.rs (an integration test) or demo.diff (a patch adding a #[cfg(test)] test named seed_demo_*).
set -u
WT=$1; OUT=$2
CRATE=${3:-$(python3 -c "import json,sys; print(json.load(open('$OUT/meta.json')).get('crate','simple-dns'))" 2>/dev/null || echo simple-dns)}
case "$CRATE" in simple-mdns|simple-dns) ;; *) CRATE=simple-dns ;; esac
cd "$WT" || exit 2
git checkout -q -- . ; git clean -qfd -e out
NAME=seed_demo_$$
FEAT=""; [ "$CRATE" = simple-mdns ] && FEAT="--features sync"
run_demo() {
  if [ -f "$OUT/demo.diff" ]; then
    git apply "$OUT/demo.diff" || return 99
    timeout 900 cargo test -q -p $CRATE $FEAT --offline seed_demo_ > $1 2>&1; r=$?
    grep -q "running 0 tests" $1 && ! grep -q "test result: .* [1-9][0-9]* passed\|FAILED\|failed" $1 && r=98
    git apply -R "$OUT/demo.diff"
    return $r
  else
    cp "$OUT/demo.rs" "$CRATE/tests/$NAME.rs"
    timeout 900 cargo test -q -p $CRATE $FEAT --offline --test $NAME > $1 2>&1; r=$?
    rm -f "$CRATE/tests/$NAME.rs"
    return $r
  fi
}
run_demo /tmp/confirm_clean.log; CLEAN=$?
git apply "$OUT/patch.diff" || { echo "PATCH-DOES-NOT-APPLY"; exit 3; }
timeout 900 cargo nextest run --workspace --no-fail-fast --offline >/tmp/confirm_suite.log 2>&1; SUITE=$?
PASSED=$(grep -o "[0-9]* passed" /tmp/confirm_suite.log | tail -1)
run_demo /tmp/confirm_mut.log; MUT=$?
git checkout -q -- . ; git clean -qfd -e out
echo "crate=$CRATE demo_on_clean_exit=$CLEAN suite_exit=$SUITE ($PASSED) demo_on_mutant_exit=$MUT"
[ $CLEAN -eq 0 ] && [ $SUITE -eq 0 ] && [ $MUT -ne 0 ] && [ $MUT -lt 98 ]
