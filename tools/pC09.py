"""C09: EDNS(0) data is carried per RFC 6891."""
import dns
import pktgen

SLICE = "RT P / RT C (serialise a packet with EDNS data, parse it back), PARSE (reference-encoded messages with the OPT record at any position of the additional section, third-party EDNS queries)"
RULE = ("all named response codes x versions {0,1,2,127,255} x UDP sizes {0,512,1232,4096,65535} x option lists, with and without "
        "other additional records; on the parse side the reference encoder places the OPT record at every index of the additional "
        "section and uses extended codes 0..255. Oracle: independent envelope walker over the output (exactly one type-41 record, in "
        "the additional section, counted once in ARCOUNT, root owner, CLASS = payload size, TTL = ext-rcode(8) version(8) flags(16), "
        "RDATA = option triples, header low nibble = rcode & 15) and field-wise comparison of the parsed packet. non-trivial = accepted")
DESCS = {}


def cases(rng, tier):
    out = []
    vers = [0, 1, 2, 127, 255]
    udps = [0, 512, 1232, 4096, 65535]
    k = 0
    for rc in dns.NAMED_RCODES:
        for v in vers:
            for u in udps:
                p = dns.gen_packet(rng, maxrr=2, with_opt=True)
                p["rcode"] = rc
                p["opt"] = {"udp": u, "version": v, "codes": dns.gen_items(rng, "opt")}
                if k % 3 == 0:
                    p["adds"] = []
                t = dns.pkt_text(p)
                for m in ("P", "C"):
                    c = "RT %s %s" % (m, t)
                    DESCS[c] = p
                    out.append(c)
                k += 1
    # option data of every length around the powers of two and the sizes a writer might stage in a buffer (a padding option,
    # RFC 7830, is as long as the sender likes), alone and behind a cookie, with and without another additional record
    lens = sorted(set(list(range(0, 20)) + [v + d for v in (255, 256, 508, 512, 1016, 1020, 1024, 1028, 2048, 4096, 8192, 16384, 32768) for d in range(-4, 5)] + [65000, 65523]))
    for j, L in enumerate(lens):
        data = bytes((i * 13 + 1) & 0xFF for i in range(L))
        for codes in ([(12, data)], [(10, b"\x01\x02\x03\x04\x05\x06\x07\x08"), (12, data)]):
            if sum(4 + len(d) for _, d in codes) > 65535:
                continue
            p = {"id": j, "opcode": 0, "rcode": 16 if j % 2 else 0, "flags": 0x8000, "opt": {"udp": 1232, "version": 0, "codes": codes},
                 "qs": [], "ans": [], "nss": [], "adds": [] if j % 3 else [{"name": [b"a"], "class": 1, "ttl": 1, "cf": False, "rdata": ("T", "A", [("I", 7)])}]}
            t = dns.pkt_text(p)
            for m in ("P", "C"):
                c = "RT %s %s" % (m, t)
                DESCS[c] = p
                out.append(c)
    # parse side: OPT anywhere in the additional section, any extended code
    n = 600 if tier == "quick" else 6000
    for j in range(n):
        p = dns.gen_packet(rng, maxrr=3, with_opt=True)
        ext = rng.choice([0, 0, 1, 2, 15, 255, rng.below(256)])
        low = rng.below(16)
        p["rcode"] = (ext << 4) | low
        p["opt_pos"] = rng.below(len(p["adds"]) + 1)
        b, _ = dns.encode_marked(p, rng, rng.choice([0, 3]))
        c = "PARSE " + b.hex()
        q = dict(p)
        q["rcode"] = dns.rcdisc((ext << 4) | low)
        DESCS[c] = q
        out.append(c)
    # the 16 flag bits of the OPT TTL (DO and the fifteen Z bits, "set to zero by senders and ignored by receivers") under
    # version 0, 1 and 255, each bit alone and all together: the EDNS data read is the same whatever they are
    for ver in (0, 1, 255):
        for fl in [1 << b for b in range(16)] + [0x7FFF, 0xFFFF, 0x8001]:
            for ext in (0, 1):
                optrr = b"\x00\x00\x29\x04\xd0" + bytes([ext, ver]) + fl.to_bytes(2, "big") + b"\x00\x06\x00\x0a\x00\x02\xab\xcd"
                msg = b"\x00\x05\x84\x03\x00\x00\x00\x00\x00\x00\x00\x01" + optrr
                c = "PARSE " + msg.hex()
                DESCS[c] = {"id": 5, "opcode": 0, "rcode": dns.rcdisc((ext << 4) | 3), "flags": 0x8400, "opt": {"udp": 1232, "version": ver, "codes": [(10, b"\xab\xcd")]},
                            "qs": [], "ans": [], "nss": [], "adds": []}
                out.append(c)
    # third-party vectors: dig-style queries (udp 4096, no options; DO bit set; a cookie option)
    q = b"\x06\x67\x6f\x6f\x67\x6c\x65\x03\x63\x6f\x6d\x00\x00\x01\x00\x01"
    for (hdr, opt, exp_opt) in (
            (b"\xab\xcd\x01\x20\x00\x01\x00\x00\x00\x00\x00\x01", b"\x00\x00\x29\x10\x00\x00\x00\x00\x00\x00\x00", {"udp": 4096, "version": 0, "codes": []}),
            (b"\xab\xce\x01\x20\x00\x01\x00\x00\x00\x00\x00\x01", b"\x00\x00\x29\x04\xd0\x00\x00\x80\x00\x00\x00", {"udp": 1232, "version": 0, "codes": []}),
            (b"\xab\xcf\x01\x00\x00\x01\x00\x00\x00\x00\x00\x01", b"\x00\x00\x29\x04\xd0\x00\x00\x00\x00\x00\x0c\x00\x0a\x00\x08\x01\x02\x03\x04\x05\x06\x07\x08",
             {"udp": 1232, "version": 0, "codes": [(10, b"\x01\x02\x03\x04\x05\x06\x07\x08")]})):
        c = "PARSE " + (hdr + q + opt).hex()
        w = int.from_bytes(hdr[2:4], "big")
        DESCS[c] = {"id": int.from_bytes(hdr[:2], "big"), "opcode": 0, "rcode": 0, "flags": w & 0x87B0, "opt": exp_opt,
                    "qs": [{"name": [b"google", b"com"], "qtype": 1, "qclass": 1, "uni": False}], "ans": [], "nss": [], "adds": []}
        out.append(c)
    return out


def normalize(case, out):
    return "ERR" if out.startswith("ERR") else out


def classify(case, out):
    return case.split(" ")[0] + ":" + out.split(" ")[0]


def nontrivial(case, out):
    return out.startswith("OK")


def check_wire(p, b):
    w = dns.walk(b)
    if w is None or w["end"] != len(b):
        return "output is not a well-framed message"
    opts = [(si, r) for si, sec in enumerate(w["secs"]) for r in sec if r["type"] == 41]
    if len(opts) != 1:
        return "%d OPT records in the output, expected exactly one" % len(opts)
    si, r = opts[0]
    if si != 2:
        return "the OPT record is not in the additional section"
    if w["counts"][3] != len(p["adds"]) + 1:
        return "ARCOUNT %d, expected %d (other additional records + the OPT record once)" % (w["counts"][3], len(p["adds"]) + 1)
    o = p["opt"]
    if r["name"] != []:
        return "OPT owner name is not the root"
    if r["class"] != o["udp"]:
        return "OPT CLASS %d, expected the UDP payload size %d" % (r["class"], o["udp"])
    want_ttl = ((p["rcode"] >> 4) & 0xFF) << 24 | (o["version"] & 0xFF) << 16
    if r["ttl"] != want_ttl:
        return "OPT TTL %08x, expected %08x (extended RCODE, VERSION, flags)" % (r["ttl"], want_ttl)
    rd = b"".join(c.to_bytes(2, "big") + len(d).to_bytes(2, "big") + d for (c, d) in o["codes"])
    if r["rdata"] != rd:
        return "OPT RDATA %s, expected the option triples %s" % (r["rdata"].hex(), rd.hex())
    if w["word"] & 15 != p["rcode"] & 15:
        return "header RCODE nibble %d, expected %d" % (w["word"] & 15, p["rcode"] & 15)
    return None


def oracle(case, out):
    p = DESCS.get(case)
    if p is None:
        return None
    if out.startswith("PANIC") or out in ("HANG", "CRASH"):
        return "%s on %s" % (out, case[:200])
    if case.startswith("RT"):
        if not out.startswith("OK "):
            return "serialising a packet with EDNS data failed: %r" % out[:200]
        hx, back = out[3:].split(" | ", 1)
        f = check_wire(p, bytes.fromhex(hx))
        if f:
            return f + " [" + hx[:200] + "]"
        want = "OK " + dns.pkt_text(p)
        if back != want:
            return "parse(serialise(p)) differs from p: got %r, expected %r" % (back[:400], want[:400])
        return None
    want = "OK " + dns.pkt_text(p)
    if out != want:
        return "message with an RFC 6891 OPT record parsed to %r, expected %r" % (out[:400], want[:400])
    return None


def matches_known(key, case, out, failure):
    return False
