"""C08: header bits per RFC 1035 4.1.1. Exhaustive over the 65536 flag words, 128x128 flag-set pairs, build side."""
SLICE = "HDR (all 65536 flag words x sample ids/counts: parse, re-serialise, 8 peeks), PEEK (short buffers), FLAGS (128x128 flag sets), BUILDHDR (opcode x rcode x flag subsets), COUNTS (sections of up to 65535 entries, built)"
RULE = ("exhaustive: every 16-bit flags word (ids and counts derived from the seed and boundary values); all 128x128 "
        "pairs of flag sets plus words with foreign bits; all 16 opcode values x 18 rcode values x 128 flag subsets on the "
        "build side; all buffer lengths 0..12 for the peeks. non-trivial = header accepted (Z clear) or a peek returned a value; "
        "distinct = distinct canonical output lines")
EXHAUSTIVE = True
FLAGBITS = [15, 10, 9, 8, 7, 5, 4]


def flagset(i):
    return sum((1 << b) for k, b in enumerate(FLAGBITS) if (i >> k) & 1)


def cases(rng, tier):
    out = []
    for w in range(65536):
        if w % 4 == 0:
            idv, cnt = 0, [0, 0, 0, 0]
        elif w % 4 == 1:
            idv, cnt = 0xFFFF, [0xFFFF] * 4
        else:
            idv, cnt = rng.below(65536), [rng.below(65536) for _ in range(4)]
        out.append("HDR %x %x %x %x %x %x" % (idv, w, cnt[0], cnt[1], cnt[2], cnt[3]))
    for i in range(128):
        for j in range(128):
            out.append("FLAGS %x %x" % (flagset(i), flagset(j)))
    for _ in range(2000):
        out.append("FLAGS %x %x" % (rng.below(65536), rng.below(65536)))
    for op in range(16):
        for rc in list(range(16)) + [16, 17, 23, 4095]:
            for i in range(128):
                if op in (0, 1, 2, 4, 5) and rc in list(range(11)) + [16] or i % 16 == 3:
                    out.append("BUILDHDR %x %x %x %x" % (rng.below(65536), op, rc, flagset(i)))
    # header_buffer::has_flags with a SET of flags: true iff all of them are set (and trivially for the empty set)
    masks = [0, 0x8000, 0x8400, 0x8180, 0x0030, 0x87B0, 0x0480, 0x8020]
    for w in (0x0000, 0x8000, 0x8183, 0x8400, 0x0100, 0x87B0, 0x8580, 0x0030, 0xFFBF, 0x7FBF):
        for m in masks:
            out.append("PEEKF %s %x" % ((b"\x12\x34" + w.to_bytes(2, "big") + bytes(8)).hex(), m))
    for m in masks:
        out.append("PEEKF 1234 %x" % m)
    # state carried by a parsed packet: after parsing any flags word, replacing opcode and response code through the accessors
    # and serialising must give exactly the new codes next to the old flag bits
    for w in [rc | (op << 11) | fl for rc in (0, 3, 5, 15) for op in (0, 2, 5, 15) for fl in (0, 0x8000, 0x07B0, 0x87B0)]:
        for (op2, rc2) in ((0, 0), (5, 0), (0, 3), (4, 9), (1, 2)):
            out.append("HDRMOD %x %x %x" % (w, op2, rc2))
    # the response code of a message with EDNS data: low nibble from the header word, upper 8 bits from the OPT record's
    # extended-RCODE octet - and from nothing else (in particular not from the VERSION octet next to it)
    for w in [rc | (op << 11) | fl for rc in range(16) for (op, fl) in ((0, 0), (5, 0x8400), (0, 0x8180))]:
        for ext in (0, 1, 0x10, 0xF0):
            for ver in (0, 1, 15, 16, 17, 0x20, 0x80, 0xFF):
                hdr = b"\x12\x34" + w.to_bytes(2, "big") + b"\x00\x00\x00\x00\x00\x00\x00\x01"
                opt = b"\x00\x00\x29\x04\xd0" + bytes([ext, ver, 0, 0]) + b"\x00\x00"
                out.append("PARSE " + (hdr + opt).hex())
    # the counts of a parsed packet are the header's count words, under every flag word: a reply cut anywhere (also a truncated
    # one, TC set) either is rejected or has exactly the announced entries
    q = b"\x04host\x05local\x00\x00\x01\x00\x01"
    a1 = b"\xc0\x0c\x00\x01\x00\x01\x00\x00\x00\x3c\x00\x04\x0a\x00\x00\x01"
    a2 = b"\xc0\x0c\x00\x10\x00\x01\x00\x00\x00\x3c\x00\x04\x03k=v"
    body = q + a1 + a2 + a1 + a2
    for w in (0x8200, 0x8600, 0x0200, 0x8000, 0x8180, 0x0000, 0x8203, 0x8780):
        full = b"\x12\x34" + w.to_bytes(2, "big") + b"\x00\x01\x00\x02\x00\x01\x00\x01" + body
        for cut in range(12, len(full) + 1):
            out.append("PARSE " + full[:cut].hex())
            TRUNC.add(out[-1])
    # every value a count word can take is written back: sections of 0, 1, 255, 256, 257, 65534 and 65535 minimal entries (the
    # largest has 65535 root questions, or 65534 additional records plus the EDNS pseudo-record)
    for sec in range(4):
        for n in (0, 1, 255, 256, 257, 32767, 32768, 65534, 65535):
            cnt = [1, 0, 0, 0]
            cnt[sec] = n
            out.append("COUNTS %x %x %x %x 0" % tuple(cnt))
    for x in (0, 254, 255, 65533, 65534):
        out.append("COUNTS 0 0 0 %x 1" % x)
    for n in range(0, 14):
        for fill in (b"\x00", b"\xff", b"\x80\x01", b"\x7b\xb0"):
            buf = (fill * 14)[:n]
            out.append("PEEK " + (buf.hex() or "-"))
        out.append("PEEK " + (rng.bytes(n).hex() or "-"))
    return out


TRUNC = set()


def normalize(case, out):
    if case in TRUNC:
        return "ERR" if out.startswith("ERR") else out
    return out


def classify(case, out):
    return case.split()[0] + ":" + out.split(" ")[0]


def nontrivial(case, out):
    return out.startswith("OK") or case.startswith(("FLAGS", "BUILDHDR")) or (case.startswith("PEEK") and out[:1] != "E")


def opdisc(v):
    return v if v in (0, 1, 2, 4, 5) else 6


def rcdisc(v):
    return v if v <= 10 or v == 16 else 17


def bits7(w):
    return "".join("1" if (w >> b) & 1 else "0" for b in FLAGBITS)


def exp_peeks(buf):
    def u16(p):
        return int.from_bytes(buf[p:p + 2], "big") if len(buf) >= p + 2 else None
    f = []
    for p in (0, 4, 6, 8, 10):
        v = u16(p)
        f.append("E" if v is None else "%x" % v)
    w = u16(2)
    f.append("EEEEEEE" if w is None else bits7(w))
    f.append("E" if w is None else "%x" % rcdisc(w & 15))
    f.append("E" if w is None else "%x" % opdisc((w >> 11) & 15))
    return " ".join(f)


def oracle_counts(case, out):
    q, a, n, x, o = [int(v, 16) for v in case.split()[1:]]
    want_len = 12 + 5 * q + 15 * (a + n + x) + 11 * (1 if o else 0)
    want_hdr = b"\x00\x01\x00\x00" + b"".join(v.to_bytes(2, "big") for v in (q, a, n, x + (1 if o else 0)))
    for leg, name in zip(out.split(" | "), ("build_bytes_vec", "build_bytes_vec_compressed")):
        if not leg.startswith("OK "):
            return "%s refused a packet whose sections hold %d / %d / %d / %d entries%s: %s" % (name, q, a, n, x, " plus EDNS data" if o else "", leg[:60])
        hx, ln = leg[3:].split()
        if bytes.fromhex(hx) != want_hdr or int(ln, 16) != want_len:
            return "%s: header %s, length %s for sections of %d / %d / %d / %d entries%s (expected %s, %x)" % (name, hx, ln, q, a, n, x, " plus EDNS data" if o else "", want_hdr.hex(), want_len)
    return None


def oracle(case, out):
    if case.startswith("COUNTS"):
        if out.startswith("PANIC") or out in ("HANG", "CRASH"):
            return "%s for %s" % (out, case)
        return oracle_counts(case, out)
    t = case.split()
    if t[0] == "HDR":
        idv, w, qd, an, ns, ar = (int(x, 16) for x in t[1:7])
        hdr = b"".join(x.to_bytes(2, "big") for x in (idv, w, qd, an, ns, ar))
        if " | " not in out:
            return "HDR: malformed output %r" % out
        p, pk = out.split(" | ")
        if pk != exp_peeks(hdr):
            return "peeks on header %s: got %r expected %r" % (hdr.hex(), pk, exp_peeks(hdr))
        if (w >> 6) & 1:
            if not p.startswith("ERR"):
                return "flags word %04x has the reserved Z bit set but the message was accepted: %r" % (w, p)
            return None
        op, rc = (w >> 11) & 15, w & 15
        exp = "OK %x %x %x %s" % (idv, opdisc(op), rcdisc(rc), bits7(w))
        if not p.startswith(exp + " "):
            return "parse of flags word %04x: got %r expected %r" % (w, p, exp)
        if opdisc(op) != 6 and rcdisc(rc) != 17:
            # named opcode and rcode: re-serialisation puts everything back at the same positions
            expb = (idv.to_bytes(2, "big") + (w & 0xFFBF).to_bytes(2, "big") + bytes(8)).hex()
            if p.split()[-1] != expb:
                return "re-serialised header for word %04x: got %s expected %s" % (w, p.split()[-1], expb)
        return None
    if t[0] == "PEEKF":
        d, m = bytes.fromhex(t[1]), int(t[2], 16) & 0x87B0
        if len(d) < 4:
            return None if out == "E" else "peek on a %d-byte buffer: %r" % (len(d), out)
        w = int.from_bytes(d[2:4], "big")
        want = "1" if (w & m) == m else "0"
        return None if out == want else "has_flags(%04x) on flags word %04x: got %r, expected %s" % (m, w, out, want)
    if t[0] == "HDRMOD":
        w, op2, rc2 = (int(x, 16) for x in t[1:4])
        if not out.startswith("OK "):
            return "parse / modify / serialise of flags word %04x failed: %r" % (w, out[:80])
        got = int(out[3:][4:8], 16)
        want = (w & 0x87B0) | (op2 << 11) | rc2
        if got != want:
            return "flags word %04x, then opcode := %d and rcode := %d through the accessors: serialised word %04x, expected %04x" % (w, op2, rc2, got, want)
        return None
    if case in TRUNC:
        d = bytes.fromhex(t[1])
        if out.startswith("PANIC") or out in ("HANG", "CRASH"):
            return "%s on %s" % (out, t[1][:200])
        if out.startswith("OK PKT "):
            import dns
            p = dns.parse_pkt_text(out[3:])
            got = (len(p["qs"]), len(p["ans"]), len(p["nss"]), len(p["adds"]) + (1 if p["opt"] is not None else 0))
            want = tuple(int.from_bytes(d[i:i + 2], "big") for i in (4, 6, 8, 10))
            if got != want:
                return "the header announces %r entries, the parsed packet holds %r (flags word %04x, %d of the message's bytes): %s" % (
                    want, got, int.from_bytes(d[2:4], "big"), len(d), t[1][:200])
        return None
    if t[0] == "PARSE":
        d = bytes.fromhex(t[1])
        w, ext, ver = int.from_bytes(d[2:4], "big"), d[17], d[18]
        if not out.startswith("OK PKT "):
            return "a message with an OPT record (flags word %04x) was rejected: %r" % (w, out[:80])
        f = out.split()
        want = rcdisc((ext << 4) | (w & 15))
        if int(f[4], 16) != want or int(f[3], 16) != opdisc((w >> 11) & 15) or f[5] != bits7(w):
            return ("flags word %04x with OPT extended-rcode %02x version %02x: parsed opcode/rcode/flags %s %s %s, expected %x %x %s"
                    % (w, ext, ver, f[3], f[4], f[5], opdisc((w >> 11) & 15), want, bits7(w)))
        return None
    if t[0] == "PEEK":
        buf = bytes.fromhex(t[1]) if t[1] != "-" else b""
        if out != exp_peeks(buf):
            return "peeks on %s: got %r expected %r" % (t[1], out, exp_peeks(buf))
        return None
    if t[0] == "FLAGS":
        a, b = int(t[1], 16) & 0x87B0, int(t[2], 16) & 0x87B0
        exp = "%s %s %s %s %x %x" % (bits7(a), bits7(a | b), bits7(a & ~b), "1" if a & b == b else "0", a | b, a & ~b & 0xFFFF)
        if out != exp:
            return "flag algebra a=%04x b=%04x: got %r expected %r" % (a, b, out, exp)
        return None
    if t[0] == "BUILDHDR":
        idv, op, rc, fl = (int(x, 16) for x in t[1:5])
        od, rd = opdisc(op), rcdisc(rc)
        if od == 6 or rd == 17:
            return None  # Reserved opcode/rcode: outside "every named opcode and response code"
        w = (fl & 0x87B0) | (od << 11) | (rd & 15)
        expb = (idv.to_bytes(2, "big") + w.to_bytes(2, "big") + bytes(8)).hex()
        exp = "%s OK %x %x %x %s" % (expb, idv, od, rd & 15, bits7(fl))
        if out != exp:
            return "build header id=%x opcode=%d rcode=%d flags=%04x: got %r expected %r" % (idv, op, rc, fl, out, exp)
    return None


def matches_known(key, case, out, failure):
    return False
