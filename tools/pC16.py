"""C16: owned copies equal originals; equality and hashing agree."""
import dns
import hostile
import pktgen

SLICE = "OWN (into_owned / clone of every part of a parsed packet: equality, identical bytes, identical hasher input), HASHI (InstanceInformation built in different insertion orders)"
RULE = ("parser-accepted packets over all types (borrowed from the receive buffer) incl. hostile strings; every question / record / "
        "RDATA / name is cloned and converted to owned: the copy must print, compare and hash (recorded hasher byte stream, not a "
        "64-bit digest) like the original, and a packet reassembled from the copies must serialise to identical bytes in both modes; "
        "InstanceInformation values with the same members inserted in different orders and with different set histories must compare "
        "equal and feed the hasher the same stream. non-trivial = input accepted")


def cases(rng, tier):
    out = []
    n = 1500 if tier == "quick" else 15000
    for k, p in enumerate(pktgen.packets(rng, n)):
        b, _ = dns.encode_marked(p, rng, rng.choice([0, 3]))
        out.append("OWN " + b.hex())
    for _ in range(n // 2):
        p = hostile.hostile_packet(rng)
        b, _ = dns.encode_marked(p, rng, 0)
        out.append("OWN " + b.hex())
    for _ in range(400 if tier == "quick" else 4000):
        ms = []
        for _ in range(rng.below(8)):
            r = rng.below(3)
            ms.append(("4", 0x0A000000 + rng.below(50)) if r == 0 else ("6", (0xFE80 << 112) + rng.below(50)) if r == 1 else ("P", rng.below(65536)))
        ms = list(dict.fromkeys(ms))
        out.append("HASHI %s %x %s" % (rng.choice(["a", "inst", "é"]).encode().hex(), len(ms), " ".join("%s %x" % m for m in ms)))
    return out


def normalize(case, out):
    return out


def classify(case, out):
    return case.split(" ")[0] + ":" + out.split(" ")[0]


def nontrivial(case, out):
    return not out.startswith("ERR")


def oracle(case, out):
    if out.startswith("PANIC") or out in ("HANG", "CRASH"):
        return "%s on %s" % (out, case[:300])
    if case.startswith("OWN") and out.startswith("OK") and not out.endswith(" same"):
        return "an owned copy / clone differs from the original: %s (input %s)" % (out, case.split()[1][:300])
    if case.startswith("HASHI"):
        eq, same = out.split()
        if eq != "1":
            return "the same members inserted in different orders give unequal InstanceInformation values: %s" % case
        if same != "1":
            return "equal InstanceInformation values feed the hasher different streams: %s" % case
    return None


def matches_known(key, case, out, failure):
    return False
