"""C16: owned copies equal originals; equality and hashing agree."""
import dns
import hostile
import pktgen

SLICE = "OWN (into_owned / clone of every part of a parsed packet: equality, identical bytes, identical hasher input), HASHI (InstanceInformation built in different insertion orders)"
RULE = ("parser-accepted packets over all types (borrowed from the receive buffer) incl. hostile strings; every question / record / "
        "RDATA / name is cloned and converted to owned: the copy must print, compare and hash (recorded hasher byte stream, not a "
        "64-bit digest) like the original, and a packet reassembled from the copies must serialise to identical bytes in both modes; "
        "InstanceInformation values with the same members inserted in different orders and with different set histories must compare "
        "equal and feed the hasher the same stream. non-trivial = input accepted")


def cases(rng, tier):
    out = []
    n = 1500 if tier == "quick" else 15000
    for k, p in enumerate(pktgen.packets(rng, n)):
        b, _ = dns.encode_marked(p, rng, rng.choice([0, 3]))
        out.append("OWN " + b.hex())
    for _ in range(n // 2):
        p = hostile.hostile_packet(rng)
        b, _ = dns.encode_marked(p, rng, 0)
        out.append("OWN " + b.hex())
    for _ in range(400 if tier == "quick" else 4000):
        ms = []
        for _ in range(rng.below(8)):
            r = rng.below(3)
            ms.append(("4", 0x0A000000 + rng.below(50)) if r == 0 else ("6", (0xFE80 << 112) + rng.below(50)) if r == 1 else ("P", rng.below(65536)))
        if rng.chance(1, 3):
            a = 0x0A000000 + rng.below(50)
            ms += [("4", a), ("6", (0xFFFF << 32) + a)]
        ms = list(dict.fromkeys(ms))
        toks = ["%s %x" % m for m in ms]
        keys = ["k%d" % i for i in range(rng.choice([0, 1, 2, 8]))]
        if rng.chance(1, 3):
            # keys that differ only in letter case are different keys of the attribute map
            keys += rng.choice([["Path", "path"], ["tls", "TLS", "Tls"], ["a", "A", "é", "É"], ["Model", "model", "MODEL", "mOdel"]])
        for k in keys:
            v = rng.choice([None, "", "v", "é"])
            toks.append("A %s %s" % (k.encode().hex(), "N" if v is None else "V " + (v.encode().hex() or "-")))
        out.append("HASHI %s %x %s" % (rng.choice(["a", "inst", "é"]).encode().hex(), len(toks), " ".join(toks)))
    # independently built names / records: equal ones must hash equally (the model's equality is exact on bytes)
    names = [[b"www", b"example", b"com"], [b"WWW", b"Example", b"COM"], [b"www", b"example"], [b"\xff", b"a"], [b"\xFF", b"A"],
             [], [b"MyPrinter", b"_ipp", b"_tcp", b"local"], [b"myprinter", b"_ipp", b"_tcp", b"LOCAL"], [b"www.example", b"com"]]
    for a in names:
        for b in names:
            out.append("EQHASH N %s %s" % (" ".join(dns.name_toks(a)), " ".join(dns.name_toks(b))))
    tags = [b"issue", b"ISSUE", b"Issue", b"issue\xff", b"issue\xfe", b"iss\xc3\xa9", b"iss\xc3", b"", b"issuewild"]
    for a in tags:
        for b in tags:
            ra = {"name": [b"ca", b"example"], "class": 1, "ttl": 1, "cf": False, "rdata": ("T", "CAA", [("I", 0), ("B", a), ("B", b"x")])}
            rb = dict(ra, rdata=("T", "CAA", [("I", 0), ("B", b), ("B", b"x")]))
            out.append("EQHASH R %s %s" % (" ".join(dns.rr_toks(ra)), " ".join(dns.rr_toks(rb))))
    for _ in range(600 if tier == "quick" else 6000):
        r = dns.gen_rr(rng, [[b"example", b"com"]])
        r2 = dict(r)
        m = rng.below(6)
        if m == 0:
            r2["ttl"] = (r["ttl"] + 1) % 2 ** 32
        elif m == 1:
            r2["cf"] = not r["cf"]
        elif m == 2:
            r2["name"] = [l.swapcase() for l in r["name"]]
        elif m == 3:
            r2["class"] = 3 if r["class"] != 3 else 1
        elif m == 4:
            r2 = dns.gen_rr(rng, [[b"example", b"com"]])
        out.append("EQHASH R %s %s" % (" ".join(dns.rr_toks(r)), " ".join(dns.rr_toks(r2))))
    return out


def normalize(case, out):
    return out


def classify(case, out):
    return case.split(" ")[0] + ":" + out.split(" ")[0]


def nontrivial(case, out):
    return not out.startswith("ERR")


def oracle(case, out):
    if out.startswith("DIFF"):
        return "the same two values compare / hash differently depending on how they were assembled (owned vs borrowing one buffer): %s for %s" % (out, case[:200])
    if out.startswith("PANIC") or out in ("HANG", "CRASH"):
        return "%s on %s" % (out, case[:300])
    if case.startswith("OWN") and out.startswith("OK") and not out.endswith(" same"):
        return "an owned copy / clone differs from the original: %s (input %s)" % (out, case.split()[1][:300])
    if case.startswith("EQHASH"):
        t = out.split()
        for i in range(0, len(t), 2):
            if t[i] == "1" and t[i + 1] != "1":
                return "two values compare equal but feed the hasher different streams: %s" % case[:300]
        return None
    if case.startswith("HASHI"):
        eq, same = out.split()
        if eq != "1":
            return "the same members inserted in different orders give unequal InstanceInformation values: %s" % case
        if same != "1":
            return "equal InstanceInformation values feed the hasher different streams: %s" % case
    return None


def matches_known(key, case, out, failure):
    return False
