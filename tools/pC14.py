"""C14: no datagram can crash or wedge the mDNS services."""
import dns
import hostile
import pC13

SLICE = "STORE with D operations (one datagram through the responder loop body, the one-shot resolver's header peeks on its 4096-byte buffer, and the discovery listener's loop body, against a generated store)"
RULE = ("stores built from the C13 record pool plus records with hostile owner names; datagrams: empty, 1..11 bytes, every "
        "truncation and length corruption of valid queries and responses, valid packets with non-UTF-8 / NUL / dotted / maximal "
        "labels both as questions and as announced records, responses with and without the RESPONSE flag, seeded random bytes; "
        "interleaved with valid traffic. Oracle: no PANIC/HANG; every reply produced parses. non-trivial = datagram accepted by some pipeline")
CANNOT_EXHIBIT = ["the receive threads, RwLock poisoning and multicast sockets themselves: the loop bodies are driven through the "
                  "cfg(simple_dns_verif) wrappers; a panic there is what would kill the thread / poison the lock",
                  "the tokio (async) twins of the sync services (same build_reply, store and codec; their own glue is not driven)"]
SVC = [b"_srv", b"_tcp", b"local"]
ME = [b"me"] + SVC


def cases(rng, tier):
    out = []
    P = pC13.pool(rng)
    n = 500 if tier == "quick" else 5000
    for k in range(n):
        toks = []
        for _ in range(1 + rng.below(4)):
            rec = rng.choice(P) if rng.chance(3, 4) else hostile.hostile_packet(rng, 1)["ans"][:1] or rng.choice(P)
            if isinstance(rec, list):
                rec = rec[0]
            toks += ["AA"] + dns.rr_toks(rec)
        toks += ["AA"] + dns.rr_toks({"name": SVC, "class": 1, "ttl": 120, "cf": False, "rdata": ("T", "PTR", [("N", ME)])})
        dgrams = []
        for _ in range(2 + rng.below(5)):
            r = rng.below(12)
            if r == 0:
                dgrams.append(b"")
            elif r == 1:
                dgrams.append(rng.bytes(1 + rng.below(11)))
            elif r == 2:
                dgrams.append(rng.bytes(12 + rng.below(40)))
            else:
                if r < 7:
                    p = hostile.hostile_packet(rng)
                else:
                    q = rng.choice(pC13.NAMES + [SVC, ME])
                    p = pC13.query_pkt(rng.below(65536), [{"name": q, "qtype": rng.choice([1, 255, 33, 16, 12]), "qclass": rng.choice([1, 255]), "uni": rng.chance(1, 3)}])
                    if rng.chance(1, 3):
                        p["flags"] = 0x8400
                        p["ans"] = [dict(rng.choice(P), name=[rng.choice([b"peer", b"\xff", b"x" * 63])] + SVC)]
                b, marks = dns.encode_marked(p, rng, rng.choice([0, 3]))
                if r in (3, 7):
                    ms = dns.malformations(b, marks, rng, budget=6)
                    b = rng.choice(ms) if ms else b
                dgrams.append(b)
        for d in dgrams:
            toks += ["D"] + dns.name_toks(SVC) + dns.name_toks(ME) + [d.hex() or "-"]
        toks += ["K"] + dns.name_toks(SVC)
        out.append("STORE " + " ".join(toks))
    return out


def normalize(case, out):
    # instance names are rendered with Display (lossy for non-UTF-8 labels), which the byte-level model does not reproduce:
    # discovery results are compared by their counts only (C15 compares them exactly on valid names)
    import re
    out = re.sub(r"ING ([0-9a-f]+)[^|]*", r"ING \1 ", out)
    return re.sub(r"\| K ([0-9a-f]+).*$", r"| K \1", out)


def classify(case, out):
    return "run"


def nontrivial(case, out):
    return "REPLY" in out or "ING" in out


def oracle(case, out):
    if out.startswith("PANIC") or out in ("HANG", "CRASH") or "PANIC" in out:
        return "%s while handling datagrams: %s" % (out[:40], case[:400])
    if "PARSEFAIL" in out or "WRITEFAIL" in out:
        return "a reply that does not parse (or could not be written) was produced: %s" % out[:300]
    return None


def matches_known(key, case, out, failure):
    return False
