"""C14: no datagram can crash or wedge the mDNS services."""
import dns
import hostile
import pC13

SLICE = ("STORE with D operations (one datagram through the responder loop body, the one-shot resolver's header peeks on its 4096-byte buffer, and the discovery listener's loop body, against a generated store); "
         "SOCK (a sampled subset on real sockets: a running sync SimpleMdnsResponder is sent datagrams over the multicast group and must still answer a one-shot query afterwards)")
RULE = ("stores built from the C13 record pool plus records with hostile owner names; datagrams: empty, 1..11 bytes, every "
        "truncation and length corruption of valid queries and responses, valid packets with non-UTF-8 / NUL / dotted / maximal "
        "labels both as questions and as announced records, announced TTLs up to 2^32-1 with and without cache-flush, queries carrying known answers with TTLs up to 2^32-1, responses with and without the RESPONSE flag, seeded random bytes; "
        "interleaved with valid traffic. Oracle: no PANIC/HANG; every reply produced parses. non-trivial = datagram accepted by some pipeline")
CASE_SECS = 20
CANNOT_EXHIBIT = ["the receive threads, RwLock poisoning and multicast sockets of the discovery listener and of the tokio services: their loop bodies are driven through the "
                  "cfg(simple_dns_verif) wrappers; a panic there is what would kill the thread / poison the lock. The sync responder's real thread and sockets ARE exercised by the SOCK cases "
                  "(reported as NOSOCKET, and not judged, where the environment has no multicast)",
                  "the tokio (async) services: their copy of add_response_to_resources IS driven (every ingesting case is run through both the sync and the tokio listener and the outputs must be identical); their socket loops are not"]
SVC = [b"_srv", b"_tcp", b"local"]
ME = [b"me"] + SVC


def cases(rng, tier):
    out = []
    P = pC13.pool(rng)
    n = 500 if tier == "quick" else 5000
    for k in range(n):
        toks = []
        for _ in range(1 + rng.below(4)):
            rec = rng.choice(P) if rng.chance(3, 4) else hostile.hostile_packet(rng, 1)["ans"][:1] or rng.choice(P)
            if isinstance(rec, list):
                rec = rec[0]
            toks += ["AA"] + dns.rr_toks(rec)
        toks += ["AA"] + dns.rr_toks({"name": SVC, "class": 1, "ttl": 120, "cf": False, "rdata": ("T", "PTR", [("N", ME)])})
        dgrams = []
        for _ in range(2 + rng.below(5)):
            r = rng.below(12)
            if r == 0:
                dgrams.append(b"")
            elif r == 1:
                dgrams.append(rng.bytes(1 + rng.below(11)))
            elif r == 2:
                dgrams.append(rng.bytes(12 + rng.below(40)))
            else:
                if r < 7:
                    p = hostile.hostile_packet(rng)
                else:
                    q = rng.choice(pC13.NAMES + [SVC, ME])
                    p = pC13.query_pkt(rng.below(65536), [{"name": q, "qtype": rng.choice([1, 28, 255, 33, 16, 12, 257]), "qclass": rng.choice([1, 255]), "uni": rng.chance(1, 3)}])
                    if rng.chance(1, 4):
                        # a query carrying known answers (RFC 6762 7.1): copies of registered records, any TTL
                        ka = rng.choice(P)
                        p["qs"] = [{"name": ka["name"], "qtype": rng.choice([255, dns.rdata_type_code(ka["rdata"])]), "qclass": rng.choice([1, 255]), "uni": False}]
                        p["ans"] = [dict(ka, ttl=rng.choice([0, 60, 120, 0x7fffffff, 0x80000000, 0xffffffff]))]
                    elif rng.chance(1, 3):
                        p["flags"] = 0x8400
                        p["ans"] = [dict(rng.choice(P), name=[rng.choice([b"peer", b"\xff", b"x" * 63])] + SVC,
                                         ttl=rng.choice([0, 1, 120, 4500, 0x03333333, 0x03333334, 0x04000000, 0x7fffffff, 0xffffffff]),
                                         cf=rng.chance(1, 4))]
                b, marks = dns.encode_marked(p, rng, rng.choice([0, 3]))
                if r in (3, 7):
                    ms = dns.malformations(b, marks, rng, budget=6)
                    b = rng.choice(ms) if ms else b
                dgrams.append(b)
        if k % 10 == 0:
            # pointer graphs through the header: the question name points at the id field, which is itself a pointer
            for idb, nameb in ((b"\xc0\x00", b"\xc0\x00"), (b"\xc0\x02", b"\xc0\x00"), (b"\xc0\x0c", b"\xc0\x00"), (b"\x01\x61", b"\xc0\x00")):
                dgrams.append(idb + b"\x00\x00\x00\x01\x00\x00\x00\x00\x00\x00" + nameb + b"\x00\x01\x00\x01")
            # a response whose second owner name points into the first record's RDATA, which points to itself
            dgrams.append(b"\x00\x01\x84\x00\x00\x00\x00\x02\x00\x00\x00\x00" + b"\x01a\x00\x00\x01\x00\x01\x00\x00\x00\x78\x00\x04\xc0\x19\x00\x00"
                          + b"\xc0\x19\x00\x01\x00\x01\x00\x00\x00\x78\x00\x04\x01\x02\x03\x04")
        if k % 7 == 0:
            # announced instances with 63-byte labels that are not UTF-8 (their lossy rendering is longer than 63 bytes)
            for lab in (b"a" + b"\xff" * 62, b"\xff" * 63, b"ab" + b"\xff" * 61, b"\xe2\x82" * 31 + b"a", b"\xf0\x9f\x98" * 21):
                p = pC13.query_pkt(rng.below(65536), [])
                p["flags"] = 0x8400
                p["ans"] = [dict(rng.choice(P), name=[lab] + SVC), {"name": [lab] + SVC, "class": 1, "ttl": 120, "cf": False,
                            "rdata": ("T", "TXT", [("L", [(0, b"k=v")])])}]
                b, _ = dns.encode_marked(p, rng, 0)
                dgrams.append(b)
        for d in dgrams:
            toks += ["D"] + dns.name_toks(SVC) + dns.name_toks(ME) + [d.hex() or "-"]
        toks += ["K"] + dns.name_toks(SVC)
        out.append("STORE " + " ".join(toks))
    # directed: a host with one address family and a record type above 255, asked for the other family and for everything
    hi = [r for r in P if r["rdata"][0] == "U" or (r["rdata"][0] == "T" and r["rdata"][1] == "CAA")]
    for extra in hi:
        host = extra["name"]
        for fam in ("A", "AAAA"):
            toks = ["AA"] + dns.rr_toks({"name": host, "class": 1, "ttl": 120, "cf": False, "rdata": ("T", fam, [("I", 7)])}) + ["AA"] + dns.rr_toks(extra)
            toks += ["AA"] + dns.rr_toks({"name": SVC, "class": 1, "ttl": 120, "cf": False, "rdata": ("T", "PTR", [("N", ME)])})
            for qt in (1, 28, 255, 257, 65280):
                q = pC13.query_pkt(3, [{"name": host, "qtype": qt, "qclass": 1, "uni": False}])
                b, _ = dns.encode_marked(q, rng, 0)
                toks += ["D"] + dns.name_toks(SVC) + dns.name_toks(ME) + [b.hex()]
            out.append("STORE " + " ".join(toks))
    # directed: DNS-SD service-type enumeration questions (RFC 6763 section 9) against SRV records at several depths, the root included
    srvs = [r for r in P if r["rdata"][0] == "T" and r["rdata"][1] == "SRV"]
    toks = []
    for r in srvs:
        toks += ["AA"] + dns.rr_toks(r)
    toks += ["AA"] + dns.rr_toks({"name": SVC, "class": 1, "ttl": 120, "cf": False, "rdata": ("T", "PTR", [("N", ME)])})
    for qn in ([b"_services", b"_dns-sd", b"_udp", b"local"], [b"_services", b"_dns-sd", b"_udp"], [b"_SERVICES", b"_DNS-SD", b"_UDP", b"local"],
               [b"_services", b"_dns-sd", b"_udp", b"_tcp", b"local"]):
        for qt in (12, 255, 33):
            q = pC13.query_pkt(3, [{"name": qn, "qtype": qt, "qclass": rng.choice([1, 255]), "uni": False}])
            b, _ = dns.encode_marked(q, rng, 0)
            toks += ["D"] + dns.name_toks(SVC) + dns.name_toks(ME) + [b.hex()]
    out.append("STORE " + " ".join(toks))
    # histories in real time: a peer's records (three and more under one name) expire, stay expired for a while, and then a goodbye
    # (TTL 0) or a fresh announcement arrives for one of them - first, middle or last stored; the listener handles each datagram
    for which in range(4):
        owner = [b"late%d" % which] + SVC
        recs = [{"name": owner, "class": 1, "ttl": 1, "cf": False, "rdata": ("T", "SRV", [("I", 0), ("I", 0), ("I", 80), ("N", owner)])},
                {"name": owner, "class": 1, "ttl": 1, "cf": False, "rdata": ("T", "TXT", [("L", [(0, b"k=v")])])},
                {"name": owner, "class": 1, "ttl": 1, "cf": False, "rdata": ("T", "A", [("I", 0x0a000001)])},
                {"name": owner, "class": 1, "ttl": 1, "cf": False, "rdata": ("T", "AAAA", [("I", 1)])}]
        toks = ["AA"] + dns.rr_toks({"name": SVC, "class": 1, "ttl": 120, "cf": False, "rdata": ("T", "PTR", [("N", ME)])})

        def dgram(rs):
            pk = pC13.query_pkt(0, [])
            pk["flags"] = 0x8400
            pk["ans"] = rs
            b, _ = dns.encode_marked(pk, rng, 0)
            return ["D"] + dns.name_toks(SVC) + dns.name_toks(ME) + [b.hex()]
        toks += dgram(recs) + ["T", "1", "K"] + dns.name_toks(SVC) + ["T", "6"]
        toks += dgram([dict(recs[which], ttl=0)]) + ["T", "1", "K"] + dns.name_toks(SVC)
        toks += dgram([dict(r, ttl=120) for r in recs]) + ["T", "1", "K"] + dns.name_toks(SVC)
        out.append("STORE " + " ".join(toks))
    # a long history: thousands of distinct peers announced to one discoverer over many full-size datagrams (the store grows past
    # every power of two up to 8192 names), then queries and more traffic: nothing in the handling may depend on how much is cached
    for total in ((4200,) if tier == "quick" else (1100, 4200, 8300)):
        toks = ["AA"] + dns.rr_toks({"name": SVC, "class": 1, "ttl": 120, "cf": False, "rdata": ("T", "PTR", [("N", ME)])})
        svcw = b"".join(bytes([len(l)]) + l for l in SVC) + b"\x00"
        n = 0
        while n < total:
            body = bytearray()
            cnt = 0
            svc_at = None
            while n < total and len(body) < 8900:
                lab = b"p%05d" % n
                if svc_at is None:
                    svc_at = 12 + len(body) + 1 + len(lab)
                    name = bytes([len(lab)]) + lab + svcw
                else:
                    name = bytes([len(lab)]) + lab + bytes([0xC0 | (svc_at >> 8), svc_at & 0xFF])
                body += name + b"\x00\x01\x00\x01\x00\x00\x11\x94\x00\x04" + (0x0a000000 + n).to_bytes(4, "big")
                cnt += 1
                n += 1
            d = b"\x00\x00\x84\x00\x00\x00" + cnt.to_bytes(2, "big") + b"\x00\x00\x00\x00" + bytes(body)
            toks += ["D"] + dns.name_toks(SVC) + dns.name_toks(ME) + [d.hex()]
        q = pC13.query_pkt(5, [{"name": SVC, "qtype": 12, "qclass": 1, "uni": False}])
        b, _ = dns.encode_marked(q, rng, 0)
        toks += ["D"] + dns.name_toks(SVC) + dns.name_toks(ME) + [b.hex()]
        toks += ["K"] + dns.name_toks(SVC)
        out.append("STORE " + " ".join(toks))
    # a sampled subset on real sockets: a SimpleMdnsResponder thread is started, datagrams are multicast to it, and it must still
    # answer afterwards. Header-sized and shorter datagrams under every flag pattern, random bytes, malformed and hostile messages.
    short = []
    for n in range(0, 14):
        for w in (0x0000, 0x0200, 0x0100, 0x7800, 0x0300, 0x000f, 0x8000, 0x8200, 0xffff, 0x7fbf):
            d = (b"\x00\x00" + w.to_bytes(2, "big") + b"\x00\x01\x00\x00\x00\x00\x00\x00" + b"\x00\x00")[:n]
            short.append(d)
    SOCK_DGRAMS.clear()
    for part in range(3):
        ds = [d for i, d in enumerate(short) if i % 3 == part]
        for _ in range(25):
            r = rng.below(4)
            if r == 0:
                ds.append(rng.bytes(rng.below(60)))
            else:
                pk = hostile.hostile_packet(rng) if r == 1 else pC13.query_pkt(rng.below(65536), [{"name": rng.choice(pC13.NAMES), "qtype": 255, "qclass": 1, "uni": False}])
                b, marks = dns.encode_marked(pk, rng, rng.choice([0, 3]))
                if r == 3:
                    ms = dns.malformations(b, marks, rng, budget=6)
                    b = rng.choice(ms) if ms else b
                ds.append(b[:8900])
        c = "SOCK " + " ".join(d.hex() or "-" for d in ds)
        SOCK_DGRAMS[c] = ds
        out.append(c)
    # the one-shot resolver on real sockets: responses to its SRV and A queries in which the records owned by the queried name
    # have every shape a responder may give them - complete, with empty RDATA (RDLENGTH 0), of another type or class, in the other
    # section, several of them, for another owner
    qn = [b"_rv%d" % rng.below(100000), b"_udp", b"local"]
    nm = dns.enc_name(qn)

    def rec(owner, t, cls, rd):
        return owner + t.to_bytes(2, "big") + cls.to_bytes(2, "big") + b"\x00\x00\x00\x0a" + len(rd).to_bytes(2, "big") + rd
    srv_rd = b"\x00\x00\x00\x00\x1f\x90" + nm
    a_rd, aaaa_rd = b"\x7f\x00\x00\x01", b"\x00" * 15 + b"\x01"
    other = dns.enc_name([b"other", b"local"])
    shapes = []
    for ans in ([rec(nm, 33, 1, srv_rd)], [rec(nm, 33, 1, b"")], [rec(nm, 33, 3, srv_rd)], [rec(nm, 1, 1, a_rd)], [rec(nm, 1, 1, b"")],
                [rec(nm, 28, 1, b"")], [rec(nm, 28, 1, aaaa_rd)], [rec(nm, 16, 1, b"\x03k=v")], [rec(nm, 65280, 1, b"\x01")], [rec(other, 33, 1, srv_rd)],
                [rec(nm, 33, 1, b""), rec(nm, 33, 1, srv_rd)], [rec(nm, 33, 1, srv_rd[:5])], []):
        for add in ([], [rec(nm, 1, 1, a_rd)], [rec(nm, 1, 1, b"")], [rec(nm, 28, 1, b"")], [rec(nm, 28, 1, aaaa_rd)], [rec(other, 1, 1, a_rd)], [rec(nm, 33, 1, b"")]):
            shapes.append(b"\x00\x00\x84\x00\x00\x00" + len(ans).to_bytes(2, "big") + b"\x00\x00" + len(add).to_bytes(2, "big") + b"".join(ans) + b"".join(add))
    rng.shuffle(shapes)
    per = 10 if tier == "quick" else 23
    for part in range(4):
        ds = shapes[part * per:(part + 1) * per]
        out.append("SOCKR %s %s" % (b".".join(qn).hex(), " ".join(d.hex() for d in ds)))
    # a responder serving thousands of records below its name, asked for all of them: the reply does not fit a datagram
    # (finding F31: the failed send used to end the loop); then it must still answer
    for n in (40, 1000, 4000):
        out.append("SOCK R%x %s" % (n, b"\x00\x00\x00\x00\x00\x00".hex()))
    # replies larger than 16 KiB: a store of address records under one service whose sorted order puts a two-new-label name
    # at offset 16384 - k, followed by a name sharing only its later suffix
    base = [b"_s", b"_tcp", b"local"]
    for kk in ((0, 3, 5, 8) if tier == "quick" else range(0, 12)):
        target = 16384 - kk
        sol = None
        for b3 in range(0, 21):
            first = (1 + 3 if b3 else 1 + 4) + 15 + 14          # the first record carries the full owner name
            rest3, rest4 = 1 + 3 + 2 + 14, 1 + 4 + 2 + 14
            n3 = b3 - 1 if b3 else 0
            rem = target - 12 - first - n3 * rest3
            if rem >= 0 and rem % rest4 == 0 and b3 + (rem // rest4 - (0 if b3 else 0)) > 0:
                a4 = rem // rest4 if b3 else rem // rest4
                sol = (b3, a4 if b3 else a4 + 1)
                break
        if sol is None:
            continue
        b3, a4 = sol
        toks = []
        i = 0
        for j in range(b3):
            toks += ["AA"] + dns.rr_toks({"name": [b"q%02d" % j] + base, "class": 1, "ttl": 120, "cf": False, "rdata": ("T", "A", [("I", i)])})
            i += 1
        for j in range(a4):
            toks += ["AA"] + dns.rr_toks({"name": [b"p%03d" % j] + base, "class": 1, "ttl": 120, "cf": False, "rdata": ("T", "A", [("I", i)])})
            i += 1
        for nm in ([b"xxxx", b"zzzzz"] + base, [b"yyyyy", b"zzzzz"] + base):
            toks += ["AA"] + dns.rr_toks({"name": nm, "class": 1, "ttl": 120, "cf": False, "rdata": ("T", "A", [("I", i)])})
            i += 1
        # the service name itself is registered (as ServiceDiscovery does), so the trie has a node at the queried key
        toks += ["AA"] + dns.rr_toks({"name": base, "class": 1, "ttl": 120, "cf": False, "rdata": ("T", "TXT", [("L", [(0, b"x")])])})
        q = pC13.query_pkt(77, [{"name": base, "qtype": 1, "qclass": 1, "uni": False}])
        b, _ = dns.encode_marked(q, rng, 0)
        toks += ["D"] + dns.name_toks(SVC) + dns.name_toks(ME) + [b.hex()]
        out.append("STORE " + " ".join(toks))
    return out


def normalize(case, out):
    # instance names are rendered with Display (lossy for non-UTF-8 labels), which the byte-level model does not reproduce:
    # discovery results are compared by their counts only (C15 compares them exactly on valid names)
    import re
    if case.startswith("SOCK"):
        # ALIVE (or NOSOCKET where the environment has no multicast) is what the model's constant stands for
        return "SOCK" if out.split(" ")[0] in ("SOCK", "ALIVE", "NOSOCKET", "DONE") else out
    out = re.sub(r"ING ([0-9a-f]+)[^|]*", r"ING \1 ", out)
    return re.sub(r"\| K ([0-9a-f]+).*$", r"| K \1", out)


SOCK_DGRAMS = {}


def classify(case, out):
    return "sock:" + out.split(" ")[0] if case.startswith("SOCK") else "run"


def nontrivial(case, out):
    return "REPLY" in out or "ING" in out or out.startswith("ALIVE") or out.startswith("DONE")


def oracle(case, out):
    if case.startswith("SOCKR"):
        if out.startswith("PANIC") or out in ("HANG", "CRASH"):
            return "%s: the one-shot resolver did not return while these responses were multicast: %s" % (out, case[6:600])
        return None
    if case.startswith("SOCK"):
        if out.startswith("DEAD") or out.startswith("PANIC") or out in ("HANG", "CRASH"):
            return ("%s: a running SimpleMdnsResponder no longer answers a query for its own record after these datagrams were "
                    "multicast to it: %s" % (out, case[5:600]))
        return None
    if out.startswith("PANIC") or out in ("HANG", "CRASH") or "PANIC" in out:
        return "%s while handling datagrams: %s" % (out[:40], case[:400])
    if "PARSEFAIL" in out or "WRITEFAIL" in out:
        return "a reply that does not parse (or could not be written) was produced: %s" % out[:300]
    return None


def matches_known(key, case, out, failure):
    return False
