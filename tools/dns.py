"""Independent DNS reference used by generators and oracles: declarative RDATA schemas written from the RFCs,
a reference encoder, an RFC 1035 name decoder, an envelope walker, and the canonical text form of packets.
Nothing here is derived from the Coq model or from simple-dns."""

# field kinds: ('be', n) | 'ver0' | ('name', compressible_in_rfc1035_sense) | 'cstr' | 'rest' | ('items', kind)
# item kinds: 'cstr' (tag width 0, len width 1) | 'win' (1,1, strictly increasing) | 'param' (2,2, strictly increasing) | 'opt' (2,2)
NC, NU = ("name", True), ("name", False)
SCHEMA = {
    # RFC 1035
    "A": (1, [("be", 4)]),
    "NS": (2, [NC]), "MD": (3, [NC]), "MF": (4, [NC]), "CNAME": (5, [NC]),
    "SOA": (6, [NC, NC, ("be", 4), ("be", 4), ("be", 4), ("be", 4), ("be", 4)]),
    "MB": (7, [NC]), "MG": (8, [NC]), "MR": (9, [NC]),
    "WKS": (11, [("be", 4), ("be", 1), "rest"]),
    "PTR": (12, [NC]),
    "HINFO": (13, ["cstr", "cstr"]),
    "MINFO": (14, [NC, NC]),
    "MX": (15, [("be", 2), NC]),
    "TXT": (16, [("items", "cstr")]),
    # RFC 1183
    "RP": (17, [NC, NC]),
    "AFSDB": (18, [("be", 2), NC]),
    "ISDN": (20, ["cstr", "cstr"]),
    "RouteThrough": (21, [("be", 2), NC]),
    # RFC 1706 (fixed 20-byte GOSIP form, see DESIGN F30), RFC 1348
    "NSAP": (22, [("be", 1), ("be", 2), ("be", 1), ("be", 3), ("be", 2), ("be", 2), ("be", 2), ("be", 6), ("be", 1)]),
    "NSAP_PTR": (23, [NC]),
    "AAAA": (28, [("be", 16)]),                                       # RFC 3596
    "LOC": (29, ["ver0", ("be", 1), ("be", 1), ("be", 1), ("be", 4), ("be", 4), ("be", 4)]),  # RFC 1876
    "SRV": (33, [("be", 2), ("be", 2), ("be", 2), NU]),              # RFC 2782
    "NAPTR": (35, [("be", 2), ("be", 2), "cstr", "cstr", "cstr", NU]),  # RFC 3403
    "KX": (36, [("be", 2), NU]),                                      # RFC 2230
    "CERT": (37, [("be", 2), ("be", 2), ("be", 1), "rest"]),         # RFC 4398
    "DS": (43, [("be", 2), ("be", 1), ("be", 1), "rest"]),           # RFC 4034
    "RRSIG": (46, [("be", 2), ("be", 1), ("be", 1), ("be", 4), ("be", 4), ("be", 4), ("be", 2), NU, "rest"]),
    "NSEC": (47, [NU, ("items", "win")]),
    "DNSKEY": (48, [("be", 2), ("be", 1), ("be", 1), "rest"]),
    "DHCID": (49, [("be", 2), ("be", 1), "rest"]),                   # RFC 4701
    "ZONEMD": (63, [("be", 4), ("be", 1), ("be", 1), "rest"]),       # RFC 8976
    "SVCB": (64, [("be", 2), NU, ("items", "param")]),               # RFC 9460
    "HTTPS": (65, [("be", 2), NU, ("items", "param")]),
    "EUI48": (108, [("be", 6)]), "EUI64": (109, [("be", 8)]),        # RFC 7043
    "CAA": (257, [("be", 1), "cstr", "rest"]),                       # RFC 8659
    # IPSECKEY (RFC 4025) and OPT (RFC 6891) are handled separately
    "IPSECKEY": (45, None),
    "OPT": (41, None),
}
CODE2NAME = {v[0]: k for k, v in SCHEMA.items()}
CLASSES = [1, 2, 3, 4, 254]
ITEM = {"cstr": (0, 1, False), "win": (1, 1, True), "param": (2, 2, True), "opt": (2, 2, False)}


def ipseckey_schema(gw):
    base = [("be", 1), ("be", 1), ("be", 1)]
    return {0: base + ["rest"], 1: base + [("be", 4), "rest"], 2: base + [("be", 16), "rest"], 3: base + [NU, "rest"]}.get(gw)


def schema_for(tname, vals):
    if tname == "IPSECKEY":
        return ipseckey_schema(vals[1][1])
    if tname == "OPT":
        return [("be", 2), ("be", 1), ("items", "opt")]
    return SCHEMA[tname][1]


# ------------------------------------------------------------------ values
# a field value is ('I', int) | ('N', [label bytes]) | ('B', bytes) | ('L', [(tag, bytes)])

def enc_name(labels):
    out = b""
    for l in labels:
        out += bytes([len(l)]) + l
    return out + b"\x00"


def enc_field(kind, v):
    if kind == "ver0":
        return v[1].to_bytes(1, "big")
    if kind == "cstr":
        return bytes([len(v[1])]) + v[1]
    if kind == "rest":
        return v[1]
    k = kind[0]
    if k == "be":
        return v[1].to_bytes(kind[1], "big")
    if k == "name":
        return enc_name(v[1])
    if k == "items":
        tw, lw, _ = ITEM[kind[1]]
        out = b""
        for (t, b) in v[1]:
            out += t.to_bytes(tw, "big") + len(b).to_bytes(lw, "big") + b
        return out
    raise ValueError(kind)


def enc_rdata_ref(tname, vals):
    """RFC encoding of the RDATA of a typed value (OPT: only the options)."""
    if tname == "OPT":
        return enc_field(("items", "opt"), vals[2])
    sch = schema_for(tname, vals)
    return b"".join(enc_field(k, v) for k, v in zip(sch, vals))


def hexs(b):
    return b.hex() if b else "-"


def name_toks(labels):
    return ["%x" % len(labels)] + [hexs(l) for l in labels]


def fval_toks(v):
    if v[0] == "I":
        return ["I", "%x" % v[1]]
    if v[0] == "N":
        return ["N"] + name_toks(v[1])
    if v[0] == "B":
        return ["B", hexs(v[1])]
    out = ["L", "%x" % len(v[1])]
    for (t, b) in v[1]:
        out += ["%x" % t, hexs(b)]
    return out


def rdata_toks(rd):
    if rd[0] == "T":
        code = SCHEMA[rd[1]][0]
        out = ["T", "%x" % code, "%x" % len(rd[2])]
        for v in rd[2]:
            out += fval_toks(v)
        return out
    if rd[0] == "U":
        return ["U", "%x" % rd[1], hexs(rd[2])]
    return ["E", "%x" % rd[1]]


def rr_toks(rr):
    return name_toks(rr["name"]) + ["%x" % rr["class"], "%x" % rr["ttl"], "1" if rr["cf"] else "0"] + rdata_toks(rr["rdata"])


def q_toks(q):
    return name_toks(q["name"]) + ["%x" % q["qtype"], "%x" % q["qclass"], "1" if q["uni"] else "0"]


FLAGBITS = [15, 10, 9, 8, 7, 5, 4]


def pkt_toks(p):
    out = ["PKT", "%x" % p["id"], "%x" % p["opcode"], "%x" % p["rcode"],
           "".join("1" if (p["flags"] >> b) & 1 else "0" for b in FLAGBITS)]
    if p.get("opt") is None:
        out.append("O0")
    else:
        o = p["opt"]
        out += ["O1", "%x" % o["udp"], "%x" % o["version"], "%x" % len(o["codes"])]
        for (c, d) in o["codes"]:
            out += ["%x" % c, hexs(d)]
    out.append("%x" % len(p["qs"]))
    for q in p["qs"]:
        out += q_toks(q)
    for sec in ("ans", "nss", "adds"):
        out.append("%x" % len(p[sec]))
        for r in p[sec]:
            out += rr_toks(r)
    return out


def pkt_text(p):
    return " ".join(pkt_toks(p))


def rdata_type_code(rd):
    return SCHEMA[rd[1]][0] if rd[0] == "T" else rd[1]


def rdata_wire_ref(rd):
    if rd[0] == "T":
        return enc_rdata_ref(rd[1], rd[2])
    if rd[0] == "U":
        return rd[2]
    return b""


def opdisc(v):
    return v if v in (0, 1, 2, 4, 5) else 6


def rcdisc(v):
    return v if v <= 10 or v == 16 else 17


def enc_packet_ref(p):
    """RFC 1035 / RFC 6891 reference serialisation (no compression) of a packet description with named opcode/rcode."""
    rc = p["rcode"]
    w = (p["flags"] & 0x87B0) | ((p["opcode"] & 15) << 11) | (rc & 15)
    has_opt = p.get("opt") is not None
    out = p["id"].to_bytes(2, "big") + w.to_bytes(2, "big")
    out += len(p["qs"]).to_bytes(2, "big") + len(p["ans"]).to_bytes(2, "big") + len(p["nss"]).to_bytes(2, "big")
    out += (len(p["adds"]) + (1 if has_opt else 0)).to_bytes(2, "big")
    for q in p["qs"]:
        out += enc_name(q["name"]) + q["qtype"].to_bytes(2, "big") + (q["qclass"] | (0x8000 if q["uni"] else 0)).to_bytes(2, "big")

    def enc_rr(r):
        rd = rdata_wire_ref(r["rdata"])
        if r["rdata"][0] == "T" and r["rdata"][1] == "OPT":
            cls = r["rdata"][2][0][1]
        else:
            cls = r["class"] | (0x8000 if r["cf"] else 0)
        return (enc_name(r["name"]) + rdata_type_code(r["rdata"]).to_bytes(2, "big") + cls.to_bytes(2, "big")
                + r["ttl"].to_bytes(4, "big") + len(rd).to_bytes(2, "big") + rd)
    for r in p["ans"]:
        out += enc_rr(r)
    for r in p["nss"]:
        out += enc_rr(r)
    if has_opt:
        o = p["opt"]
        rd = b"".join(c.to_bytes(2, "big") + len(d).to_bytes(2, "big") + d for (c, d) in o["codes"])
        ttl = ((rc >> 4) & 0xFF) << 24 | (o["version"] & 0xFF) << 16
        out += b"\x00" + (41).to_bytes(2, "big") + o["udp"].to_bytes(2, "big") + ttl.to_bytes(4, "big") + len(rd).to_bytes(2, "big") + rd
    for r in p["adds"]:
        out += enc_rr(r)
    return out


# ------------------------------------------------------------------ RFC 1035 4.1.4 name decoder (oracle for C06)
def rfc_decode_name(d, p):
    """Returns (labels, end) or None. Follows pointers; only pointers to strictly earlier offsets are accepted
    (RFC 1035: 'a pointer to a prior occurrence'); expansion limited to 255 octets."""
    labels, end, total, visited = [], None, 0, set()
    if p >= len(d):
        return None
    while True:
        if p >= len(d) or p in visited:
            return None
        visited.add(p)
        b = d[p]
        if b == 0:
            if end is None:
                end = p + 1
            total += 1
            return (labels, end) if total <= 255 else None
        if b & 0xC0 == 0xC0:
            if p + 1 >= len(d):
                return None
            tgt = ((b & 0x3F) << 8) | d[p + 1]
            if end is None:
                end = p + 2
            if tgt >= p:
                return None
            p = tgt
            continue
        if b & 0xC0:
            return None
        if p + 1 + b > len(d):
            return None
        labels.append(d[p + 1:p + 1 + b])
        total += 1 + b
        if total > 254:
            return None
        p += 1 + b


# ------------------------------------------------------------------ envelope walker (oracle for C04 / C05)
def walk(d):
    """Independent RFC 1035 envelope reader: header counts, questions, fixed 10-byte RR header, RDLENGTH skip.
    Returns dict(header words, qs, rrs (by section), end) or None when a count or length runs past the end."""
    if len(d) < 12:
        return None
    idv, w, qd, an, ns, ar = (int.from_bytes(d[i:i + 2], "big") for i in range(0, 12, 2))
    p = 12
    qs, secs = [], []
    for _ in range(qd):
        r = rfc_decode_name(d, p)
        if r is None:
            return None
        labels, p = r
        if p + 4 > len(d):
            return None
        qs.append({"name": labels, "qtype": int.from_bytes(d[p:p + 2], "big"), "qclass": int.from_bytes(d[p + 2:p + 4], "big")})
        p += 4
    for cnt in (an, ns, ar):
        sec = []
        for _ in range(cnt):
            start = p
            r = rfc_decode_name(d, p)
            if r is None:
                return None
            labels, p = r
            if p + 10 > len(d):
                return None
            t = int.from_bytes(d[p:p + 2], "big")
            c = int.from_bytes(d[p + 2:p + 4], "big")
            ttl = int.from_bytes(d[p + 4:p + 8], "big")
            rdlen = int.from_bytes(d[p + 8:p + 10], "big")
            p += 10
            if p + rdlen > len(d):
                return None
            sec.append({"name": labels, "type": t, "class": c, "ttl": ttl, "rdlen": rdlen, "rdata_at": p,
                        "rdata": d[p:p + rdlen], "start": start})
            p += rdlen
        secs.append(sec)
    return {"id": idv, "word": w, "counts": (qd, an, ns, ar), "qs": qs, "secs": secs, "end": p}


# ------------------------------------------------------------------ text -> python value (canonical dumps of the drivers)
class TokReader:
    def __init__(self, toks):
        self.t, self.p = toks, 0

    def next(self):
        v = self.t[self.p]
        self.p += 1
        return v

    def num(self):
        return int(self.next(), 16)

    def bytes(self):
        v = self.next()
        return b"" if v == "-" else bytes.fromhex(v)

    def name(self):
        return [self.bytes() for _ in range(self.num())]

    def items(self):
        out = []
        for _ in range(self.num()):
            t = self.num()
            out.append((t, self.bytes()))
        return out

    def fval(self):
        k = self.next()
        if k == "I":
            return ("I", self.num())
        if k == "N":
            return ("N", self.name())
        if k == "B":
            return ("B", self.bytes())
        if k == "L":
            return ("L", self.items())
        raise ValueError(k)

    def rdata(self):
        k = self.next()
        if k == "T":
            code = self.num()
            n = self.num()
            return ("T", CODE2NAME.get(code, code), [self.fval() for _ in range(n)])
        if k == "U":
            c = self.num()
            return ("U", c, self.bytes())
        return ("E", self.num())

    def rr(self):
        name = self.name()
        c = self.num()
        ttl = self.num()
        cf = self.next() == "1"
        return {"name": name, "class": c, "ttl": ttl, "cf": cf, "rdata": self.rdata()}

    def question(self):
        name = self.name()
        qt = self.num()
        qc = self.num()
        return {"name": name, "qtype": qt, "qclass": qc, "uni": self.next() == "1"}

    def packet(self):
        assert self.next() == "PKT"
        p = {"id": self.num(), "opcode": self.num(), "rcode": self.num()}
        fl = self.next()
        p["flags"] = sum(1 << b for k, b in enumerate(FLAGBITS) if fl[k] == "1")
        o = self.next()
        if o == "O0":
            p["opt"] = None
        else:
            p["opt"] = {"udp": self.num(), "version": self.num(), "codes": self.items()}
        p["qs"] = [self.question() for _ in range(self.num())]
        for sec in ("ans", "nss", "adds"):
            p[sec] = [self.rr() for _ in range(self.num())]
        return p


def parse_pkt_text(s):
    r = TokReader(s.split())
    p = r.packet()
    assert r.p == len(r.t)
    return p


# ------------------------------------------------------------------ generators
LABEL_POOL = [b"a", b"b", b"www", b"example", b"com", b"local", b"_tcp", b"_udp", b"_srv", b"foo", b"bar", b"foobar",
              b"x" * 63, b"\x00", b"\xff\xfe", b"a.b", b"\\", b"caf\xc3\xa9", b"\xc0", b"A", b"Example"]


# names that RFCs give a meaning to (special-use domains, reverse-mapping trees of the link-local ranges, DNS-SD names): code that
# treats ONE such name specially is only met by spelling it
WELL_KNOWN_TEXTS = ["local", "localhost", "invalid", "test", "example", "onion", "home.arpa", "arpa", "in-addr.arpa", "ip6.arpa",
                    "254.169.in-addr.arpa", "169.in-addr.arpa", "10.in-addr.arpa", "8.e.f.ip6.arpa", "9.e.f.ip6.arpa", "a.e.f.ip6.arpa",
                    "b.e.f.ip6.arpa", "e.f.ip6.arpa", "f.ip6.arpa", "0.8.e.f.ip6.arpa", "1.0.254.169.in-addr.arpa", "c.e.f.ip6.arpa",
                    "_services._dns-sd._udp.local", "b._dns-sd._udp.local", "db._dns-sd._udp.local", "lb._dns-sd._udp.local",
                    "_tcp.local", "_udp.local", "_sub._http._tcp.local", "root-servers.net", "a.root-servers.net", "resolver.arpa",
                    "ipv4only.arpa", "IN-ADDR.ARPA", "8.E.F.IP6.ARPA", "254.169.IN-ADDR.arpa"]
WELL_KNOWN_NAMES = [[l.encode() for l in t.split(".")] for t in WELL_KNOWN_TEXTS]


def gen_label(rng):
    r = rng.below(10)
    if r < 7:
        return rng.choice(LABEL_POOL)
    if r < 9:
        return rng.bytes(1 + rng.below(8))
    return rng.bytes(rng.choice([1, 62, 63]))


def gen_name(rng, shared=None, maxlabels=5):
    """names with heavy suffix sharing: most names extend one of the `shared` suffixes"""
    if shared and rng.chance(1, 10):
        # the same bytes under another division into labels: two neighbouring labels of a name already in use merged into one
        # around a separator byte (NUL, '.', the length octet the wire form would have there, space), in front of the same tail.
        # Whatever a compression table or a store keys names by, these are different names.
        cands = [n for n in shared if len(n) >= 2 and len(n[0]) + len(n[1]) + 1 <= 63]
        if cands:
            base = list(rng.choice(cands))
            sep = rng.choice([b"\x00", b".", bytes([len(base[1])]), b" ", b""])
            name = [gen_label(rng) for _ in range(rng.below(2))] + [base[0] + sep + base[1]] + base[2:]
            while sum(len(l) + 1 for l in name) + 1 > 255:
                name = name[1:]
            return name
    if rng.chance(1, 12):
        name = [gen_label(rng) for _ in range(rng.below(2))] + list(rng.choice(WELL_KNOWN_NAMES))
        if shared is not None and rng.chance(1, 2) and len(shared) < 12:
            shared.append(name)
        return name
    if shared and rng.chance(3, 4):
        base = list(rng.choice(shared))
        extra = [gen_label(rng) for _ in range(rng.below(3))]
        name = extra + base
    else:
        name = [gen_label(rng) for _ in range(rng.below(maxlabels + 1))]
    while sum(len(l) + 1 for l in name) + 1 > 255:
        name = name[1:]
    if shared is not None and name and rng.chance(1, 2) and len(shared) < 12:
        shared.append(name)
    return name


def gen_int(rng, nbytes):
    top = (1 << (8 * nbytes)) - 1
    r = rng.below(8)
    if r == 0:
        return 0
    if r == 1:
        return top
    if r == 2:
        return 1
    if r == 3:
        return top - 1
    if r == 4:
        return 1 << (8 * nbytes - 1)
    return int.from_bytes(rng.bytes(nbytes), "big")


def gen_bytes(rng, maxlen=40):
    r = rng.below(10)
    if r == 0:
        return b""
    if r == 1:
        return rng.bytes(1)
    return rng.bytes(rng.below(maxlen + 1))


def gen_cstr(rng):
    r = rng.below(12)
    if r == 0:
        return b""
    if r == 1:
        return rng.bytes(255)
    if r == 2:
        return b"key=value"
    if r == 3:
        return b"\xff\x00="
    return rng.bytes(rng.below(20))


def gen_items(rng, kind):
    tw, lw, ordered = ITEM[kind]
    n = rng.choice([0, 1, 1, 2, 3, 5])
    if kind == "cstr":
        n = rng.choice([1, 1, 2, 3, 6])  # TXT with no strings is a separate (wf-excluded) case
    tags = []
    if ordered:
        pool = list(range(0, 12)) + [255] if tw == 1 else list(range(0, 10)) + [255, 256, 65535, 32768]
        rng.shuffle(pool)
        tags = sorted(pool[:n])
    elif kind == "opt":
        # the assigned EDNS option codes (0..20 and a few above), the experimental range, and boundary integers
        tags = [rng.choice(list(range(0, 21)) + [26946, 65001, 65534, 65535]) if rng.chance(3, 4) else gen_int(rng, tw) for _ in range(n)]
    else:
        tags = [gen_int(rng, tw) if tw else 0 for _ in range(n)]
    out = []
    for t in tags:
        if kind == "win":
            b = rng.bytes(1 + rng.below(32)) if rng.chance(9, 10) else b""
            if b and rng.chance(1, 4):
                # a bitmap that is not in canonical form: trailing zero octets (accepted by parsers, legal to build)
                z = 1 + rng.below(3)
                b = (b[:max(1, len(b) - z)] + b"\x00" * z)[:32]
        elif kind == "cstr":
            b = gen_cstr(rng)
        else:
            b = gen_bytes(rng, 24)
        out.append((t, b))
    return out


def gen_field(rng, kind, shared):
    if kind == "ver0":
        return ("I", 0)
    if kind == "cstr":
        return ("B", gen_cstr(rng))
    if kind == "rest":
        return ("B", gen_bytes(rng))
    if kind[0] == "be":
        return ("I", gen_int(rng, kind[1]))
    if kind[0] == "name":
        return ("N", gen_name(rng, shared))
    return ("L", gen_items(rng, kind[1]))


TYPED = [t for t in SCHEMA if t != "OPT"]


def gen_typed_vals(rng, tname, shared):
    if tname == "IPSECKEY":
        gw = rng.below(4)
        sch = ipseckey_schema(gw)
        vals = [gen_field(rng, k, shared) for k in sch]
        vals[1] = ("I", gw)
        return vals
    if tname == "OPT":
        return [("I", gen_int(rng, 2)), ("I", gen_int(rng, 1)), ("L", gen_items(rng, "opt"))]
    return [gen_field(rng, k, shared) for k in SCHEMA[tname][1]]


def sweep_values(nbytes, tier):
    """every value of a one-byte field; for wider fields the registry range (0..1023 quick, 0..4095 thorough), the private-use
    top of the range, and every power of two with its neighbours"""
    top = (1 << (8 * nbytes)) - 1
    if nbytes == 1:
        return list(range(256))
    low = 1024 if tier == "quick" else 4096
    vals = set(range(low)) | set(range(top - 255, top + 1))
    for k in range(8 * nbytes):
        vals |= {(1 << k) - 1, 1 << k, (1 << k) + 1}
    return sorted(v for v in vals if 0 <= v <= top)


def field_sweeps(tier):
    """(type name, values) with one integer field at a time swept over sweep_values and everything else minimal (zero integers,
    a one-label name, empty strings and item lists), once with every trailing blob empty and once holding a few bytes: code that
    gives ONE value of a registry-like field a special reading (a certificate type, an algorithm, a covered type, a scheme)
    is met with and without data behind it"""
    out = []
    for tname in TYPED:
        schemas = [SCHEMA[tname][1]] if tname != "IPSECKEY" else [ipseckey_schema(g) for g in range(4)]
        for gi, sch in enumerate(schemas):
            def base(rest):
                vals = []
                for k in sch:
                    if k == "ver0":
                        vals.append(("I", 0))
                    elif k == "cstr":
                        vals.append(("B", b""))
                    elif k == "rest":
                        vals.append(("B", rest))
                    elif k[0] == "be":
                        vals.append(("I", 0))
                    elif k[0] == "name":
                        vals.append(("N", [b"a"]))
                    else:
                        vals.append(("L", []))
                if tname == "IPSECKEY":
                    vals[1] = ("I", gi)
                return vals
            rests = [b"", b"\x01\x02\x03"] if "rest" in sch else [b""]
            for i, k in enumerate(sch):
                if not (isinstance(k, tuple) and k[0] == "be" and k[1] <= 2):
                    continue
                if tname == "IPSECKEY" and i == 1:
                    continue
                for rest in rests:
                    for v in sweep_values(k[1], tier):
                        vals = base(rest)
                        vals[i] = ("I", v)
                        out.append((tname, vals))
    return out


def gen_rdata(rng, shared, tname=None):
    r = rng.below(20)
    if tname is None and r == 0:
        return ("U", rng.choice([0, 10, 19, 99, 250, 251, 252, 253, 254, 255, 256, 4242, 65280, 65535]), rng.bytes(1 + rng.below(30)))
    if tname is None and r == 1:
        code = rng.choice(sorted(CODE2NAME) + [0, 10, 99, 251, 252, 253, 254, 255, 256, 65535])
        if code == 41:
            code = 1
        return ("E", code)
    if tname is None:
        tname = rng.choice(TYPED)
    return ("T", tname, gen_typed_vals(rng, tname, shared))


def gen_rr(rng, shared, tname=None):
    return {"name": gen_name(rng, shared), "class": rng.choice(CLASSES), "ttl": gen_int(rng, 4), "cf": rng.chance(1, 4),
            "rdata": gen_rdata(rng, shared, tname)}


QTYPES = sorted(c for c in CODE2NAME) + [10, 251, 252, 253, 254, 255]


def gen_question(rng, shared):
    return {"name": gen_name(rng, shared), "qtype": rng.choice(QTYPES), "qclass": rng.choice(CLASSES + [255]), "uni": rng.chance(1, 4)}


NAMED_OPCODES = [0, 1, 2, 4, 5]
NAMED_RCODES = list(range(11)) + [16]


def gen_packet(rng, maxrr=4, types=None, with_opt=None):
    shared = [[b"example", b"com"], [b"local"], [b"_tcp", b"local"]]
    has_opt = rng.chance(1, 3) if with_opt is None else with_opt
    rcode = rng.choice(NAMED_RCODES)
    if rcode > 15 and not has_opt:
        rcode = rng.choice(list(range(11)))
    p = {"id": gen_int(rng, 2), "opcode": rng.choice(NAMED_OPCODES), "rcode": rcode,
         "flags": sum(1 << b for b in FLAGBITS if rng.chance(1, 3)),
         "opt": None, "qs": [], "ans": [], "nss": [], "adds": []}
    if has_opt:
        p["opt"] = {"udp": gen_int(rng, 2), "version": gen_int(rng, 1), "codes": gen_items(rng, "opt")}
    for _ in range(rng.below(3)):
        p["qs"].append(gen_question(rng, shared))
    for sec in ("ans", "nss", "adds"):
        for _ in range(rng.below(maxrr + 1)):
            p[sec].append(gen_rr(rng, shared, rng.choice(types) if types else None))
    return p


# ------------------------------------------------------------------ marking encoder (for malformed-input generation)
class Enc:
    """Reference encoder that records where every length-like field sits and can use arbitrary (non-canonical)
    compression: a pointer to any earlier occurrence of the remaining suffix, wherever it was written."""

    def __init__(self, rng=None, compress=0):
        self.b = bytearray()
        self.marks = []     # (pos, width, kind)
        self.sfx = {}       # tuple(labels) -> offset of an earlier occurrence
        self.roots = []     # offsets of earlier name terminators (occurrences of the root name)
        self.rng = rng
        self.compress = compress  # probability (out of 4) of using an available pointer

    def name(self, labels, allow_ptr=True):
        labels = list(labels)
        i = 0
        while i < len(labels):
            key = tuple(labels[i:])
            if allow_ptr and self.compress and key in self.sfx and self.sfx[key] <= 0x3FFF and self.rng.below(4) < self.compress:
                off = self.sfx[key]
                self.marks.append((len(self.b), 2, "ptr"))
                self.b += bytes([0xC0 | (off >> 8), off & 0xFF])
                return
            if key not in self.sfx:
                self.sfx[key] = len(self.b)
            self.marks.append((len(self.b), 1, "label"))
            self.b += bytes([len(labels[i])]) + labels[i]
            i += 1
        # the root name too has earlier occurrences - every terminator written so far: a (non-canonical, legal) encoder may
        # point at one instead of writing the zero octet, for the tail of a name as for a root owner such as the OPT record's
        if allow_ptr and self.compress and self.roots and self.roots[0] <= 0x3FFF and self.rng.below(16) < self.compress:
            off = self.rng.choice([r for r in self.roots if r <= 0x3FFF])
            self.marks.append((len(self.b), 2, "ptr"))
            self.b += bytes([0xC0 | (off >> 8), off & 0xFF])
            return
        self.roots.append(len(self.b))
        self.b.append(0)

    def field(self, kind, v):
        if kind == "cstr":
            self.marks.append((len(self.b), 1, "cstr"))
            self.b += bytes([len(v[1])]) + v[1]
        elif isinstance(kind, tuple) and kind[0] == "name":
            self.name(v[1])
        elif isinstance(kind, tuple) and kind[0] == "items":
            tw, lw, _ = ITEM[kind[1]]
            for (t, bts) in v[1]:
                self.b += t.to_bytes(tw, "big")
                self.marks.append((len(self.b), lw, "itemlen"))
                self.b += len(bts).to_bytes(lw, "big") + bts
        else:
            self.b += enc_field(kind, v)

    def rr(self, r):
        self.name(r["name"])
        rd = r["rdata"]
        self.b += rdata_type_code(rd).to_bytes(2, "big")
        if rd[0] == "T" and rd[1] == "OPT":
            self.b += rd[2][0][1].to_bytes(2, "big")
        else:
            self.b += (r["class"] | (0x8000 if r["cf"] else 0)).to_bytes(2, "big")
        self.b += r["ttl"].to_bytes(4, "big")
        lp = len(self.b)
        self.marks.append((lp, 2, "rdlen"))
        self.b += b"\x00\x00"
        if rd[0] == "T":
            if rd[1] == "OPT":
                self.field(("items", "opt"), rd[2][2])
            else:
                for k, v in zip(schema_for(rd[1], rd[2]), rd[2]):
                    self.field(k, v)
        elif rd[0] == "U":
            self.b += rd[2]
        n = len(self.b) - lp - 2
        self.b[lp:lp + 2] = n.to_bytes(2, "big")

    def packet(self, p):
        rc = p["rcode"]
        w = (p["flags"] & 0x87B0) | ((p["opcode"] & 15) << 11) | (rc & 15)
        has_opt = p.get("opt") is not None
        self.b += p["id"].to_bytes(2, "big") + w.to_bytes(2, "big")
        for k, n in enumerate((len(p["qs"]), len(p["ans"]), len(p["nss"]), len(p["adds"]) + (1 if has_opt else 0))):
            self.marks.append((len(self.b), 2, "count"))
            self.b += n.to_bytes(2, "big")
        for q in p["qs"]:
            self.name(q["name"])
            self.b += q["qtype"].to_bytes(2, "big") + (q["qclass"] | (0x8000 if q["uni"] else 0)).to_bytes(2, "big")
        for r in p["ans"]:
            self.rr(r)
        for r in p["nss"]:
            self.rr(r)
        adds = list(p["adds"])
        if has_opt:
            o = p["opt"]
            ttl = ((rc >> 4) & 0xFF) << 24 | (o["version"] & 0xFF) << 16
            optrr = {"name": [], "class": 1, "ttl": ttl, "cf": False,
                     "rdata": ("T", "OPT", [("I", o["udp"]), ("I", o["version"]), ("L", o["codes"])])}
            pos = p.get("opt_pos", 0)
            adds.insert(min(pos, len(adds)), optrr)
        for r in adds:
            self.rr(r)
        return bytes(self.b)


def encode_marked(p, rng=None, compress=0):
    e = Enc(rng, compress)
    b = e.packet(p)
    return b, e.marks


def malformations(b, marks, rng, budget=None):
    """systematic malformations of a valid encoding: every truncation point, +-1 on every length-like field"""
    out = []
    cuts = list(range(len(b)))
    if budget is not None and len(cuts) > budget:
        rng.shuffle(cuts)
        cuts = sorted(cuts[:budget])
    for c in cuts:
        out.append(b[:c])
    for (pos, w, kind) in marks:
        v = int.from_bytes(b[pos:pos + w], "big")
        if kind == "rdlen":
            # every shorter RDLENGTH with the RDATA cut accordingly: the typed parser sees a short but framed RDATA
            ns = list(range(v))
            if len(ns) > 48:
                rng.shuffle(ns)
                ns = sorted(ns[:40]) + list(range(v - 8, v))
            for n in ns:
                out.append(b[:pos] + n.to_bytes(2, "big") + b[pos + 2:pos + 2 + n] + b[pos + 2 + v:])
        for d in (1, -1):
            nv = (v + d) % (1 << (8 * w))
            out.append(b[:pos] + nv.to_bytes(w, "big") + b[pos + w:])
    return out
